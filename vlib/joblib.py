"""The whole `redact` command (Model/Job.v) against the unmodified CLI on small worlds: a scratch directory with input files (plain, gzip
by suffix in several spellings, missing, a directory), output paths (absent, stale file, directory, parent missing, the SAME path as the
input or as the key file), key-file states, stdin piped or not, a few flag sets and argument combinations that the validation rejects.
After the run the directory is read back (content and mode of every path of interest), and exit status, file system and - when no
--outputFile is given - standard output are compared with what the extracted model computes for the same world."""
import os, random, subprocess, tempfile, base64, stat, shutil
from vlib.run import *
from vlib import streamlib, streams

KEY_A = bytes((i * 11 + 5) % 256 for i in range(64))

def _state(path):
    """A (absent, creatable) | P (absent, parent missing) | D | F:<mode>:<content>"""
    try:
        st = os.lstat(path)
    except FileNotFoundError:
        return ('A',) if os.path.isdir(os.path.dirname(path) or '.') else ('P',)
    except NotADirectoryError:
        return ('P',)
    if stat.S_ISDIR(st.st_mode): return ('D',)
    return ('F', st.st_mode & 0o777, open(path, 'rb').read())

def _enc_state(s):
    if s[0] == 'F': return 'F:%d:%s' % (s[1], hx(s[2]))
    return s[0]

def _hp(p):
    return '=' if p == '' else hx(p)

def scenarios(rng, pool, n):
    junk = [b'', b'not json', b'{"a":1}', b'[1]', b'{"broken":']
    out = []
    # argument combinations the validation rejects (never reach the network)
    rejects = [['--atlasLogStartDate', '5'], ['--atlasProjectId', 'p1'], ['--atlasClusterName', 'c1'], ['--atlasProjectId', 'p1', '--atlasClusterName', 'c1'],
               ['-z', '^a$', '-f', 'mydb'], ['--atlasPublicKey', 'pk'], ['--atlasLogStartDate', '5', '--atlasLogEndDate', '9']]
    for i in range(n):
        lines = [rng.choice(pool) if rng.random() < 0.7 else rng.choice(junk) for _ in range(rng.randint(0, 5))]
        sep = b'\r\n' if rng.random() < 0.15 else b'\n'
        data = sep.join(lines) + (sep if lines and rng.random() < 0.8 else b'')
        sc = {'files': {}, 'dirs': [], 'stdin': None, 'args_extra': [], 'data': data, 'encrypt': False, 'keyfile': None, 'cfg': rng.choice([Cfg(), Cfg(nums=True, bools=True), Cfg(nss=True, ips=True, repl='ZZ')])}
        chan = rng.choice(['plain', 'plain', 'gz', 'gz', 'GZ', 'gzname-plain', 'gz-cut-header', 'notgz', 'stdin', 'stdin', 'none', 'missing', 'dir', 'dotgz', 'file+stdin', 'emptyarg', 'toolong', 'toolong-stdin'])
        inp = None
        if chan == 'plain': inp = 'in.log'; sc['files'][inp] = (data, 0o644)
        elif chan == 'gz': inp = 'in.log.gz'; sc['files'][inp] = (streamlib.gz_bytes(data, members=rng.choice([1, 2])), 0o644)
        elif chan == 'GZ': inp = rng.choice(['IN.LOG.GZ', 'in.Gz', 'x.gZ']); sc['files'][inp] = (streamlib.gz_bytes(data), 0o600)
        elif chan == 'dotgz': inp = '.gz'; sc['files'][inp] = (streamlib.gz_bytes(data), 0o644)
        elif chan == 'gzname-plain': inp = 'plain.gz'; sc['files'][inp] = (data or b'x\n', 0o644)
        elif chan == 'gz-cut-header': inp = 'cut.gz'; sc['files'][inp] = (streamlib.gz_bytes(data)[:rng.randint(0, 9)], 0o644)
        elif chan == 'notgz': inp = rng.choice(['in.gz.txt', 'in.gzip', 'gz', 'in.gz.']); sc['files'][inp] = (data, 0o644)
        elif chan == 'stdin': sc['stdin'] = data
        elif chan in ('toolong', 'toolong-stdin'):      # lines, then one over the reader's limit, then more lines: the run fails part-way
            lim = streams.line_limit() or 70000
            data = data + b'y' * (lim + 50) + b'\n' + data; sc['data'] = data
            if chan == 'toolong': inp = 'long.log'; sc['files'][inp] = (data, 0o644)
            else: sc['stdin'] = data
        elif chan == 'missing': inp = 'nothere.log'
        elif chan == 'dir': inp = 'adir'; sc['dirs'].append('adir')
        elif chan == 'file+stdin': inp = 'in.log'; sc['files'][inp] = (data, 0o644); sc['stdin'] = data
        elif chan == 'emptyarg': inp = ''
        sc['chan'] = chan; sc['input'] = inp
        outk = rng.choice(['none', 'none', 'new', 'new', 'stale', 'dir', 'parent-missing', 'same-as-input', 'empty'])
        outp = None
        if outk == 'new': outp = 'out.txt'
        elif outk == 'stale': outp = 'old.txt'; sc['files'][outp] = (b'{"stale":"content of an earlier, longer run"}\n' * 50, 0o600)
        elif outk == 'dir': outp = 'odir'; sc['dirs'].append('odir')
        elif outk == 'parent-missing': outp = 'nodir/out.txt'
        elif outk == 'same-as-input' and inp: outp = inp
        elif outk == 'empty': outp = ''
        sc['outk'] = outk; sc['out'] = outp
        if rng.random() < 0.4:
            sc['encrypt'] = True
            ks = rng.choice(['absent', 'valid', 'valid', 'valid-nl', 'empty', 'short', 'garbage', 'dir', 'parent-missing', 'same-as-out', 'empty-path'])
            kf = 'k.key'
            if ks == 'valid': sc['files'][kf] = (base64.b64encode(KEY_A), 0o640)
            elif ks == 'valid-nl': sc['files'][kf] = (base64.b64encode(KEY_A) + b'\n', 0o600)
            elif ks == 'empty': sc['files'][kf] = (b'', 0o600)
            elif ks == 'short': sc['files'][kf] = (base64.b64encode(KEY_A[:63]), 0o600)
            elif ks == 'garbage': sc['files'][kf] = (b'not base64 at all!', 0o600)
            elif ks == 'dir': kf = 'kdir'; sc['dirs'].append('kdir')
            elif ks == 'parent-missing': kf = 'nokdir/k.key'
            elif ks == 'same-as-out' and outp: kf = outp
            elif ks == 'empty-path': kf = ''
            sc['kstate'] = ks; sc['keyfile'] = kf
        if rng.random() < 0.12: sc['args_extra'] = rng.choice(rejects)
        out.append(sc)
    return out

def cli_args(sc):
    a = ['redact'] + sc['cfg'].cli_flags()
    if sc['input'] is not None: a.append(sc['input'])
    if sc['out'] is not None: a += ['-o', sc['out']]
    if sc['encrypt']: a += ['-y', '-q', sc['keyfile']]
    return a + sc['args_extra']

def run_cli(sc):
    d = tempfile.mkdtemp(prefix='job_')
    try:
        for dn in sc['dirs']: os.mkdir(os.path.join(d, dn))
        for name, (content, mode) in sc['files'].items():
            p = os.path.join(d, name); open(p, 'wb').write(content); os.chmod(p, mode)
        env = {k: v for k, v in os.environ.items() if not k.startswith('ATLAS_')}
        p = subprocess.run([CLI] + cli_args(sc), cwd=d, input=sc['stdin'], stdin=(subprocess.DEVNULL if sc['stdin'] is None else None),
                           capture_output=True, env=env, timeout=120, preexec_fn=lambda: os.umask(0o022))
        paths = interest(sc)
        snap = {q: _state(os.path.join(d, q)) for q in paths if q != ''}
        listing = sorted(os.path.relpath(os.path.join(r, f), d) for r, _, fs in os.walk(d) for f in fs)
        return p.returncode, p.stdout, p.stderr, snap, listing
    finally:
        shutil.rmtree(d, ignore_errors=True)

def interest(sc):
    s = set(sc['files']) | set(sc['dirs'])
    for q in (sc['input'], sc['out'], sc['keyfile']):
        if q: s.add(q)
    return sorted(s)

def model_request(sc, created_key):
    """the JOB request for the driver; created_key = the 64 bytes the CLI's run generated (read back from the key file), or 64 zero bytes"""
    fsl = []
    for dn in sc['dirs']: fsl.append('%s:D' % _hp(dn))
    for name, (content, mode) in sc['files'].items(): fsl.append('%s:F:%d:%s' % (_hp(name), mode, hx(content)))
    for q in interest(sc):
        if q not in sc['files'] and q not in sc['dirs']:
            fsl.append('%s:%s' % (_hp(q), 'P' if os.path.dirname(q) and os.path.dirname(q) not in sc['dirs'] else 'A'))
    gz = ['-:R:-']        # an input truncated to nothing (the output path is the input path) is no gzip stream
    for name, (content, mode) in sc['files'].items():
        if True:      # every file: which names are decompressed is the program's business (the endings are probed), what gunzip makes of the bytes is the table's
            import gzip, io, zlib
            try:
                if len(content) < 18: raise ValueError('shorter than header + trailer')
                dd = gzip.decompress(content); gz.append('%s:E:%s' % (hx(content), hx(dd)))
            except Exception:
                gz.append('%s:R:-' % hx(content))       # damaged before any data: the header is cut, or it is not gzip at all
    ex = sc['args_extra']
    def val(flag):
        return ex[ex.index(flag) + 1] if flag in ex else ''
    bits = ('1' if '-z' in ex else '0') + ('1' if '-f' in ex else '0') + '0'
    f = '!' if sc['input'] is None else _hp(sc['input'])
    return 'JOB %s %s %d %s %s %s %s %s %s %s %s %s %s %s %s' % (
        f, hx(sc['out'] or ''), 1 if sc['encrypt'] else 0, hx(sc['keyfile'] or ''), bits,
        hx(val('--atlasProjectId')), hx(val('--atlasClusterName')), hx(val('--atlasPublicKey')), hx(val('--atlasPrivateKey')),
        val('--atlasLogStartDate') or '0', val('--atlasLogEndDate') or '0',
        ','.join(fsl) or '-', '!' if sc['stdin'] is None else hx(sc['stdin']), hx(created_key), ','.join(gz) or '-')

def correspondence(chk, rng, n, pool, tag='job'):
    scs = scenarios(rng, pool, n)
    results = []
    for sc in scs:
        rc, so, se, snap, listing = run_cli(sc)
        # the key the run generated, if it generated one
        key = bytes(64)
        kf = sc['keyfile']
        if sc['encrypt'] and kf and kf not in sc['files'] and kf in snap and snap[kf][0] == 'F':
            try:
                k = base64.b64decode(snap[kf][2]);  key = k if len(k) == 64 else key
            except Exception: pass
        elif sc['encrypt'] and kf in sc['files']:
            try:
                k = base64.b64decode(sc['files'][kf][0]); key = k if len(k) == 64 else key
            except Exception: pass
        results.append((sc, rc, so, se, snap, listing, key))
    # model side: one driver process; every request preceded by its configuration (with the Encrypt table under the run's key)
    reqs = []
    for sc, rc, so, se, snap, listing, key in results:
        cfg = sc['cfg']
        lines = sc['data'].replace(b'\r\n', b'\n').split(b'\n')
        if sc['encrypt']:
            c2 = Cfg(repl=cfg.repl, nums=cfg.nums, bools=cfg.bools, ips=cfg.ips, nss=cfg.nss, encrypt=True, key=key)
            reqs.append(c2.driver_line(None, enc_table(key, lines)))
        else:
            reqs.append(cfg.driver_line())
        reqs.append(model_request(sc, key))
    dr = run_driver(reqs)[1::2]
    for (sc, rc, so, se, snap, listing, key), d in zip(results, dr):
        chk.count(); chk.traces += 1
        chk.dist('job_chan_' + sc['chan']); chk.dist('job_out_' + sc['outk'])
        if sc['encrypt']: chk.dist('job_key_' + sc['kstate'])
        chk.nontriv((tag, sc['chan'], sc['outk'], sc.get('kstate', '-'), bool(sc['args_extra'])))
        case = {'argv': cli_args(sc), 'files': {k: [oct(m), c[:200].decode('utf-8', 'replace')] for k, (c, m) in sc['files'].items()}, 'dirs': sc['dirs'],
                'stdin': None if sc['stdin'] is None else sc['stdin'][:300].decode('utf-8', 'replace'), 'rc': rc, 'stderr': se[-300:].decode('utf-8', 'replace')}
        if 'TABLEMISS' in d:
            chk.dist('job_tablemiss'); chk.notes.append('job table miss: ' + ' '.join(cli_args(sc)))
            continue
        parts = d.split()
        mstatus = int(parts[0]); mfs = dict(x.split(':', 1) for x in parts[1].split(',')) if parts[1] != '-' else {}
        mstdout = unhx(parts[2])
        # modes: a file that was there before must keep its mode; for a file the run creates the properties fix nothing for the output file
        # and "owner-only" for the key file - compared as such, not as one particular number
        created = {_hp(q) for q in snap if q not in sc['files']}
        def norm(qh, st):
            if st in ('A', 'P'): return 'A'
            if not st.startswith('F:') or qh not in created: return st
            _, mode, content = st.split(':', 2)
            if sc['keyfile'] and qh == _hp(sc['keyfile']) and sc['keyfile'] != sc['out']:
                return 'F:%s:%s' % ('owner-only' if ((int(mode) & 0o077) == 0 and (int(mode) & 0o400)) else mode, content)
            return 'F:*:' + content
        impl = {'status': 0 if rc == 0 else 1, 'fs': {_hp(q): norm(_hp(q), _enc_state(s)) for q, s in snap.items()}}
        model = {'status': mstatus, 'fs': {q: norm(q, s) for q, s in mfs.items() if q != '=' and q != '-'}}
        if not sc['out']: impl['stdout'] = so; model['stdout'] = mstdout
        if streamlib.crashed(rc, se):
            chk.violate('the command ended with an exit status other than 0 or 1 (a crash)', dict(case), tags=['job', 'crash'])
        if impl != model:
            diff = {k: (str(impl.get(k))[:400], str(model.get(k))[:400]) for k in set(impl) | set(model) if impl.get(k) != model.get(k)}
            chk.disagree('whole-run result (exit status, file system, standard output) of the redact command', case, str(diff)[:900], '')
    chk.streams.append({'stream': 'redact command end to end: CLI in a scratch directory vs Model/Job.v (channels x output paths x key states x rejected argument sets)', 'cases': len(results)})
    return results
