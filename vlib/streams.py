"""Shared input streams and configuration presets for the walker properties."""
import json, os, random
from vlib import gen
from vlib.run import Cfg, run_lines, BUILD, REPO

KEY = bytes((i * 7 + 3) % 256 for i in range(64))

def vocab():
    v = gen.vocab_from_dump(json.load(open(os.path.join(BUILD, 'dump.json'))))
    gen.KEYWORDS = [k for k in v['all'] if k and not k.startswith('$')] or gen.KEYWORDS     # as VALUES these are ordinary literals
    return v

def line_limit():
    """the stream reader's line limit as measured on the compiled program (harness op dump); None when none was found up to 32 MiB"""
    n = json.load(open(os.path.join(BUILD, 'dump.json'))).get('max_token') or 0
    return n if n > 0 else None

def deep_lines():
    return gen.deep_lines()

def crossclass_lines():
    return gen.crossclass_lines()

def long_value_lines():
    return gen.long_value_lines()

def keyword_lines():
    return gen.keyword_value_lines(vocab())

def grammar_lines(rng, n, collide_share=0.0, depth=4):
    v = vocab()
    out = []
    for i in range(n):
        l, info = gen.command_line(rng, v, collide=(rng.random() < collide_share), depth=depth)
        info['kind'] = 'grammar'
        out.append((l, info))
    return out

def anyjson_lines(rng, n):
    v = vocab()
    return [(gen.anyjson_line(rng, v), {'kind': 'anyjson'}) for _ in range(n)]

def wrapper_lines(rng, n):
    v = vocab()
    w = gen.wrapper_lines(v)
    rng.shuffle(w)
    return [(l, {'kind': 'wrapper'}) for l in w[:n]]

def search_lines(rng, n=None):
    w = gen.search_lines(vocab())
    if n is not None and n < len(w):
        rng.shuffle(w); w = w[:n]
    return [(l, {'kind': 'search'}) for l in w]

def degenerate_lines():
    """degenerate shapes (empty document / empty list / lone document / scalar) wherever the tables expect clause lists, pipelines or stages"""
    return [(l, {'kind': 'degenerate'}) for l in gen.degenerate_lines(json.load(open(os.path.join(BUILD, 'dump.json'))))]

def corpus_lines():
    """inputs on which earlier versions of the code (seeded changes, repaired defects) failed a check: they run in every run"""
    p = os.path.join(os.path.dirname(os.path.dirname(os.path.abspath(__file__))), 'corpus', 'lines.txt')
    if not os.path.exists(p): return []
    return [(l.rstrip(b'\n'), {'kind': 'corpus'}) for l in open(p, 'rb') if l.strip()]

def byte_lines(rng, base, n):
    return [(l, {'kind': 'bytes'}) for l in gen.bytes_mutations(rng, base, n)]

REPLS = ['REDACTED', 'X"y\\<é&>', '', 'a b', 'REDACTED_0000', '中', 'n.a. US$ 0.00', '100% %s %d', 'ma\u017fked@corp.example', '\u212aelvin@lab.io', 'x.y', 'a,b', '~']

def value_cfgs(rng, n, with_ns=True):
    """flag combinations without field-name redaction and without the selective mode"""
    out = [Cfg(), Cfg(nums=True, bools=True, ips=True, nss=with_ns)]
    while len(out) < n:
        out.append(Cfg(repl=rng.choice(REPLS), nums=rng.random() < .5, bools=rng.random() < .5, ips=rng.random() < .5,
                       nss=with_ns and rng.random() < .3))
    return out

def pairwise_cfgs(with_eager=False):
    """a small set of configurations in which every PAIR of settings of the flags (numbers, booleans, IPs, namespaces, encryption,
    selective regexp[, field names]) occurs together at least once (greedy covering array, fixed seed)"""
    import itertools
    factors = ['nums', 'bools', 'ips', 'nss', 'encrypt', 're'] + (['eager'] if with_eager else [])
    r = random.Random(20260930)
    need = {(i, a, j, b) for i, j in itertools.combinations(range(len(factors)), 2) for a in (0, 1) for b in (0, 1)}
    rows = []
    while need:
        best, bestc = None, -1
        for _ in range(200):
            row = tuple(r.randint(0, 1) for _ in factors)
            cov = sum(1 for (i, a, j, b) in need if row[i] == a and row[j] == b)
            if cov > bestc: best, bestc = row, cov
        rows.append(best)
        need = {(i, a, j, b) for (i, a, j, b) in need if not (best[i] == a and best[j] == b)}
    out = []
    for k, row in enumerate(rows):
        f = dict(zip(factors, row))
        out.append(Cfg(repl=REPLS[(k + 1) % len(REPLS)], nums=bool(f['nums']), bools=bool(f['bools']), ips=bool(f['ips']), nss=bool(f['nss']),
                       encrypt=bool(f['encrypt']), key=KEY if f['encrypt'] else None, re='^(ssn|name|uf_a)$' if f['re'] else '',
                       eager=(['mydb', 'shop.events'] if f.get('eager') else [])))
    return out

def fixture_lines():
    import glob
    out = []
    for f in sorted(glob.glob(REPO + '/test_fixtures/*.json')):
        try:
            d = json.load(open(f))
        except Exception:
            continue
        if isinstance(d, dict) and 't' in d:
            out.append((json.dumps(d, separators=(',', ':')).encode(), {'kind': 'fixture', 'file': os.path.basename(f)}))
    return out

def note_distribution(chk, cases):
    for _, info in cases:
        chk.dist('kind_' + info['kind'])
        for k, v in info.get('stats', {}).items():
            chk.dist(k, v)
