"""Independent ordered JSON trees for the oracles (Python's json module, member order and
number literals kept). Not derived from the model or the implementation."""
import json, sys
sys.setrecursionlimit(max(sys.getrecursionlimit(), 12000))   # trees nested a few hundred levels deep are walked recursively (several frames per level)

class Num:
    __slots__ = ('lit',)
    def __init__(self, lit): self.lit = lit
    def __eq__(self, o): return isinstance(o, Num) and o.lit == self.lit
    def __hash__(self): return hash(self.lit)
    def __repr__(self): return 'Num(%s)' % self.lit

class Obj(list):
    """list of (key, value) pairs"""
    pass

def _bad_const(c):
    raise ValueError('non-JSON constant ' + c)

def parse(b):
    """bytes -> tree, or None if not valid JSON / not UTF-8"""
    try:
        s = b.decode('utf-8') if isinstance(b, (bytes, bytearray)) else b
        return json.loads(s, object_pairs_hook=Obj, parse_float=Num, parse_int=Num, parse_constant=_bad_const)
    except (ValueError, RecursionError):
        return None

def kind(t):
    if t is None: return 'null'
    if isinstance(t, bool): return 'bool'
    if isinstance(t, Num): return 'num'
    if isinstance(t, str): return 'str'
    if isinstance(t, Obj): return 'obj'
    if isinstance(t, list): return 'arr'
    raise TypeError(type(t))

def shape(t):
    k = kind(t)
    if k == 'obj': return ('obj', tuple((key, shape(v)) for key, v in t))
    if k == 'arr': return ('arr', tuple(shape(v) for v in t))
    return k

def has_dup_keys(t):
    k = kind(t)
    if k == 'obj':
        keys = [key for key, _ in t]
        return len(set(keys)) != len(keys) or any(has_dup_keys(v) for _, v in t)
    if k == 'arr': return any(has_dup_keys(v) for v in t)
    return False

def leaves(t, ipath=(), kpath=()):
    """yield (index_path, key_path, kind, value) for every scalar leaf (and empty containers)"""
    k = kind(t)
    if k == 'obj':
        for i, (key, v) in enumerate(t):
            yield from leaves(v, ipath + (i,), kpath + (key,))
    elif k == 'arr':
        for i, v in enumerate(t):
            yield from leaves(v, ipath + (i,), kpath)
    else:
        yield (ipath, kpath, k, t)

def get(t, key):
    if isinstance(t, Obj):
        for k, v in t:
            if k == key: return v
    return None

def has(t, key):
    return isinstance(t, Obj) and any(k == key for k, _ in t)

def dumps(t):
    k = kind(t)
    if k == 'obj': return '{' + ','.join(json.dumps(key, ensure_ascii=False) + ':' + dumps(v) for key, v in t) + '}'
    if k == 'arr': return '[' + ','.join(dumps(v) for v in t) + ']'
    if k == 'num': return t.lit
    return json.dumps(t, ensure_ascii=False)

def mask(t, pred, ipath=(), kpath=()):
    """copy of t with every sub-tree for which pred(kpath) is true replaced by a marker"""
    if pred(kpath): return '<<ZONE>>'
    k = kind(t)
    if k == 'obj': return Obj((key, mask(v, pred, ipath + (i,), kpath + (key,))) for i, (key, v) in enumerate(t))
    if k == 'arr': return [mask(v, pred, ipath + (i,), kpath) for i, v in enumerate(t)]
    return t
