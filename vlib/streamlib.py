"""Helpers for the stream-level properties (C06, C07, C08): running the implementation's stream
processor (harness, fault-injecting reader / writer), the model's run_io, and the real CLI."""
import gzip, io, os, subprocess, tempfile
from vlib.run import *

def impl_stream(cfg, cases):
    """cases: list of dicts {data, rfail, chunk, wfail, wshort, bar} -> list of (errclass, out bytes, writes)"""
    reqs = [cfg.harness_req()]
    for c in cases:
        reqs.append({"op": "stream", "s": b64(c['data']), "rfail": c.get('rfail', -1), "chunk": c.get('chunk', 0),
                     "wfail": c.get('wfail', -1), "wshort": c.get('wshort', 0), "bar": c.get('bar', -1)})
    res = run_harness(reqs, timeout=1800)[1:]
    out = []
    for r in res:
        if r.get('r') == 'panic':
            out.append(('panic', b'', r.get('m', '')))
            continue
        e = r['err']
        cls = 'ok' if e == '' else ('werr' if 'injected write' in e else ('rerr' if 'injected read' in e else ('toolong' if (r.get('toolong') or 'too long' in e or 'exceed' in e) else 'err:' + e)))
        out.append((cls, unb64(r['out']), r.get('writes')))
    return out

def model_stream(cfg, cases, lines_for_tables=None):
    rt = re_table(cfg.re, lines_for_tables or []) if cfg.re else None
    et = enc_table(cfg.key, lines_for_tables or []) if (cfg.encrypt and cfg.key is not None) else None
    reqs = [cfg.driver_line(rt, et)]
    for c in cases:
        data = c['data']
        rf = c.get('rfail', -1)
        e = 'E'
        if rf >= 0 and rf < len(data) + 1:
            data = data[:rf]; e = 'R'
        reqs.append('STREAM %s %s %d %d %d' % (hx(data), e, c.get('wfail', -1), c.get('wshort', 0), c.get('bar', -1)))
    res = run_driver(reqs, timeout=1800)[1:]
    out = []
    for r in res:
        p = r.split()
        out.append((p[1], unhx(p[2])))
    return out

def cli_run(args, stdin_bytes=None, cwd=None, env=None, timeout=120):
    p = subprocess.run([CLI] + args, input=stdin_bytes, stdin=(subprocess.DEVNULL if stdin_bytes is None else None),
                       capture_output=True, cwd=cwd, env=env, timeout=timeout)
    return p.returncode, p.stdout, p.stderr

def crashed(rc, stderr):
    """the process died (signal, Go panic) rather than ending with an exit status of its own choosing; recognised by what Go prints, not by the status value"""
    return rc < 0 or b'panic:' in stderr or b'goroutine 1 [' in stderr or b'fatal error:' in stderr

def gz_without_lf(data):
    """a gzip encoding of data whose COMPRESSED bytes hold no 0x0A byte at all (header time stamp and compression level are varied until that
    is so); None when none is found. The number of line feeds in the stored file says nothing about the number of lines in the log."""
    for level in (9, 6, 1, 3):
        for mtime in range(1, 400, 7):
            buf = io.BytesIO()
            with gzip.GzipFile(fileobj=buf, mode='wb', mtime=mtime, compresslevel=level) as f: f.write(data)
            b = buf.getvalue()
            if b'\n' not in b: return b
    return None

def gz_bytes(data, members=1):
    if members == 1:
        buf = io.BytesIO()
        with gzip.GzipFile(fileobj=buf, mode='wb', mtime=0) as f: f.write(data)
        return buf.getvalue()
    parts = []
    step = max(1, len(data) // members)
    chunks = [data[i:i + step] for i in range(0, len(data), step)] or [b'']
    return b''.join(gz_bytes(c) for c in chunks)
