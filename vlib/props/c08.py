"""C08 - I/O failures are reported, never turned into silent truncation."""
import random, tempfile, os, subprocess
from vlib import streams, streamlib
from vlib.run import *

def whole_line_prefix(written, full):
    return full.startswith(written) and (written == b'' or written.endswith(b'\n'))

def run(chk, replay=None):
    rng = random.Random(chk.seed)
    th = chk.tier == 'thorough'
    pool = [l for l, _ in streams.grammar_lines(rng, 30, 0.0) + streams.anyjson_lines(rng, 15) + streams.fixture_lines()]
    junk = [b'', b'garbage', b'[1]', b'{"a":1', b'{"a":1} x']
    logs = []
    for _ in range(12 if th else 5):
        logs.append([rng.choice(pool) if rng.random() < 0.8 else rng.choice(junk) for _ in range(rng.randint(2, 7))])
    cfg = Cfg(nums=True)
    chk.rule = ("multi-line logs x {k-th write fails taking 0 / some / all-but-one bytes, for every k; read error after offset k (all offsets in thorough, seeded sample in quick); "
                "gzip stream cut at offset k / byte flipped at offset k; /dev/full; closed pipe}; non-trivial = distinct (log, fault kind, position) triples")
    # one BIG log: the output is several times larger than any buffer a writer is likely to put between the loop and the device (4 KiB, 64 KiB):
    # a failure of an early write, of a middle one and of the last one, and read failures far into the input
    biglines = [l for l in pool if len(l) < 3000]
    big = [biglines[i % len(biglines)] for i in range(700 if th else 330)]
    logs.append(big)
    for li, ls in enumerate(logs):
        data = b'\n'.join(ls) + b'\n'
        is_big = ls is big
        free = streamlib.impl_stream(cfg, [{'data': data}])[0]
        full, nwrites = free[1], len(free[2] or [])
        if free[0] != 'ok':
            chk.violate('fault-free run failed', {'log': li, 'result': free[0]}, tags=['free']); continue
        cases, meta = [], []
        for k in (range(nwrites + 1) if not is_big else sorted({0, 1, 2, nwrites // 2, max(0, nwrites - 1), nwrites})):
            for short in ((0, 1, 17, 10 ** 6) if not is_big else (0, 17)):
                cases.append({'data': data, 'wfail': k, 'wshort': short, 'chunk': rng.choice([0, 64])}); meta.append(('write', k, short))
        offs = sorted({len(data) // 4, len(data) // 2, len(data) * 9 // 10, len(data) - 2, len(data) - 1, len(data)}) if is_big else range(len(data) + 1) if th else sorted(set(rng.sample(range(len(data) + 1), min(len(data), 120)) + [0, 1, len(data) - 1, len(data)]))
        for k in offs:
            cases.append({'data': data, 'rfail': k, 'chunk': rng.choice([0, 1, 100])}); meta.append(('read', k, 0))
        ir = streamlib.impl_stream(cfg, cases); mr = streamlib.model_stream(cfg, cases)
        for c, (kind, k, short), (icls, iout, _), (mcls, mout) in zip(cases, meta, ir, mr):
            chk.count(); chk.traces += 1; chk.nontriv((li, kind, k, short)); chk.dist('fault_' + kind)
            case = {'log': [l[:150].decode('utf-8', 'replace') for l in ls[:12]], 'lines': len(ls), 'fault': kind, 'k': k, 'short': short}
            if (icls, iout) != (mcls, mout):
                chk.disagree('result and written bytes under a fault', case, (icls, iout[-200:].decode('utf-8', 'replace')), (mcls, mout[-200:].decode('utf-8', 'replace')))
            injected = (kind == 'write' and k < nwrites) or kind == 'read'
            if injected and icls == 'ok':
                chk.violate('fault injected but the run reported success', case, tags=['silent', kind])
            if kind == 'read' or short == 0:
                if not whole_line_prefix(iout, full):
                    chk.violate('written bytes are not a whole-line prefix of the fault-free output', dict(case, written=iout[-200:].decode('utf-8', 'replace')), tags=['prefix', kind])
            else:
                if not full.startswith(iout):
                    chk.violate('written bytes are not a prefix of the fault-free output', dict(case, written=iout[-200:].decode('utf-8', 'replace')), tags=['prefix', kind])
        chk.streams.append({'stream': 'write faults at every k x short-write sizes; read faults at offsets', 'log': li, 'cases': len(cases)})
    # damaged gzip input and real devices through the CLI
    ls = logs[0] + logs[1]
    data = b'\n'.join(ls) + b'\n'
    gz = streamlib.gz_bytes(data)
    with tempfile.TemporaryDirectory() as d:
        f = os.path.join(d, 'ok.log.gz'); open(f, 'wb').write(gz)
        rc, full, se = streamlib.cli_run(['redact', f, '-n'])
        if rc != 0: chk.violate('CLI: intact gzip failed', {'rc': rc}, tags=['cli'])
        offs = range(len(gz)) if th else sorted(set(rng.sample(range(len(gz)), min(len(gz), 60)) + [0, 5, 10, len(gz) - 9, len(gz) - 8, len(gz) - 1]))
        for k in offs:
            for kind in ('cut', 'flip'):
                bad = gz[:k] if kind == 'cut' else gz[:k] + bytes([gz[k] ^ 0x20]) + gz[k + 1:]
                gname = ['bad.log.gz', 'BAD.LOG.GZ', 'bad.log.Gz', 'bad.gz', 'mongod.gZ'][(k + (kind == 'flip')) % 5]      # the suffix is matched without regard to case
                g = os.path.join(d, gname); open(g, 'wb').write(bad)
                rc, so, se = streamlib.cli_run(['redact', g, '-n'])
                os.remove(g)
                chk.count(); chk.nontriv(('gz', kind, k)); chk.dist('fault_gz_' + kind)
                case = {'fault': 'gzip ' + kind, 'offset': k, 'rc': rc, 'file_name': gname}
                if streamlib.crashed(rc, se):
                    chk.violate('CLI crashed on damaged gzip', dict(case, stderr=se[-300:].decode('utf-8', 'replace')), tags=['cli', 'panic'])
                if rc == 0 and so != full:
                    chk.violate('damaged gzip: success reported for incomplete / different output', dict(case, out_len=len(so), full_len=len(full)), tags=['cli', 'silent'])
                if rc != 0 and not whole_line_prefix(so, full) and kind == 'cut':
                    chk.violate('damaged gzip: output is not a whole-line prefix of the fault-free output', dict(case, tail=so[-200:].decode('utf-8', 'replace')), tags=['cli', 'prefix'])
        chk.streams.append({'stream': 'gzip cut / flipped at offsets through the CLI', 'offsets': len(list(offs))})
        # archives of several concatenated members (log shippers, cat a.gz b.gz): every header and trailer byte of every member, plus a sample
        parts = [b'\n'.join(ls[i::3]) + b'\n' for i in range(3)]
        members = [streamlib.gz_bytes(x) for x in parts]
        mgz = b''.join(members)
        f = os.path.join(d, 'multi.log.gz'); open(f, 'wb').write(mgz)
        rc, mfull, se = streamlib.cli_run(['redact', f, '-n'])
        if rc != 0: chk.violate('CLI: intact multi-member gzip failed', {'rc': rc}, tags=['cli'])
        starts = [0, len(members[0]), len(members[0]) + len(members[1])]
        moffs = set()
        for st, m in zip(starts, members):
            moffs |= set(range(st, st + 10)) | set(range(st + len(m) - 8, st + len(m)))
        moffs |= set(range(len(mgz))) if th else set(rng.sample(range(len(mgz)), min(len(mgz), 40)))
        for k in sorted(moffs):
            for kind, mask in (('cut', 0), ('flip', 0x20), ('flip', 0x01), ('flip', 0x80)):
                if kind == 'cut' and k in starts: continue          # a cut exactly between two members IS a shorter, intact archive
                bad = mgz[:k] if kind == 'cut' else mgz[:k] + bytes([mgz[k] ^ mask]) + mgz[k + 1:]
                g = os.path.join(d, 'badm.log.gz'); open(g, 'wb').write(bad)
                rc, so, se = streamlib.cli_run(['redact', g, '-n'])
                chk.count(); chk.nontriv(('mgz', kind, mask, k)); chk.dist('fault_mgz_' + kind)
                case = {'fault': 'multi-member gzip ' + kind, 'mask': mask, 'offset': k, 'member_starts': starts, 'rc': rc}
                if streamlib.crashed(rc, se):
                    chk.violate('CLI crashed on damaged gzip', dict(case, stderr=se[-300:].decode('utf-8', 'replace')), tags=['cli', 'panic'])
                if rc == 0 and so != mfull:
                    chk.violate('damaged multi-member gzip: success reported for incomplete / different output', dict(case, out_len=len(so), full_len=len(mfull)), tags=['cli', 'silent'])
                if rc != 0 and not whole_line_prefix(so, mfull) and kind == 'cut':
                    chk.violate('damaged gzip: output is not a whole-line prefix of the fault-free output', dict(case, tail=so[-200:].decode('utf-8', 'replace')), tags=['cli', 'prefix'])
        chk.streams.append({'stream': 'three-member gzip archive cut / flipped (3 masks) at every header and trailer byte + sample, through the CLI', 'offsets': len(moffs)})
        p = os.path.join(d, 'in.log'); open(p, 'wb').write(data)
        rc, so, se = streamlib.cli_run(['redact', p, '-o', '/dev/full'])
        chk.count()
        if rc == 0: chk.violate('CLI: output to /dev/full reported success', {'rc': rc, 'stderr': se[-200:].decode('utf-8', 'replace')}, tags=['cli', 'silent', 'devfull'])
        # closed pipe: reader end closed before the tool writes
        big = os.path.join(d, 'big.log'); open(big, 'wb').write(data * 300)
        pr = subprocess.Popen([CLI, 'redact', big], stdin=subprocess.DEVNULL, stdout=subprocess.PIPE, stderr=subprocess.PIPE)
        pr.stdout.close()
        rc = pr.wait(timeout=60)
        chk.count()
        if rc == 0: chk.violate('CLI: closed output pipe reported success', {'rc': rc}, tags=['cli', 'silent', 'pipe'])
    # the whole command (Model/Job.v: main.go's Run end to end) against the CLI on small worlds: exit status, file system and standard output
    from vlib import joblib
    jrng = random.Random(chk.seed * 7919 + 808)
    jpool = [l for l, _ in streams.grammar_lines(jrng, 25, 0.1) + streams.fixture_lines()[:8]]
    joblib.correspondence(chk, jrng, 160 if chk.tier == 'thorough' else 60, jpool)
    chk.sample({'log': [l[:120].decode('utf-8', 'replace') for l in logs[0]], 'faults': 'write k in 0..n x short in {0,1,17,all}; read at offsets'})
    chk.assumptions += ["gzip error detection (truncated / corrupt member, checksum) is the library's; the model treats the gzip reader as a reader that ends in a read error",
                        "bytes a device takes of a refused (short) write are outside the tool's control; they are the only non-whole-line bytes allowed",
                        "read cut in the middle of a line: that the partial last line is not emitted rests on the parser rejecting unterminated objects (validated by enumeration over offsets, not yet a theorem)"]
