"""C04 - nothing outside the redaction zones is altered."""
import random
from vlib import jtree, streams, zones
from vlib.run import *

def masked(out, tin, cfg):
    if not isinstance(out, bytes): return out
    t = jtree.parse(out)
    if t is None: return 'INVALID'
    return jtree.dumps(jtree.mask(t, zones.zone_pred(tin, cfg)))

def kept_leaves(t):
    """operational parameters inside the zones that must be carried over: $limit/$skip scalars at any depth;
    in top-level stages $sample, $search(.Meta).index, $vectorSearch.{index,numCandidates,limit}"""
    out = []
    for ip, kp, kind, val in jtree.leaves(t):
        if len(kp) >= 4 and kp[0] == 'attr' and kp[1] in zones.CMD_KEYS:
            if kp[-1] in ('$limit', '$skip') and kind == 'num': out.append((ip, kp, val))
            if kp[2] == 'pipeline' and len(kp) >= 4:
                tail = kp[3:]
                if tail[0] == '$sample' and kind == 'num': out.append((ip, kp, val))
                if tail in (('$search', 'index'), ('$searchMeta', 'index'), ('$vectorSearch', 'index'), ('$vectorSearch', 'numCandidates'), ('$vectorSearch', 'limit')):
                    out.append((ip, kp, val))
                # enumerated keywords of top-level stages
                if tail in (('$merge', 'whenMatched'), ('$merge', 'whenNotMatched')) and kind == 'str' and val in ('replace', 'keepExisting', 'merge', 'fail', 'insert', 'discard'):
                    out.append((ip, kp, val))
    return out

def key_skeleton(t):
    """the key lists of every object, by index path"""
    out = {}
    def w(x, ip):
        k = jtree.kind(x)
        if k == 'obj':
            out[ip] = tuple(key for key, _ in x)
            for i, (_, y) in enumerate(x): w(y, ip + (i,))
        elif k == 'arr':
            for i, y in enumerate(x): w(y, ip + (i,))
    w(t, ())
    return out

def get_ip(t, ip):
    for i in ip:
        if jtree.kind(t) in ('obj', 'arr') and i >= len(t): return '<<missing>>'
        if jtree.kind(t) == 'obj': t = t[i][1]
        elif jtree.kind(t) == 'arr': t = t[i]
        else: return '<<missing>>'
    return t

def run(chk, replay=None):
    rng = random.Random(chk.seed)
    th = chk.tier == 'thorough'
    cases = streams.corpus_lines() + streams.fixture_lines() + streams.deep_lines()[::2] + streams.anyjson_lines(rng, 2500 if th else 500) + streams.grammar_lines(rng, 1500 if th else 300) + streams.search_lines(rng, None if th else 400) + streams.degenerate_lines()[::3]
    cfgs = streams.value_cfgs(rng, 10 if th else 4) + [Cfg(encrypt=True, key=streams.KEY, nss=True, ips=True), Cfg(eager=['shop.events', 'app_db', 'mydb.users'], nums=True)]
    streams.note_distribution(chk, cases)
    chk.rule = ("arbitrary JSON lines over all components (numbers of every notation/magnitude) and grammar lines x flag sets; the non-zone part of the tree "
                "(zones masked by an independent key-path predicate) must be identical; non-trivial = distinct (flags, masked input) pairs")
    lines = [l for l, _ in cases]
    for ci, cfg in enumerate(cfgs):
        res = run_lines(cfg, lines)
        for (l, info), (io, mo) in zip(cases, res):
            chk.count(); chk.traces += 1
            tin = jtree.parse(l)
            if io != mo: chk.drift += 1
            if tin is None or jtree.kind(tin) != 'obj' or jtree.has_dup_keys(tin): continue
            mi = masked(io, tin, cfg); mm = masked(mo, tin, cfg)
            if mi != mm:
                chk.disagree('non-zone projection', {'cfg': cfg.describe(), 'input': l.decode('utf-8', 'replace')}, str(mi)[:400], str(mm)[:400])
            if not isinstance(io, bytes): continue
            if cfg.eager:
                # field-name mode renames keys by design on lines of a selected namespace: the frame oracle applies to the OTHER lines
                ns = jtree.get(jtree.get(tin, 'attr'), 'ns') if jtree.get(tin, 'attr') is not None else None
                if isinstance(ns, str) and any(ns.startswith(e.decode()) for e in cfg.eager): continue
            expect = jtree.dumps(jtree.mask(tin, zones.zone_pred(tin, cfg)))
            chk.nontriv((ci, expect))
            if mi != expect:
                case = {'cfg': cfg.describe(), 'input': l.decode('utf-8', 'replace'), 'output': io.decode('utf-8', 'replace')}
                if not getattr(chk, '_shrunk_frame', False):
                    chk._shrunk_frame = True
                    from vlib import shrink
                    def fails(b, cfg=cfg):
                        t = jtree.parse(b)
                        if t is None or jtree.kind(t) != 'obj' or jtree.has_dup_keys(t): return False
                        return masked(shrink.impl_line(cfg, b), t, cfg) != jtree.dumps(jtree.mask(t, zones.zone_pred(t, cfg)))
                    sb = shrink.shrink_line(l, fails)
                    case['shrunk_input'] = sb.decode('utf-8', 'replace'); case['shrunk_output'] = str(shrink.impl_line(cfg, sb))[:600]
                chk.violate('a position outside the zones was altered', case, tags=['frame'])
            tout = jtree.parse(io)
            # object keys are kept everywhere, also inside the zones (field-name redaction is off for this line)
            if tout is not None:
                ki, ko = key_skeleton(tin), key_skeleton(tout)
                tm = jtree.parse(mo) if isinstance(mo, bytes) else None
                if tm is not None and key_skeleton(tm) != ko:
                    chk.disagree('object keys at every position', {'cfg': cfg.describe(), 'input': l.decode('utf-8', 'replace')}, str(sorted(ko.items()))[:300], str(sorted(key_skeleton(tm).items()))[:300])
                bad = [(ip, ki[ip], ko.get(ip)) for ip in ki if ko.get(ip) != ki[ip]]
                if bad:
                    case = {'cfg': cfg.describe(), 'index_path': list(bad[0][0]), 'keys_in': list(bad[0][1]), 'keys_out': list(bad[0][2]) if bad[0][2] is not None else None,
                            'input': l.decode('utf-8', 'replace'), 'output': io.decode('utf-8', 'replace')}
                    if not getattr(chk, '_shrunk_keys', False):
                        chk._shrunk_keys = True
                        from vlib import shrink
                        def fails(b, cfg=cfg):
                            t = jtree.parse(b); o = shrink.impl_line(cfg, b)
                            to = jtree.parse(o) if isinstance(o, bytes) else None
                            if t is None or to is None or jtree.kind(t) != 'obj' or jtree.has_dup_keys(t): return False
                            a, c2 = key_skeleton(t), key_skeleton(to)
                            return any(c2.get(ip) != a[ip] for ip in a)
                        sb = shrink.shrink_line(l, fails)
                        case['shrunk_input'] = sb.decode('utf-8', 'replace'); case['shrunk_output'] = str(shrink.impl_line(cfg, sb))[:600]
                    chk.violate('object keys changed although field-name redaction is off for this line', case, tags=['keys'])
            if tout is not None and zones.gate(tin):
                for ip, kp, val in kept_leaves(tin):
                    if get_ip(tout, ip) != val:
                        chk.violate('operational parameter altered', {'cfg': cfg.describe(), 'path': list(kp), 'input': l.decode('utf-8', 'replace'), 'output': io.decode('utf-8', 'replace')}, tags=['kept', kp[-1]])
                    else:
                        chk.dist('kept_param_checked')
        chk.streams.append({'stream': 'non-zone projection model vs implementation', 'cfg': cfg.describe(), 'cases': len(lines)})
    chk.sample({'input': lines[30].decode('utf-8', 'replace')[:500]})
    chk.assumptions += ["strings are compared after JSON unescaping (the tool re-escapes <, >, & and U+2028/9); invalid UTF-8 and lone surrogates are outside 'any Unicode'"]
