"""C12 - namespace pseudonymisation is complete, consistent and confined."""
import random, re
from vlib import jtree, streams, gen, zones
from vlib.run import *

NS_STAGE_KEYS = {'from', 'coll', 'into', 'db'}

def run(chk, replay=None):
    rng = random.Random(chk.seed)
    th = chk.tier == 'thorough'
    v = streams.vocab()
    names = [('Dbq7z', 'Cq9w'), ('déb', 'cöll'), ('Dq1', 'Cq2.archive.x'), ('Dq3', '$cmd'), ('Dq4', 'system.profile'), ('Dq5', 'Cq5'),
             ('Dq5_eu', 'Cq5'), ('Dq52', 'Cq5x'),
             ('9050617304', '6600447781'), ('Dq6', 'evq6.7770015523'), ('7f3a9c0e1b', '0c2f5e-Cq7 x')]      # names that extend one another: Dq5 / Dq5_eu / Dq52, Cq5 / Cq5x (consecutive lines of related databases);
             # names made of digits only, with an all-digit component, hex-looking, with a hyphen and a blank: a name is a name whatever it looks like
    cases = []
    for i in range(1500 if th else 350):
        db, coll = rng.choice(names)
        while True:
            l, info = gen.command_line(rng, v, ns_tokens=True, db=db, coll=coll)
            if 'distinct' not in info['verbs']: break     # `distinct` is not among the verbs the tool declares
        cases.append((l, info))
    # systematic: every namespace-bearing stage argument form in every nesting context, with planted names
    n = 0
    def tok():
        nonlocal n
        n += 1; return 'Nq%dqN' % (9000 + n)
    import json as _json
    for db, coll in names[:2]:
        for ctx in ('top', 'lookup', 'unionWith', 'facet', 'facet_lookup', 'whenMatched', 'lookup_lookup'):
            toks = []
            def T():
                t = tok(); toks.append(t); return t
            forms = [{'$lookup': {'from': T(), 'localField': 'a', 'foreignField': 'b', 'as': 'j'}}, {'$graphLookup': {'from': T(), 'startWith': '$a', 'connectFromField': 'a', 'connectToField': 'b', 'as': 'g'}},
                     {'$unionWith': {'coll': T(), 'pipeline': []}}, {'$unionWith': T()}, {'$lookup': {'from': {'db': T(), 'coll': T()}, 'pipeline': [], 'as': 'j'}}]
            tail = [{'$merge': {'into': T()}}] if ctx in ('top',) else []
            tail2 = [{'$merge': {'into': {'db': T(), 'coll': T()}}}] if ctx == 'top' else ([{'$out': T()}] if ctx == 'facet' else [])
            inner = forms + tail + tail2
            if ctx == 'top': pl = inner
            elif ctx == 'lookup': pl = [{'$lookup': {'from': T(), 'let': {'v': '$a'}, 'pipeline': inner, 'as': 'o'}}]
            elif ctx == 'unionWith': pl = [{'$unionWith': {'coll': T(), 'pipeline': inner}}]
            elif ctx == 'facet': pl = [{'$facet': {'f1': inner, 'f2': [{'$match': {'a': 1}}]}}]
            elif ctx == 'facet_lookup': pl = [{'$facet': {'f1': [{'$lookup': {'from': T(), 'pipeline': inner, 'as': 'o'}}]}}]
            elif ctx == 'whenMatched': pl = [{'$merge': {'into': T(), 'whenMatched': [{'$set': {'x': 1}}] + forms[:1]}}]
            else: pl = [{'$lookup': {'from': T(), 'pipeline': [{'$lookup': {'from': T(), 'pipeline': inner, 'as': 'p'}}], 'as': 'o'}}]
            for place in ('command', 'originatingCommand'):
                cmd = {'aggregate': coll, 'pipeline': pl, 'cursor': {}, '$db': db}
                attr = {'type': 'command', 'ns': db + '.' + coll, place: cmd}
                if place == 'originatingCommand': attr['command'] = {'getMore': gen.RawNum('7'), 'collection': coll, '$db': db}
                l = gen.dumps({'t': {'$date': '2020-01-01T00:00:00.000+00:00'}, 's': 'I', 'c': 'COMMAND', 'id': gen.RawNum('51803'), 'ctx': 'conn1', 'msg': 'Slow query', 'attr': attr}).encode('utf-8')
                cases.append((l, {'db': db, 'coll': coll, 'ns_names': list(toks), 'verbs': ['aggregate'], 'kind': 'ns_systematic', 'stats': {'nsctx_' + ctx: 1}, 'sensitive': [], 'sens_numbers': [], 'names': [], 'placement': place, 'ip': ''}))
    # other components with attr.ns, cmd-only lines
    for db, coll in names:
        cases.append((('{"t":{"$date":"2020-01-01T00:00:00.000+00:00"},"s":"I","c":"STORAGE","id":1,"ctx":"c","msg":"m","attr":{"ns":"%s.%s","x":1}}' % (db, coll)).encode(), {'db': db, 'coll': coll, 'ns_names': [], 'verbs': ['other'], 'kind': 'other', 'stats': {}}))
    streams.note_distribution(chk, [(l, dict(i, kind=i.get('kind', 'grammar'))) for l, i in cases])
    chk.rule = ("grammar lines over every verb the tool declares and every line class (command / cmd-only / originating command / other components with attr.ns), pipelines with namespace-bearing "
                "stages at any depth, planted database / collection names (Unicode, dotted collections, $cmd, system.*) and planted foreign names in stage arguments; flag on vs flag off; "
                "non-trivial = distinct lines in which at least one name occurs")
    lines = [l for l, _ in cases]
    hashes = {}
    all_cases = cases
    # the flag alone, and the flag together with field-name mode for some of the namespaces (the two features meet in attr.ns)
    for on, off, cases in [(Cfg(nss=True), Cfg(), all_cases),
                           (Cfg(nss=True, eager=['Dbq7z.Cq9w', 'Dq1', 'déb']), Cfg(eager=['Dbq7z.Cq9w', 'Dq1', 'déb']), all_cases[: (600 if th else 150)] + all_cases[-len(names):])]:
      lines = [l for l, _ in cases]
      ron, roff = run_lines(on, lines), run_lines(off, lines)
      compare(chk, cases, on, off, ron, roff, hashes)
    on = Cfg(nss=True); lines = [l for l, _ in all_cases]; ron = run_lines(on, lines[:50])
    chk.streams.append({'stream': 'flag on vs off: changed positions and values, model vs implementation', 'cases': len(lines)})
    # multi-line: the same namespace gets the same pseudonym on every line (two processes)
    r2 = run_lines(on, lines[:50])
    for (a, _), (b, _) in zip(ron[:50], r2):
        chk.count()
        if a != b: chk.violate('pseudonyms differ between two processes', {}, tags=['process'])
    chk.sample({'input': lines[5].decode('utf-8', 'replace')[:500]})
    chk.assumptions += ["`distinct` (and any verb outside the tool's declared list) is outside the property's claim"]

def compare(chk, cases, on, off, ron, roff, hashes):
    import hashlib
    def P(name):
        """the pseudonym as the property describes it, computed HERE (not asked of the tool): component by component, a leading '$' dropped,
        <replacement>_<first 16 hex digits of SHA-256> - so that every occurrence of a name, whichever code path rewrote it, is held against one value"""
        if name not in hashes:
            rp = on.repl.decode('utf-8', 'replace')
            hashes[name] = '.'.join(rp + '_' + hashlib.sha256(part.encode('utf-8')).hexdigest()[:16] for part in name.lstrip('$').split('.'))
        return hashes[name]
    for (l, info), (ion, mon), (ioff, moff) in zip(cases, ron, roff):
        chk.count(); chk.traces += 1
        if ion != mon or ioff != moff: chk.drift += 1
        case = {'input': l.decode('utf-8', 'replace')[:3000], 'cfg_on': on.describe()}
        if not isinstance(ion, bytes) or not isinstance(ioff, bytes):
            chk.violate('line not emitted', dict(case, on=str(ion)[:50], off=str(ioff)[:50]), tags=['dropped']); continue
        ton, toff, tmon, tmoff = jtree.parse(ion), jtree.parse(ioff), jtree.parse(mon) if isinstance(mon, bytes) else None, jtree.parse(moff) if isinstance(moff, bytes) else None
        def nsdiff(a, b):
            if a is None or b is None: return None
            la, lb = list(jtree.leaves(a)), list(jtree.leaves(b))
            if [(x[0], x[1]) for x in la] != [(x[0], x[1]) for x in lb]: return 'SHAPE'
            return [(x[1], x[3], y[3]) for x, y in zip(la, lb) if x[3] != y[3]]
        di, dm = nsdiff(toff, ton), nsdiff(tmoff, tmon)
        if di != dm:
            chk.disagree('positions and values changed by the flag', case, str(di)[:400], str(dm)[:400])
        if di == 'SHAPE' or di is None:
            chk.violate('flag changes the shape of the line', case, tags=['shape']); continue
        db, coll = info['db'], info['coll']
        text = ion.decode('utf-8', 'replace')
        chk.nontriv(l)
        # completeness: the operation's names and the planted foreign names are gone
        for nm in [db, coll] + info['ns_names']:
            if nm in ('$cmd',): continue
            if nm in text:
                nested = any(nm == y for kp, x, y in []) 
                chk.violate('namespace name survives in the line', dict(case, name=nm, output=text[:1500]), tags=['leak'])
        # confinement: every changed leaf sits at a namespace position
        for kp, old, new in di:
            okpos = (kp == ('attr', 'ns')) or (len(kp) == 3 and kp[0] == 'attr' and kp[1] in zones.CMD_KEYS and kp[2] in zones.NS_CMD_KEYS) or \
                    (len(kp) >= 4 and kp[0] == 'attr' and kp[1] in zones.CMD_KEYS and kp[-1] in NS_STAGE_KEYS)
            if not okpos:
                chk.violate('flag changed something that is not a namespace', dict(case, path=list(kp), old=str(old)[:80], new=str(new)[:80]), tags=['confined'])
            elif isinstance(old, str) and new != P(old):
                chk.violate('namespace not replaced by its component-wise pseudonym', dict(case, path=list(kp), old=old, new=str(new)[:120], expected=P(old)), tags=['consistent'])
        # consistency inside stage arguments that the flag did NOT change although they hold a planted name
        for ip, kp, kind, val in jtree.leaves(ton):
            if kind == 'str' and val in info['ns_names']:
                chk.violate('namespace name survives in a stage argument', dict(case, path=list(kp), name=val), tags=['leak', 'stage'])
        tin = jtree.parse(l)
        for (ip, kp, kind, val), (_, _, _, nv) in zip(jtree.leaves(tin), jtree.leaves(ton)):
            if kind == 'str' and val in info['ns_names'] and nv != P(val):
                nested = ('pipeline' in kp[3:] or 'whenMatched' in kp[3:]) and any(k in ('$lookup', '$unionWith', '$facet', '$merge') for k in kp)      # F16a names $merge.whenMatched among the nested pipelines
                strform = kp[-1] in ('$out', '$unionWith', '$merge')
                chk.violate('stage namespace replaced by something else than its pseudonym', dict(case, path=list(kp), name=val, got=str(nv)[:60]),
                            tags=['consistent', 'stage'] + (['nested_pipeline'] if nested and not strform else []) + (['string_form'] if strform else []))
