"""C09 - encrypted values decrypt back to exactly the original."""
import random, os, tempfile, base64, json, subprocess
from concurrent.futures import ThreadPoolExecutor
from vlib import jtree, streams, gen
from vlib.run import *

def gen_strings(rng, n):
    out = ['', ' ', 'a', 'secret', 'héllo wörld', '中文字符', '\U0001F600\U0001F4A9', 'QUJD', 'AAAA', '{"a":1}', '"quoted"', 'back\\slash', 'line\nbreak', 'tab\there',
           '\x01\x02\x1f', 'a' * 8192, 'é' * 3000, 'p' * 511 + 'X', 'p' * 512 + 'Y', 'q' * 1024 + 'Z', 'r' * 4096 + 'W', 'x@y.co', 'Jane.Doe@Example.COM', ' pad@x.io ', 'UPPER@HOST.ORG', 'MiXeD.case+tag@Sub.Example.Org', '100% off %s', '-leading-dash', '--flag', "it's", '%s %d', 'not$field', 'REDACTED', '<b>&amp;</b>', '  ', '\x7f']
    # bytes that a padding, trimming or terminator scheme treats specially, at either end of the value, and lengths around cipher block sizes
    # (a value must come back EXACTLY: 'secret\x00' is not 'secret')
    edge = ['\x00', '\x00\x00\x00', '\x01', '\x02\x02', '\x03\x03\x03', '\x04' * 4, '\x08' * 8, '\x10' * 16, '\x80', '\x80\x00\x00', ' ', '   ', '\t', '\n', '\r\n', '=', '==', '\u00a0', '\u200b', '\ufeff']
    for e in edge:
        out += ['secret' + e, e + 'secret']
    out += ['\x00', '\x00\x00', 'mid\x00dle', 'b' * 15 + '\x00', 'b' * 16, 'b' * 15, 'b' * 17, 'b' * 31 + '\x01', 'b' * 32, 'b' * 16 + '\x10' * 16, 'é' * 8, 'é' * 7 + 'x\x00']
    while len(out) < n:
        k = rng.randint(0, 200)
        s = ''.join(chr(rng.choice([rng.randint(32, 126), rng.randint(0xa0, 0x2ff), rng.randint(0x4e00, 0x4eff), rng.randint(0x1f600, 0x1f64f)])) for _ in range(k))
        if s.startswith('$'): s = 'x' + s      # a '$'-prefixed string is a field reference by design, not a sensitive value
        out.append(s)
    return out

def run(chk, replay=None):
    rng = random.Random(chk.seed)
    th = chk.tier == 'thorough'
    chk.rule = ("strings of length 0..8 KiB over all Unicode planes, control characters, base64 / JSON / flag look-alikes, placed at sensitive positions; random 64-byte keys; "
                "end to end through `redact --encrypt` and `decrypt`; single-byte corruptions and truncations of ciphertexts; non-trivial = distinct (key, plaintext) pairs")
    # --- correspondence: base64 model vs encoding/base64
    blobs = [bytes(rng.randrange(256) for _ in range(k)) for k in list(range(0, 40)) + [63, 64, 65, 100, 255, 256, 1000]]
    texts = [base64.b64encode(b) for b in blobs[:30]]
    texts += [t[:-1] for t in texts[3:12]] + [t + b'\n' for t in texts[:5]] + [t[:2] + b'\r\n' + t[2:] for t in texts[5:10]] + [b'====', b'Q===', b'QQ=Q', b'QQ==QQ==', b'Q Q=', b'\xff\xfe', b'QUJD!', b'=', b'QQ=', b'QUI=\n\n']
    hres = run_harness([{"op": "b64", "s": b64(x)} for x in blobs + texts])
    dres = run_driver(['B64 ' + hx(x) for x in blobs + texts])
    for x, h, d in zip(blobs + texts, hres, dres):
        chk.count(); chk.traces += 1
        me, md = d.split()
        ie = h['enc'].encode(); idec = unb64(h['dec']) if h['decok'] else None
        if unhx(me) != ie or (None if md == '!' else unhx(md)) != idec:
            chk.disagree('base64', {'input_hex': hx(x)}, (h['enc'][:60], h['decok']), (unhx(me)[:60].decode(), md != '!'))
    chk.streams.append({'stream': 'base64 encode/decode model vs encoding/base64', 'cases': len(blobs) + len(texts)})
    # --- end to end through the CLI
    strings = gen_strings(rng, 400 if th else 140)
    keys = [bytes(rng.randrange(256) for _ in range(64)) for _ in range(3)]
    with tempfile.TemporaryDirectory() as d:
        for ki, key in enumerate(keys):
            keyf = os.path.join(d, 'k%d.key' % ki); open(keyf, 'wb').write(base64.b64encode(key))
            sub = strings if ki == 0 else strings[: len(strings) // 3]
            lines = []
            for i, s in enumerate(sub):
                slot = i % 4
                cmd = {'find': 'c', 'filter': {'f': s}} if slot == 0 else {'update': 'c', 'updates': [{'q': {'_id': 1}, 'u': {'$set': {'f': [s]}}}]} if slot == 1 else \
                      {'insert': 'c', 'documents': [{'f': {'g': s}}]} if slot == 2 else {'aggregate': 'c', 'pipeline': [{'$match': {'f': {'$in': [s]}}}]}
                lines.append(json.dumps({'t': {'$date': '2020-01-01T00:00:00.000+00:00'}, 's': 'I', 'c': 'COMMAND', 'id': 1, 'ctx': 'c', 'msg': 'Slow query', 'attr': {'ns': 'd.c', 'command': cmd}}, ensure_ascii=False))
            inp = os.path.join(d, 'in%d.log' % ki); open(inp, 'wb').write(('\n'.join(lines) + '\n').encode('utf-8'))
            outp = os.path.join(d, 'out%d.log' % ki)
            p = subprocess.run([CLI, 'redact', inp, '-o', outp, '-y', '-q', keyf], stdin=subprocess.DEVNULL, capture_output=True)
            if p.returncode != 0:
                chk.violate('redact --encrypt failed', {'rc': p.returncode, 'stderr': p.stderr.decode('utf-8', 'replace')[-300:]}, tags=['cli']); continue
            outl = open(outp, 'rb').read().split(b'\n')[:-1]
            cts = []
            for s, l, ol in zip(sub, lines, outl):
                tin, tout = jtree.parse(l.encode('utf-8')), jtree.parse(ol)
                diff = [(a, b) for a, b in zip(jtree.leaves(tin), jtree.leaves(tout)) if a[3] != b[3]]
                ct = [b[3] for a, b in diff if a[3] == s]
                if len(ct) != 1:
                    chk.violate('planted string not encrypted exactly once', {'plaintext': s[:80], 'out': ol.decode('utf-8', 'replace')[:300]}, tags=['position']); continue
                cts.append((s, ct[0]))
            def dec(ct, kf=keyf):
                p = subprocess.run([CLI, 'decrypt', '--decryptionKeyFile', kf, '--', ct], stdin=subprocess.DEVNULL, capture_output=True)
                return p.returncode, p.stdout
            with ThreadPoolExecutor(max_workers=16) as ex:
                res = list(ex.map(lambda sc: dec(sc[1]), cts))
            for (s, ct), (rc, so) in zip(cts, res):
                chk.count(); chk.traces += 1; chk.nontriv((ki, s))
                marker = b'Raw value: '
                got = so[so.find(marker) + len(marker):-1] if marker in so else None
                if rc != 0 or got != s.encode('utf-8'):
                    chk.violate('decrypt does not return the original string', {'plaintext': s[:100], 'ciphertext': ct[:80], 'rc': rc, 'got': (got or b'')[:100].decode('utf-8', 'replace')}, tags=['roundtrip'])
            # the output of this run fed through `redact --encrypt` again with the same key: its sensitive strings are now ciphertexts made with
            # this very key; each must come out as a ciphertext that decrypts to exactly the string that went in (the first-pass ciphertext)
            if ki == 0:
                outp2 = os.path.join(d, 'out%d.second.log' % ki)
                p2 = subprocess.run([CLI, 'redact', outp, '-o', outp2, '-y', '-q', keyf], stdin=subprocess.DEVNULL, capture_output=True)
                out2 = open(outp2, 'rb').read().split(b'\n')[:-1] if os.path.exists(outp2) else []
                pairs2 = []
                for (s, ct1), ol1, ol2 in zip(cts, outl, out2):
                    t1, t2 = jtree.parse(ol1), jtree.parse(ol2)
                    if t1 is None or t2 is None: continue
                    d2 = [b[3] for a, b in zip(jtree.leaves(t1), jtree.leaves(t2)) if a[3] == ct1]
                    if len(d2) == 1: pairs2.append((ct1, d2[0]))
                if p2.returncode != 0 or len(pairs2) < len(cts) // 2:
                    chk.violate('second pass over the encrypted output failed or lost lines', {'rc': p2.returncode, 'lines': len(out2), 'stderr': p2.stderr.decode('utf-8', 'replace')[-200:]}, tags=['cli', 'secondpass'])
                with ThreadPoolExecutor(max_workers=16) as ex:
                    res2 = list(ex.map(lambda sc: dec(sc[1]), pairs2[:60]))
                for (ct1, ct2), (rc, so) in zip(pairs2[:60], res2):
                    chk.count(); chk.nontriv((ki, 'second', ct1))
                    marker = b'Raw value: '
                    got = so[so.find(marker) + len(marker):-1] if marker in so else None
                    if rc != 0 or got != ct1.encode('utf-8'):
                        chk.violate('a string that is itself a ciphertext of this key does not round-trip (second pass)', {'input_string': ct1[:80], 'emitted': str(ct2)[:80], 'rc': rc, 'decrypts_to': (got or b'')[:100].decode('utf-8', 'replace')}, tags=['roundtrip', 'secondpass'])
                chk.streams.append({'stream': 'second `redact --encrypt` pass over the first pass output, then decrypt', 'strings': len(pairs2[:60])})
            # corruptions / truncations / wrong key
            victims = [c for c in cts if c[0] in ('', 'secret', 'héllo wörld')] + cts[5:8]
            bad = []
            for s, ct in victims:
                raw = bytearray(base64.b64decode(ct))
                positions = range(len(raw)) if (th or len(raw) < 40) else sorted(set(rng.sample(range(len(raw)), 20) + [0, len(raw) - 1]))
                for i in positions:
                    r2 = bytearray(raw); r2[i] ^= 1 << rng.randrange(8); bad.append((s, 'flip@%d' % i, base64.b64encode(bytes(r2)).decode()))
                for cut in (1, 2, 15, 16, 17):
                    if cut < len(raw): bad.append((s, 'trunc-%d' % cut, base64.b64encode(bytes(raw[:-cut])).decode()))
                bad.append((s, 'text-char', ('B' if ct[0] == 'A' else 'A') + ct[1:]))
            with ThreadPoolExecutor(max_workers=16) as ex:
                res = list(ex.map(lambda b: dec(b[2]), bad))
            for (s, what, ct), (rc, so) in zip(bad, res):
                chk.count(); chk.dist('corruptions')
                if rc == 0:
                    chk.violate('altered ciphertext decrypted without an error', {'plaintext': s[:60], 'alteration': what, 'stdout': so[-120:].decode('utf-8', 'replace')}, tags=['tamper'])
            other = os.path.join(d, 'other.key'); open(other, 'wb').write(base64.b64encode(bytes(64)))
            for s, ct in cts[:10]:
                rc, so = dec(ct, other); chk.count()
                if rc == 0: chk.violate('decrypt with a different key succeeded', {'plaintext': s[:60]}, tags=['wrongkey'])
            chk.streams.append({'stream': 'redact --encrypt -> decrypt through the CLI', 'key': ki, 'strings': len(sub), 'corruptions': len(bad)})
    # many distinct values in one run, then early ones again (one process; equal plaintexts far apart must still decrypt to themselves)
    with tempfile.TemporaryDirectory() as d:
        keyf = os.path.join(d, 'k.key'); open(keyf, 'wb').write(base64.b64encode(bytes(range(64))))
        vals = ['customer-%04d ünï' % i for i in range(9000 if th else 2600)] + ['customer-0000 ünï', 'customer-0001 ünï', 'customer-0002 ünï']      # more distinct values than any cache of a plausible size (256, 1024, 2048) holds
        inp = os.path.join(d, 'in.log')
        open(inp, 'wb').write(b''.join(json.dumps({'t': {'$date': '2020-01-01T00:00:00.000+00:00'}, 's': 'I', 'c': 'COMMAND', 'id': 1, 'ctx': 'c', 'msg': 'Slow query', 'attr': {'ns': 'd.c', 'command': {'find': 'c', 'filter': {'f': v}}}}, ensure_ascii=False).encode() + b'\n' for v in vals))
        outp = os.path.join(d, 'out.log')
        p = subprocess.run([CLI, 'redact', inp, '-o', outp, '-y', '-q', keyf], stdin=subprocess.DEVNULL, capture_output=True)
        outl = open(outp, 'rb').read().split(b'\n')[:-1] if os.path.exists(outp) else []
        chk.count(len(vals))
        if p.returncode != 0 or len(outl) != len(vals):
            chk.violate('redact --encrypt failed on a long run', {'rc': p.returncode, 'lines': len(outl)}, tags=['cli'])
        else:
            cts = [json.loads(ol)['attr']['command']['filter']['f'] for ol in outl]
            if cts[-3:] != cts[:3]:
                chk.violate('equal plaintexts far apart in one run got different ciphertexts', {'first': cts[:3], 'again': cts[-3:]}, tags=['determinism', 'longrun'])
            for v, ct in list(zip(vals, cts))[-3:] + list(zip(vals, cts))[255:258] + list(zip(vals, cts))[1023:1026] + list(zip(vals, cts))[2047:2050]:
                pr = subprocess.run([CLI, 'decrypt', '--decryptionKeyFile', keyf, '--', ct], stdin=subprocess.DEVNULL, capture_output=True)
                marker = b'Raw value: '
                got = pr.stdout[pr.stdout.find(marker) + len(marker):-1] if marker in pr.stdout else None
                chk.count()
                if pr.returncode != 0 or got != v.encode('utf-8'):
                    chk.violate('decrypt does not return the original string (long run)', {'plaintext': v, 'got': (got or b'').decode('utf-8', 'replace')}, tags=['roundtrip', 'longrun'])
    chk.streams.append({'stream': 'one run over many distinct values followed by repeats', 'values': len(vals)})
    # the same round trip when the input comes from Atlas (the other input channel of `redact --encrypt`)
    from vlib import atlaslib, streamlib
    secrets = ['AtlasSecret Zq77qZ', 'héllo wörld 中', '']
    alines = [json.dumps({'t': {'$date': '2020-01-01T00:00:00.000+00:00'}, 's': 'I', 'c': 'COMMAND', 'id': 1, 'ctx': 'c', 'msg': 'Slow query', 'attr': {'ns': 'd.c', 'command': {'find': 'c', 'filter': {'f': s}}}}, ensure_ascii=False).encode() for s in secrets]
    hosts = ['h0.ex.net:27017', 'h1.ex.net:27017']
    world = {'challenge': 'digest', 'cluster_st': 200, 'cluster_body': json.dumps({'connectionStrings': {'standard': atlaslib.conn_string(hosts)}}),
             'hosts': [{'status': 200, 'body': base64.b64encode(streamlib.gz_bytes(b'\n'.join(alines) + b'\n')).decode(), 'cut': -1} for _ in hosts]}
    r = atlaslib.run_cli(world, flags=['--encrypt'])
    chk.count(); chk.traces += 1
    case = {'channel': 'atlas', 'rc': r['rc'], 'files': sorted(r['outs']), 'stderr': r['stderr'].decode('utf-8', 'replace')[-200:]}
    keyb = r['outs'].get('anonymongo.enc.key')
    if r['rc'] != 0 or keyb is None or 'out.log.0' not in r['outs']:
        chk.violate('redact --encrypt in Atlas mode did not produce ciphertext output and a key file', case, tags=['atlas'])
    else:
        with tempfile.TemporaryDirectory() as d:
            kf = os.path.join(d, 'k.key'); open(kf, 'wb').write(keyb)
            for i in (0, 1):
                outl = r['outs']['out.log.%d' % i].split(b'\n')[:-1]
                for s, ol in zip(secrets, outl):
                    chk.count(); chk.nontriv(('atlas', i, s))
                    try: ct = json.loads(ol)['attr']['command']['filter']['f']
                    except Exception: ct = None
                    p = subprocess.run([CLI, 'decrypt', '--decryptionKeyFile', kf, '--', ct or 'x'], stdin=subprocess.DEVNULL, capture_output=True)
                    marker = b'Raw value: '
                    got = p.stdout[p.stdout.find(marker) + len(marker):-1] if marker in p.stdout else None
                    if ct is None or ct == s and s != '' or p.returncode != 0 or got != s.encode('utf-8'):
                        chk.violate('Atlas input: the emitted value does not decrypt to the original', dict(case, plaintext=s, emitted=str(ct)[:80], got=(got or b'').decode('utf-8', 'replace')[:80]), tags=['atlas', 'roundtrip'])
    chk.streams.append({'stream': 'redact --encrypt with Atlas input -> decrypt', 'hosts': 2, 'strings': len(secrets)})
    chk.sample({'plaintext': strings[4], 'slots': 'filter / $set array / inserted document / $match.$in'}); chk.sample({'plaintext': strings[0], 'note': 'empty string'})
    chk.assumptions += ["dec k (enc k m) = Some m and authenticity are assumptions about Tink's AES-SIV (premises of the theorems), not proved; the CLI stream exercises the real primitive"]
