"""C07 - no line content can crash or abort a run."""
import random, tempfile, os
from vlib import streams, streamlib, jtree, gen
from vlib.run import *

def run(chk, replay=None):
    rng = random.Random(chk.seed)
    th = chk.tier == 'thorough'
    LIM = streams.line_limit()
    good = [l for l, _ in streams.grammar_lines(rng, 40, 0.1) + streams.fixture_lines()]
    odd = [l for l, _ in streams.degenerate_lines() + streams.search_lines(rng, None if th else 450) + streams.byte_lines(rng, good, 2500 if th else 500) + streams.wrapper_lines(rng, 3000 if th else 600)]
    odd = [l for l, _ in streams.corpus_lines() + streams.anyjson_lines(rng, 1200 if th else 350) + streams.grammar_lines(rng, 1200 if th else 300, 0.2)] + [gen.plan_line(rng, rng.choice(['mydb.users', 'd.c', 'other.x'])) for _ in range(400 if th else 150)] + odd
    # extreme nesting and long-but-legal lines
    for d in ((100, 1000, 5000, 20000) if th else (100, 1000, 5000)):
        odd.append(b'{"c":"COMMAND","attr":{"command":{"filter":' + b'{"a":' * d + b'1' + b'}' * d + b'}}}')
        odd.append(b'{"c":"COMMAND","attr":{"command":{"pipeline":' + b'[' * d + b']' * d + b'}}}')
        odd.append(b'{"c":"COMMAND","attr":{"command":{"filter":' + b'{"a":' * d)
    odd.append(b'{"c":"COMMAND","attr":{"command":{"filter":{"a":"' + b'x' * 65000 + b'"}}}}')
    cfgs = [Cfg(), Cfg(nums=True, bools=True, ips=True, nss=True), Cfg(eager=['', 'd', 'mydb'], repl='R'), Cfg(re='^(a|f|ssn)$'), Cfg(encrypt=True, key=streams.KEY)]
    chk.rule = ("byte strings up to the reader's limit: mutations of real lines (truncation, token insertion / deletion / replacement, bit flips, deep wrapping), every JSON token class in "
                "first position, every value kind under every extended-JSON wrapper and every vocabulary operator in the three walkers, extreme nesting; each placed in a multi-line log; "
                "x flag sets incl. field-name, selective and encryption modes; non-trivial = distinct (flags, line) pairs whose line is not emitted unchanged")
    g1, g2 = good[0], good[1]
    for ci, cfg in enumerate(cfgs):
        sub = odd if ci < 2 or th else odd[: len(odd) // 3]
        res = run_lines(cfg, sub)
        base = dict(zip([g1, g2], [io for io, _ in run_lines(cfg, [g1, g2])]))
        for l, (io, mo) in zip(sub, res):
            chk.count(); chk.traces += 1
            pi = 'OUT' if isinstance(io, bytes) else io.split(':')[0]
            pm = 'OUT' if isinstance(mo, bytes) else mo
            if mo != 'TABLEMISS' and pi != pm:
                chk.disagree('emitted / skipped', {'cfg': cfg.describe(), 'line': l[:300].decode('utf-8', 'replace')}, pi, pm)
            if io != l: chk.nontriv((ci, l))
            if (pi == 'PANIC' or (isinstance(io, bytes) and jtree.parse(io) is None and l.count(b'{') + l.count(b'[') < 400)) and not getattr(chk, '_shrunk', False):
                chk._shrunk = True
                from vlib import shrink
                def fails(b, cfg=cfg):
                    o = shrink.impl_line(cfg, b)
                    return (isinstance(o, str) and o.startswith('PANIC')) or (isinstance(o, bytes) and jtree.parse(o) is None)
                sb = shrink.shrink_line(l, fails)
                if sb != l:
                    chk.violate('panic or malformed output (shrunk witness)', {'cfg': cfg.describe(), 'shrunk_input': sb.decode('utf-8', 'replace'), 'result': str(shrink.impl_line(cfg, sb))[:600]}, tags=['panic' if pi == 'PANIC' else 'malformed'])
            if pi == 'PANIC':
                chk.violate('panic on a line', {'cfg': cfg.describe(), 'line': l[:1000].decode('utf-8', 'replace'), 'message': io}, tags=['panic'])
            elif isinstance(io, bytes):
                if b'\n' in io or b'\r' in io or (jtree.parse(io) is None and l.count(b'{') + l.count(b'[') < 400):
                    chk.violate('emitted line is not one well-formed JSON line', {'cfg': cfg.describe(), 'line': l[:500].decode('utf-8', 'replace'), 'out': io[:500].decode('utf-8', 'replace')}, tags=['malformed'])
        # each odd line placed inside a 3-line log: the run continues and the neighbours are emitted as usual
        pos_cases, meta = [], []
        for l in rng.sample(sub, min(len(sub), 400 if th else 120)):
            if LIM is not None and len(l) > LIM - 1: continue
            for pos in range(3):
                ls = [g1, g2]; ls.insert(pos, l)
                pos_cases.append({'data': b'\n'.join(ls) + b'\n'}); meta.append((l, pos))
        ir = streamlib.impl_stream(cfg, pos_cases)
        perline = dict(zip(sub, [io for io, _ in res]))
        for (l, pos), (icls, iout, _) in zip(meta, ir):
            chk.count()
            ls = [g1, g2]; ls.insert(pos, l)
            if b'\n' in l or b'\r' in l: continue
            exp = b''.join((x + b'\n') for x in [(base.get(y) if y in base else perline.get(y)) for y in ls] if isinstance(x, bytes))
            if icls != 'ok' or iout != exp:
                chk.violate('a line disturbed the rest of the run', {'cfg': cfg.describe(), 'position': pos, 'line': l[:500].decode('utf-8', 'replace'), 'result': icls, 'output': iout[:300].decode('utf-8', 'replace')}, tags=['abort', icls])
        chk.streams.append({'stream': 'odd lines alone and at every position of a 3-line log', 'cfg': cfg.describe(), 'lines': len(sub), 'positioned': len(pos_cases)})
    # the reader's limit (measured on the compiled program, not assumed): lengths around it, terminated / unterminated / CRLF
    cfg = Cfg()
    lim = []
    for n in ((LIM - 3, LIM - 2, LIM - 1, LIM, LIM + 1, LIM + 4464) if LIM is not None else (65535, 65536, 70000, 300000)):
        frame = b'{"c":"X","attr":{"p":""}}'
        body = b'{"c":"X","attr":{"p":"' + b'y' * (n - len(frame)) + b'"}}'
        assert len(body) == n
        for tail in (b'\n', b'', b'\r\n'):
            lim.append({'data': g1 + b'\n' + body + tail + (g2 + b'\n' if tail else b''), 'chunk': rng.choice([0, 1000, 4096])})
    ir = streamlib.impl_stream(cfg, lim); mr = streamlib.model_stream(cfg, lim)
    g1o = [io for io, _ in run_lines(cfg, [g1])][0]
    for c, (icls, iout, _), (mcls, mout) in zip(lim, ir, mr):
        chk.count(); chk.traces += 1
        case = {'len': len(c['data']), 'chunk': c['chunk']}
        if (icls, iout) != (mcls, mout):
            chk.disagree('reader limit', case, (icls, len(iout)), (mcls, len(mout)))
        if icls == 'toolong':
            if iout != g1o + b'\n': chk.violate('over-long line: something of it (or after it) was written', case, tags=['toolong'])
        elif icls != 'ok':
            chk.violate('unexpected result at the reader limit', dict(case, result=icls), tags=['toolong'])
    # through the CLI: exit status 1 (not 2 = panic) on an over-long line, 0 otherwise
    with tempfile.TemporaryDirectory() as d:
        f = os.path.join(d, 'in.log')
        open(f, 'wb').write(g1 + b'\n' + b'z' * ((LIM or 70000) + 4464) + b'\n' + g2 + b'\n')
        rc, so, se = streamlib.cli_run(['redact', f])
        chk.count()
        if (rc == 0 or streamlib.crashed(rc, se) or so != g1o + b'\n') if LIM is not None else (rc != 0):
            chk.violate('CLI: over-long line not reported as an explicit error', {'rc': rc, 'stdout': so[:200].decode('utf-8', 'replace'), 'stderr': se[-200:].decode('utf-8', 'replace')}, tags=['cli', 'toolong'])
        open(f, 'wb').write(b'\n'.join([g1] + rng.sample(odd[:300], 40) + [g2]) + b'\n')
        rc, so, se = streamlib.cli_run(['redact', f, '-n', '-w'])
        chk.count()
        if rc != 0:
            chk.violate('CLI: run aborted on odd lines', {'rc': rc, 'stderr': se[-400:].decode('utf-8', 'replace')}, tags=['cli', 'abort'])
    # blank, garbage and non-object lines in the MIDDLE of a log, through every input channel and both output channels (the progress
    # bar only exists with --outputFile; its maximum is counted on the file as stored, so on a .gz input it is reached early)
    cfg = Cfg(nums=True)
    mids = [b'', b'', b'   ', b'\t', b'not json at all', b'[1,2]', b'"s"', b'5', b'{"a":1', b'2024-01-01T00:00:00.000+0000 I NETWORK  [conn1] end connection']
    for rep in range(6 if th else 3):
        ls = []
        for i in range(rng.choice([12, 40, 150])):
            ls.append(rng.choice(good))
            if rng.random() < 0.4: ls.append(rng.choice(mids))
            if rng.random() < 0.1: ls += [b'', b'']
        ls += [b'', good[0], b'', b'', good[1]]
        data = b'\n'.join(ls) + rng.choice([b'\n', b'', b'\n\n'])
        want = streamlib.impl_stream(cfg, [{'data': data}])[0][1]
        mwant = streamlib.model_stream(cfg, [{'data': data}])[0][1]
        chk.count(); chk.traces += 1
        if want != mwant: chk.disagree('log with interior blank / garbage lines', {'lines': len(ls)}, len(want), len(mwant))
        with tempfile.TemporaryDirectory() as d:
            chans = {'file': (os.path.join(d, 'in.log'), data), 'gz': (os.path.join(d, 'a.log.gz'), streamlib.gz_bytes(data)), 'gz3': (os.path.join(d, 'b.log.GZ'), streamlib.gz_bytes(data, members=3))}
            for chan, (f, raw) in chans.items():
                open(f, 'wb').write(raw)
                for outc in ('stdout', 'ofile'):
                    o = os.path.join(d, 'out_%s_%s' % (chan, outc))
                    rc, so, se = streamlib.cli_run(['redact', f] + cfg.cli_flags() + (['-o', o] if outc == 'ofile' else []))
                    got = open(o, 'rb').read() if outc == 'ofile' and os.path.exists(o) else so
                    chk.count()
                    if rc != 0 or got != want:
                        nl = got.count(b'\n')
                        chk.violate('CLI: blank or odd lines inside a log stopped the run early or disturbed other lines', {'channel': chan, 'output': outc, 'rc': rc, 'lines_in': len(ls),
                                    'lines_out': nl, 'lines_expected': want.count(b'\n'), 'first_lines': [l.decode('utf-8', 'replace')[:80] for l in ls[:8]], 'stderr': se[-200:].decode('utf-8', 'replace')}, tags=['cli', 'abort', chan, outc])
    chk.streams.append({'stream': 'CLI: logs with interior blank / garbage lines x {file, gzip, 3-member gzip} x {stdout, --outputFile}', 'logs': 6 if th else 3})
    # the whole command (Model/Job.v: main.go's Run end to end) against the CLI on small worlds (incl. inputs with a line over the limit): exit status, file system, standard output
    from vlib import joblib
    jrng = random.Random(chk.seed * 7919 + 707)
    jpool = [l for l, _ in streams.grammar_lines(jrng, 25, 0.1) + streams.fixture_lines()[:8]]
    joblib.correspondence(chk, jrng, 200 if chk.tier == 'thorough' else 80, jpool)
    chk.sample({'line': odd[7][:200].decode('utf-8', 'replace')}); chk.sample({'line': odd[-20][:200].decode('utf-8', 'replace')})
    chk.assumptions += ["stack depth and memory for extreme nesting are runtime behaviour: exercised up to 20,000 levels, not modelled",
                        "key paths handed to the scalar step are non-empty by construction in the model (init ++ [last]); the absence of other panics rests on the harness observing none"]
