"""C10 - encryption is deterministic, injective, placeholder-equivalent and fail-closed."""
import random, subprocess, tempfile, os, base64
from vlib import jtree, streams
from vlib.run import *

def diff_positions(a, b):
    """index paths at which two outputs differ; None if shapes differ"""
    ta, tb = jtree.parse(a), jtree.parse(b)
    if ta is None or tb is None: return None
    la, lb = list(jtree.leaves(ta)), list(jtree.leaves(tb))
    if [x[0] for x in la] != [x[0] for x in lb]: return None
    return [(x[0], x[3], y[3]) for x, y in zip(la, lb) if x[3] != y[3]]

def run(chk, replay=None):
    rng = random.Random(chk.seed)
    th = chk.tier == 'thorough'
    cases = streams.fixture_lines() + streams.crossclass_lines()[::2] + streams.long_value_lines() + streams.grammar_lines(rng, 1500 if th else 300, 0.1)
    # repeated and near-duplicate literals across lines
    lines = [l for l, _ in cases]
    lines += [l.replace(b'Zq1qZ', b'Zq2qZ') for l in lines[:40]] + lines[:20]
    streams.note_distribution(chk, cases)
    chk.rule = ("grammar lines (with repeated / near-duplicate literals) under paired configurations: same flags, placeholder mode vs encrypt mode; "
                "non-trivial = distinct (flags, line) pairs in which at least one leaf is encrypted")
    keys = [streams.KEY, bytes(range(64, 128))]
    flagsets = [dict(), dict(nums=True, bools=True, ips=True, nss=True), dict(repl='X"y', nums=True)]
    all_ct = {}
    for fi, fl in enumerate(flagsets):
        key = keys[fi % len(keys)]
        cp, ce = Cfg(**fl), Cfg(encrypt=True, key=key, **fl)
        rp, re_ = run_lines(cp, lines), run_lines(ce, lines)
        re2 = run_lines(ce, lines)   # a second, separate process: determinism across runs
        # decrypt every differing leaf through the implementation's Decrypt
        todo = []
        per_line = []
        for l, (ip_, mp), (ie, me), (ie2, _) in zip(lines, rp, re_, re2):
            chk.count(); chk.traces += 1
            if ie != me or ip_ != mp: chk.drift += 1
            case = {'flags': cp.describe(), 'input': l.decode('utf-8', 'replace')}
            if not isinstance(ip_, bytes) or not isinstance(ie, bytes):
                if (ip_ if not isinstance(ip_, bytes) else 'OUT') != (ie if not isinstance(ie, bytes) else 'OUT'):
                    chk.violate('line emitted in one mode only', case, tags=['lines'])
                per_line.append(None); continue
            if ie != ie2:
                chk.violate('encrypt-mode output differs between two runs with the same key', case, tags=['determinism'])
            di = diff_positions(ip_, ie)
            dm = diff_positions(mp, me) if isinstance(mp, bytes) and isinstance(me, bytes) else 'NA'
            pi = None if di is None else [d[0] for d in di]
            pm = None if dm in (None, 'NA') else [d[0] for d in dm]
            if pi != pm:
                chk.disagree('positions differing between the two modes', case, str(pi)[:300], str(pm)[:300])
            if di is None:
                chk.violate('modes differ in shape', case, tags=['shape']); per_line.append(None); continue
            if di: chk.nontriv((fi, l))
            per_line.append((l, di))
            for (ipth, pv, ev) in di:
                todo.append((l, ipth, pv, ev))
        reqs = []
        for (l, ipth, pv, ev) in todo:
            try:
                raw = base64.b64decode(ev, validate=True) if isinstance(ev, str) else None
            except Exception:
                raw = None
            reqs.append({"op": "dec", "s": b64(raw if raw is not None else b''), "key": b64(key)})
        dres = run_harness(reqs) if reqs else []
        for (l, ipth, pv, ev), dr in zip(todo, dres):
            tin = jtree.parse(l)
            leaf = tin
            for i in ipth:
                leaf = leaf[i][1] if jtree.kind(leaf) == 'obj' else leaf[i]
            case = {'flags': cp.describe(), 'input': l.decode('utf-8', 'replace'), 'path': list(ipth), 'plain_mode': str(pv), 'encrypt_mode': str(ev)}
            if not isinstance(leaf, str) or not isinstance(pv, str):
                chk.violate('modes differ at a non-string leaf', case, tags=['nonstring']); continue
            if 'pt' not in dr or unb64(dr['pt']).decode('utf-8', 'replace') != leaf:
                chk.violate('encrypt-mode leaf does not decrypt to the input leaf', case, tags=['roundtrip'])
            else:
                prev = all_ct.setdefault((fi, ev), leaf)
                if prev != leaf: chk.violate('two plaintexts share a ciphertext', case, tags=['injective'])
                chk.dist('encrypted_leaves')
        # equal plaintexts give equal ciphertexts across lines
        seen = {}
        for (l, ipth, pv, ev) in todo:
            tin = jtree.parse(l); leaf = tin
            for i in ipth: leaf = leaf[i][1] if jtree.kind(leaf) == 'obj' else leaf[i]
            if isinstance(leaf, str):
                if seen.setdefault(leaf, ev) != ev:
                    chk.violate('equal plaintexts gave different ciphertexts', {'plaintext': leaf}, tags=['determinism'])
        chk.streams.append({'stream': 'mode pair', 'flags': cp.describe(), 'lines': len(lines), 'encrypted_leaves': len(todo)})
    # fail closed: unusable key material injected at the API level -> output must equal placeholder mode
    sub = lines[:150]
    base = run_lines(Cfg(), sub)
    for bad in [b'', b'x' * 63, b'y' * 65, b'short']:
        rb = run_lines(Cfg(encrypt=True, key=bad), sub)
        for l, (ib, mb), (ip_, _) in zip(sub, rb, base):
            chk.count()
            if ib != mb: chk.disagree('fail-closed output', {'key_len': len(bad), 'input': l.decode('utf-8', 'replace')}, str(ib)[:300], str(mb)[:300])
            if ib != ip_:
                chk.violate('unusable key: output is not the placeholder-mode output', {'key_len': len(bad), 'input': l.decode('utf-8', 'replace'), 'output': ib.decode('utf-8', 'replace') if isinstance(ib, bytes) else ib}, tags=['failclosed'])
    chk.streams.append({'stream': 'unusable keys (0, 63, 65, 5 bytes) via SetEncryptionKey', 'lines': len(sub)})
    # two separate CLI processes with one key file
    with tempfile.TemporaryDirectory() as d:
        inp = os.path.join(d, 'in.log'); open(inp, 'wb').write(b'\n'.join(lines[:60]) + b'\n')
        keyf = os.path.join(d, 'k.key')
        outs = []
        for i in range(2):
            o = os.path.join(d, 'out%d' % i)
            p = subprocess.run([CLI, 'redact', inp, '-o', o, '-y', '-q', keyf], stdin=subprocess.DEVNULL, capture_output=True)
            outs.append(open(o, 'rb').read() if os.path.exists(o) else b'<none rc=%d>' % p.returncode)
            chk.count()
        # ... and two more through a symbolic link to that key file, and one from another working directory: same key, same ciphertexts
        link = os.path.join(d, 'link.key'); os.symlink(keyf, link)
        for i, (kp, cwd) in enumerate(((link, d), (link, d), (keyf, '/'))):
            o = os.path.join(d, 'outl%d' % i)
            p = subprocess.run([CLI, 'redact', inp, '-o', o, '-y', '-q', kp], stdin=subprocess.DEVNULL, capture_output=True, cwd=cwd)
            got = open(o, 'rb').read() if os.path.exists(o) else b'<none rc=%d>' % p.returncode
            chk.count()
            if got != outs[0]:
                chk.violate('a run with the same key (reached through a symbolic link / from another directory) gives different ciphertexts', {'variant': i, 'out0': outs[0][:200].decode('utf-8', 'replace'), 'got': got[:200].decode('utf-8', 'replace')}, tags=['cli', 'keypath'])
        # ... and two runs naming the key by other spellings of a relative path (a directory literally called '~', './', 'sub/../'):
        # each spelling names ONE file; the second run must find the key the first one stored, so the ciphertexts agree
        for sp in ('~/k2.key', './k3.key', 'sub/../k4.key', '~k5.key', 'k6 .key'):
            os.makedirs(os.path.join(d, '~'), exist_ok=True); os.makedirs(os.path.join(d, 'sub'), exist_ok=True)
            pair = []
            for i in range(2):
                o = os.path.join(d, 'outs%d' % i)
                if os.path.exists(o): os.remove(o)
                p = subprocess.run([CLI, 'redact', inp, '-o', o, '-y', '--encryptionKeyFile=' + sp], stdin=subprocess.DEVNULL, capture_output=True, cwd=d, env={'PATH': '/usr/bin:/bin', 'HOME': os.path.join(d, 'home')})
                pair.append(open(o, 'rb').read() if os.path.exists(o) else b'<none rc=%d>' % p.returncode)
                chk.count()
            if pair[0] != pair[1] or not pair[0] or b'<none' in pair[0]:
                chk.violate('two runs naming the same key file (by a relative spelling) give different ciphertexts', {'key_path_as_given': sp, 'run1': pair[0][:160].decode('utf-8', 'replace'), 'run2': pair[1][:160].decode('utf-8', 'replace')}, tags=['cli', 'keypath', 'determinism'])
        if outs[0] != outs[1] or not outs[0]:
            chk.violate('two CLI runs with one key file differ', {'out0': outs[0][:300].decode('utf-8', 'replace'), 'out1': outs[1][:300].decode('utf-8', 'replace')}, tags=['cli'])
    # the other input channel of `redact --encrypt`: Atlas. First run creates the key file, the second one finds it: same ciphertexts,
    # and they differ from the placeholder-mode output exactly at string leaves
    from vlib import atlaslib, streamlib
    import json as _json, base64 as _b64
    asec = ['AtlasSecret Zq78qZ', 'second Zq79qZ', 'AtlasSecret Zq78qZ']
    alines = [_json.dumps({'t': {'$date': '2020-01-01T00:00:00.000+00:00'}, 's': 'I', 'c': 'COMMAND', 'id': 1, 'ctx': 'c', 'msg': 'Slow query', 'attr': {'ns': 'd.c', 'command': {'find': 'c', 'filter': {'f': x, 'n': 5}}}}).encode() for x in asec]
    hosts = ['h0.ex.net:27017', 'h1.ex.net:27017']
    world = {'challenge': 'digest', 'cluster_st': 200, 'cluster_body': _json.dumps({'connectionStrings': {'standard': atlaslib.conn_string(hosts)}}),
             'hosts': [{'status': 200, 'body': _b64.b64encode(streamlib.gz_bytes(b'\n'.join(alines) + b'\n')).decode(), 'cut': -1} for _ in hosts]}
    r0 = atlaslib.run_cli(world, flags=[])
    r1 = atlaslib.run_cli(world, flags=['--encrypt'])
    keyb = r1['outs'].get('anonymongo.enc.key')
    chk.count(); chk.traces += 1
    if r1['rc'] != 0 or keyb is None or 'out.log.0' not in r1['outs'] or 'out.log.0' not in r0['outs']:
        chk.violate('Atlas mode: redact --encrypt did not produce output files and a key file', {'rc': r1['rc'], 'files': sorted(r1['outs']), 'stderr': r1['stderr'].decode('utf-8', 'replace')[-200:]}, tags=['atlas'])
    else:
        r2 = atlaslib.run_cli(world, flags=['--encrypt'], pre_outs={'anonymongo.enc.key': keyb})
        for name in ('out.log.0', 'out.log.1'):
            a, b, pl = r1['outs'].get(name, b''), r2['outs'].get(name, b''), r0['outs'].get(name, b'')
            chk.count(); chk.nontriv(('atlas-runs', name))
            if a != b or not a:
                chk.violate('Atlas mode: the run that creates the key file and the next run with that key file give different output', {'file': name, 'first': a[:300].decode('utf-8', 'replace'), 'second': b[:300].decode('utf-8', 'replace')}, tags=['atlas', 'cli', 'determinism'])
            for la, lp, x in zip(a.split(b'\n'), pl.split(b'\n'), asec):
                try: fa, fp = _json.loads(la)['attr']['command']['filter'], _json.loads(lp)['attr']['command']['filter']
                except Exception: fa, fp = {}, {}
                chk.count()
                if fa.get('f') in (None, x, fp.get('f')) or fa.get('n') != fp.get('n'):
                    chk.violate('Atlas mode with --encrypt: a sensitive string leaf is not a ciphertext (or a non-string leaf differs from placeholder mode)', {'file': name, 'encrypt_mode': la[:300].decode('utf-8', 'replace'), 'placeholder_mode': lp[:300].decode('utf-8', 'replace')}, tags=['atlas', 'cli', 'modes'])
        l0 = r1['outs']['out.log.0'].split(b'\n')
        try:
            if _json.loads(l0[0])['attr']['command']['filter']['f'] != _json.loads(l0[2])['attr']['command']['filter']['f'] or _json.loads(l0[0])['attr']['command']['filter']['f'] == _json.loads(l0[1])['attr']['command']['filter']['f']:
                chk.violate('Atlas mode with --encrypt: equal plaintexts / different plaintexts not reflected in the ciphertexts', {'lines': [x[:200].decode('utf-8', 'replace') for x in l0[:3]]}, tags=['atlas', 'cli', 'determinism'])
        except Exception:
            pass
    chk.streams.append({'stream': 'Atlas input with --encrypt: key-creating run vs next run vs placeholder run', 'hosts': 2, 'lines': len(alines)})
    # the whole command (Model/Job.v: main.go's Run end to end) against the CLI on small worlds: exit status, file system and standard output
    from vlib import joblib
    jrng = random.Random(chk.seed * 7919 + 1010)
    jpool = [l for l, _ in streams.grammar_lines(jrng, 25, 0.1) + streams.fixture_lines()[:8]]
    joblib.correspondence(chk, jrng, 240 if chk.tier == 'thorough' else 90, jpool)
    chk.sample({'flags': flagsets[1], 'input': lines[31].decode('utf-8', 'replace')[:500]})
    chk.assumptions += ["AES-SIV (Tink) is abstract in the model: the theorem holds for every encryption function; injectivity is derived from decryptability",
                        "ciphertexts for the model side are computed with the repository's Encrypt through the harness"]
