"""C02 - output is independent of the redacted values (non-interference)."""
import random
from vlib import streams, gen
from vlib.run import *

def run(chk, replay=None):
    th = chk.tier == 'thorough'
    v = streams.vocab()
    n = 2500 if th else 450
    chk.rule = ("pairs (L, L') of grammar-generated command lines with identical structure (same structural seed) whose sensitive literals are re-drawn within their lexical class "
                "(generic strings of length 0..20,000 with JSON metacharacters, e-mail-shaped strings, any string under $date / $oid / $binary.base64; any number when --redactNumbers; "
                "any boolean when --redactBooleans) x placeholder-mode flag sets; non-trivial = distinct pairs with L != L'")
    cfgs = [Cfg(), Cfg(nums=True, bools=True), Cfg(repl='X"<y', nums=True, ips=True, nss=True), Cfg(bools=True, repl='')]
    for ci, cfg in enumerate(cfgs):
        pairs = []
        for i in range(n):
            seed = chk.seed * 1000003 + ci * 7919 + i
            a, ia = gen.command_line(random.Random(seed), v)
            b, _ = gen.command_line(random.Random(seed), v, lit_rng=random.Random(seed ^ 0x5eed), vary_nums=cfg.nums, vary_bools=cfg.bools)
            pairs.append((a, b, ia))
        ra = run_lines(cfg, [a for a, _, _ in pairs]); rb = run_lines(cfg, [b for _, b, _ in pairs])
        for (a, b, ia), (ioa, moa), (iob, mob) in zip(pairs, ra, rb):
            chk.count(2); chk.traces += 2
            if a != b: chk.nontriv((ci, a)); chk.dist('pairs_differing')
            for k, cnt in ia['stats'].items(): chk.dist(k, cnt)
            if ioa != moa or iob != mob: chk.drift += 1
            ei, em = (ioa == iob), (moa == mob)
            if ei != em:
                chk.disagree('equality of the two outputs', {'cfg': cfg.describe(), 'L': a.decode('utf-8', 'replace')[:1500], 'L2': b.decode('utf-8', 'replace')[:1500]}, ei, em)
            if not ei:
                i = next((i for i in range(min(len(ioa), len(iob))) if ioa[i] != iob[i]), 0) if isinstance(ioa, bytes) and isinstance(iob, bytes) else 0
                chk.violate('outputs of two lines that differ only in sensitive literal contents differ', {'cfg': cfg.describe(), 'L': a.decode('utf-8', 'replace')[:3000], 'L2': b.decode('utf-8', 'replace')[:3000],
                            'out_L_around': ioa[max(0, i - 150):i + 80].decode('utf-8', 'replace') if isinstance(ioa, bytes) else ioa,
                            'out_L2_around': iob[max(0, i - 150):i + 80].decode('utf-8', 'replace') if isinstance(iob, bytes) else iob}, tags=['interference'])
        chk.streams.append({'stream': 'paired lines', 'cfg': cfg.describe(), 'pairs': len(pairs)})
        if ci == 0:
            pairs0 = pairs      # literals of strings only vary (no --redactNumbers / --redactBooleans): reused for the CLI pass below
            # the same question through the stream processor (scanner / reader path): long variants first
            from vlib import streamlib
            sel = sorted([p for p in pairs if p[0] != p[1]], key=lambda p: -len(p[1]))[:25] + [p for p in pairs if p[0] != p[1]][:15]
            sel = [p for p in sel if len(p[0]) < 65000 and len(p[1]) < 65000]
            sa = streamlib.impl_stream(cfg, [{'data': a + b'\n'} for a, _, _ in sel]); sb = streamlib.impl_stream(cfg, [{'data': b + b'\n'} for _, b, _ in sel])
            for (a, b, _), (ca, oa, _), (cb, ob, _) in zip(sel, sa, sb):
                chk.count(2)
                if (ca, oa) != (cb, ob):
                    chk.violate('stream outputs of two lines that differ only in sensitive literal contents differ', {'cfg': cfg.describe(), 'L': a.decode('utf-8', 'replace')[:800], 'L2_len': len(b), 'L2': b.decode('utf-8', 'replace')[:800],
                                'out_L': oa[:200].decode('utf-8', 'replace'), 'out_L2': ob[:200].decode('utf-8', 'replace'), 'result_L': ca, 'result_L2': cb}, tags=['interference', 'stream'])
            chk.streams.append({'stream': 'paired lines through the stream processor', 'pairs': len(sel), 'longest': max([len(p[1]) for p in sel] or [0])})
    # literal contents that are not valid UTF-8 (a Latin-1 byte, a cut multi-byte sequence, an encoded surrogate, a code point past U+10FFFF, an overlong form):
    # still a string of the generic class - the reader replaces the bad bytes - so the line must come out exactly like its twin with a plain literal,
    # in-process and through the stream processor (where a line the parser refuses must not be copied through either)
    from vlib import streamlib as _sl0
    bad = [b'Ren\xe9e', b'\xff', b'caf\xc3', b'x\xed\xa0\x80y', b'\xf4\x90\x80\x80', b'\xc0\xaf', b'a\x80b\xbf', b'\xe4\xb8']
    tpls = [b'{"t":{"$date":"2024-01-01T00:00:00.000+00:00"},"s":"I","c":"COMMAND","id":51803,"ctx":"conn1","msg":"Slow query","attr":{"ns":"d.c","command":{"find":"c","filter":{"name":"%s"},"$db":"d"}}}',
            b'{"t":{"$date":"2024-01-01T00:00:00.000+00:00"},"s":"I","c":"WRITE","id":51803,"ctx":"conn1","msg":"Slow query","attr":{"ns":"d.c","command":{"q":{"_id":1},"u":{"$set":{"tags":["%s",5]}}}}}',
            b'{"t":{"$date":"2024-01-01T00:00:00.000+00:00"},"s":"I","c":"COMMAND","id":51803,"ctx":"conn1","msg":"Slow query","attr":{"ns":"d.c","command":{"aggregate":"c","pipeline":[{"$match":{"who":{"$in":["%s"]}}}],"$db":"d"}}}',
            b'{"t":{"$date":"2024-01-01T00:00:00.000+00:00"},"s":"I","c":"COMMAND","id":51803,"ctx":"conn1","msg":"Slow query","attr":{"ns":"d.c","command":{"insert":"c","documents":[{"note":{"text":"%s"}}],"$db":"d"}}}']
    cfg = Cfg()
    twins = [(t % b'plain words', t % x) for t in tpls for x in bad]
    ra = run_lines(cfg, [a for a, _ in twins]); rb = run_lines(cfg, [b for _, b in twins])
    sa = _sl0.impl_stream(cfg, [{'data': a + b'\n'} for a, _ in twins]); sb = _sl0.impl_stream(cfg, [{'data': b + b'\n' + a + b'\n'} for a, b in twins])
    for (a, b), (ioa, moa), (iob, mob), (ca, oa, _), (cb, ob, _) in zip(twins, ra, rb, sa, sb):
        chk.count(4); chk.nontriv(('badutf8', b)); chk.dist('pairs_invalid_utf8')
        if (ioa == iob) != (moa == mob):
            chk.disagree('equality of the two outputs (invalid UTF-8 twin)', {'L': a.decode('latin-1'), 'L2_hex': b.hex()}, ioa == iob, moa == mob)
        if ioa != iob:
            chk.violate('outputs of two lines that differ only in sensitive literal contents differ (the second literal is not valid UTF-8)',
                        {'cfg': cfg.describe(), 'L': a.decode('latin-1'), 'L2_hex': b.hex(), 'out_L': str(ioa)[:300], 'out_L2': str(iob)[:300]}, tags=['interference', 'invalid-utf8'])
        elif (cb, ob) != (ca, oa + oa):
            chk.violate('stream output for a line whose sensitive literal is not valid UTF-8 differs from that of its twin',
                        {'cfg': cfg.describe(), 'L': a.decode('latin-1'), 'L2_hex': b.hex(), 'out_L': oa[:300].decode('utf-8', 'replace'), 'out_L2': ob[:400].decode('latin-1'), 'result_L': ca, 'result_L2': cb}, tags=['interference', 'invalid-utf8', 'stream'])
    chk.streams.append({'stream': 'twins whose second literal is not valid UTF-8 (8 byte sequences x 4 places), in-process and through the stream processor', 'pairs': len(twins)})
    # under $date, $oid and $binary.base64 EVERY string is one lexical class: texts of every shape there (a date, 24 hex digits, base64, a UUID, an e-mail
    # address, a plain word, the empty string, a number, the placeholders themselves) must give one and the same output line
    shapes = ['2024-05-01T10:15:00.000Z', '0123456789abcdef01234567', 'QUJDREVGRw==', 'a657a630-1111-4000-8000-d01de73c37e7', 'zoe@corp.example', 'Xq77plainqX', '', '42', 'REDACTED',
              '1970-01-01T00:00:00.000Z', 'redacted@redacted.com', 'a@b.co', ' pad@x.io ', '$notafield'[1:]]
    import json as _json
    ctxs = {'date': '{"$date":%s}', 'oid': '{"$oid":%s}', 'base64': '{"$binary":{"base64":%s,"subType":"00"}}'}
    places = ['{"find":"c","filter":{"f":%s},"$db":"d"}', '{"update":"c","updates":[{"q":{"k":1},"u":{"$set":{"f":%s}}}],"$db":"d"}', '{"aggregate":"c","pipeline":[{"$match":{"f":{"$in":[%s]}}}],"$db":"d"}']
    for cname, ct in ctxs.items():
        for pi, pl in enumerate(places):
            ls = [('{"t":{"$date":"2020-01-01T00:00:00.000+00:00"},"s":"I","c":"COMMAND","id":51803,"ctx":"conn1","msg":"Slow query","attr":{"ns":"d.c","command":%s}}' % (pl % (ct % _json.dumps(x)))).encode() for x in shapes]
            for cfgk in (Cfg(), Cfg(repl='q', nums=True, bools=True)):
                res = run_lines(cfgk, ls)
                outs = [io for io, _ in res]; mouts = [mo for _, mo in res]
                chk.count(len(ls)); chk.nontriv(('wrapper-class', cname, pi, cfgk.describe()['repl']))
                if (len(set(outs)) == 1) != (len(set(mouts)) == 1):
                    chk.disagree('equality of the outputs for texts of every shape under one wrapper', {'wrapper': cname, 'place': pi}, len(set(outs)), len(set(mouts)))
                if len(set(outs)) != 1:
                    j = next(i for i, o in enumerate(outs) if o != outs[0])
                    chk.violate('outputs of two lines that differ only in the text under a %s wrapper differ' % cname, {'cfg': cfgk.describe(), 'L': ls[0].decode(), 'L2': ls[j].decode(),
                                'out_L': str(outs[0])[:400], 'out_L2': str(outs[j])[:400]}, tags=['interference', 'wrapper'])
    chk.streams.append({'stream': 'texts of 14 shapes under $date / $oid / $binary.base64 in three places: one output', 'shapes': len(shapes)})
    # through the CLI, in the surroundings a user may run it in: an empty working directory, one that holds a (valid) key file under the default
    # name left by an earlier `--encrypt` run, and with --encryptionKeyFile naming an existing key WITHOUT --encrypt. In placeholder mode the
    # two logs that differ only in their secrets must come out byte for byte the same in every one of them.
    import subprocess, tempfile, os, base64 as _b64
    from vlib import streamlib as _sl
    diff = [p for p in pairs0 if p[0] != p[1] and len(p[0]) < 60000 and len(p[1]) < 60000 and b'\n' not in p[0] and b'\n' not in p[1]][:60]
    logA = b'\n'.join(a for a, _, _ in diff) + b'\n'; logB = b'\n'.join(b for _, b, _ in diff) + b'\n'
    keytext = _b64.b64encode(bytes((i * 5 + 1) % 256 for i in range(64)))
    for surroundings in ('empty directory', 'default key file present', 'key file named without --encrypt', 'key file present, output to a file'):
        with tempfile.TemporaryDirectory() as d:
            open(os.path.join(d, 'a.log'), 'wb').write(logA); open(os.path.join(d, 'b.log'), 'wb').write(logB)
            extra = []
            if surroundings != 'empty directory': open(os.path.join(d, 'anonymongo.enc.key'), 'wb').write(keytext)
            if surroundings == 'key file named without --encrypt':
                open(os.path.join(d, 'my.key'), 'wb').write(keytext); extra = ['--encryptionKeyFile', 'my.key']
            outs = []
            for name in ('a.log', 'b.log'):
                if surroundings.endswith('output to a file'):
                    rc, so, se = _sl.cli_run(['redact', name, '-o', name + '.out'] + extra, cwd=d)
                    so = open(os.path.join(d, name + '.out'), 'rb').read() if os.path.exists(os.path.join(d, name + '.out')) else b''
                else:
                    rc, so, se = _sl.cli_run(['redact', name] + extra, cwd=d)
                outs.append((rc, so))
            chk.count(2); chk.nontriv(('cli-surroundings', surroundings))
            if outs[0] != outs[1] or outs[0][0] != 0:
                i = next((i for i in range(min(len(outs[0][1]), len(outs[1][1]))) if outs[0][1][i] != outs[1][1][i]), 0)
                chk.violate('CLI outputs of two logs that differ only in sensitive literal contents differ', {'surroundings': surroundings, 'rcs': [outs[0][0], outs[1][0]], 'pairs': len(diff),
                            'out_L_around': outs[0][1][max(0, i - 150):i + 80].decode('utf-8', 'replace'), 'out_L2_around': outs[1][1][max(0, i - 150):i + 80].decode('utf-8', 'replace')}, tags=['interference', 'cli'])
    chk.streams.append({'stream': 'CLI, placeholder mode, paired logs in four surroundings (key files lying around)', 'pairs': len(diff)})
    # the class test the walkers may legitimately apply to a value: model matcher vs IsEmail
    rng = random.Random(chk.seed)
    cand = []
    for _ in range(3000 if th else 800):
        k = rng.random()
        if k < 0.5: cand.append(gen.variant_string(rng, 'email'))
        elif k < 0.7: cand.append(gen.variant_string(rng, 'generic')[:300])
        else:
            loc = ''.join(rng.choice("ab.!#$%&'*+/=?^_`{|}~-@ \\\"<>") for _ in range(rng.randint(0, 70)))
            dom = '.'.join(''.join(rng.choice('ab0-') for _ in range(rng.choice([0, 1, 2, 63, 64]))) for _ in range(rng.randint(0, 4)))
            cand.append((loc + '@' + dom)[:rng.choice([2, 3, 254, 255, 400])])
    hres = run_harness([{"op": "email", "s": b64(x)} for x in cand])
    dres = run_driver(['EMAIL ' + hx(x) for x in cand])
    for x, h, d in zip(cand, hres, dres):
        chk.count(); chk.traces += 1
        if h['b'] != (d.strip() == '1'):
            chk.disagree('e-mail class test', {'value': x[:300]}, h['b'], d.strip() == '1')
    chk.streams.append({'stream': 'is_email model vs IsEmail', 'cases': len(cand)})
    a, b, _ = pairs[2]
    chk.sample({'L': a.decode('utf-8', 'replace')[:500], 'L2': b.decode('utf-8', 'replace')[:500]})
    chk.assumptions += ["placeholder mode without the selective and field-name modes; the theorem's similarity relation allows differences only on clear paths (see C01's note on key names)"]
