"""C14 - selective mode redacts exactly the values under a matching field name."""
import random, re
from vlib import jtree, streams, gen, zones
from vlib.run import *

SEARCH_STAGES = ('$search', '$searchMeta', '$vectorSearch', '$rankFusion')

def zone_paths(tin):
    """(index_path, key_path_inside_zone, kind, value, in_search_stage, array_siblings) for every leaf inside the query-bearing zones"""
    out = []
    attr = jtree.get(tin, 'attr')
    if attr is None or not zones.gate(tin): return out
    def walk(t, ip, kp, search, sibs):
        k = jtree.kind(t)
        if k == 'obj':
            for i, (key, v) in enumerate(t): walk(v, ip + (i,), kp + (key,), search or key in SEARCH_STAGES, None)   # a search stage at any depth ($facet, $lookup / $unionWith sub-pipelines, $rankFusion)
        elif k == 'arr':
            sib = [x for x in t if isinstance(x, str)]
            for i, v in enumerate(t): walk(v, ip + (i,), kp, search, sib)
        else:
            out.append((ip, kp, k, t, search, sibs))
    for ai, (ak, av) in enumerate(attr):
        if ak in zones.CMD_KEYS and jtree.kind(av) == 'obj':
            has_insert = jtree.get(av, 'insert') is not None
            for ci, (ck, cv) in enumerate(av):
                base = (('attr_idx', ai), ('cmd_idx', ci))
                if ck in ('query', 'filter', 'sort', 'q', 'update', 'u', 'updates', 'deletes') or (ck == 'documents' and has_insert):
                    walk(cv, (ak, ck), (), False, None)
                elif ck == 'pipeline' and jtree.kind(cv) == 'arr':
                    for si, st in enumerate(cv):
                        srch = jtree.kind(st) == 'obj' and any(k in SEARCH_STAGES for k, _ in st)
                        walk(st, (ak, ck, si), (), srch, None)
    return out

def get_by(t, ip):
    # ip = (cmdkey, zonekey, [stage idx], member/elem indexes...)
    cur = jtree.get(jtree.get(jtree.get(t, 'attr'), ip[0]), ip[1])
    for i in ip[2:]:
        if jtree.kind(cur) == 'obj': cur = cur[i][1]
        elif jtree.kind(cur) == 'arr': cur = cur[i]
        else: return '<<missing>>'
    return cur

def run(chk, replay=None):
    rng = random.Random(chk.seed)
    th = chk.tier == 'thorough'
    v = streams.vocab()
    table_words = set(v['all'])
    families = [('^(ssn|email|name)$', lambda n: n in ('ssn', 'email', 'name')), ('(?i)SSN|Tags', lambda n: re.search('(?i)SSN|Tags', n) is not None),
                ('uf_', lambda n: 'uf_' in n), ('^addr', lambda n: n.startswith('addr')), ('^zzz$', lambda n: n == 'zzz'),
                ('sn', lambda n: 'sn' in n), ('ag', lambda n: 'ag' in n), ('mail|core1$', lambda n: re.search('mail|core1$', n) is not None),
                # expressions that ALSO match names of operators and of their arguments (from, as, into, coll, limit, numCandidates, subType ...): those are names on the path like any other
                ('^(from|as|to|into|coll|db)$', lambda n: n in ('from', 'as', 'to', 'into', 'coll', 'db')), ('(?i)id|limit', lambda n: re.search('(?i)id|limit', n) is not None),
                ('^\\$?(lookup|match|in|set|limit|skip)$|Type$', lambda n: re.search(r'^\$?(lookup|match|in|set|limit|skip)$|Type$', n) is not None)]
    chk.rule = ("grammar-generated find / update / delete / insert / aggregate lines in which a subset of the user field names matches R, every operator wrapper and array nesting between the "
                "matching name and the literal; regexp families: anchored alternatives, case-insensitive, substring, prefix, no match; every literal class; "
                "non-trivial = distinct (regexp, line) pairs containing at least one matching and one non-matching name")
    cases = gen.dotted_vs_nested_lines() + streams.crossclass_lines() + streams.grammar_lines(rng, 2000 if th else 400, 0.0)    # the same literal under matching and non-matching names
    lines = [l for l, _ in cases]
    full = run_lines(Cfg(nums=True, bools=True), lines)
    for fi, (rx, pred) in enumerate(families):
        cfg = Cfg(re=rx, nums=True, bools=True)
        res = run_lines(cfg, lines)
        for (l, info), (io, mo), (fo, _) in zip(cases, res, full):
            chk.count(); chk.traces += 1
            if io != mo: chk.drift += 1
            tin = jtree.parse(l)
            if not isinstance(io, bytes) or not isinstance(fo, bytes) or tin is None: continue
            tout, tfull = jtree.parse(io), jtree.parse(fo)
            tm = jtree.parse(mo) if isinstance(mo, bytes) else None
            zl = zone_paths(tin)
            try:
                bits_i = [get_by(tout, ip) != val for ip, kp, k, val, s, sib in zl]
                bits_m = [get_by(tm, ip) != val for ip, kp, k, val, s, sib in zl] if tm is not None else None
            except Exception:
                continue
            if bits_m is not None and bits_i != bits_m:
                chk.disagree('changed / unchanged bit per zone leaf', {'re': rx, 'input': l.decode('utf-8', 'replace')[:2000]}, str(bits_i)[:200], str(bits_m)[:200])
            names_on = [n for n in info['names']]
            if any(pred(p) for n in names_on for p in [n]) and any(not pred(n) for n in names_on): chk.nontriv((fi, l))
            for (ip, kp, k, val, srch, sib), changed in zip(zl, bits_i):
                fullv = get_by(tfull, ip)
                full_redacts = fullv != val
                match = any(pred(key) for key in kp)
                # inside an Atlas Search stage the keys are operator and argument words (`in`, `value`, `operator`, `$uuid` ...), the FIELD names are given as `path`
                # values: a regexp that happens to match such a word names no field there (the per-operator rule decides, and may redact more - never asked for less)
                if srch and not any(pred(key) for key in kp if key not in table_words and not key.startswith('$')): match_field = False
                else: match_field = match
                sibmatch = bool(sib) and any(x.startswith('$') and pred(x[1:]) for x in sib)
                case = {'re': rx, 'path': list(kp), 'value': str(val)[:80], 'input': l.decode('utf-8', 'replace')[:2500]}
                if ((match_field and full_redacts and not changed) or (not match and not sibmatch and not srch and changed)) and not getattr(chk, '_shrunk', False):
                    chk._shrunk = True
                    from vlib import shrink
                    want_missed = (match_field and full_redacts and not changed)
                    def fails(b, cfg=cfg, pred=pred, want_missed=want_missed):
                        t = jtree.parse(b)
                        o, f2 = shrink.impl_line(cfg, b), shrink.impl_line(Cfg(nums=True, bools=True), b)
                        if t is None or not isinstance(o, bytes) or not isinstance(f2, bytes): return False
                        to, tf = jtree.parse(o), jtree.parse(f2)
                        try:
                            for ip2, kp2, k2, val2, srch2, sib2 in zone_paths(t):
                                ch2, fr2 = get_by(to, ip2) != val2, get_by(tf, ip2) != val2
                                m2 = any(pred(key) for key in kp2) and not (srch2 and not any(pred(key) for key in kp2 if key not in table_words and not key.startswith('$')))
                                sm2 = bool(sib2) and any(x.startswith('$') and pred(x[1:]) for x in sib2)
                                if want_missed and m2 and fr2 and not ch2: return True
                                if not want_missed and not m2 and not sm2 and not srch2 and ch2: return True
                        except Exception:
                            return False
                        return False
                    sb = shrink.shrink_line(l, fails)
                    case = dict(case, shrunk_input=sb.decode('utf-8', 'replace'), shrunk_output=str(shrink.impl_line(cfg, sb))[:600])
                if match_field and full_redacts and not changed:
                    chk.violate('a literal under a matching field name is not redacted', case, tags=['missed'] + (['search'] if srch else []) + (['vectorsearch_filter'] if any(kp[i:i + 2] == ('$vectorSearch', 'filter') for i in range(len(kp))) else []))
                if not match and not sibmatch and not srch and changed:
                    chk.violate('a literal whose path contains no matching name is altered', dict(case, new=str(get_by(tout, ip))[:80]), tags=['overredacted'])
                if changed: chk.dist('leaves_redacted')
                else: chk.dist('leaves_kept')
        chk.streams.append({'stream': 'selective mode, per-leaf bit, model vs implementation', 're': rx, 'cases': len(lines)})
    # the regular expression as it travels through the command line: -z VALUE must reach the matcher unchanged, whatever characters it holds
    import subprocess, tempfile, os, json as _json
    names = ['last,first', 'last', 'first', 'ssn', 'aa', 'a', 'na me', 'x.y', 'xzy', 'q"uote', "it's", 'back\\slash', 'semi;colon', 'pi|pe', 'star*', '-dash', 'per%cent', 'caf\u00e9']
    flt = {n: 'v%dZq' % i for i, n in enumerate(names)}
    flt['arr'] = {'$in': ['w1Zq', {n: 'w%dZq' % i for i, n in enumerate(names[:6])}]}
    wl = (_json.dumps({'t': {'$date': '2020-01-01T00:00:00.000+00:00'}, 's': 'I', 'c': 'COMMAND', 'id': 1, 'ctx': 'c', 'msg': 'Slow query', 'attr': {'ns': 'd.c', 'command': {'find': 'c', 'filter': flt, '$db': 'd'}}}, ensure_ascii=False) + '\n').encode()
    rxs = ['^(last,first|ssn)$', '^a{1,2}$', 'na me', '^x\\.y$', '^x.y$', 'q"uote', "it's", 'back\\\\slash', 'semi;colon', 'pi\\|pe', 'star\\*', '^-dash$', 'per%cent', 'caf\u00e9', '^(ssn)$,^(aa)$', ' ssn', 'ssn ', '[,]', '(?i)LAST,FIRST', '^(?:a|aa)$']
    with tempfile.TemporaryDirectory() as d:
        f = os.path.join(d, 'in.log'); open(f, 'wb').write(wl)
        for rx in rxs:
            want = run_lines(Cfg(re=rx), [wl.rstrip(b'\n')])[0][0]
            for form in (['-z', rx], ['--redactFieldsRegexp=' + rx]):
                p = subprocess.run([CLI, 'redact', f] + form, stdin=subprocess.DEVNULL, capture_output=True)
                chk.count(); chk.nontriv(('cli-regexp', rx, form[0][:3]))
                got = p.stdout.rstrip(b'\n')
                if p.returncode != 0 or not isinstance(want, bytes) or got != want:
                    chk.violate('the regular expression given on the command line does not select like the same expression handed to the matcher', {'regexp': rx, 'form': form[0].split('=')[0], 'rc': p.returncode,
                                'cli_output': got.decode('utf-8', 'replace')[:700], 'in_process_output': (want.decode('utf-8', 'replace') if isinstance(want, bytes) else str(want))[:700], 'stderr': p.stderr.decode('utf-8', 'replace')[-200:]}, tags=['cli', 'regexp'])
    chk.streams.append({'stream': 'CLI: -z / --redactFieldsRegexp= with commas, blanks, quotes, backslashes, alternations vs the in-process matcher', 'regexps': len(rxs)})
    chk.sample({'re': families[0][0], 'input': lines[7].decode('utf-8', 'replace')[:500]})
    chk.assumptions += ["the regular expression is abstract in the model (a predicate on names); for the correspondence run it is tabulated with Go's regexp on every name of the case",
                        "Atlas Search stages may redact more (as the property states); the documented '$field' sibling rule counts as a matching name",
                        "full statement over all positions is tied by this stream; the theorems characterise the decision point and the path bookkeeping"]
