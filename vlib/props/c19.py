"""C19 - redacted output is a fixed point of redaction."""
import random, tempfile, os, subprocess
from vlib import streams
from vlib.run import *

def run(chk, replay=None):
    rng = random.Random(chk.seed)
    th = chk.tier == 'thorough'
    cases = streams.corpus_lines() + streams.fixture_lines() + streams.crossclass_lines()[::2] + streams.long_value_lines() + streams.deep_lines()[::3] + streams.grammar_lines(rng, 2500 if th else 500, 0.1) + streams.anyjson_lines(rng, 1500 if th else 300) + streams.wrapper_lines(rng, 1500 if th else 300) + streams.search_lines(rng, None if th else 300)
    streams.note_distribution(chk, cases)
    chk.rule = ("grammar lines, arbitrary JSON lines and every value kind under every operator / wrapper x combinations of --redactNumbers / --redactBooleans / --redactIPs / --replacement "
                "(replacement not e-mail-shaped; incl. empty, '$'-prefixed, quotes, non-ASCII); first-pass output fed back; non-trivial = distinct (flags, line) pairs whose first pass changed the line")
    cfgs = [Cfg(), Cfg(nums=True, bools=True, ips=True), Cfg(repl='X"y\\<é', nums=True), Cfg(repl='', bools=True), Cfg(repl='$field', ips=True), Cfg(repl='1970-01-01T00:00:00.000Z'), Cfg(repl='000000000000000000000000', nums=True), Cfg(repl='ma\u017fked@corp.example', nums=True), Cfg(repl='\u212aelvin@lab.io'), Cfg(repl='a,b', bools=True)]
    lines = [l for l, _ in cases]
    for ci, cfg in enumerate(cfgs):
        r1 = run_lines(cfg, lines)
        first = [io for io, _ in r1]
        feed = [x if isinstance(x, bytes) else b'' for x in first]
        mfeed = [m if isinstance(m, bytes) else b'' for _, m in r1]
        r2 = run_lines(cfg, feed)
        m2 = run_lines(cfg, mfeed)
        for l, (io1, mo1), (io2, _), (_, mm2) in zip(lines, r1, r2, m2):
            chk.count(); chk.traces += 1
            if io1 != mo1: chk.drift += 1
            if not isinstance(io1, bytes): continue
            if io1 != l: chk.nontriv((ci, l))
            ei = (io2 == io1); em = (mm2 == mo1) if isinstance(mo1, bytes) else None
            if em is not None and ei != em:
                chk.disagree('second pass equals first pass', {'cfg': cfg.describe(), 'input': l.decode('utf-8', 'replace')[:1500]}, ei, em)
            if not ei and not any('shrunk_input' in v.get('case', {}) for v in chk.violations):
                from vlib import shrink
                def fails(b, cfg=cfg):
                    o1 = shrink.impl_line(cfg, b)
                    return isinstance(o1, bytes) and shrink.impl_line(cfg, o1) != o1
                sb = shrink.shrink_line(l, fails)
                o1 = shrink.impl_line(cfg, sb)
                chk.violate('second pass changes the first-pass output (shrunk witness)', {'cfg': cfg.describe(), 'shrunk_input': sb.decode('utf-8', 'replace'), 'first': str(o1)[:600],
                            'second': str(shrink.impl_line(cfg, o1) if isinstance(o1, bytes) else '')[:600]}, tags=['idem'])
            if not ei:
                i = next((i for i in range(min(len(io1), len(io2))) if io1[i] != io2[i]), 0) if isinstance(io2, bytes) else 0
                chk.violate('second pass changes the first-pass output', {'cfg': cfg.describe(), 'input': l.decode('utf-8', 'replace')[:2000], 'first': io1[max(0, i - 120):i + 80].decode('utf-8', 'replace'),
                            'second': (io2[max(0, i - 120):i + 80].decode('utf-8', 'replace') if isinstance(io2, bytes) else io2)}, tags=['idem'])
        chk.streams.append({'stream': 'first pass fed back', 'cfg': cfg.describe(), 'cases': len(lines)})
    # a line BELOW the reader's limit whose redacted form is ABOVE it (every one-letter string grows to the replacement text): the first pass emits it, and a second
    # pass over that output meets a line longer than the reader accepts (known finding F34: the fixed point fails at the level of the stream, not of the line)
    from vlib import streamlib
    lim = streams.line_limit()
    if lim is not None:
        import json as _json
        nvals = lim // 8 + 200
        big = _json.dumps({'t': {'$date': '2020-01-01T00:00:00.000+00:00'}, 's': 'I', 'c': 'COMMAND', 'id': 1, 'ctx': 'c', 'msg': 'Slow query',
                           'attr': {'ns': 'd.c', 'command': {'find': 'c', 'filter': {'f': {'$in': ['a'] * nvals}}, '$db': 'd'}}}, separators=(',', ':')).encode()
        p1 = streamlib.impl_stream(Cfg(), [{'data': big + b'\n'}])[0]
        m1 = streamlib.model_stream(Cfg(), [{'data': big + b'\n'}])[0]
        chk.count(); chk.nontriv(('expansion', len(big)))
        if (p1[0], p1[1]) != (m1[0], m1[1]): chk.disagree('first pass over a line that grows past the limit', {'input_bytes': len(big)}, (p1[0], len(p1[1])), (m1[0], len(m1[1])))
        if p1[0] == 'ok' and p1[1]:
            p2 = streamlib.impl_stream(Cfg(), [{'data': p1[1]}])[0]
            m2 = streamlib.model_stream(Cfg(), [{'data': p1[1]}])[0]
            chk.count()
            if (p2[0], p2[1]) != (m2[0], m2[1]): chk.disagree('second pass over a first-pass output longer than the limit', {'output_bytes': len(p1[1])}, (p2[0], len(p2[1])), (m2[0], len(m2[1])))
            if p2[0] != 'ok' or p2[1] != p1[1]:
                grows = len(big) < lim <= len(p1[1]) - 1
                chk.violate('second pass over the first-pass output does not reproduce it', {'input_bytes': len(big), 'first_pass_output_bytes': len(p1[1]), 'reader_limit': lim, 'second_pass_result': p2[0],
                            'second_pass_output_bytes': len(p2[1]), 'input_head': big[:300].decode()}, tags=['idem', 'stream'] + ([('expands_past_limit' if lim >= 65536 else 'expands_past_a_limit_below_64KiB')] if grows and p2[0] == 'toolong' else []))      # F34 is about the pinned tree's limit; a LOWER limit is another matter
        chk.streams.append({'stream': 'a line below the reader limit whose redaction is above it, fed back through the stream processor', 'values': nvals})
    # through the CLI, multi-line
    with tempfile.TemporaryDirectory() as d:
        cli_lines = lines[:200] + [l for (l, info) in cases if info['kind'] == 'anyjson'][:250]
        f = os.path.join(d, 'in.log'); open(f, 'wb').write(b'\n'.join(cli_lines) + b'\n')
        o1, o2 = os.path.join(d, 'o1'), os.path.join(d, 'o2')
        subprocess.run([CLI, 'redact', f, '-o', o1, '-n', '-b', '-i'], stdin=subprocess.DEVNULL, capture_output=True)
        subprocess.run([CLI, 'redact', o1, '-o', o2, '-n', '-b', '-i'], stdin=subprocess.DEVNULL, capture_output=True)
        chk.count()
        if not os.path.exists(o2) or open(o1, 'rb').read() != open(o2, 'rb').read():
            chk.violate('CLI: re-running on the output file changes it', {}, tags=['cli'])
        # the same in a working directory where an earlier `--encrypt` run left its key file at the default path
        import base64 as _b64
        open(os.path.join(d, 'anonymongo.enc.key'), 'wb').write(_b64.b64encode(streams.KEY))
        o3, o4 = os.path.join(d, 'o3'), os.path.join(d, 'o4')
        subprocess.run([CLI, 'redact', f, '-o', o3, '-n', '-b', '-i'], stdin=subprocess.DEVNULL, capture_output=True, cwd=d)
        subprocess.run([CLI, 'redact', o3, '-o', o4, '-n', '-b', '-i'], stdin=subprocess.DEVNULL, capture_output=True, cwd=d)
        chk.count()
        if not os.path.exists(o4) or open(o3, 'rb').read() != open(o4, 'rb').read():
            chk.violate('CLI: re-running on the output file changes it (key file of an earlier run present in the working directory)', {}, tags=['cli', 'keyfile'])
        elif open(o3, 'rb').read() != open(o1, 'rb').read():
            chk.violate('CLI: placeholder-mode output depends on a key file lying in the working directory', {}, tags=['cli', 'keyfile'])
    chk.sample({'cfg': cfgs[2].describe(), 'input': lines[33].decode('utf-8', 'replace')[:400]})
    chk.assumptions += ["no namespace / field-name pseudonymisation, no encryption, replacement text not e-mail-shaped (as the property states)",
                        "tree-, entry- and line-level idempotence are theorems (C19_walkers, C19_entry, C19_line_fixed_point); this stream ties the model to the code"]
