"""C11 - key-file life cycle: create once, never overwrite, refuse unusable keys."""
import base64, os, random, shutil, stat, subprocess, tempfile
from vlib.run import *
from vlib import streams

LINES = (b'{"t":{"$date":"2020-01-01T00:00:00.000+00:00"},"s":"I","c":"COMMAND","id":1,"ctx":"c","msg":"Slow query","attr":{"ns":"d.c","command":{"find":"c","filter":{"a":"secret one","b":"secret two"}}}}\n'
         b'{"t":{"$date":"2020-01-01T00:00:01.000+00:00"},"s":"I","c":"COMMAND","id":1,"ctx":"c","msg":"Slow query","attr":{"ns":"d.c","command":{"find":"c","filter":{"a":"secret one"}}}}\n')

def snapshot(path):
    try:
        st = os.lstat(path)
    except FileNotFoundError:
        return ('absent',)
    if stat.S_ISDIR(st.st_mode): return ('dir',)
    return ('file', open(path, 'rb').read(), stat.S_IMODE(st.st_mode))

def owner_only(mode):
    """readable by the owner, nothing for group and others (0600, 0400)"""
    return (mode & 0o077) == 0 and (mode & 0o400) != 0

def run(chk, replay=None):
    rng = random.Random(chk.seed)
    valid = base64.b64encode(bytes(rng.randrange(256) for _ in range(64)))
    states = {
        'absent': None, 'valid': valid, 'valid_newline': valid + b'\n', 'valid_crlf': valid + b'\r\n', 'empty': b'', 'short': base64.b64encode(bytes(63)), 'long': base64.b64encode(bytes(65)),
        'not_base64': b'this is not base64 !!', 'truncated_b64': valid[:-3], 'directory': 'DIR', 'parent_missing': 'PARENT',
    }
    chk.rule = ("initial states of the key path {absent, valid, valid+LF, valid+CRLF, empty, 63 bytes, 65 bytes, non-base64, truncated base64, directory, parent missing} x sequences of 1..3 "
                "consecutive `redact --encrypt` runs through the CLI; file bytes and mode snapshotted before / after every run; non-trivial = distinct (state, run index) pairs")
    keys_seen = []
    for name, content in states.items():
        for nruns in (1, 2, 3):
            d = tempfile.mkdtemp(prefix='c11_')
            try:
                open(os.path.join(d, 'in.log'), 'wb').write(LINES)
                kp = os.path.join(d, 'key.file')
                if content == 'DIR': os.mkdir(kp)
                elif content == 'PARENT': kp = os.path.join(d, 'nodir', 'key.file')
                elif content is not None:
                    open(kp, 'wb').write(content); os.chmod(kp, 0o644)
                usable = name in ('absent', 'valid', 'valid_newline', 'valid_crlf')
                first_out = None
                for i in range(nruns):
                    before = snapshot(kp)
                    outp = os.path.join(d, 'out%d.log' % i)
                    p = subprocess.run([CLI, 'redact', os.path.join(d, 'in.log'), '-o', outp, '-y', '-q', kp], stdin=subprocess.DEVNULL, capture_output=True)
                    after = snapshot(kp)
                    out = open(outp, 'rb').read() if os.path.exists(outp) else b''
                    chk.count(); chk.traces += 1; chk.nontriv((name, i))
                    case = {'state': name, 'run': i + 1, 'of': nruns, 'rc': p.returncode, 'stderr': p.stderr.decode('utf-8', 'replace')[-200:]}
                    # model: feed the observed key (if one was created) as the randomness
                    mst = 'A' if before[0] == 'absent' and content != 'PARENT' else 'F' if before[0] == 'file' else 'D' if before[0] == 'dir' else 'P'
                    rnd = b''
                    if mst == 'A' and after[0] == 'file':
                        try: rnd = base64.b64decode(after[1])
                        except Exception: rnd = b''
                    m = run_driver(['KEY %s %s %s' % (mst, hx(before[1]) if before[0] == 'file' else '-', hx(rnd))])[0].split()
                    m_state, m_content, m_out = m[0], m[1], m[2]
                    i_state = {'absent': 'A', 'file': 'F', 'dir': 'D'}[after[0]] if not (content == 'PARENT') else 'P'
                    i_content = (hx(after[1]) + ':' + str((384 if owner_only(after[2]) else after[2]) if before[0] == 'absent' else 420)) if after[0] == 'file' else '-'    # the property asks for owner-only permissions, not for one particular mode
                    i_out = 'OK' if p.returncode == 0 else 'FAIL'
                    if (m_state, m_content, m_out) != (i_state, i_content, i_out):
                        chk.disagree('key-file step', case, (i_state, i_content[:40], i_out), (m_state, m_content[:40], m_out))
                    if usable:
                        if p.returncode != 0: chk.violate('usable key state but the run failed', case, tags=['usable']); continue
                        if before[0] == 'file' and after != before: chk.violate('existing valid key file was modified', case, tags=['overwrite'])
                        if before[0] == 'absent':
                            ok = after[0] == 'file' and owner_only(after[2])
                            try: ok = ok and len(base64.b64decode(after[1], validate=True)) == 64
                            except Exception: ok = False
                            if not ok: chk.violate('created key file is not base64 of 64 bytes with owner-only permissions', dict(case, after=str(after)[:120]), tags=['create'])
                            else: keys_seen.append(after[1])
                        if first_out is None: first_out = out
                        elif out != first_out: chk.violate('later run with the same key file produced different ciphertext', case, tags=['reuse'])
                        if b'secret' in out or not out: chk.violate('encrypt run left plaintext or produced nothing', case, tags=['output'])
                    else:
                        if p.returncode == 0: chk.violate('unusable key accepted', case, tags=['unusable'])
                        if after != before: chk.violate('unusable key path was modified', dict(case, before=str(before)[:80], after=str(after)[:80]), tags=['overwrite'])
                        if out.strip(): chk.violate('redacted output emitted although the key is unusable', dict(case, out=out[:120].decode('utf-8', 'replace')), tags=['output'])
            finally:
                shutil.rmtree(d, ignore_errors=True)
    # histories with a FAILING run in between, and a key path reached through a symbolic link: the existing valid key must survive
    for scenario in ('missing_input', 'unreadable_gz', 'symlink'):
        d = tempfile.mkdtemp(prefix='c11h_')
        try:
            open(os.path.join(d, 'in.log'), 'wb').write(LINES)
            real = os.path.join(d, 'real.key'); open(real, 'wb').write(valid); os.chmod(real, 0o600)
            kp = real
            if scenario == 'symlink':
                kp = os.path.join(d, 'link.key'); os.symlink(real, kp)
            def runit(inp, out):
                return subprocess.run([CLI, 'redact', inp, '-o', os.path.join(d, out), '-y', '-q', kp], stdin=subprocess.DEVNULL, capture_output=True)
            p1 = runit(os.path.join(d, 'in.log'), 'o1.log')
            if scenario == 'missing_input': p2 = runit(os.path.join(d, 'does-not-exist.log'), 'o2.log')
            elif scenario == 'unreadable_gz':
                open(os.path.join(d, 'bad.log.gz'), 'wb').write(b'not gzip'); p2 = runit(os.path.join(d, 'bad.log.gz'), 'o2.log')
            else: p2 = runit(os.path.join(d, 'in.log'), 'o2.log')
            p3 = runit(os.path.join(d, 'in.log'), 'o3.log')
            chk.count(3); chk.nontriv(('history', scenario))
            case = {'history': scenario, 'rcs': [p1.returncode, p2.returncode, p3.returncode], 'stderr': p2.stderr.decode('utf-8', 'replace')[-200:]}
            now = snapshot(real)
            if now[0] != 'file' or now[1] != valid:
                chk.violate('an existing valid key file was removed or replaced during a history of runs', dict(case, key_now=str(now)[:80]), tags=['overwrite', 'history'])
            o1 = open(os.path.join(d, 'o1.log'), 'rb').read() if os.path.exists(os.path.join(d, 'o1.log')) else None
            o3 = open(os.path.join(d, 'o3.log'), 'rb').read() if os.path.exists(os.path.join(d, 'o3.log')) else None
            if p1.returncode != 0 or p3.returncode != 0 or o1 != o3 or not o1:
                chk.violate('runs before and after do not produce the same ciphertext with the same key file', case, tags=['reuse', 'history'])
        finally:
            shutil.rmtree(d, ignore_errors=True)
    # a FIRST run that creates the key and then fails part-way (an over-long line, a gzip stream cut in its body, a full device) after ciphertext
    # has already been written: whatever ciphertext is in the output must stay decryptable - the key stored before it was written is still
    # there, reads back, and the next run uses it
    from vlib import streams as _st, streamlib as _sl
    LIMK = _st.line_limit()
    for scenario in ('toolong', 'gzcut', 'second_run_fails'):
        d = tempfile.mkdtemp(prefix='c11f_')
        try:
            good = LINES
            kp = os.path.join(d, 'fresh.key')
            if scenario == 'toolong':
                if LIMK is None: continue
                inp = os.path.join(d, 'in.log'); open(inp, 'wb').write(good + b'x' * (LIMK + 100) + b'\n' + good)
            elif scenario == 'gzcut':
                big = good * 400
                gzb = _sl.gz_bytes(big); inp = os.path.join(d, 'in.log.gz'); open(inp, 'wb').write(gzb[: len(gzb) * 2 // 3])
            else:
                inp = os.path.join(d, 'in.log'); open(inp, 'wb').write(good)
            o1 = os.path.join(d, 'o1.log')
            p1 = subprocess.run([CLI, 'redact', inp, '-o', o1, '-y', '-q', kp], stdin=subprocess.DEVNULL, capture_output=True)
            if scenario == 'second_run_fails':      # the key-creating run succeeds; the NEXT run (same key path) fails part-way
                inp2 = os.path.join(d, 'in2.log'); open(inp2, 'wb').write(good + (b'x' * ((LIMK or 70000) + 100)) + b'\n')
                subprocess.run([CLI, 'redact', inp2, '-o', os.path.join(d, 'o1b.log'), '-y', '-q', kp], stdin=subprocess.DEVNULL, capture_output=True)
            out1 = open(o1, 'rb').read() if os.path.exists(o1) else b''
            chk.count(); chk.nontriv(('failing-first-run', scenario))
            case = {'history': 'key-creating run that fails part-way: ' + scenario, 'rc': p1.returncode, 'stderr': p1.stderr.decode('utf-8', 'replace')[-200:], 'output_lines': out1.count(b'\n')}
            key_now = snapshot(kp)
            if out1.strip():
                ok = key_now[0] == 'file'
                try: ok = ok and len(base64.b64decode(key_now[1], validate=True)) == 64
                except Exception: ok = False
                if not ok:
                    chk.violate('redacted output with ciphertext was written but the key it was encrypted under is not in the key file afterwards', dict(case, key_now=str(key_now)[:80]), tags=['create', 'failing-run'])
                else:
                    # the next run over the same key path must encrypt the same line to the same ciphertext
                    inp3 = os.path.join(d, 'in3.log'); open(inp3, 'wb').write(good)
                    o3 = os.path.join(d, 'o3.log')
                    p3 = subprocess.run([CLI, 'redact', inp3, '-o', o3, '-y', '-q', kp], stdin=subprocess.DEVNULL, capture_output=True)
                    out3 = open(o3, 'rb').read() if os.path.exists(o3) else b''
                    n = good.count(b'\n')
                    if p3.returncode != 0 or out3.split(b'\n')[:n] != out1.split(b'\n')[:n] or snapshot(kp) != key_now:
                        chk.violate('the key stored by a failing first run is not the key the next run uses', case, tags=['reuse', 'failing-run'])
            if scenario != 'second_run_fails' and p1.returncode == 0:
                chk.violate('a run that cannot complete reported success', case, tags=['silent', 'failing-run'])
        finally:
            shutil.rmtree(d, ignore_errors=True)
    # spellings of the key path: the file the user NAMED (relative to the working directory, as the OS resolves it) is the one that is
    # created / used / refused - whatever its first character
    spellings = ['key.file', './key.file', '~/in-a-dir-named-tilde.key', '~team.key', '~keys/prod.key', '~', 'sp ace.key', 'k\u00e9y.key', 'sub/../key2.file', '-dash.key', '.hidden', 'a~b.key', '$HOME.key', '%s.key', None]
    for sp in spellings:
        for name in ('absent', 'valid', 'short'):
            d = tempfile.mkdtemp(prefix='c11p_')
            try:
                open(os.path.join(d, 'in.log'), 'wb').write(LINES)
                os.mkdir(os.path.join(d, 'home')); os.mkdir(os.path.join(d, 'sub')); os.mkdir(os.path.join(d, '~keys'))
                if sp is not None and sp.startswith('~/'): os.mkdir(os.path.join(d, '~'))
                rel = sp if sp is not None else 'anonymongo.enc.key'
                kp = os.path.normpath(os.path.join(d, rel))
                if name != 'absent':
                    open(kp, 'wb').write(states[name]); os.chmod(kp, 0o600)
                outs = []
                for i in range(2):
                    before = snapshot(kp)
                    outp = os.path.join(d, 'out%d.log' % i)
                    argv = [CLI, 'redact', 'in.log', '-o', outp, '-y'] + (['--encryptionKeyFile=' + sp] if sp is not None else [])
                    p = subprocess.run(argv, stdin=subprocess.DEVNULL, capture_output=True, cwd=d, env={'PATH': '/usr/bin:/bin', 'HOME': os.path.join(d, 'home')})
                    after = snapshot(kp)
                    out = open(outp, 'rb').read() if os.path.exists(outp) else b''
                    outs.append(out)
                    chk.count(); chk.nontriv(('spelling', sp, name, i))
                    case = {'key_path_as_given': sp if sp is not None else '(default)', 'state': name, 'run': i + 1, 'rc': p.returncode, 'stderr': p.stderr.decode('utf-8', 'replace')[-200:],
                            'home_dir_now': sorted(os.listdir(os.path.join(d, 'home'))), 'cwd_now': sorted(os.listdir(d))}
                    if os.listdir(os.path.join(d, 'home')):
                        chk.violate('a key file appeared somewhere else than at the given path', case, tags=['keypath', 'elsewhere'])
                    if name == 'short':
                        if p.returncode == 0 or after != before or out.strip():
                            chk.violate('unusable key at the given path: accepted, modified, or output emitted', case, tags=['keypath', 'unusable'])
                    else:
                        ok = p.returncode == 0 and after[0] == 'file' and out and b'secret' not in out
                        if name == 'valid' or i == 1: ok = ok and after == before
                        if not ok:
                            chk.violate('the key file at the given path was not created / used / left untouched', dict(case, before=str(before)[:60], after=str(after)[:60]), tags=['keypath'])
                if name != 'short' and outs[0] != outs[1]:
                    chk.violate('two runs naming the same key path give different ciphertexts', {'key_path_as_given': sp, 'state': name}, tags=['keypath', 'reuse'])
                if name == 'valid':
                    # the ciphertexts must be the ones of THAT key: compare with a run that names the same file by its absolute path
                    o = os.path.join(d, 'abs.log')
                    subprocess.run([CLI, 'redact', os.path.join(d, 'in.log'), '-o', o, '-y', '-q', kp], stdin=subprocess.DEVNULL, capture_output=True)
                    chk.count()
                    if (open(o, 'rb').read() if os.path.exists(o) else b'') != outs[0]:
                        chk.violate('the key at the given (relative) path is not the key that was used', {'key_path_as_given': sp}, tags=['keypath', 'otherkey'])
            finally:
                shutil.rmtree(d, ignore_errors=True)
    chk.streams.append({'stream': 'CLI: spellings of the key path (relative, leading ~ . - $ %, blanks, non-ASCII, default) x {absent, valid, short} x 2 runs', 'spellings': len(spellings)})
    # Atlas input (outputs are <outputFile>.<i>): an existing valid key whose NAME resembles those outputs must be used and left untouched
    from vlib import atlaslib, streamlib
    import json as _json
    hosts = ['h0.ex.net:27017', 'h1.ex.net:27017']
    world = {'challenge': 'digest', 'cluster_st': 200, 'cluster_body': _json.dumps({'connectionStrings': {'standard': atlaslib.conn_string(hosts)}}),
             'hosts': [{'status': 200, 'body': base64.b64encode(streamlib.gz_bytes(LINES)).decode(), 'cut': -1} for _ in hosts]}
    for kname in ('out.log.key', 'out.log.2', 'out.log.2025-10-01.key', 'out.log.0.key', 'out.log.', 'out.log.9z', 'out.logx', 'key.file'):
        r1 = atlaslib.run_cli(world, flags=['--encrypt', '--encryptionKeyFile', kname], pre_outs={kname: valid})
        chk.count(); chk.nontriv(('atlas-keyname', kname))
        case = {'input': 'Atlas', 'output_file': 'out.log', 'key_file_name': kname, 'rc': r1['rc'], 'files': sorted(r1['outs']), 'stderr': r1['stderr'].decode('utf-8', 'replace')[-200:]}
        if r1['outs'].get(kname) != valid:
            chk.violate('Atlas mode: an existing valid key file was removed or replaced', dict(case, key_now=str(r1['outs'].get(kname))[:60]), tags=['overwrite', 'atlas'])
        elif r1['rc'] != 0 and kname != 'out.log.2':
            chk.violate('Atlas mode: run with an existing valid key failed', case, tags=['usable', 'atlas'])
    chk.streams.append({'stream': 'Atlas input: existing valid key under names that resemble <outputFile>.<i>', 'names': 8})
    if len(set(keys_seen)) != len(keys_seen):
        chk.violate('two generated keys are equal', {'n': len(keys_seen)}, tags=['rng'])
    chk.dist('generated_keys', len(keys_seen))
    chk.streams.append({'stream': 'CLI x 11 initial states x 1..3 runs, model run_key fed with the observed randomness', 'cases': chk.evaluations})
    # the whole command (Model/Job.v: main.go's Run end to end) against the CLI on small worlds: exit status, file system and standard output
    from vlib import joblib
    jrng = random.Random(chk.seed * 7919 + 1111)
    jpool = [l for l, _ in streams.grammar_lines(jrng, 25, 0.1) + streams.fixture_lines()[:8]]
    joblib.correspondence(chk, jrng, 300 if chk.tier == 'thorough' else 120, jpool)
    chk.sample({'state': 'absent', 'runs': 3, 'expect': 'create once (0600, 64 bytes), reuse twice, identical ciphertext'}); chk.sample({'state': 'short', 'expect': 'exit 1, file untouched, no output'})
    chk.assumptions += ["the sandbox runs as root, for whom no file is unreadable: the Unreadable state is model-only", "pairwise distinctness of generated keys (CSPRNG quality) is sampled, not proved",
                        "the output file is created (empty) before the key step; 'no redacted output' means it holds no line"]
