"""C18 - redact accepts exactly the well-defined jobs; rejections have no side effects."""
import itertools, os, random, socket, subprocess, tempfile, threading, shutil
from concurrent.futures import ThreadPoolExecutor
from vlib.run import *
from vlib import streams

NAMES = ['file', 'stdin', 'out', 'encrypt', 'regexp', 'fieldnames', 'proj', 'cluster', 'pub', 'priv', 'start', 'end', 'env']
LINE = b'{"t":{"$date":"2020-01-01T00:00:00.000+00:00"},"s":"I","c":"COMMAND","id":1,"ctx":"c","msg":"Slow query","attr":{"ns":"d.c","command":{"find":"c","filter":{"a":"s"}}}}\n'

def rule(f):
    """independent rule table, written from the README and the property text"""
    atlas = f['proj'] or f['cluster'] or f['pub'] or f['priv'] or f['start'] or f['end']
    if f['regexp'] and f['fieldnames']: return None
    if f['start'] != f['end']: return None
    if int(f['file']) + int(f['stdin']) + int(atlas) != 1: return None
    if atlas and not (f['proj'] and f['cluster'] and f['out'] and (f['pub'] or f['env']) and (f['priv'] or f['env'])): return None
    if f['encrypt'] and (f['stdin'] or not f['out']): return None
    return 'atlas' if atlas else ('file' if f['file'] else 'stdin')

class Listener:
    """counts connection attempts of the tool (HTTPS_PROXY points here); closes each at once"""
    def __init__(self):
        self.s = socket.socket(); self.s.bind(('127.0.0.1', 0)); self.s.listen(64)
        self.port = self.s.getsockname()[1]
        self.hits = {}
        self.stop = False
        threading.Thread(target=self.loop, daemon=True).start()
    def loop(self):
        self.s.settimeout(0.2)
        while not self.stop:
            try:
                c, _ = self.s.accept()
            except OSError:
                continue
            try:
                c.settimeout(0.5)
                data = c.recv(4096)
                # CONNECT cloud.mongodb.com:443 ... X-Run header is not available; identify the run by the proxy user name
                import re, base64
                m = re.search(rb'Proxy-Authorization: Basic (\S+)', data)
                tag = base64.b64decode(m.group(1)).split(b':')[0].decode() if m else '?'
                self.hits[tag] = self.hits.get(tag, 0) + 1
            except Exception:
                pass
            finally:
                c.close()

def one(args):
    idx, bits, port = args[:3]
    stdin_file = len(args) > 3 and args[3] is True
    empty_file = len(args) > 3 and args[3] == 'emptyfile'
    neg_dates = len(args) > 3 and args[3] == 'negdates'
    empty_pipe = len(args) > 3 and args[3] == 'emptypipe'
    f = dict(zip(NAMES, bits))
    d = tempfile.mkdtemp(prefix='c18_')
    try:
        open(os.path.join(d, 'in.log'), 'wb').write(LINE)
        argv = [CLI, 'redact']
        if f['file']: argv.append('' if empty_file else 'in.log')
        if f['out']: argv += ['-o', 'out.log']
        if f['encrypt']: argv += ['--encrypt', '-q', 'key.file']
        if f['regexp']: argv += ['-z', '^a$']
        if f['fieldnames']: argv += ['-f', 'd.c']
        if f['proj']: argv += ['--atlasProjectId', 'P1']
        if f['cluster']: argv += ['--atlasClusterName', 'C1']
        if f['pub']: argv += ['--atlasPublicKey', 'pubk']
        if f['priv']: argv += ['--atlasPrivateKey', 'privk']
        if f['start']: argv += (['--atlasLogStartDate=-86400'] if neg_dates else ['-s', '5'])
        if f['end']: argv += (['--atlasLogEndDate=-3600'] if neg_dates else ['-e', '6'])
        env = {'PATH': '/usr/bin:/bin', 'HOME': d, 'TMPDIR': d, 'HTTPS_PROXY': 'http://run%d:x@127.0.0.1:%d' % (idx, port), 'NO_PROXY': ''}
        if f['env']: env.update(ATLAS_PUBLIC_KEY='epub', ATLAS_PRIVATE_KEY='epriv')
        if f['stdin'] and stdin_file:
            open(os.path.join(d, 'stdin.log'), 'wb').write(LINE)      # `anonymongo redact ... < stdin.log`: stdin is a regular file
            with open(os.path.join(d, 'stdin.log'), 'rb') as fh:
                p = subprocess.run(argv, cwd=d, env=env, stdin=fh, capture_output=True, timeout=60)
            os.remove(os.path.join(d, 'stdin.log'))
        else:
            p = subprocess.run(argv, cwd=d, env=env, input=((b'' if empty_pipe else LINE) if f['stdin'] else None), stdin=(None if f['stdin'] else subprocess.DEVNULL),
                               capture_output=True, timeout=60)
        files = sorted(x for x in os.listdir(d) if x != 'in.log')
        return idx, p.returncode, p.stdout[-300:], p.stderr[-300:], files
    finally:
        shutil.rmtree(d, ignore_errors=True)

def crashed(rc, se):
    """the process died (signal, Go panic) instead of ending with a status of its own choosing"""
    return rc < 0 or b'panic:' in se or b'goroutine 1 [' in se

def runtime_failure(rc, se, net):
    """an ACCEPTED job that failed while running: it reached the network (the listener is no Atlas) or the operating system refused to open
    its input (the file argument given as the empty string). Recognised by what happened, not by the wording of the tool's messages."""
    return rc != 0 and not crashed(rc, se) and (net > 0 or b'no such file or directory' in se)

def rejected(rc, se, net):
    """a rejection: a non-zero status (any: the property asks for non-zero, not for 1) that is neither a crash nor a failure at run time"""
    return rc != 0 and not crashed(rc, se) and not runtime_failure(rc, se, net)

def one_raw(args):
    """raw value vector: string-valued flags absent / empty / given, dates absent / 0 / negative / positive"""
    idx, v, port = args
    d = tempfile.mkdtemp(prefix='c18r_')
    try:
        open(os.path.join(d, 'in.log'), 'wb').write(LINE)
        argv = [CLI, 'redact']
        def sflag(name, c, val):
            if c == 'e': argv.append('%s=' % name)
            elif c == 'g': argv.append('%s=%s' % (name, val))
        if v[0] == 'e': argv.append('')
        elif v[0] == 'g': argv.append('in.log')
        sflag('--outputFile', v[2], 'out.log')
        if v[3] == '1': argv += ['--encrypt', '-q', 'key.file']
        sflag('--redactFieldsRegexp', v[4], '^a$'); sflag('--redactFieldNames', v[5], 'd.c')
        sflag('--atlasProjectId', v[6], 'P1'); sflag('--atlasClusterName', v[7], 'C1'); sflag('--atlasPublicKey', v[8], 'pubk'); sflag('--atlasPrivateKey', v[9], 'privk')
        for name, c in (('--atlasLogStartDate', v[10]), ('--atlasLogEndDate', v[11])):
            if c != 'a': argv.append('%s=%s' % (name, {'z': '0', 'n': '-86400', 'p': '1700000000'}[c]))
        env = {'PATH': '/usr/bin:/bin', 'HOME': d, 'TMPDIR': d, 'HTTPS_PROXY': 'http://run%d:x@127.0.0.1:%d' % (idx, port), 'NO_PROXY': ''}
        if v[12] == '1': env.update(ATLAS_PUBLIC_KEY='epub', ATLAS_PRIVATE_KEY='epriv')
        p = subprocess.run(argv, cwd=d, env=env, input=(LINE if v[1] == '1' else None), stdin=(None if v[1] == '1' else subprocess.DEVNULL), capture_output=True, timeout=60)
        files = sorted(x for x in os.listdir(d) if x != 'in.log')
        return idx, p.returncode, p.stdout[-300:], p.stderr[-300:], files, argv[1:]
    finally:
        shutil.rmtree(d, ignore_errors=True)

def run(chk, replay=None):
    lst = Listener()
    combos = list(itertools.product([False, True], repeat=13))
    chk.rule = ("all 2^13 presence/absence combinations of {file argument, piped stdin, --outputFile, --encrypt, --redactFieldsRegexp, --redactFieldNames, --atlasProjectId, "
                "--atlasClusterName, --atlasPublicKey, --atlasPrivateKey, --atlasLogStartDate, --atlasLogEndDate, key pair in the environment} through the real CLI in throw-away "
                "directories, network pointed at a local listener; every combination is distinct and non-trivial")
    model = run_driver(['CLI ' + ''.join('1' if b else '0' for b in bits) for bits in combos])
    with ThreadPoolExecutor(max_workers=16) as ex:
        results = list(ex.map(one, [(i, bits, lst.port) for i, bits in enumerate(combos)]))
    # the same for input redirected from a regular file (`< file`) instead of a pipe: every combination that has stdin input
    sub_combos = [(i, bits) for i, bits in enumerate(combos) if bits[1]]
    with ThreadPoolExecutor(max_workers=16) as ex:
        results_f = list(ex.map(one, [(100000 + i, bits, lst.port, True) for i, bits in sub_combos]))
    # ... and the combinations that name a file once more with the file argument given as the EMPTY string: it is still a file argument
    # (one of the sources), so the verdict must be the same; an accepted job then fails at run time on the missing file, which is not a rejection
    file_combos = [(i, bits) for i, bits in enumerate(combos) if bits[0]]
    with ThreadPoolExecutor(max_workers=16) as ex:
        results_e = list(ex.map(one, [(200000 + i, bits, lst.port, 'emptyfile') for i, bits in file_combos]))
    # a lone start or end date whose VALUE is negative is still a date that was given: every combination that only the date-pair rule rejects, again with negative values
    lone = []
    for i, bits in enumerate(combos):
        f = dict(zip(NAMES, bits))
        if f['start'] != f['end'] and rule(dict(f, start=True, end=True)) is not None: lone.append((i, bits))
    with ThreadPoolExecutor(max_workers=16) as ex:
        results_n = list(ex.map(one, [(300000 + i, bits, lst.port, 'negdates') for i, bits in lone]))
    # a pipe on stdin that delivers NOTHING is still piped input (one of the sources): the combinations that have stdin AND a second source, again with an empty pipe -
    # each of them must be rejected, without side effects, exactly as with a pipe that carries a log
    two_sources = [(i, bits) for i, bits in enumerate(combos) if bits[1] and (bits[0] or any(bits[6:12]))]
    two_sources = two_sources[:: max(1, len(two_sources) // 500)]
    with ThreadPoolExecutor(max_workers=16) as ex:
        results_p = list(ex.map(one, [(500000 + i, bits, lst.port, 'emptypipe') for i, bits in two_sources]))
    # the VALUES behind the switches (empty strings, zero / negative dates, an empty file argument): a seeded sample of value vectors through the
    # CLI against the model's reading of them (Cli.abstract: non-empty string, non-zero date, len(args) == 1, --redactFieldNames given at all)
    import random as _random
    vr = _random.Random(chk.seed)
    vecs = set()
    while len(vecs) < 1200:
        v = ''.join([vr.choice('aeg'), vr.choice('01'), vr.choice('aeg'), vr.choice('001'), vr.choice('aaeg'), vr.choice('aaeg')] + [vr.choice('aaeg') for _ in range(4)] + [vr.choice('aaznp'), vr.choice('aaznp'), vr.choice('01')])
        vecs.add(v)
    vecs = sorted(vecs)
    model_raw = run_driver(['CLIRAW ' + v for v in vecs])
    with ThreadPoolExecutor(max_workers=16) as ex:
        results_v = list(ex.map(one_raw, [(400000 + i, v, lst.port) for i, v in enumerate(vecs)]))
    import time; time.sleep(0.5); lst.stop = True
    for (idx, rc, so, se, files, argv), v, m in zip(results_v, vecs, model_raw):
        chk.count(); chk.traces += 1; chk.nontriv(('raw', v))
        net = lst.hits.get('run%d' % idx, 0)
        mv, me = m.split()
        validation_error = rejected(rc, se, net)
        runtime_error = runtime_failure(rc, se, net)
        effects = set()
        if 'out.log' in files or any(x.startswith('out.log.') for x in files): effects.add('out')
        if 'key.file' in files: effects.add('key')
        if net: effects.add('net')
        got = 'reject' if validation_error else 'accept'
        case = {'argv': argv, 'stdin': 'pipe' if v[1] == '1' else 'none', 'key_pair_in_environment': v[12] == '1', 'rc': rc, 'stderr': se.decode('utf-8', 'replace'), 'files': files, 'network_attempts': net}
        if crashed(rc, se): chk.violate('the command crashed', case, tags=['status', 'values'])
        # an accepted job may still fail at run time (the empty file name cannot be opened, the listener is no Atlas): then its effects are a prefix of the model's
        mset = set(me.split(',')) - {'read', '-'}
        if got != mv.split(':')[0] or (got == 'reject' and effects) or (got == 'accept' and not runtime_error and effects != mset) or (got == 'accept' and not effects <= mset):
            chk.disagree('verdict and side effects for a value vector', case, (got, sorted(effects)), m)
        if validation_error and effects:
            chk.violate('rejection decided from the flags had side effects: %s' % sorted(effects), case, tags=['sideeffect', 'values'] + sorted(effects))
        if v[0] != 'a' and (v[1] == '1') and not validation_error:
            chk.violate('a file argument together with piped input was accepted', case, tags=['accepted', 'values'])
        if (v[10] in 'np') != (v[11] in 'np') and not validation_error:
            chk.violate('a start / end date given alone was accepted', case, tags=['accepted', 'values'])
    chk.streams.append({'stream': 'sampled value vectors (absent / empty / given strings, absent / 0 / negative / positive dates) through the CLI vs Cli.decide_raw', 'cases': len(vecs)})
    for (idx, rc, so, se, files), (i, bits) in zip(results_n, lone):
        f = dict(zip(NAMES, bits))
        chk.count(); chk.nontriv((bits, 'negdates'))
        net = lst.hits.get('run%d' % idx, 0)
        effects = sorted(({'out'} if ('out.log' in files or any(x.startswith('out.log.') for x in files)) else set()) | ({'key'} if 'key.file' in files else set()) | ({'net'} if net else set()))
        case = {'flags': [n for n in NAMES if f[n]], 'date_value': 'negative', 'rc': rc, 'stderr': se.decode('utf-8', 'replace'), 'files': files, 'network_attempts': net}
        if not rejected(rc, se, net): chk.violate('a start / end date given alone (negative value) was not rejected', case, tags=['accepted', 'negdates'])
        if effects: chk.violate('rejection decided from the flags had side effects: %s' % effects, case, tags=['sideeffect', 'negdates'] + effects)
    chk.streams.append({'stream': 'combinations that only the date-pair rule rejects, with negative date values', 'cases': len(lone)})
    for (idx, rc, so, se, files), (i, bits) in zip(results_p, two_sources):
        f = dict(zip(NAMES, bits))
        chk.count(); chk.nontriv((bits, 'emptypipe'))
        net = lst.hits.get('run%d' % idx, 0)
        effects = sorted(({'out'} if ('out.log' in files or any(x.startswith('out.log.') for x in files)) else set()) | ({'key'} if 'key.file' in files else set()) | ({'net'} if net else set()))
        case = {'flags': [n for n in NAMES if f[n]], 'stdin': 'a pipe that delivers no byte', 'rc': rc, 'stderr': se.decode('utf-8', 'replace'), 'files': files, 'network_attempts': net}
        if crashed(rc, se): chk.violate('the command crashed', case, tags=['status', 'emptypipe'])
        elif rc == 0 or net: chk.violate('two input sources (one of them an empty pipe on stdin) were accepted', case, tags=['accepted', 'emptypipe'])
        if effects: chk.violate('rejection decided from the flags had side effects: %s' % effects, case, tags=['sideeffect', 'emptypipe'] + effects)
    chk.streams.append({'stream': 'two input sources, stdin being a pipe that delivers nothing', 'cases': len(two_sources)})
    for (idx, rc, so, se, files), (i, bits) in zip(results_e, file_combos):
        f = dict(zip(NAMES, bits))
        chk.count(); chk.nontriv((bits, 'emptyfile'))
        exp = rule(f)
        net = lst.hits.get('run%d' % idx, 0)
        validation_error = rejected(rc, se, net)
        effects = sorted(({'out'} if ('out.log' in files or any(x.startswith('out.log.') for x in files)) else set()) | ({'key'} if 'key.file' in files else set()) | ({'net'} if net else set()))
        case = {'flags': [n for n in NAMES if f[n]], 'file_argument': '(empty string)', 'rc': rc, 'stderr': se.decode('utf-8', 'replace'), 'files': files, 'network_attempts': net}
        if crashed(rc, se): chk.violate('the command crashed', case, tags=['status', 'emptyfile'])
        elif exp is None:
            if not validation_error: chk.violate('ill-defined combination accepted (file argument given as the empty string)', case, tags=['accepted', 'emptyfile'])
            if effects: chk.violate('rejection decided from the flags had side effects: %s' % effects, case, tags=['sideeffect', 'emptyfile'] + effects)
        elif validation_error:
            chk.violate('well-defined combination refused (file argument given as the empty string)', case, tags=['refused', 'emptyfile'])
        elif net:
            chk.violate('a local job sent a network request', case, tags=['net', 'emptyfile'])
    triples = list(zip(results, combos, model)) + [(r, bits, model[i]) for r, (i, bits) in zip(results_f, sub_combos)]
    for (idx, rc, so, se, files), bits, m in triples:
        f = dict(zip(NAMES, bits))
        chk.count(); chk.traces += 1; chk.nontriv((bits, idx >= 100000))
        exp = rule(f)
        net = lst.hits.get('run%d' % idx, 0)
        mv, me = m.split()
        # classify what the CLI did
        validation_error = rejected(rc, se, net)
        effects = set()
        if 'out.log' in files or any(x.startswith('out.log.') for x in files): effects.add('out')
        if 'key.file' in files: effects.add('key')
        if net: effects.add('net')
        accepted = not crashed(rc, se) and (rc == 0 or runtime_failure(rc, se, net))
        case = {'flags': [n for n in NAMES if f[n]], 'stdin_kind': ('regular file' if idx >= 100000 else 'pipe' if f['stdin'] else 'none'), 'rc': rc, 'stderr': se.decode('utf-8', 'replace'), 'files': files, 'network_attempts': net}
        got = ('accept' if accepted else 'reject')
        if got != mv.split(':')[0] or (accepted and (effects - {'read'}) != (set(me.split(',')) - {'read', '-'})) or (not accepted and effects):
            chk.disagree('verdict and side effects', case, (got, sorted(effects)), m)
        if crashed(rc, se):
            chk.violate('the command crashed', case, tags=['status'])
        elif exp is None:
            if accepted: chk.violate('ill-defined combination accepted', case, tags=['accepted'])
            elif not se.strip(): chk.violate('rejection without an explanatory message', case, tags=['message'])
            if effects: chk.violate('rejection decided from the flags had side effects: %s' % sorted(effects), case, tags=['sideeffect'] + sorted(effects))
        else:
            if not accepted: chk.violate('well-defined combination refused', case, tags=['refused'])
            elif exp in ('file', 'stdin') and rc != 0: chk.violate('well-defined local job failed', case, tags=['failed'])
            elif exp == 'atlas' and not net: chk.violate('Atlas job accepted but no request attempted', case, tags=['atlas'])
    chk.exhaustive = True
    acc = sum(1 for bits in combos if rule(dict(zip(NAMES, bits))))
    chk.dist('accepted_by_rule', acc); chk.dist('rejected_by_rule', len(combos) - acc)
    chk.streams.append({'stream': 'all 8192 combinations: CLI vs extracted decide/effects vs independent rule table', 'cases': len(combos)})
    chk.streams.append({'stream': 'the 4096 combinations with stdin input again, stdin redirected from a regular file', 'cases': len(sub_combos)})
    chk.streams.append({'stream': 'the 4096 combinations with a file argument again, the argument being the empty string', 'cases': len(file_combos)})
    # the whole command (Model/Job.v: main.go's Run end to end) against the CLI on small worlds: exit status, file system and standard output
    from vlib import joblib
    jrng = random.Random(chk.seed * 7919 + 1818)
    jpool = [l for l, _ in streams.grammar_lines(jrng, 25, 0.1) + streams.fixture_lines()[:8]]
    joblib.correspondence(chk, jrng, 300 if chk.tier == 'thorough' else 120, jpool)
    chk.sample({'flags': ['file', 'out', 'encrypt'], 'expected': 'accept:file'}); chk.sample({'flags': ['start', 'end', 'out', 'env'], 'expected': 'reject (Atlas without project/cluster)'})
    chk.assumptions += ["presence/absence only, plus the empty string as the file argument: other flag VALUES (empty flag values, zero dates, -q '') are not enumerated", "cobra/pflag parsing is not modelled",
                        "runtime failures after validation (unreachable Atlas endpoint, unreadable input) are not rejections 'decided from the flags'"]
