"""C16 - Atlas mode fetches exactly the requested logs and redacts each into its own file."""
import base64, json, random
from vlib import atlaslib, streamlib, streams
from vlib.run import *

def run(chk, replay=None):
    rng = random.Random(chk.seed)
    th = chk.tier == 'thorough'
    pool = [l for l, _ in streams.grammar_lines(rng, 30, 0.0) + streams.fixture_lines()]
    chk.rule = ("cluster descriptions with 1..5 hosts (with / without ports, SRV, unsorted and repeated names), per-host gzip payloads (empty, single, multi-member, large), "
                "window flag combinations, redaction flag sets, challenge / no challenge; unmodified CLI behind the impersonating proxy; non-trivial = distinct worlds")
    worlds = []
    hostsets = [['h1.example.net:27017'], ['node-c.ex.net:27017', 'node-a.ex.net', 'node-b.ex.net:27018'], ['a-00-02.x.mongodb.net:27017', 'a-00-00.x.mongodb.net:27017', 'a-00-01.x.mongodb.net:27017'],
                ['zeta.ex.net:3', 'alpha.ex.net', 'mid.ex.net:27017', 'beta.ex.net:1'], ['h%d.ex.net:2701%d' % (i, i) for i in range(5)],
                ['node-00.us-east.ex.net:27017', 'node-00.eu-west.ex.net:27017', 'node-01.us-east.ex.net'], ['10.0.0.1:27017', '10.0.0.2:27017', '10.0.1.1:27018']]
    n = 21 if th else 7
    for i in range(n):
        hs = hostsets[(i + chk.seed) % len(hostsets)] if i >= len(hostsets) else hostsets[i]
        srv = False   # mongodb+srv needs a DNS SRV lookup (connstring.Parse): not available offline; Atlas' `standard` string is never SRV
        if srv: hs = ['cluster0.abcde.mongodb.net']
        payloads = []
        for h in hs:
            k = rng.choice([0, 1, 3, 40 if th else 12]) if i < 5 else rng.choice([1, 2, 3])
            data = b''.join((rng.choice(pool) if rng.random() < 0.8 else rng.choice([b'', b'', b'   ', b'not json'])) + b'\n' for _ in range(k + (2 if i >= 3 else 0)))
            if i == 2:      # rotated segments separated by blank lines; highly repetitive, so that the stored (compressed) file holds far fewer LF bytes than the log has lines
                seg = lambda x, n: (x + b'\n') * n
                data = pool[0] + b'\n\n' + seg(pool[1], 12) + b'\n' + seg(pool[2], 30) + b'\n\n\n' + seg(pool[0], 25) + b'   \n' + seg(pool[1], 8)
            gzb = streamlib.gz_bytes(data, members=rng.choice([1, 1, 3]))
            if len(payloads) == 0:
                # the first host of every world: a non-empty log whose COMPRESSED form holds no line feed at all (what is counted in the stored file is not lines);
                # found by trying short logs from the pool until one compresses that way
                for j in range(60):
                    cand = b''.join(rng.choice(pool) + b'\n' for _ in range(1 + j % 2))
                    nolf = streamlib.gz_without_lf(cand)
                    if nolf is not None:
                        data, gzb = cand, nolf; chk.dist('payload_compressed_without_lf'); break
            payloads.append((data, gzb))
        window = rng.choice([None, None, (1700000000, 1700003600), (5, 6)])
        cfg = rng.choice([Cfg(), Cfg(nums=True, nss=True), Cfg(repl='ZZ', ips=True)])
        worlds.append((hs, srv, payloads, window, cfg, rng.choice(['digest', 'digest', 'none'])))
    for hs, srv, payloads, window, cfg, challenge in worlds:
        stripped = [h.split(':')[0] for h in hs] if not srv else hs
        # cluster descriptions of realistic and of large size (multi-region replicationSpecs, tags, labels), the connection strings before or after the bulk
        wi = len(chk.__dict__.setdefault('_c16_sizes', []))
        target = [0, 1500, 4000, 4200, 9000, 70000, 300][wi % 7]
        spec = {'id': '5f1a2b3c4d5e6f7a8b9c0d1e', 'numShards': 1, 'regionConfigs': [{'providerName': 'AWS', 'regionName': 'US_EAST_1', 'priority': 7, 'electableSpecs': {'instanceSize': 'M30', 'nodeCount': 3, 'diskIOPS': 3000, 'ebsVolumeType': 'STANDARD'},
                'autoScaling': {'compute': {'enabled': True, 'scaleDownEnabled': True, 'minInstanceSize': 'M30', 'maxInstanceSize': 'M60'}, 'diskGB': {'enabled': True}}}]}
        bulk = {'replicationSpecs': [], 'tags': []}
        while target and len(json.dumps(bulk)) < target:
            bulk['replicationSpecs'].append(spec); bulk['tags'].append({'key': 'team-%d' % len(bulk['tags']), 'value': 'value with \\ " and unicode \u00e9 ' * 3})
        cs = {'connectionStrings': {'standard': atlaslib.conn_string(hs, srv), 'standardSrv': 'mongodb+srv://x'}}
        if wi % 3 == 1:   # the other members the Atlas API documents for this object (private endpoints / PrivateLink / VPC peering): arrays and objects, not only strings
            cs['connectionStrings'].update({'private': 'mongodb://pl-0-us-east-1.x.mongodb.net:1024,pl-0-us-east-1.x.mongodb.net:1025/?ssl=true', 'privateSrv': 'mongodb+srv://c-pl-0.x.mongodb.net',
                'privateEndpoint': [{'connectionString': 'mongodb://pl-0-us-east-1.x.mongodb.net:1024/?ssl=true', 'srvConnectionString': 'mongodb+srv://c-pl-0.x.mongodb.net', 'srvShardOptimizedConnectionString': None, 'type': 'MONGOD',
                                     'endpoints': [{'endpointId': 'vpce-0123456789abcdef0', 'providerName': 'AWS', 'region': 'US_EAST_1'}]}],
                'awsPrivateLink': {'vpce-0123456789abcdef0': 'mongodb://pl-0-us-east-1.x.mongodb.net:1024'}, 'awsPrivateLinkSrv': {'vpce-0123456789abcdef0': 'mongodb+srv://c-pl-0.x.mongodb.net'}})
        elif wi % 3 == 2:
            cs['connectionStrings'].update({'privateEndpoint': [], 'private': None, 'awsPrivateLink': {}})
        desc = dict(list({'name': 'C1x', 'clusterType': 'REPLICASET'}.items()) + (list(bulk.items()) + list(cs.items()) if wi % 2 == 0 else list(cs.items()) + list(bulk.items())) + [('stateName', 'IDLE')])
        chk._c16_sizes.append(len(json.dumps(desc)))
        chk.dist('cluster_description_over_4096_bytes', 1 if len(json.dumps(desc)) > 4096 else 0)
        world = {'challenge': challenge, 'cluster_st': 200, 'cluster_body': json.dumps(desc),
                 'hosts': [{'status': 200, 'body': base64.b64encode(gzb).decode(), 'cut': -1} for _, gzb in payloads]}
        # every other world is a SECOND run into the same --outputFile: longer outputs of an earlier run are already there
        pre = {('out.log.%d' % i): (b'{"stale":"line from an earlier, longer run"}\n' * 400) for i in range(len(hs))} if len(worlds) > 1 and worlds.index((hs, srv, payloads, window, cfg, challenge)) % 2 == 1 else None
        # the machine's time zone: none, UTC, and zones whose clocks were moved (forward / back) three days ago - "the last seven days" is 604800 seconds whatever the local calendar says
        import tempfile as _tf, os as _os, time as _time
        tzk = ['unset', 'UTC', 'forward', 'back'][wi % 4]
        tzenv = None
        if tzk in ('forward', 'back'): window = None      # the default window is the one that is computed from the clock
        if tzk == 'UTC': tzenv = {'TZ': 'UTC'}
        elif tzk in ('forward', 'back'):
            tzf = _os.path.join(_tf.gettempdir(), 'c16_tz_%s_%d' % (tzk, _os.getpid()))
            atlaslib.tzif_with_recent_switch(tzf, _time.time(), 3, 0 if tzk == 'forward' else 3600, 3600 if tzk == 'forward' else 0)
            tzenv = {'TZ': tzf}
        chk.dist('machine_timezone_' + tzk)
        r = atlaslib.run_cli(world, flags=cfg.cli_flags(), window=window, pre_outs=pre, extra_env=tzenv)
        if tzenv and tzenv['TZ'].startswith('/'): _os.remove(tzenv['TZ'])
        chk.count(); chk.traces += 1; chk.nontriv((tuple(hs), window, challenge))
        now = r['t0']
        # the model needs 'now' only for the default window; take it from the request the implementation made
        it = atlaslib.collapse(atlaslib.impl_trace(r['requests']))
        if window is None:
            ls = [x for x in it if x.startswith('L')]
            if ls: now = int(ls[0].split(':')[3])
        m = atlaslib.model_run(cfg, challenge == 'digest', 200, [h.encode() for h in stripped], [('S', 200, gzb) for _, gzb in payloads], window, now, {gzb: data for data, gzb in payloads})
        case = {'hosts': hs, 'srv': srv, 'window': window, 'challenge': challenge, 'second_run_same_output': pre is not None, 'flags': cfg.describe(), 'rc': r['rc'], 'stderr': r['stderr'].decode('utf-8', 'replace')[-300:]}
        i_outs = {int(k.rsplit('.', 1)[1]): v for k, v in r['outs'].items() if k.startswith('out.log.')}
        if it != m['trace'] or i_outs != m['outs'] or r['rc'] != m['status']:
            chk.disagree('request trace / per-host outputs / status', case, {'trace': it, 'outs': {k: v[:80] for k, v in i_outs.items()}, 'rc': r['rc']}, {'trace': m['trace'], 'outs': {k: v[:80] for k, v in m['outs'].items()}, 'rc': m['status']})
        # the whole command (Model/Job.v, Atlas branch): every file the run leaves in the working directory - the output file itself (created empty) and <out>.<i>
        mj = atlaslib.model_job(cfg, challenge == 'digest', 200, [h.encode() for h in stripped], [('S', 200, gzb) for _, gzb in payloads], window, now, {gzb: data for data, gzb in payloads}, pre=pre)
        if it != mj['trace'] or r['outs'] != mj['files'] or r['rc'] != mj['status'] or mj['tmp_left'] != len(r['tmp']):
            chk.disagree('whole-run result of the Atlas job (trace, files in the working directory, status)', case,
                         {'trace': it, 'files': {k: v[:60] for k, v in r['outs'].items()}, 'rc': r['rc']}, {'trace': mj['trace'], 'files': {k: v[:60] for k, v in mj['files'].items()}, 'rc': mj['status']})
        # oracle, independent of the model
        if r['rc'] != 0:
            chk.violate('all-succeed world but the run failed', case, tags=['failed']); continue
        authed = [x for x in it if x.split(':')[0][-1:] != '' and ((x.startswith('C') and x == 'C1') or (x.startswith('L') and x.split(':')[1] == '1'))] if challenge == 'digest' else it
        exp_hosts = stripped
        got_hosts = [bytes.fromhex(x[1:].split(':')[0]).decode() for x in authed if x.startswith('L')]
        if got_hosts != exp_hosts or sum(1 for x in authed if x.startswith('C')) != 1:
            chk.violate('authenticated requests are not exactly one per host in connection-string order', dict(case, got=got_hosts, expected=exp_hosts), tags=['requests'])
        for x in it:
            if x.startswith('L'):
                _, a, s, e = x.split(':')
                if window and (int(s), int(e)) != window: chk.violate('window not passed as given', dict(case, got=(s, e)), tags=['window'])
                if not window and not (int(e) - int(s) == 604800 and r['t0'] - 5 <= int(e) <= r['t1'] + 5): chk.violate('default window is not the last seven days', dict(case, got=(s, e)), tags=['window'])
        if any(q['host'].split(':')[0] != 'cloud.mongodb.com' for q in r['requests']):
            chk.violate('a request went to another endpoint', case, tags=['endpoint'])
        exp_out = {}
        for i, (data, gzb) in enumerate(payloads):
            exp_out[i] = streamlib.impl_stream(cfg, [{'data': data}])[0][1]
        if i_outs != exp_out:
            chk.violate('<outputFile>.<i> is not the redaction of host i\'s log', dict(case, got={k: v[:60] for k, v in i_outs.items()}), tags=['outputs'])
        if r['tmp']: chk.violate('temp files left', dict(case, tmp=list(r['tmp'])), tags=['tmp'])
    chk.streams.append({'stream': 'CLI behind the impersonating proxy: all-succeed worlds', 'worlds': len(worlds)})
    chk.sample({'hosts': worlds[1][0], 'window': worlds[1][3], 'challenge': worlds[1][5]})
    chk.assumptions += ["HTTP, TLS, the digest library and connstring.Parse are not modelled (partial): the model takes the parsed host list as part of the world",
                        "'stored verbatim' is observed through the per-host output (redaction of exactly that host's payload); the temp files themselves are gone when the run ends",
                        "an explicit window with start >= end is passed through as given"]
