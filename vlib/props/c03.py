"""C03 - redaction preserves the JSON shape of every line."""
import random
from vlib import jtree, streams
from vlib.run import *

def shape_proj(out):
    if not isinstance(out, bytes): return out
    if b'\n' in out or b'\r' in out: return 'MULTILINE'
    t = jtree.parse(out)
    if t is None or jtree.kind(t) != 'obj': return 'INVALID'
    return jtree.shape(t)

def run(chk, replay=None):
    rng = random.Random(chk.seed)
    th = chk.tier == 'thorough'
    cases = (streams.corpus_lines() + streams.fixture_lines() + streams.crossclass_lines()[::2] + streams.long_value_lines() + streams.deep_lines()[::2] + streams.grammar_lines(rng, 1500 if th else 250, 0.2) + streams.anyjson_lines(rng, 1500 if th else 300)
             + streams.wrapper_lines(rng, 2000 if th else 250) + streams.search_lines(rng, None if th else 300) + streams.degenerate_lines())
    cfgs = streams.value_cfgs(rng, 10 if th else 4) + [Cfg(encrypt=True, key=streams.KEY, nums=True), Cfg(re='^(ssn|name)$', bools=True)]
    pair = streams.pairwise_cfgs()          # every pair of flag settings together at least once, on a part of the lines
    cfgs = cfgs + pair
    streams.note_distribution(chk, cases)
    chk.rule = ("grammar command lines, arbitrary JSON trees over the dumped operator vocabulary mixed with user names, and every value kind under every "
                "operator / extended-JSON wrapper; x flag sets without --redactFieldNames (incl. encryption and selective mode); non-trivial = distinct "
                "(flags, input shape) pairs whose line passes the gate and has no duplicate sibling keys")
    lines = [l for l, _ in cases]
    all_cases, all_lines = cases, lines
    for ci, cfg in enumerate(cfgs):
        cases = all_cases if (cfg not in pair or th) else all_cases[:450]
        lines = [l for l, _ in cases]
        res = run_lines(cfg, lines)
        for (l, info), (io, mo) in zip(cases, res):
            chk.count(); chk.traces += 1
            if mo == 'TABLEMISS': continue
            if io != mo: chk.drift += 1
            pi, pm = shape_proj(io), shape_proj(mo)
            if pi != pm:
                chk.disagree('shape', {'cfg': cfg.describe(), 'input': l.decode('utf-8', 'replace')}, str(pi)[:300], str(pm)[:300])
            # oracle on the implementation
            tin = jtree.parse(l)
            if isinstance(io, str) and io.startswith('PANIC'):
                chk.violate('panic', {'cfg': cfg.describe(), 'input': l.decode('utf-8', 'replace')}, tags=['panic'])
                continue
            if tin is None or jtree.kind(tin) != 'obj' or jtree.has_dup_keys(tin):
                continue
            sin = jtree.shape(tin)
            chk.nontriv((ci, sin))
            if io == 'SKIP':
                chk.violate('valid object line produced no output', {'cfg': cfg.describe(), 'input': l.decode('utf-8', 'replace')}, tags=['dropped'])
            elif pi != sin:
                case = {'cfg': cfg.describe(), 'input': l.decode('utf-8', 'replace'), 'output': io.decode('utf-8', 'replace')}
                if not any('shrunk_input' in v.get('case', {}) for v in chk.violations):
                    from vlib import shrink
                    def fails(b, cfg=cfg):
                        t = jtree.parse(b)
                        return t is not None and jtree.kind(t) == 'obj' and not jtree.has_dup_keys(t) and shape_proj(shrink.impl_line(cfg, b)) != jtree.shape(t)
                    sb = shrink.shrink_line(l, fails)
                    case['shrunk_input'] = sb.decode('utf-8', 'replace'); case['shrunk_output'] = str(shrink.impl_line(cfg, sb))[:600]
                chk.violate('output shape differs from input shape', case, tags=['shape'])
        chk.streams.append({'stream': 'shape projection model vs implementation', 'cfg': cfg.describe(), 'cases': len(lines)})
    # through the CLI (reader, writer and flag wiring included): every object line without duplicate keys comes out as one line of the same shape
    import subprocess, tempfile, os
    sel = [(l, i) for (l, i) in all_cases if i['kind'] in ('corpus', 'anyjson', 'fixture')][:500] + [(l, i) for (l, i) in all_cases if i['kind'] == 'grammar'][:150]
    sel = [(l, i) for (l, i) in sel if b'\n' not in l and len(l) < 60000]
    with tempfile.TemporaryDirectory() as d:
        f = os.path.join(d, 'in.log'); open(f, 'wb').write(b'\n'.join(l for l, _ in sel) + b'\n')
        for flags in (['-n', '-b'], ['-r', 'X%d 100%', '-i']):
            o = os.path.join(d, 'out.log')
            p = subprocess.run([CLI, 'redact', f, '-o', o] + flags, stdin=subprocess.DEVNULL, capture_output=True)
            outl = open(o, 'rb').read().split(b'\n')[:-1] if os.path.exists(o) else []
            expect = []
            for l, _ in sel:
                tin = jtree.parse(l)
                if tin is not None and jtree.kind(tin) == 'obj': expect.append((l, tin))
            chk.count(len(expect))
            if p.returncode != 0 or len(outl) != len(expect):
                chk.violate('CLI: number of emitted lines differs from the number of object lines', {'flags': flags, 'rc': p.returncode, 'emitted': len(outl), 'object_lines': len(expect), 'stderr': p.stderr.decode('utf-8', 'replace')[-200:]}, tags=['cli', 'count'])
            else:
                for (l, tin), ol in zip(expect, outl):
                    if jtree.has_dup_keys(tin): continue
                    if shape_proj(ol) != jtree.shape(tin):
                        chk.violate('CLI: emitted line is not one JSON object of the input shape', {'flags': flags, 'input': l.decode('utf-8', 'replace')[:1500], 'output': ol.decode('utf-8', 'replace')[:1500]}, tags=['cli', 'shape']); break
    # "every emitted line", also when the run cannot complete: a long log (the output several times larger than any buffer between the loop and the
    # device) that ends in a line over the reader's limit, and the same log with the reader failing far into it - whatever has been written by then
    # consists of whole lines, each one a JSON object
    from vlib import streamlib
    lim = streams.line_limit()
    body = [l for l, i in all_cases if i['kind'] in ('grammar', 'fixture') and b'\n' not in l and len(l) < 3000]
    bigdata = b''.join(body[i % len(body)] + b'\n' for i in range(330))
    fcases = [{'data': bigdata, 'rfail': len(bigdata) * 9 // 10}, {'data': bigdata, 'rfail': len(bigdata) - 7}]
    if lim is not None: fcases.append({'data': bigdata + b'{"a":"' + b'z' * (lim + 64) + b'"}\n' + body[0] + b'\n'})
    for c, (icls, iout, _) in zip(fcases, streamlib.impl_stream(cfgs[0], fcases)):
        chk.count(); chk.nontriv(('failing-run', c.get('rfail', 'toolong')))
        bad = None
        if iout and not iout.endswith(b'\n'): bad = 'the output does not end with a complete line'
        else:
            for ol in iout.split(b'\n')[:-1]:
                t = jtree.parse(ol)
                if t is None or jtree.kind(t) != 'obj': bad = 'an emitted line is not one JSON object'; break
        if bad:
            chk.violate('run that fails part-way: ' + bad, {'fault': 'read error at offset %d' % c['rfail'] if 'rfail' in c else 'a line over the reader limit at the end', 'input_bytes': len(c['data']),
                        'result': icls, 'output_bytes': len(iout), 'output_tail': iout[-200:].decode('utf-8', 'replace')}, tags=['partial-line'])
    chk.streams.append({'stream': 'long logs whose run fails part-way (read error, over-long line): every emitted line is a whole JSON object', 'cases': len(fcases)})
    chk.streams.append({'stream': 'CLI file -> file, shape of every emitted line', 'lines': len(sel)})
    chk.sample({'cfg': cfgs[1].describe(), 'input': lines[len(streams.fixture_lines()) + 1].decode('utf-8', 'replace')[:600]})
    chk.sample({'input': lines[-1].decode('utf-8', 'replace')[:400]})
    chk.assumptions += ["tree-level theorem; the text-level step (printer emits one physical line that parses back) is validated by the byte-level correspondence stream of this run",
                        "duplicate sibling keys are outside the claim (the parser keeps the last value at the first position)"]
