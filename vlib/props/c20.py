"""C20 - the Atlas private key never leaves the process except as a digest response."""
import base64, json, random, urllib.parse, hashlib
from vlib import atlaslib, streamlib, streams
from vlib.run import *

def forms(secret):
    s = secret.encode()
    out = {s, urllib.parse.quote(secret, safe='').encode(), urllib.parse.quote_plus(secret).encode(), base64.b64encode(s), base64.b64encode((atlaslib.PUB + ':' + secret).encode()),
           base64.urlsafe_b64encode(s), s.hex().encode()}
    return out

def run(chk, replay=None):
    rng = random.Random(chk.seed)
    line = streams.fixture_lines()[0][0] + b'\n'
    good = streamlib.gz_bytes(line * 2)
    hosts = ['h0.ex.net:27017', 'h1.ex.net:27017']
    cluster_body = json.dumps({'connectionStrings': {'standard': atlaslib.conn_string(hosts)}})
    okh = [{'status': 200, 'body': base64.b64encode(good).decode(), 'cut': -1} for _ in hosts]
    chk.rule = ("ways of supplying the key pair {flags, environment, mixed} x server behaviours {digest challenge, no challenge, Basic challenge, 401 after the challenge (plain, or with a fresh challenge: stale nonce / other realm / qop / algorithm), 403/404/500 with bodies "
                "echoing the request headers, cluster lookup failing, connection reset, body cut}; every artefact (requests incl. all headers, stdout, stderr, output files, temp files) "
                "searched for the planted private key verbatim, URL-encoded, base64 (alone and as user:password), base64url and hex; non-trivial = distinct (supply, behaviour) pairs")
    behaviours = {
        'digest_ok': {'challenge': 'digest', 'hosts': okh},
        'none': {'challenge': 'none', 'hosts': okh},
        'basic': {'challenge': 'basic', 'hosts': okh},
        'deny_always': {'challenge': 'digest', 'always_deny': True, 'echo_headers': True, 'hosts': okh},
        'host_401_echo': {'challenge': 'digest', 'echo_headers': True, 'hosts': [okh[0], {'status': 401, 'body': '', 'cut': -1}]},
        'host_403_echo': {'challenge': 'digest', 'echo_headers': True, 'hosts': [{'status': 403, 'body': '', 'cut': -1}, okh[1]]},
        'host_500_echo': {'challenge': 'digest', 'echo_headers': True, 'hosts': [okh[0], {'status': 500, 'body': '', 'cut': -1}]},
        'cluster_404_echo': {'challenge': 'digest', 'echo_headers': True, 'cluster_st': 404, 'hosts': okh},
        'reset': {'challenge': 'digest', 'hosts': [{'status': 200, 'body': '', 'cut': -1, 'reset': True}, okh[1]]},
        'host_basic_after_digest': {'challenge': 'digest', 'host_challenge': 'basic', 'echo_headers': True, 'hosts': okh},
        'host_sha512_after_digest': {'challenge': 'digest', 'host_challenge': 'digest-sha512', 'hosts': okh},
        'host_bearer_after_digest': {'challenge': 'digest', 'host_challenge': 'bearer', 'hosts': okh},
        'cut': {'challenge': 'digest', 'hosts': [okh[0], {'status': 200, 'body': base64.b64encode(good).decode(), 'cut': 9}]},
    }
    # every kind of refusal status on a log download, on the first host and on a later one (rate limit, gateway trouble, time-out, conflict ...): what the tool
    # does about it - give up, wait, ask again - is its own business, the key stays inside all the same
    for st in (400, 404, 408, 409, 429, 502, 503, 504):
        behaviours['host1_%d_echo' % st] = {'challenge': 'digest', 'echo_headers': True, 'hosts': [okh[0], {'status': st, 'body': '', 'cut': -1}]}
    for st in (429, 503):
        behaviours['host0_%d' % st] = {'challenge': 'digest', 'hosts': [{'status': st, 'body': '', 'cut': -1}, okh[1]]}
    # the server refuses the AUTHENTICATED request with a fresh challenge (stale nonce, other realm / qop / algorithm), on the log downloads or on every endpoint
    for ac in ('digest-stale', 'digest-renonce', 'digest-realm2', 'digest-authint', 'digest-noqop', 'digest-md5sess', 'digest-sha256'):
        behaviours['authed_%s_logs' % ac] = {'challenge': 'digest', 'authed_challenge': ac, 'authed_scope': 'logs', 'echo_headers': ac == 'digest-realm2', 'hosts': okh}
    behaviours['authed_digest-stale_all'] = {'challenge': 'digest', 'authed_challenge': 'digest-stale', 'authed_scope': 'all', 'hosts': okh}
    behaviours['authed_digest-noqop_all'] = {'challenge': 'digest', 'authed_challenge': 'digest-noqop', 'authed_scope': 'all', 'echo_headers': True, 'hosts': okh}
    secret_forms = forms(atlaslib.PRIV)
    for bname, b in behaviours.items():
        for supply in ('flags', 'env', 'mixed'):
            world = dict({'cluster_st': 200, 'cluster_body': cluster_body}, **b)
            r = atlaslib.run_cli(world, key_via=supply, flags=['-n'])
            chk.count(); chk.traces += 1; chk.nontriv((bname, supply)); chk.dist('behaviour_' + bname)
            case = {'behaviour': bname, 'key_supplied_by': supply, 'rc': r['rc']}
            artefacts = {'stdout': r['stdout'], 'stderr': r['stderr']}
            for i, q in enumerate(r['requests']):
                artefacts['request[%d]' % i] = json.dumps(q).encode()
            for k, v in r['outs'].items(): artefacts['output:' + k] = v
            for k, v in r['tmp'].items(): artefacts['temp:' + k] = v; artefacts['tempname:' + k] = k.encode()
            for name, data in artefacts.items():
                for f in secret_forms:
                    if f in data:
                        chk.violate('the private key appears in an artefact', dict(case, artefact=name, form=f.decode('utf-8', 'replace')[:40], excerpt=data[max(0, data.find(f) - 80): data.find(f) + 60].decode('utf-8', 'replace')), tags=['privkey', name.split('[')[0].split(':')[0]])
            # correspondence with the atom model: credentials (public key / digest response) only after a digest challenge
            sent_auth = [q for q in r['requests'] if q['method'] != 'CONNECT' and 'Authorization' in (q.get('headers') or {})]
            model_sends = (b['challenge'] == 'digest')
            if bool(sent_auth) != model_sends:
                chk.disagree('credentials sent', case, bool(sent_auth), model_sends)
            if b['challenge'] != 'digest':
                pubforms = {atlaslib.PUB.encode(), base64.b64encode(atlaslib.PUB.encode())}
                for i, q in enumerate(r['requests']):
                    if any(pf in json.dumps(q).encode() for pf in pubforms) or 'Authorization' in (q.get('headers') or {}):
                        chk.violate('credential material sent without a digest challenge', dict(case, request=i, headers=q.get('headers')), tags=['nochallenge'])
            for q in sent_auth:
                a = q['headers']['Authorization']
                if not a.startswith('Digest ') or atlaslib.PRIV in a:
                    chk.violate('Authorization header is not a digest response', dict(case, header=a[:120]), tags=['authheader'])
    # key values as they come out of env files and copy-paste: surrounding blanks / newline, a leading dash; in every spelling the key stays inside the process
    for pv in (' ' + atlaslib.PRIV, atlaslib.PRIV + '\n', '\t' + atlaslib.PRIV + ' ', '-' + atlaslib.PRIV, atlaslib.PRIV + '\r\n'):
        for bname in ('digest_ok', 'host_401_echo', 'none'):
            for supply in ('flags', 'env'):
                world = dict({'cluster_st': 200, 'cluster_body': cluster_body}, **behaviours[bname])
                r = atlaslib.run_cli(world, key_via=supply, flags=['-n'], priv=pv)
                chk.count(); chk.nontriv(('keyspelling', pv, bname, supply)); chk.dist('key_spellings')
                case = {'behaviour': bname, 'key_supplied_by': supply, 'key_value_form': repr(pv.replace(atlaslib.PRIV, '<KEY>')), 'rc': r['rc']}
                artefacts = {'stdout': r['stdout'], 'stderr': r['stderr']}
                for i, q in enumerate(r['requests']): artefacts['request[%d]' % i] = json.dumps(q).encode()
                for k, v in r['outs'].items(): artefacts['output:' + k] = v
                for k, v in r['tmp'].items(): artefacts['temp:' + k] = v
                for name, data in artefacts.items():
                    for f in secret_forms | forms(pv) | forms(pv.strip()):
                        if f in data:
                            chk.violate('the private key appears in an artefact', dict(case, artefact=name, form=f.decode('utf-8', 'replace')[:40], excerpt=data[max(0, data.find(f) - 80): data.find(f) + 60].decode('utf-8', 'replace')), tags=['privkey', name.split('[')[0].split(':')[0], 'keyspelling'])
                            break
    chk.streams.append({'stream': 'key values with surrounding blanks / newline / leading dash x behaviours x supply', 'cases': 30})
    # invocations that never reach the network but make the CLI talk: usage / help / flag errors with the key in flags or environment
    talk = [['--atlasLogStartDate', 'not-a-number'], ['--noSuchOption'], ['--help'], ['-h'], ['--atlasLogStartDate', '5'], ['--redactFieldsRegexp', '(unclosed'], ['extra-file-argument.log']]
    for extra in talk:
        for supply in ('flags', 'env', 'mixed'):
            world = dict({'cluster_st': 200, 'cluster_body': cluster_body}, **behaviours['digest_ok'])
            r = atlaslib.run_cli(world, key_via=supply, flags=['-n'], extra_args=extra)
            chk.count(); chk.nontriv(('talk', tuple(extra), supply)); chk.dist('talk_invocations')
            case = {'extra_args': extra, 'key_supplied_by': supply, 'rc': r['rc']}
            artefacts = {'stdout': r['stdout'], 'stderr': r['stderr']}
            for k, v in r['outs'].items(): artefacts['output:' + k] = v
            for k, v in r['tmp'].items(): artefacts['temp:' + k] = v
            for name, data in artefacts.items():
                for f in secret_forms:
                    # on the command line the key is the user's own input and may be echoed by nothing: usage text shows defaults, not values
                    if f in data:
                        chk.violate('the private key appears in an artefact', dict(case, artefact=name, form=f.decode('utf-8', 'replace')[:40], excerpt=data[max(0, data.find(f) - 80): data.find(f) + 60].decode('utf-8', 'replace')), tags=['privkey', name.split(':')[0], 'usage'])
    chk.streams.append({'stream': 'CLI behind the proxy: server behaviours x key supply', 'cases': len(behaviours) * 3})
    chk.streams.append({'stream': 'usage / help / flag-error invocations x key supply', 'cases': len(talk) * 3})
    chk.sample({'behaviour': 'host_401_echo', 'key_supplied_by': 'env', 'searched_forms': sorted(f.decode('utf-8', 'replace')[:30] for f in secret_forms)})
    chk.assumptions += ["that the digest library only hashes the password into the response is read, not proved: the model is of the repository's own data flow (atoms)",
                        "the digest response is derived from the key by MD5; it is the one sanctioned use"]
