"""C05 - type-aware placeholders."""
import random, re, base64, datetime
from vlib import jtree, streams
from vlib.run import *

EMAIL_RE = re.compile(r"^[A-Za-z0-9.!#$%&'*+/=?^_`{|}~-]+@[A-Za-z0-9-]+(\.[A-Za-z0-9-]+)*$")

def is_iso(s):
    try:
        datetime.datetime.strptime(s.replace('Z', '+0000'), '%Y-%m-%dT%H:%M:%S.%f%z' if '.' in s else '%Y-%m-%dT%H:%M:%S%z')
        return s.endswith('Z')
    except ValueError:
        return False

def is_b64(s):
    try:
        base64.b64decode(s, validate=True); return len(s) % 4 == 0
    except Exception:
        return False

def changed_leaves(tin, tout):
    a = list(jtree.leaves(tin)); b = list(jtree.leaves(tout))
    if [x[0] for x in a] != [x[0] for x in b]: return None
    return [(x, y) for x, y in zip(a, b) if x[3] != y[3] or x[2] != y[2]]

def classify(kp, val):
    if kp and kp[-1] == '$date': return 'date'
    if kp and kp[-1] == '$oid': return 'oid'
    if len(kp) >= 2 and kp[-1] == 'base64' and kp[-2] == '$binary': return 'base64'
    if 3 <= len(val) <= 254 and EMAIL_RE.match(val): return 'email'
    return 'generic'

def proj(tin, out):
    if not isinstance(out, bytes): return out
    tout = jtree.parse(out)
    if tout is None: return 'INVALID'
    ch = changed_leaves(tin, tout)
    if ch is None: return 'SHAPE'
    return [(x[0], y[3] if not isinstance(y[3], jtree.Num) else y[3].lit) for x, y in ch]

def judge(cfg, repl, kp, kind, val, okind, oval):
    """None: the changed leaf is the placeholder of its class; 'pseudonym': a namespace position under --redactNamespaces (C12's business);
    else (message, tags)"""
    if kind == 'str' and cfg.nss and okind == 'str' and re.fullmatch('(?:' + re.escape(repl) + r'_[0-9a-f]{16})(?:\.' + re.escape(repl) + r'_[0-9a-f]{16})*', oval):
        return 'pseudonym'
    if kind == 'str':
        cls = classify(kp, val)
        if okind != 'str': return ('string leaf changed kind', ['kind'])
        if cls == 'date' and not (is_iso(oval)): return ('$date value not replaced by an ISO-8601 instant', ['class', 'date'])
        if cls == 'oid' and not re.fullmatch(r'[0-9a-fA-F]{24}', oval): return ('$oid value not replaced by 24 hex digits', ['class', 'oid'])
        if cls == 'base64' and not is_b64(oval): return ('$binary.base64 value not replaced by valid base64', ['class', 'base64'])
        if cls == 'email' and not EMAIL_RE.match(oval): return ('e-mail-shaped value not replaced by an e-mail-shaped placeholder', ['class', 'email'])
        if cls == 'generic' and oval != repl: return ('string not replaced by exactly the --replacement text', ['class', 'generic'])
        return None
    if kind == 'num':
        return None if (okind == 'num' and oval.lit == '0' and cfg.nums) else ('number not replaced by 0', ['num'])
    if kind == 'bool':
        return None if (oval is False and cfg.bools) else ('boolean not replaced by false', ['bool'])
    return ('null leaf changed', ['null'])

def run(chk, replay=None):
    rng = random.Random(chk.seed)
    th = chk.tier == 'thorough'
    cases = streams.corpus_lines() + streams.fixture_lines() + streams.crossclass_lines() + streams.long_value_lines() + streams.deep_lines()[::3] + streams.grammar_lines(rng, 3000 if th else 500, 0.1) + streams.search_lines(rng, None if th else 400)
    repls = streams.REPLS + ['\\"quoted\\"', 'tab\there', 'a@b']
    cfgs = [Cfg(repl=r, nums=rng.random() < .5, bools=rng.random() < .5) for r in repls]
    # together with --redactNamespaces (the pseudonym function reads the same replacement text): pseudonyms are C12's business and skipped below
    cfgs += [Cfg(repl='', nss=True), Cfg(repl='x.y', nss=True, nums=True), Cfg(repl='REDACTED', nss=True, bools=True)]
    streams.note_distribution(chk, cases)
    chk.rule = ("grammar command lines (all literal classes in all slots: filter, update operators, $in arrays, inserted documents, $match, expressions, search operators) "
                "x replacement strings (quotes, backslashes, non-ASCII, empty, e-mail-like); non-trivial = distinct (replacement, class, slot key) of a changed leaf")
    lines = [l for l, _ in cases]
    for ci, cfg in enumerate(cfgs):
        res = run_lines(cfg, lines)
        repl = cfg.repl.decode('utf-8')
        for (l, info), (io, mo) in zip(cases, res):
            chk.count(); chk.traces += 1
            if io != mo: chk.drift += 1
            tin = jtree.parse(l)
            if tin is None: continue
            pi, pm = proj(tin, io), proj(tin, mo)
            if pi != pm:
                chk.disagree('changed-leaf projection', {'cfg': cfg.describe(), 'input': l.decode('utf-8', 'replace')}, str(pi)[:400], str(pm)[:400])
            if not isinstance(io, bytes): continue
            tout = jtree.parse(io)
            if tout is None:
                # the input was a JSON object and what was emitted for it is not JSON at all: some replacement was not written as a JSON value of the kind
                # of what it replaced (e.g. a replacement text with a quote or a backslash in it written unescaped)
                chk.violate('the emitted line is not valid JSON: a replacement was not written as a value of the type it replaces',
                            {'cfg': cfg.describe(), 'input': l.decode('utf-8', 'replace'), 'output': io.decode('utf-8', 'replace')[:600]}, tags=['invalid-output'])
                continue
            ch = changed_leaves(tin, tout) if tout is not None else None
            if ch is None: continue   # shape is C03's business
            for (ip, kp, kind, val), (_, _, okind, oval) in ch:
                case = {'cfg': cfg.describe(), 'path': list(kp), 'old': str(val), 'new': str(oval), 'input': l.decode('utf-8', 'replace')}
                verdict = judge(cfg, repl, kp, kind, val, okind, oval)
                if verdict == 'pseudonym': chk.dist('changed_pseudonym'); continue
                if kind == 'str':
                    cls = classify(kp, val)
                    chk.nontriv((ci, cls, kp[-1] if kp else ''))
                    chk.dist('changed_' + cls)
                else:
                    chk.dist('changed_' + kind)
                if verdict is not None:
                    if not getattr(chk, '_shrunk', False):
                        chk._shrunk = True
                        from vlib import shrink
                        def fails(b, cfg=cfg, repl=repl):
                            t = jtree.parse(b); o = shrink.impl_line(cfg, b)
                            to = jtree.parse(o) if isinstance(o, bytes) else None
                            c2 = changed_leaves(t, to) if (t is not None and to is not None) else None
                            return bool(c2) and any(judge(cfg, repl, x[1], x[2], x[3], y[2], y[3]) not in (None, 'pseudonym') for x, y in c2)
                        sb = shrink.shrink_line(l, fails)
                        case['shrunk_input'] = sb.decode('utf-8', 'replace'); case['shrunk_output'] = str(shrink.impl_line(cfg, sb))[:600]
                    chk.violate(verdict[0], case, tags=verdict[1])
            # subType of every $binary untouched
            for (ip, kp, kind, val), (_, _, _, oval) in zip(jtree.leaves(tin), jtree.leaves(tout)):
                if len(kp) >= 2 and kp[-1] == 'subType' and kp[-2] == '$binary' and val != oval:
                    chk.violate('$binary.subType altered', {'cfg': cfg.describe(), 'input': l.decode('utf-8', 'replace')}, tags=['subtype'])
        chk.streams.append({'stream': 'changed-leaf projection model vs implementation', 'cfg': cfg.describe(), 'cases': len(lines)})
    chk.sample({'cfg': cfgs[1].describe(), 'input': lines[40].decode('utf-8', 'replace')[:500]})
    chk.assumptions += ["class of an array element is decided by value (generic / e-mail); class by context applies to direct members of $date, $oid, $binary.base64"]
