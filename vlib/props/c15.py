"""C15 - field-name redaction renames consistently, completely, only in chosen namespaces."""
import random, re
from vlib import jtree, streams, gen, zones
from vlib.run import *

FIELDS = ['Fq1f', 'Fq22ff', 'Fq3', 'x', 'IX', 'SCAN', 'ab', 'abc', 'f0e1', 'deadbeef', 'user_Name', 'Aq.Bq', 'Pq.Qq.Rq', 'Zq9z8y7x6w5v4u3t2s1r',
          # names that are not identifiers: leading digit, leading underscore, hyphen, non-ASCII, blank inside, '@'
          '7c3e91bd', '9d04fe.zone', '_priv8q', 'order-idq', 'gr\u00f6\u00dfeq', 'first nameq', 'k@tq']

def run(chk, replay=None):
    rng = random.Random(chk.seed)
    th = chk.tier == 'thorough'
    v = streams.vocab()
    chk.rule = ("grammar lines whose user field names are planted identifiers (lengths 1..20, dotted, substrings of each other / of IXSCAN, hex-looking), plan summaries (IXSCAN single / "
                "compound / multiple clauses, COLLSCAN, IDHACK), configured namespace prefix vs line namespace (equal, prefix, different); non-trivial = distinct (prefix relation, line) pairs")
    cases = []
    # user fields named like a bare word of the tables that the walkers consult for every key (today: if / then / else): a field of that name is a user field all the same
    bare = [b for b in v.get('bare_top', []) if len(b) >= 3]
    for i in range(1200 if th else 300):
        fs = rng.sample(FIELDS, rng.randint(2, 5))
        if bare and i % 4 == 0: fs = fs[:3] + [bare[(i // 4) % len(bare)]]
        k = rng.randint(1, 3)
        names = [(lambda f: f if rng.random() < 0.3 else f.split('.')[0])(rng.choice(fs)) for _ in range(k)]
        plan = rng.choice(['COLLSCAN', 'IDHACK', 'IXSCAN { %s }' % ', '.join('%s: 1' % n for n in names),
                           'IXSCAN { %s: 1 }, IXSCAN { %s: -1 }' % (names[0], names[-1]), 'IXSCAN { %s: 1 }' % fs[0]])
        l, info = gen.command_line(rng, v, fields=fs, db='mydb', coll=rng.choice(['users', 'orders']), plan=plan)
        info['fields'] = fs; info['plan'] = plan
        cases.append((l, info))
    lines = [l for l, _ in cases]
    offs = {False: run_lines(Cfg(nums=True), lines), True: run_lines(Cfg(nums=True, nss=True), lines)}
    # the last configuration combines field-name mode with --redactNamespaces (both features read attr.ns)
    for rel, prefix, nss in (('equal-db', 'mydb', False), ('full', 'mydb.users', False), ('different', 'otherdb', False), ('different2', 'mydb.usersX', False), ('full+namespaces', 'mydb.users', True),
                             # configured values that only LOOK related to the line's namespace: compared as given, byte for byte, as a prefix
                             ('db-with-dot', 'mydb.', False), ('stem-with-dot', 'my.', False), ('coll-with-dot', 'mydb.users.', False), ('other-case', 'MyDB', False),
                             ('blank-before', ' mydb', False), ('blank-after', 'mydb ', False), ('stem-dots', 'my..', False), ('slash', 'mydb/', False), ('star', 'mydb.*', False),
                             # SEVERAL values (the flag may be repeated): the mode is on for a line iff SOME value is a prefix of its namespace - whatever their number, order,
                             # nesting (one value a prefix of others) or repetition
                             ('list-nested', ['mydb', 'mydb.carts', 'mydb.orders'], False), ('list-nested-reversed', ['mydb.orders', 'mydb.carts', 'mydb'], False),
                             ('list-repeated', ['otherdb', 'mydb.users', 'mydb.users'], False), ('list-all-foreign', ['otherdb', 'mydb.usersX', 'zz', 'mydb.o.x'], False),
                             ('list-many', ['a', 'b', 'mydb.o', 'mydb.u', 'zz', 'mydb.zz', 'mydb.orders.x'], False), ('list-only-orders', ['zz', 'mydb.orders', 'aa'], True)):
        prefixes = prefix if isinstance(prefix, list) else [prefix]
        prefix = ' | '.join(prefixes)
        cfg = Cfg(nums=True, nss=nss, eager=prefixes)
        res = run_lines(cfg, lines)
        off = offs[nss]
        for (l, info), (io, mo), (fo, _) in zip(cases, res, off):
            chk.count(); chk.traces += 1
            if io != mo: chk.drift += 1
            case = {'prefix': prefix, 'redactNamespaces': nss, 'input': l.decode('utf-8', 'replace')[:2500]}
            if not isinstance(io, bytes): continue
            ns = 'mydb.' + info['coll']
            applies = any(ns.startswith(px) for px in prefixes)
            tin, tout = jtree.parse(l), jtree.parse(io)
            tm = jtree.parse(mo) if isinstance(mo, bytes) else None
            # projection: keys and '$'-strings and plan summary
            def proj(t):
                if t is None: return None
                keys = []
                def w(x):
                    k = jtree.kind(x)
                    if k == 'obj':
                        keys.append(tuple(key for key, _ in x))
                        for _, y in x: w(y)
                    elif k == 'arr':
                        for y in x: w(y)
                w(t)
                return keys
            if proj(tout) != proj(tm):
                chk.disagree('keys of every object (renaming)', case, str(proj(tout))[:300], str(proj(tm))[:300])
            chk.nontriv((rel, l))
            if not applies:
                if io != fo:
                    chk.violate('a line of another namespace is not emitted exactly as without the flag', case, tags=['foreign'])
                continue
            text = io.decode('utf-8', 'replace')
            # completeness: no planted field name remains anywhere in the line (as key, '$field', or in the plan summary)
            comps = sorted({c for f in info['names'] for c in f.split('.')})
            for name in comps:
                if len(name) < 3: continue      # 1-2 letter names occur in unrelated text; they are checked positionally below
                if re.search(r'(?<![A-Za-z0-9_])' + re.escape(name) + r'(?![A-Za-z0-9_])', text):
                    tags = ['leak']
                    ps = jtree.get(jtree.get(tout, 'attr'), 'planSummary')
                    if isinstance(ps, str) and name in ps: tags.append('plansummary')
                    # where does it remain: as a key, as a '$field' reference, or as a plain string value (path / key / localField style arguments)
                    where = set()
                    def w(x, kp=()):
                        k = jtree.kind(x)
                        if k == 'obj':
                            for key, y in x:
                                if name in key.split('.') or key == name: where.add('askey')
                                w(y, kp + (key,))
                        elif k == 'arr':
                            for y in x: w(y, kp)
                        elif k == 'str' and re.search(r'(?<![A-Za-z0-9_])' + re.escape(name) + r'(?![A-Za-z0-9_])', x) and kp[-1:] != ('planSummary',):
                            where.add('dollarref' if x.startswith('$') else 'plainvalue')
                    w(tout)
                    tags += sorted(where)
                    if name in bare: tags += ['bareword', 'bareword_if_then_else' if name in ('if', 'then', 'else') else 'bareword_' + name]
                    chk.violate('a user field name remains in the line', dict(case, name=name, output=text[:1500]), tags=tags)
            # sibling count and order
            tino = jtree.parse(fo) if isinstance(fo, bytes) else None
            def counts(t):
                out = []
                def w(x):
                    k = jtree.kind(x)
                    if k == 'obj':
                        out.append(len(x)); [w(y) for _, y in x]
                    elif k == 'arr': [w(y) for y in x]
                w(t); return out
            if tino is not None and counts(tout) != counts(tino):
                chk.violate('member count of an object changed', case, tags=['count'])
            # plan summary lines up with the filter keys: same name -> same pseudonym
            ps_out = jtree.get(jtree.get(tout, 'attr'), 'planSummary')
            plan = info['plan']
            if isinstance(ps_out, str) and plan.startswith('IXSCAN'):
                pnames = re.findall(r'([^\s{},:]+)\s*:', plan)
                hres = run_harness([cfg.harness_req()] + [{"op": "hash", "s": b64(n)} for n in pnames])[1:]
                expected = plan
                # the intended result: every index key replaced by its pseudonym, nothing else touched
                def repl_keys(m):
                    inner = m.group(1)
                    parts = []
                    for part in inner.split(','):
                        kx, _, vx = part.partition(':')
                        hn = unb64(run_harness([cfg.harness_req(), {"op": "hash", "s": b64(kx.strip())}])[1]['o']).decode()
                        parts.append(' ' + hn + ':' + vx)
                    return 'IXSCAN {' + ','.join(parts) + '}'
                expected = re.sub(r'IXSCAN\s*\{([^}]+)\}', repl_keys, plan)
                if ps_out != expected:
                    overlap = any(a != b and a in b for a in pnames for b in pnames + ['IXSCAN', 'REDACTED'] + [h for h in re.findall(r'[0-9a-f]{16}', expected)])
                    chk.violate('plan summary is not the key-wise image of the original', dict(case, plan=plan, got=ps_out, expected=expected), tags=['plansummary'] + (['overlap'] if overlap else []))
        chk.streams.append({'stream': 'field-name mode', 'prefix': prefix, 'cases': len(lines)})
    chk.sample({'prefix': 'mydb', 'input': lines[3].decode('utf-8', 'replace')[:500], 'plan': cases[3][1]['plan']})
    chk.assumptions += ["the feature is flagged EXPERIMENTAL upstream; several inconsistencies are recorded as known findings", "names of 1-2 characters are only checked through the plan-summary image (they occur in unrelated text)"]
