"""C01 - sensitive literal values never survive redaction (full-redaction mode)."""
import random, subprocess, tempfile, os, json
from vlib import jtree, streams
from vlib.run import *

def survivors(info, out, cfg):
    if not isinstance(out, bytes): return []
    s = []
    text = out.decode('utf-8', 'replace')
    for core, kind, where in info.get('sensitive', []):
        if core and core in text: s.append((kind, where, core))
    if cfg.nums:
        for digits, where in info.get('sens_numbers', []):
            if digits in text: s.append(('number', where, digits))
    if cfg.ips and info.get('ip') and info['ip'] in text: s.append(('ip', 'attr.remote', info['ip']))
    return s

def nonred_names():
    """names of table entries (at any level) whose type is not Redactable and not a container: a leaf below a key of such a name is outside the oracle
    (the name-based sufficient condition of the theorem C01_absent)"""
    d = json.load(open(os.path.join(BUILD, 'dump.json')))
    keep = {d['otypes'][t] for t in ('Redactable', 'OperatorArray', 'OperatorMap', 'Pipeline')}
    out = set()
    def walk(m):
        for k, v in m['m']:
            if isinstance(v, dict): walk(v)
            elif v not in keep: out.add(k)
    for n in d['tables']: walk(d['tables'][n])
    return out

def scalar_survivors(tin, tout, cfg, nonred):
    """numbers (under --redactNumbers) and booleans (under --redactBooleans) inside the query-bearing places, on paths below no key named like a
    non-redactable table entry, that are NOT the constant in the output: [(index path, key path, kind, value)]"""
    from vlib.props import c14
    out = []
    if tin is None or tout is None or not (cfg.nums or cfg.bools): return out
    for ip, kp, k, val, srch, sib in c14.zone_paths(tin):
        if any(key in nonred for key in kp): continue
        try: o = c14.get_by(tout, ip)
        except Exception: continue
        if k == 'bool' and cfg.bools and val is True and o is True: out.append((ip, kp, 'boolean', 'true'))
        if k == 'num' and cfg.nums and isinstance(o, jtree.Num) and o.lit != '0' and o.lit == val.lit: out.append((ip, kp, 'number', val.lit))
    return out

def run(chk, replay=None):
    rng = random.Random(chk.seed)
    th = chk.tier == 'thorough'
    cases = streams.grammar_lines(rng, 4000 if th else 700, 0.0, depth=5 if th else 4)
    collide = streams.grammar_lines(rng, 1500 if th else 250, 1.0)
    for _, info in collide: info['kind'] = 'grammar_collide'
    cases += collide
    from vlib import gen as _gen
    cases += _gen.collide_lines(streams.vocab())     # every operator-argument name as a user field name, systematically
    cases += streams.keyword_lines()                 # every bare word of the tables as a string VALUE
    cases += streams.deep_lines()                    # literals 50 .. 300 levels deep
    cases += streams.long_value_lines()              # long literals around buffer sizes, in near-duplicate pairs
    cases += streams.crossclass_lines()              # one literal text at positions of different classes, in one line and over consecutive lines
    streams.note_distribution(chk, cases)
    nonred = nonred_names()
    # every combination of the two scalar switches occurs (numbers only, booleans only, both, none)
    cfgs = streams.value_cfgs(rng, 8 if th else 3) + [Cfg(bools=True), Cfg(nums=True, repl='q'), Cfg(nums=True, bools=True, eager=['mydb', 'app_db', 'shop', 'd']), Cfg(encrypt=True, key=streams.KEY, nums=True, ips=True),
                                                    Cfg(repl='', nss=True), Cfg(eager=[''] if False else ['déb'], ips=True)]
    chk.rule = ("grammar-generated command lines (every verb, command / cmd / originatingCommand placement, all stages incl. search, nested sub-pipelines, arrays of arrays, "
                "all extended-JSON wrappers, literal classes ASCII / Unicode / astral / e-mail / '$' inside / digits / escapes / empty / look-alike / long) with planted unique cores, "
                "x flag sets outside the selective mode; a second stream names user fields like operator arguments; non-trivial = distinct (flags, line) pairs with at least one planted literal")
    lines = [l for l, _ in cases]
    for ci, cfg in enumerate(cfgs):
        res = run_lines(cfg, lines)
        for (l, info), (io, mo) in zip(cases, res):
            chk.count(); chk.traces += 1
            if io != mo: chk.drift += 1
            si, sm = survivors(info, io, cfg), survivors(info, mo, cfg)
            if si != sm or (isinstance(io, bytes) != isinstance(mo, bytes)):
                chk.disagree('surviving planted literals', {'cfg': cfg.describe(), 'input': l.decode('utf-8', 'replace')}, str(si)[:300], str(sm)[:300])
            if info['sensitive'] or info['sens_numbers']: chk.nontriv((ci, l))
            if (cfg.nums or cfg.bools) and not cfg.eager and isinstance(io, bytes) and len(l) < 20000:
                tin = jtree.parse(l)
                ssi = scalar_survivors(tin, jtree.parse(io), cfg, nonred)
                ssm = scalar_survivors(tin, jtree.parse(mo), cfg, nonred) if isinstance(mo, bytes) else None
                if ssm is not None and ssi != ssm:
                    chk.disagree('surviving numbers / booleans per position', {'cfg': cfg.describe(), 'input': l.decode('utf-8', 'replace')[:3000]}, str(ssi)[:300], str(ssm)[:300])
                for ip, kp, kind, val in ssi:
                    chk.violate('%s literal survives under its redaction flag' % kind, {'cfg': cfg.describe(), 'path': list(kp), 'value': val, 'input': l.decode('utf-8', 'replace')[:3000],
                                'output': io.decode('utf-8', 'replace')[:3000]}, tags=['leak', kind, 'positional'])
            if io == 'SKIP' or (isinstance(io, str) and io.startswith('PANIC')):
                chk.violate('grammar line not emitted', {'cfg': cfg.describe(), 'input': l.decode('utf-8', 'replace'), 'result': io}, tags=['dropped'])
            for kind, where, core in si:
                tags = ['leak', kind]
                if info['kind'] == 'grammar_collide': tags.append('collide')
                if not getattr(chk, '_shrunk', False) and kind != 'ip':
                    chk._shrunk = True
                    from vlib import shrink
                    def fails(b, cfg=cfg, core=core):
                        o = shrink.impl_line(cfg, b)
                        return isinstance(o, bytes) and core.encode() in o and core.encode() in b
                    sb = shrink.shrink_line(l, fails)
                    chk.violate('planted %s literal survives (shrunk witness)' % kind, {'cfg': cfg.describe(), 'literal': core, 'shrunk_input': sb.decode('utf-8', 'replace'),
                                'shrunk_output': str(shrink.impl_line(cfg, sb))[:800]}, tags=tags)
                chk.violate('planted %s literal survives' % kind, {'cfg': cfg.describe(), 'where': where, 'literal': core, 'input': l.decode('utf-8', 'replace'),
                                                                    'output': io.decode('utf-8', 'replace')}, tags=tags)
        chk.streams.append({'stream': 'survivor projection model vs implementation', 'cfg': cfg.describe(), 'cases': len(lines)})
    # the real CLI flag wiring: -r -n -b -i -w -f -y
    sub = cases[:120]
    with tempfile.TemporaryDirectory() as d:
        inp = os.path.join(d, 'in.log'); open(inp, 'wb').write(b'\n'.join(l for l, _ in sub) + b'\n')
        for cfg in [Cfg(nums=True, bools=True, ips=True, nss=True, repl='ZZ'), Cfg(eager=['mydb', 'shop']), Cfg(encrypt=True, key=b'')]:
            o = os.path.join(d, 'out.log')
            if os.path.exists(o): os.remove(o)
            p = subprocess.run([CLI, 'redact', inp, '-o', o] + cfg.cli_flags(os.path.join(d, 'k.key')), stdin=subprocess.DEVNULL, capture_output=True)
            outl = open(o, 'rb').read().split(b'\n') if os.path.exists(o) else []
            if p.returncode != 0 or len(outl) - 1 != len(sub):
                chk.violate('CLI run failed or dropped lines', {'cfg': cfg.describe(), 'rc': p.returncode, 'stderr': p.stderr.decode('utf-8', 'replace')[-300:], 'lines': len(outl) - 1}, tags=['cli'])
                continue
            for (l, info), ol in zip(sub, outl):
                chk.count()
                for kind, where, core in survivors(info, ol, cfg):
                    chk.violate('planted %s literal survives through the CLI' % kind, {'cfg': cfg.describe(), 'where': where, 'literal': core, 'input': l.decode('utf-8', 'replace'), 'output': ol.decode('utf-8', 'replace')}, tags=['leak', 'cli', kind])
        chk.streams.append({'stream': 'CLI flag wiring', 'lines': len(sub), 'flag_sets': 3})
    chk.sample({'cfg': cfgs[1].describe(), 'input': lines[3].decode('utf-8', 'replace')[:700], 'planted': cases[3][1]['sensitive'][:4]})
    chk.assumptions += ["the theorem speaks about index paths that pass below no key NAMED like a non-redactable table entry; user fields named like operator arguments are covered by the collide stream of this check only",
                        "arrayFilters / let / hint and other command options are outside the property's list of places"]
