"""C17 - raw downloaded logs never outlive the run."""
import base64, json, random, os
from vlib import atlaslib, streamlib, streams
from vlib.run import *

def run(chk, replay=None):
    rng = random.Random(chk.seed)
    th = chk.tier == 'thorough'
    LIM = streams.line_limit()      # the reader's line limit, measured on the compiled program
    line = streams.fixture_lines()[0][0] + b'\n'
    good = streamlib.gz_bytes(line * 3)
    chk.rule = ("host counts n in 1..4 x failing host index k x fault kinds {HTTP 401/404/500, connection reset before headers, body cut after j bytes, payload that is not gzip, "
                "payload with an over-long line, unwritable output path, cluster lookup failing} + success; library level (harness) and through the CLI; TMPDIR listed after every run; "
                "non-trivial = distinct (n, k, fault) triples")
    kinds = ['401', '404', '500', 'reset', 'cut0', 'cut7', 'cutmid', 'notgzip', 'toolong', 'outdir', 'empty200', 'onebyte', 'gzheader', 'emptygz', '204', '429']
    not_a_fault = ('success', 'emptygz', '204') + (() if LIM is not None else ('toolong',))       # outcomes for which success may be reported; temp files must be gone all the same
    cases = []
    for n in ((1, 2, 3, 4) if th else (1, 3)):
        for k in range(n):
            for kind in kinds:
                cases.append((n, k, kind))
    cases += [(2, -1, 'cluster500'), (2, -1, 'cluster_badjson'), (3, -1, 'success')]
    # the temporary directory named in other spellings (trailing separator as on macOS, doubled separator, '.' and '..' components)
    forms = [None] * len(cases)
    for fi, form in enumerate(('slash', 'double', 'dot', 'dotdot', 'dotslash')):
        for n, k, kind in ((3, 1, '500'), (3, 2, 'cutmid'), (3, -1, 'success'), (2, 1, 'notgzip'), (2, 0, 'outdir')):
            cases.append((n, k, kind)); forms.append(form)
    for (n, k, kind), form in zip(cases, forms):
        hosts = ['h%d.ex.net:27017' % i for i in range(n)]
        hw = []
        for i in range(n):
            h = {'status': 200, 'body': base64.b64encode(good).decode(), 'cut': -1}
            if i == k:
                if kind in ('401', '404', '500', '204', '429'): h['status'] = int(kind)
                elif kind == 'empty200': h['body'] = ''
                elif kind == 'onebyte': h['body'] = base64.b64encode(b'\x1f').decode()
                elif kind == 'gzheader': h['body'] = base64.b64encode(good[:10]).decode()
                elif kind == 'emptygz': h['body'] = base64.b64encode(streamlib.gz_bytes(b'')).decode()
                elif kind == 'reset': h['reset'] = True
                elif kind == 'cut0': h['cut'] = 0
                elif kind == 'cut7': h['cut'] = 7
                elif kind == 'cutmid': h['cut'] = len(good) // 2
                elif kind == 'notgzip': h['body'] = base64.b64encode(b'this is not gzip data at all').decode()
                elif kind == 'toolong': h['body'] = base64.b64encode(streamlib.gz_bytes(line + b'x' * ((LIM or 70000) + 4464) + b'\n' + line)).decode()
            hw.append(h)
        world = {'challenge': 'digest', 'cluster_st': 500 if kind == 'cluster500' else 200,
                 'cluster_body': '{not json' if kind == 'cluster_badjson' else json.dumps({'connectionStrings': {'standard': atlaslib.conn_string(hosts)}}), 'hosts': hw}
        out_name = 'out.log'
        if kind == 'outdir': out_name = 'o.log'
        # unwritable output path for file k: make "<out>.<k>" a directory beforehand is not possible from outside the run dir; use a path whose .k is a directory via extra prep
        r = atlaslib.run_cli(world, out_name=out_name, tmpdir_form=form) if kind != 'outdir' else run_outdir(world, k, form)
        chk.count(); chk.traces += 1; chk.nontriv((n, k, kind, form)); chk.dist('fault_' + kind)
        case = {'hosts': n, 'failing_host': k, 'fault': kind, 'TMPDIR_spelling': form or 'clean', 'rc': r['rc'], 'stderr': r['stderr'].decode('utf-8', 'replace')[-300:], 'tmp_left': sorted(r['tmp'])}
        # model
        if kind not in ('outdir', 'cluster_badjson', 'toolong', 'notgzip', 'empty200', 'onebyte', 'gzheader', 'emptygz', '204', '429'):
            logs = []
            for i, h in enumerate(hw):
                body = base64.b64decode(h['body'])
                if h.get('reset'): logs.append(('R',))
                elif h['status'] != 200: logs.append(('S', h['status'], b''))
                elif h['cut'] >= 0: logs.append(('C', h['cut'], body))
                else: logs.append(('S', 200, body))
            m = atlaslib.model_run(Cfg(), True, world['cluster_st'], [x.split(':')[0].encode() for x in hosts], logs, None, 1000000, {good: line * 3})
            it = atlaslib.collapse([x.rsplit(':', 2)[0] for x in atlaslib.impl_trace(r['requests'])])
            mt = [x.rsplit(':', 2)[0] for x in m['trace']]
            if it != mt or (r['rc'] != 0) != (m['status'] != 0) or len(r['tmp']) != m['tmp_left']:
                chk.disagree('trace / status / temp files under a fault', case, {'trace': it, 'rc': r['rc'], 'tmp': len(r['tmp'])}, {'trace': mt, 'rc': m['status'], 'tmp': m['tmp_left']})
            # the whole command (Model/Job.v): what is left in the working directory - the output file itself, created empty before the download,
            # and nothing else when a download fails - together with status and temp files
            mj = atlaslib.model_job(Cfg(), True, world['cluster_st'], [x.split(':')[0].encode() for x in hosts], logs, None, 1000000, {good: line * 3})
            if (r['rc'] != 0) != (mj['status'] != 0) or len(r['tmp']) != mj['tmp_left'] or r['outs'] != mj['files']:
                chk.disagree('whole-run result of the Atlas job under a fault (files in the working directory, status, temp files)', case,
                             {'files': {k2: v[:60] for k2, v in r['outs'].items()}, 'rc': r['rc'], 'tmp': len(r['tmp'])}, {'files': {k2: v[:60] for k2, v in mj['files'].items()}, 'rc': mj['status'], 'tmp': mj['tmp_left']})
        if r['tmp']:
            chk.violate('downloaded log file left in the temporary directory', case, tags=['leak', kind])
        if kind not in not_a_fault and r['rc'] == 0:
            chk.violate('fault injected but the run reported success', case, tags=['silent', kind])
        if kind == 'success' and r['rc'] != 0:
            chk.violate('fault-free Atlas run failed', case, tags=['failed'])
    # library level: DownloadClusterLogs against an in-process endpoint
    lib = []
    for n in (1, 2, 4):
        for k in range(n):
            for fk in ('500', 'cut', 'cancel'):
                hw = [{'status': 200, 'body': b64(good), 'cut': -1} for _ in range(n)]
                if fk == '500': hw[k]['status'] = 500
                elif fk == 'cancel': hw[k]['cancel'] = True      # the caller's context is cancelled while host k is in flight
                else: hw[k]['cut'] = 5
                lib.append((n, k, fk, hw))
    import tempfile, shutil
    for n, k, fk, hw in lib:
        d = tempfile.mkdtemp(prefix='c17lib_')
        try:
            w = {'cluster': json.dumps({'connectionStrings': {'standard': atlaslib.conn_string(['h%d.ex.net:1' % i for i in range(n)])}}), 'cluster_st': 200, 'hosts': hw,
                 'project': 'P', 'name': 'C', 'pub': 'a', 'priv': 'b', 'start': 1, 'end': 2, 'tmp': d, 'challenge': True}
            res = run_harness([{"op": "atlas", "world": w}])[0]
            chk.count(); chk.dist('library_level')
            if res.get('r') != 'done' or res['err'] == '' or res['tmp_after_download']:
                chk.violate('library level: failed download left files or reported success', {'n': n, 'k': k, 'fault': fk, 'result': {x: res.get(x) for x in ('err', 'tmp_after_download', 'r')}}, tags=['leak', 'library'])
        finally:
            shutil.rmtree(d, ignore_errors=True)
    chk.streams.append({'stream': 'CLI behind the proxy: n x k x fault kinds', 'cases': len(cases)}); chk.streams.append({'stream': 'library level DownloadClusterLogs', 'cases': len(lib)})
    chk.sample({'hosts': 3, 'failing_host': 1, 'fault': 'body cut mid-stream'})
    chk.assumptions += ["a process killed by a signal between download and cleanup is outside the model (no exit path of the program)", "HTTP / TLS behaviour is the library's"]

def run_outdir(world, k, form=None):
    """unwritable output: <out>.<k> already exists as a directory"""
    import tempfile, subprocess, shutil, time, json as _json
    # reuse run_cli but pre-create the directory through a wrapper working dir: run_cli creates 'work'; emulate by giving an output path inside a prepared dir
    d = tempfile.mkdtemp(prefix='c17out_')
    try:
        os.mkdir(os.path.join(d, 'o.log.%d' % k))
        return atlaslib.run_cli(world, out_name=os.path.join(d, 'o.log'), tmpdir_form=form)
    finally:
        shutil.rmtree(d, ignore_errors=True)
