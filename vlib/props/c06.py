"""C06 - a log is processed as an order-preserving, line-local map."""
import random, tempfile, os
from vlib import streams, streamlib
from vlib.run import *

def make_logs(rng, pool, n):
    logs = []
    junk = [b'', b'   ', b'\t', b'not json at all', b'2024-01-01T00:00:00.000+0000 I NETWORK  [conn1] end connection', b'[1,2]', b'"str"', b'5', b'{"a":1} trailing', b'{"broken":', b'{}']
    for _ in range(n):
        k = rng.randint(0, 12)
        ls = [rng.choice(pool) if rng.random() < 0.65 else rng.choice(junk) for _ in range(k)]
        logs.append(ls)
    return logs

def run(chk, replay=None):
    rng = random.Random(chk.seed)
    th = chk.tier == 'thorough'
    pool = [l for l, _ in streams.grammar_lines(rng, 80, 0.1) + streams.anyjson_lines(rng, 60) + streams.fixture_lines()]
    logs = make_logs(rng, pool, 400 if th else 90)
    # long lines (beyond every buffer size a line reader is likely to use, below the 64 KiB limit), several per log
    def long_line(n, tag):
        vals = ','.join('"v%s%05d"' % (tag, i) for i in range(max(1, (n - 200) // 11)))
        return ('{"t":{"$date":"2020-01-01T00:00:00.000+00:00"},"s":"I","c":"COMMAND","id":51803,"ctx":"conn%s","msg":"Slow query","attr":{"ns":"mydb.users","command":{"find":"users","filter":{"f%s":{"$in":[%s]}},"$db":"mydb"}}}' % (tag, tag, vals)).encode()
    LIM = min(streams.line_limit() or 200000, 300000)      # measured on the compiled program (capped: longer lines only cost time here; C07 goes to the limit itself)
    longs = [long_line(min(n, LIM - 300), t) for n, t in ((4200, 'a'), (5000, 'b'), (9000, 'c'), (17000, 'd'), (33000, 'e'), (60000, 'f'), (65000, 'g'))] + ([long_line(LIM - 300, 'h')] if LIM > 70000 else [])
    logs += [[longs[0], pool[0], longs[1], longs[2]], [longs[3], longs[4]], [pool[1], longs[5], pool[2], longs[3], longs[1]], [longs[6], pool[0]], [longs[2], b'', longs[2], b'not json', longs[4]], [pool[3], longs[-1]]]
    # families of near-duplicate lines (same planCacheKey / queryHash / ctx, one member different), in both orders and with repetitions
    from vlib import gen as _gen
    logs += _gen.family_logs()[:: (1 if th else 2)]
    cfgs = [Cfg(), Cfg(nums=True, nss=True, ips=True), Cfg(eager=['mydb', 'shop'], repl='Q')]
    chk.rule = ("multi-line logs drawn from {grammar command lines, arbitrary-JSON lines of other components, blank, whitespace-only, non-JSON text, scalars/arrays, truncated objects}; "
                "LF/CRLF, with/without final newline, random split points, permutations; non-trivial = distinct logs with >= 2 lines of which >= 1 is emitted")
    for cfg in cfgs:
        cases = []
        meta = []
        for ls in logs:
            for crlf in (False, True):
                for final in (True, False):
                    sep = b'\r\n' if crlf else b'\n'
                    data = sep.join(ls) + (sep if final and ls else b'')
                    cases.append({'data': data, 'chunk': rng.choice([0, 1, 7, 4096]), 'bar': rng.choice([-1, -1, 0, len(ls)])})
                    meta.append((ls, crlf, final))
        ir = streamlib.impl_stream(cfg, cases)
        mr = streamlib.model_stream(cfg, cases)
        # per-line results of the implementation
        flat = sorted({l for ls in logs for l in ls})
        pl = dict(zip(flat, run_alone(cfg, flat)))          # each line in a fresh process: "what that line yields when processed on its own"
        for (ls, crlf, final), c, (icls, iout, _), (mcls, mout) in zip(meta, cases, ir, mr):
            chk.count(); chk.traces += 1
            case = {'cfg': cfg.describe(), 'lines': [l.decode('utf-8', 'replace') for l in ls], 'crlf': crlf, 'final_newline': final, 'chunk': c['chunk'], 'bar': c['bar']}
            if (icls, iout) != (mcls, mout):
                chk.disagree('stream output', case, (icls, iout[:300].decode('utf-8', 'replace')), (mcls, mout[:300].decode('utf-8', 'replace')))
            expect = b''.join((pl[l] + b'\n') for l in ls if isinstance(pl[l], bytes) and not (crlf and l.endswith(b'\r')))
            if len(ls) >= 2 and expect: chk.nontriv((cfg.describe()['repl'], tuple(ls)))
            if icls != 'ok':
                chk.violate('fault-free multi-line run reported an error or panicked', dict(case, result=icls), tags=['error'])
            elif not any(l.endswith(b'\r') for l in ls) and iout != expect:
                chk.violate('stream output is not the in-order concatenation of the per-line results', dict(case, output=iout[:400].decode('utf-8', 'replace')), tags=['linelocal'])
        chk.streams.append({'stream': 'logs x {LF,CRLF} x {final newline or not} x chunk sizes x bar states', 'cfg': cfg.describe(), 'cases': len(cases)})
        # homomorphism on the implementation: redact(A ++ B) == redact(A) ++ redact(B)
        hom = []
        for _ in range(60 if th else 25):
            a, b = rng.choice(logs), rng.choice(logs)
            A = b'\n'.join(a) + (b'\n' if a else b''); B = b'\n'.join(b) + (b'\n' if b else b'')
            hom.append((A, B))
        hr = streamlib.impl_stream(cfg, [{'data': A + B} for A, B in hom] + [{'data': A} for A, _ in hom] + [{'data': B} for _, B in hom])
        n = len(hom)
        for i, (A, B) in enumerate(hom):
            chk.count()
            if hr[i][1] != hr[n + i][1] + hr[2 * n + i][1]:
                chk.violate('redact(A ++ B) != redact(A) ++ redact(B)', {'cfg': cfg.describe(), 'A': A[:300].decode('utf-8', 'replace'), 'B': B[:300].decode('utf-8', 'replace')}, tags=['hom'])
    # the real CLI: 3 input channels x 2 output channels x LF/CRLF x final newline x 2 repetitions
    import gzip
    cfg = Cfg(nums=True, nss=True)
    sample = [ls for ls in logs if 3 <= len(ls)][:6 if th else 3] + [[pool[0]], [pool[1], pool[2]], [b'\xef\xbb\xbf' + pool[0], pool[1]], [b'\xef\xbb\xbf', pool[2]], [b'\xff\xfe' + pool[0], b'\x00' + pool[1], pool[2]]]     # incl. a one-entry log, and logs that start with a byte order mark (such a first line is not JSON on ANY channel): without a final newline its raw bytes contain no LF at all
    for ls in sample:
        for crlf in (False, True):
            for final in (True, False):
                sep = b'\r\n' if crlf else b'\n'
                data = sep.join(ls) + (sep if final else b'')
                want = streamlib.model_stream(cfg, [{'data': data}])[0][1]
                with tempfile.TemporaryDirectory() as d:
                    f = os.path.join(d, 'in.log'); open(f, 'wb').write(data)
                    g = os.path.join(d, 'in.log.gz'); open(g, 'wb').write(streamlib.gz_bytes(data, members=2))
                    outs = {}
                    for rep in range(2):
                        for chan in ('file', 'gz', 'stdin'):
                            for outc in ('stdout', 'ofile'):
                                o = os.path.join(d, 'out_%s_%s_%d' % (chan, outc, rep))
                                if outc == 'ofile' and rep == 1:
                                    open(o, 'wb').write(b'{"stale":"line left by an earlier, longer run into the same --outputFile"}\n' * 300)
                                args = ['redact'] + cfg.cli_flags() + ([f] if chan == 'file' else [g] if chan == 'gz' else []) + (['-o', o] if outc == 'ofile' else [])
                                rc, so, se = streamlib.cli_run(args, stdin_bytes=(data if chan == 'stdin' else None))
                                got = open(o, 'rb').read() if outc == 'ofile' and os.path.exists(o) else so
                                chk.count()
                                case = {'channel': chan, 'output': outc, 'crlf': crlf, 'final_newline': final, 'rep': rep, 'lines': [l.decode('utf-8', 'replace')[:200] for l in ls]}
                                if rc != 0 or got != want:
                                    chk.violate('CLI output differs across channels / from the line-local map', dict(case, rc=rc, got=got[:300].decode('utf-8', 'replace'), want=want[:300].decode('utf-8', 'replace'), stderr=se[-200:].decode('utf-8', 'replace')), tags=['cli', chan, outc])
    chk.streams.append({'stream': 'CLI: {file, gzip (2 members), stdin} x {stdout, --outputFile} x {LF, CRLF} x {final newline or not} x 2 repetitions', 'logs': len(sample)})
    # flag wiring: every PAIR of settings of the redaction flags together at least once, through the CLI (file -> --outputFile and stdin -> stdout),
    # against the stream processor called in-process with the same settings through the setters (what main.go has to wire up)
    import base64 as _b64
    wl = [l for l in pool[:60] if len(l) < 20000 and b'\n' not in l]
    data = b'\n'.join(wl) + b'\n'
    for cfgp in streams.pairwise_cfgs(with_eager=True):
        if cfgp.re and cfgp.eager: cfgp.eager = []          # --redactFieldsRegexp and --redactFieldNames exclude each other (C18)
        want = streamlib.impl_stream(cfgp, [{'data': data}])[0][1]
        with tempfile.TemporaryDirectory() as d:
            f = os.path.join(d, 'in.log'); open(f, 'wb').write(data)
            kf = os.path.join(d, 'k.key'); open(kf, 'wb').write(_b64.b64encode(streams.KEY))
            o = os.path.join(d, 'out.log')
            rc, so, se = streamlib.cli_run(['redact', f, '-o', o] + cfgp.cli_flags(kf))
            got = open(o, 'rb').read() if os.path.exists(o) else b''
            chk.count(); chk.nontriv(('wiring', str(cfgp.describe())))
            if rc != 0 or got != want:
                i = next((i for i in range(min(len(got), len(want))) if got[i] != want[i]), 0)
                chk.violate('CLI output under a flag combination differs from the line-local map under that configuration', {'flags': cfgp.cli_flags('KEYFILE'), 'rc': rc, 'stderr': se[-200:].decode('utf-8', 'replace'),
                            'got_around': got[max(0, i - 120):i + 120].decode('utf-8', 'replace'), 'want_around': want[max(0, i - 120):i + 120].decode('utf-8', 'replace')}, tags=['cli', 'flags'])
            if not cfgp.encrypt:
                rc, so, se = streamlib.cli_run(['redact'] + cfgp.cli_flags(kf), stdin_bytes=data)
                chk.count()
                if rc != 0 or so != want:
                    chk.violate('CLI (stdin -> stdout) under a flag combination differs from the line-local map under that configuration', {'flags': cfgp.cli_flags('KEYFILE'), 'rc': rc, 'stderr': se[-200:].decode('utf-8', 'replace')}, tags=['cli', 'flags'])
    chk.streams.append({'stream': 'CLI flag wiring: pairwise flag combinations x {file -> file, stdin -> stdout} vs the in-process stream processor', 'lines': len(wl)})
    # the whole command (Model/Job.v: main.go's Run end to end) against the CLI on small worlds: exit status, file system and standard output
    from vlib import joblib
    jrng = random.Random(chk.seed * 7919 + 606)
    jpool = [l for l, _ in streams.grammar_lines(jrng, 25, 0.1) + streams.fixture_lines()[:8]]
    joblib.correspondence(chk, jrng, 240 if chk.tier == 'thorough' else 100, jpool)
    chk.sample({'log': [l.decode('utf-8', 'replace')[:160] for l in logs[3]]})
    chk.assumptions += ["that file, gzip and stdin feed the same bytes to the same loop, and that stdout and --outputFile receive the same bytes, is code structure + OS behaviour: covered by the CLI stream, not by the theorem",
                        "CRLF equivalence is claimed for lines that do not themselves end in CR"]
