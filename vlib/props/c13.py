"""C13 - pseudonyms are a stable, collision-free, component-wise function of the name."""
import random, re, itertools, json, os, subprocess, tempfile
from vlib.run import *

ALPHA40 = 'abcdefghijklmnopqrstuvwxyz0123456789_-$ '

def gen_names(rng, n):
    comps = ['104233', '2024', '00', 'a', 'b', 'name', 'ssn', '', 'x' * 60, 'é', '中文', '\U0001F600', 'A', 'a b', '$', 'a$b', '_id', '0', 'user_id', 'Zq1qZ']
    out = []
    for _ in range(n):
        k = rng.randint(1, 4)
        parts = [rng.choice(comps) if rng.random() < 0.6 else ''.join(rng.choice(ALPHA40 + 'ABCXYZé') for _ in range(rng.randint(0, 12))) for _ in range(k)]
        name = '.'.join(parts)
        name = '$' * rng.choice([0, 0, 0, 1, 2]) + name
        out.append(name.encode('utf-8'))
    # long components: around every power of two up to 4 KiB, in bytes (ASCII) and in multi-byte characters; pairs that share a long prefix
    for L in (31, 32, 33, 63, 64, 65, 127, 128, 129, 255, 256, 257, 300, 511, 512, 513, 1024, 1025, 4096, 5000):
        base = ''.join(rng.choice('abcdefghijklmnop') for _ in range(L))
        out += [base.encode(), (base + 'X').encode(), (base + 'Y').encode(), (base[:-1] + 'Z').encode(), ('db.' + base + '.c').encode(), ('$' + base).encode()]
        cjk = ''.join(rng.choice('中文数据库集合字段') for _ in range(L // 3 + 1))
        out += [cjk.encode('utf-8'), (cjk + '名').encode('utf-8'), (cjk + '称').encode('utf-8')]
    return out

def run(chk, replay=None):
    rng = random.Random(chk.seed)
    thorough = chk.tier == 'thorough'
    chk.rule = ("names: generated identifiers (dotted, '$'-prefixed, Unicode, empty components) x replacement strings; "
                "dictionary: all strings of length <= %d over 40 symbols through the implementation; non-trivial = distinct (replacement, name) pairs with a non-empty name" % (3 if thorough else 2))
    repls = [b'REDACTED', b'X', b'', b'r.e.p', 'ré"\\'.encode(), b'REDACTED_0000000000000000', b'100%', b'%s_%x %d', b'$$ n.a.']
    names = gen_names(rng, 3000 if thorough else 600)
    # names shaped like the tool's own output under each replacement in use - exactly (a pseudonym of a pseudonym is still a pseudonym: the function has no
    # "already done" case) and nearly (prefix + 16 bytes that are not hex, 15 / 17 hex digits, upper-case hex, the prefix alone) - alone, after '$', as a component
    for r in repls:
        try: rs = r.decode('utf-8')
        except Exception: continue
        for tail in ('_customer_numbers', '_' + 'g' * 16, '_0123456789abcdef', '_0123456789ABCDEF', '_0123456789abcde', '_0123456789abcdef0', '_', '', '_subscription_log'):
            for form in ('%s', '$%s', 'db.%s', '%s.coll', '%s.%s'):
                names.append((form % ((rs + tail,) * form.count('%s'))).encode('utf-8'))
    names = list(dict.fromkeys(names))
    # --- correspondence: SHA-256 and HashName, model vs Go
    blobs = [bytes(rng.randrange(256) for _ in range(rng.choice([0, 1, 3, 55, 56, 57, 63, 64, 65, 119, 120, 128, 200]))) for _ in range(120)]
    hres = run_harness([{"op": "sha256", "s": b64(x)} for x in blobs])
    dres = run_driver(['SHA ' + hx(x) for x in blobs])
    for x, h, d in zip(blobs, hres, dres):
        chk.count()
        if h['h'] != d.strip():
            chk.disagree('sha256', {'input_hex': hx(x)}, h['h'], d)
    chk.streams.append({'stream': 'sha256 model vs crypto/sha256', 'cases': len(blobs)})
    impl = {}
    for r in repls:
        hres = run_harness([{"op": "cfg", "repl": b64(r)}] + [{"op": "hash", "s": b64(n)} for n in names])[1:]
        dres = run_driver(['HASH %s %s' % (hx(r), hx(n)) for n in names])
        for n, h, d in zip(names, hres, dres):
            chk.count(); chk.traces += 1
            io, mo = unb64(h['o']), unhx(d.split()[0])
            impl[(r, n)] = io
            if n: chk.nontriv((r, n))
            if io != mo:
                chk.disagree('hash_name', {'repl': r.decode('utf-8', 'replace'), 'name': n.decode('utf-8', 'replace')}, io.decode('utf-8', 'replace'), mo.decode('utf-8', 'replace'))
    chk.streams.append({'stream': 'hash_name model vs HashName', 'cases': len(names) * len(repls)})
    chk.sample({'repl': 'REDACTED', 'name': names[0].decode('utf-8', 'replace'), 'pseudonym': impl[(b'REDACTED', names[0])].decode('utf-8', 'replace')})
    # --- oracle on the implementation
    for (r, n), out in impl.items():
        trimmed = n.lstrip(b'$')
        parts = trimmed.split(b'.')
        # format + component count: the output must be the '.'-join of len(parts) pseudonyms <r>_<16 hex>
        pat = b'\\.'.join([re.escape(r) + b'_[0-9a-f]{16}'] * len(parts))
        if not re.fullmatch(pat, out):
            chk.violate('pseudonym format / depth', {'repl': r.decode('utf-8', 'replace'), 'name': n.decode('utf-8', 'replace'), 'out': out.decode('utf-8', 'replace')}, tags=['format'])
    # different components, different pseudonyms: over all generated single-component names (long ones, names sharing long prefixes, Unicode)
    byps = {}
    for (r, n), out in impl.items():
        t = n.lstrip(b'$')
        if b'.' in t: continue
        other = byps.setdefault((r, out), t)
        chk.count()
        if other != t:
            chk.violate('two different name components share a pseudonym', {'repl': r.decode('utf-8', 'replace'), 'len_a': len(other), 'len_b': len(t), 'a': other.decode('utf-8', 'replace')[:300], 'b': t.decode('utf-8', 'replace')[:300],
                        'common_prefix_bytes': len(os.path.commonprefix([other, t])), 'pseudonym': out.decode('utf-8', 'replace')}, tags=['collision', 'generated'])
    # '$' invariance, component-wise, stability within one process (same name asked twice, different order)
    r = b'REDACTED'
    probe = names[:200]
    reqs = [{"op": "cfg", "repl": b64(r)}]
    for n in probe:
        reqs += [{"op": "hash", "s": b64(b'$' + n)}, {"op": "hash", "s": b64(n)}]
        for p in n.lstrip(b'$').split(b'.'):
            reqs.append({"op": "hash", "s": b64(p)})
    res = run_harness(reqs)[1:]
    i = 0
    for n in probe:
        a, b = unb64(res[i]['o']), unb64(res[i + 1]['o']); i += 2
        parts = n.lstrip(b'$').split(b'.')
        comps = []
        for p in parts:
            comps.append(unb64(res[i]['o'])); i += 1
        chk.count()
        if a != b:
            chk.violate("leading '$' changes the pseudonym", {'name': n.decode('utf-8', 'replace')}, tags=['dollar'])
        # a component that itself starts with '$' is trimmed when hashed alone; only compare when it does not
        if all(not p.startswith(b'$') for p in parts) and b'.'.join(comps) != b:
            chk.violate('not component-wise', {'name': n.decode('utf-8', 'replace'), 'whole': b.decode('utf-8', 'replace'), 'parts': [c.decode('utf-8', 'replace') for c in comps]}, tags=['componentwise'])
        if b != impl[(r, n)]:
            chk.violate('pseudonym depends on call history', {'name': n.decode('utf-8', 'replace')}, tags=['history'])
    # second process, shuffled order: identical results (no per-run salt, no dependence on the side table)
    shuffled = list(names); rng.shuffle(shuffled)
    res2 = run_harness([{"op": "cfg", "repl": b64(r)}] + [{"op": "hash", "s": b64(n)} for n in shuffled])[1:]
    for n, h in zip(shuffled, res2):
        chk.count()
        if unb64(h['o']) != impl[(r, n)]:
            chk.violate('pseudonym differs between processes / call orders', {'name': n.decode('utf-8', 'replace')}, tags=['process'])
    # dictionary injectivity through the implementation
    maxlen = 3 if thorough else 2
    words = ['']
    for L in range(1, maxlen + 1):
        words += [''.join(t) for t in itertools.product(ALPHA40, repeat=L)]
    words = [w for w in words if not w.startswith('$') and '.' not in w]  # '$x' and 'x' legitimately coincide
    res3 = run_harness([{"op": "cfg", "repl": b64(r)}] + [{"op": "hash", "s": b64(w)} for w in words], timeout=1800)[1:]
    seen = {}
    for w, h in zip(words, res3):
        chk.count()
        o = h['o']
        if o in seen:
            chk.violate('two names share a pseudonym', {'a': seen[o], 'b': w, 'pseudonym': unb64(o).decode()}, tags=['collision'])
        seen[o] = w
    chk.streams.append({'stream': 'dictionary injectivity through HashName', 'names': len(words)})
    chk.dist('dictionary_names', len(words)); chk.dist('generated_names', len(names)); chk.dist('replacements', len(repls))
    # line level: the same database / collection named through every verb the tool declares gets ONE pseudonym (applied once)
    verbs = ['aggregate', 'insert', 'find', 'update', 'delete', 'count', 'findAndModify', 'findOneAndDelete', 'replace', 'findOneAndReplace', 'findOneAndUpdate', 'getIndexes', 'countDocuments', 'collection']
    cfgw = Cfg(nss=True)
    for db, coll in (('Dbq7z', 'Cq9w'), ('shop', 'orders.archive'), ('déb', 'cöll')):
        want = {}
        for nm in (db, coll, db + '.' + coll):
            want[nm] = unb64(run_harness([cfgw.harness_req(), {"op": "hash", "s": b64(nm.encode())}])[1]['o']).decode()
        ls = []
        for vb in verbs:
            cmd = {vb: coll, '$db': db}
            if vb == 'collection': cmd = {'getMore': 5, 'collection': coll, '$db': db}
            ls.append(json.dumps({"t": {"$date": "2020-01-01T00:00:00.000+00:00"}, "s": "I", "c": "COMMAND", "id": 1, "ctx": "c", "msg": "Slow query", "attr": {"ns": db + '.' + coll, "command": cmd}}, ensure_ascii=False).encode())
        for vb, l, (io, mo) in zip(verbs, ls, run_lines(cfgw, ls)):
            chk.count(); chk.traces += 1
            if io != mo: chk.disagree('namespace line', {'line': l.decode()}, str(io)[:200], str(mo)[:200])
            if not isinstance(io, bytes): continue
            t = json.loads(io)
            got = {'coll': t['attr']['command'].get(vb), 'db': t['attr']['command'].get('$db'), 'ns': t['attr'].get('ns')}
            if got['coll'] != want[coll] or got['db'] != want[db] or got['ns'] != want[db + '.' + coll]:
                chk.violate('the same name gets different pseudonyms depending on where it stands', {'verb': vb, 'db': db, 'coll': coll, 'got': got, 'expected': {'coll': want[coll], 'db': want[db], 'ns': want[db + '.' + coll]}}, tags=['positions'])
    chk.streams.append({'stream': 'one name through every namespace-bearing verb', 'lines': 3 * len(verbs)})
    # ... and as stage arguments, in the string form and the {db, coll} document form: every VALUE is the pseudonym of that value alone,
    # whatever the replacement text and the name look like (dots in the replacement, dotted database names, '$'-prefixed collections)
    nstage = 0
    for rp in (b'REDACTED', b'X.Y', b'r.e.p.', b'.', b''):
        cfgs_ = Cfg(nss=True, repl=rp.decode())
        for db, coll in (('reporting', 'daily'), ('tenant.eu', 'orders'), ('shop', '$cmd.aggregate'), ('a.b.c', 'x.y'), ('d', 'system.views'), ('$external', 'c')):
            want = {nm: unb64(run_harness([cfgs_.harness_req(), {"op": "hash", "s": b64(nm.encode())}])[1]['o']).decode() for nm in (db, coll)}
            pipes = [[{'$merge': {'into': {'db': db, 'coll': coll}}}], [{'$out': {'db': db, 'coll': coll}}], [{'$merge': {'into': coll}}], [{'$lookup': {'from': coll, 'localField': 'a', 'foreignField': 'b', 'as': 'j'}}],
                     [{'$unionWith': {'coll': coll, 'pipeline': []}}], [{'$merge': {'into': {'coll': coll, 'db': db}, 'on': '_id'}}], [{'$facet': {'f': [{'$merge': {'into': {'db': db, 'coll': coll}}}]}}]]
            ls = [json.dumps({"t": {"$date": "2020-01-01T00:00:00.000+00:00"}, "s": "I", "c": "COMMAND", "id": 1, "ctx": "c", "msg": "Slow query", "attr": {"ns": db + '.' + coll, "command": {'aggregate': coll, 'pipeline': pl, '$db': db}}}, ensure_ascii=False).encode() for pl in pipes]
            for pl, l, (io, mo) in zip(pipes, ls, run_lines(cfgs_, ls)):
                chk.count(); chk.traces += 1; nstage += 1
                if io != mo: chk.disagree('namespace stage argument', {'repl': rp.decode(), 'line': l.decode()}, str(io)[:300], str(mo)[:300])
                if not isinstance(io, bytes): continue
                st = json.loads(io)['attr']['command']['pipeline'][0]
                if '$facet' in st: st = st['$facet']['f'][0]
                arg = list(st.values())[0]
                arg = arg.get('into', arg.get('from', arg.get('coll', arg))) if isinstance(arg, dict) and not ('db' in arg and 'coll' in arg and len(arg) == 2) else arg
                got = {'db': arg.get('db'), 'coll': arg.get('coll')} if isinstance(arg, dict) else {'coll': arg}
                bad = [(k, v) for k, v in got.items() if v is not None and v != want[db if k == 'db' else coll]]
                if bad:
                    chk.violate('a namespace stage argument is not the pseudonym of its own value', {'replacement': rp.decode(), 'db': db, 'coll': coll, 'stage': pl, 'got': got,
                                'expected': {'db': want[db], 'coll': want[coll]}}, tags=['positions', 'stagearg'])
    chk.streams.append({'stream': 'names as stage arguments (string and {db, coll} forms) x replacement texts with dots', 'lines': nstage})
    # through the CLI: two separate processes, flag wiring (-w) end to end
    pass
    line = json.dumps({"t": {"$date": "2020-01-01T00:00:00.000+00:00"}, "s": "I", "c": "NETWORK", "id": 1, "ctx": "c", "msg": "m", "attr": {"ns": "mydb.orders.archive"}})
    outs = []
    for _ in range(2):
        p = subprocess.run([CLI, 'redact', '-w'], input=(line + '\n').encode(), capture_output=True)
        outs.append(p.stdout)
        chk.count()
    exp = run_harness([{"op": "cfg", "repl": b64(default_repl().encode())}, {"op": "hash", "s": b64(b'mydb.orders.archive')}])[1]      # the run above gives no -r: the default text, whatever it is
    if outs[0] != outs[1] or unb64(exp['o']) not in outs[0]:
        chk.violate('CLI -w output differs between processes or from HashName', {'outs': [o.decode('utf-8', 'replace') for o in outs]}, tags=['cli'])
    if thorough:
        # the length-3 dictionary theorem (65,641 names) by kernel computation: about 20 minutes, needs an unlimited stack; cached per build key
        import subprocess as sp
        from vlib.check import BUILD, VERIF
        try: key = open(os.path.join(BUILD, '.stamp')).read().strip()[:16]
        except OSError: key = 'nokey'
        os.makedirs(os.path.join(BUILD, 'thorough'), exist_ok=True)
        f = os.path.join(BUILD, 'thorough', 'C13Len3.%s.txt' % key)
        if not os.path.exists(f):
            p = sp.run('ulimit -s unlimited; timeout 5000 coqc -Q Gen Gen -Q Model Model -Q Spec Spec -Q Proofs Proofs Thorough/C13Len3.v', shell=True,
                       cwd=os.path.join(VERIF, 'coq'), capture_output=True, text=True)
            open(f, 'w').write(p.stdout + p.stderr + '\nEXIT %d\n' % p.returncode)
        out = open(f).read()
        chk.obligations += 1; chk.theorems.append('C13_injective_len3')
        if 'EXIT 0' in out and 'Closed under the global context' in out:
            chk.discharged += 1
        else:
            chk.broken_obligations.append({'obligation': 'Thorough/C13Len3.v (C13_injective_len3)', 'output': out[-1200:]})
    # the replacement text is part of the pseudonym whatever the other flags are: -r with -w, alone and together with --encrypt
    expx = unb64(run_harness([{"op": "cfg", "repl": b64(b'XX')}, {"op": "hash", "s": b64(b'mydb.orders.archive')}])[1]['o'])
    with tempfile.TemporaryDirectory() as d:
        inp = os.path.join(d, 'in.log'); open(inp, 'wb').write((line + '\n').encode())
        variants = {'-r -w': [CLI, 'redact', inp, '-r', 'XX', '-w'], '-r -w -n -b -i': [CLI, 'redact', inp, '-r', 'XX', '-w', '-n', '-b', '-i'],
                    '-r -w --encrypt': [CLI, 'redact', inp, '-r', 'XX', '-w', '--encrypt', '-q', os.path.join(d, 'k.key'), '-o', os.path.join(d, 'o.log')]}
        for name, argv in variants.items():
            p = subprocess.run(argv, stdin=subprocess.DEVNULL, capture_output=True, cwd=d)
            got = open(os.path.join(d, 'o.log'), 'rb').read() if '--encrypt' in argv and os.path.exists(os.path.join(d, 'o.log')) else p.stdout
            chk.count()
            if expx not in got:
                chk.violate('CLI: the pseudonym is not <replacement>_<16 hex> of the name under this flag combination', {'flags': name, 'expected': expx.decode(), 'output': got.decode('utf-8', 'replace')[:300]}, tags=['cli', 'flags'])
    chk.assumptions += ["collision-freeness of a 64-bit truncated SHA-256 is proved only on the finite dictionary (bound in the theorem) and reduced to digest-prefix collisions in general",
                        "Sha256.v is a hand-written definition validated against crypto/sha256 on this run"]
