"""Independent description of the redaction zones (written from the property text):
which key paths of a log line may be changed by which flag."""
CMD_KEYS = ('command', 'cmd', 'originatingCommand')
QUERY_KEYS = ('query', 'filter', 'sort', 'q', 'update', 'u', 'updates', 'deletes', 'pipeline')
NS_CMD_KEYS = ('ns', 'aggregate', 'insert', 'find', 'update', 'collection', 'delete', '$db', 'count', 'findAndModify',
               'findOneAndDelete', 'replace', 'findOneAndReplace', 'findOneAndUpdate', 'getIndexes', 'countDocuments')

def gate(tree):
    from vlib import jtree
    c = jtree.get(tree, 'c'); msg = jtree.get(tree, 'msg')
    return c in ('COMMAND', 'QUERY', 'WRITE') or msg == 'Slow query'

def zone_pred(tree, cfg, eager_applies=False):
    """returns pred(key_path) -> True when the sub-tree at that key path may be altered"""
    from vlib import jtree
    g = gate(tree)
    attr = jtree.get(tree, 'attr')
    def has_insert(cmdkey):
        cmd = jtree.get(attr, cmdkey) if attr is not None else None
        return cmd is not None and jtree.has(cmd, 'insert')     # the key's presence makes it an insert command, whatever its value
    def pred(kp):
        if len(kp) >= 2 and kp[0] == 'attr':
            if cfg.ips and kp == ('attr', 'remote'): return True
            if cfg.nss and kp == ('attr', 'ns'): return True
            if eager_applies and g and kp == ('attr', 'planSummary'): return True
            if g and len(kp) == 3 and kp[1] in CMD_KEYS:
                if kp[2] in QUERY_KEYS: return True
                if kp[2] == 'documents' and has_insert(kp[1]): return True
                if cfg.nss and kp[2] in NS_CMD_KEYS: return True
        return False
    return pred
