"""Running the implementation (Go harness compiled from /repo's working tree) and the
extracted model (OCaml driver) on the same requests."""
import base64, json, os, subprocess, binascii

VERIF = os.path.dirname(os.path.dirname(os.path.abspath(__file__)))
BUILD = os.environ.get('VERIF_BUILD') or os.path.join(VERIF, 'build')
REPO = os.environ.get('VERIF_REPO') or '/repo'
HARNESS = os.path.join(BUILD, 'harness')
DRIVER = os.path.join(BUILD, 'extract', 'driver')
CLI = os.path.join(BUILD, 'anonymongo')

def b64(b):
    if isinstance(b, str):
        b = b.encode('utf-8', 'surrogateescape')
    return base64.b64encode(b).decode()

def unb64(s):
    return base64.b64decode(s)

def hx(b):
    if isinstance(b, str):
        b = b.encode('utf-8', 'surrogateescape')
    return binascii.hexlify(b).decode() if b else '-'

def unhx(s):
    return b'' if s == '-' else binascii.unhexlify(s)

def run_harness(reqs, timeout=600):
    """reqs: list of dicts -> list of dict responses (same order)."""
    data = '\n'.join(json.dumps(r) for r in reqs) + '\n'
    env = dict(os.environ, ANONYMONGO_VERIF_HARNESS='1')
    p = subprocess.run([HARNESS], input=data.encode(), capture_output=True, env=env, timeout=timeout)
    lines = p.stdout.decode().splitlines()
    if len(lines) != len(reqs):
        raise RuntimeError('harness: %d responses for %d requests (rc=%s) stderr=%s' % (len(lines), len(reqs), p.returncode, p.stderr.decode()[-2000:]))
    return [json.loads(l) for l in lines]

def run_driver(lines, timeout=600):
    """lines: list of request strings -> list of response strings."""
    data = '\n'.join(lines) + '\n'
    p = subprocess.run(["bash", "-c", "ulimit -s unlimited 2>/dev/null; exec \"$0\"", DRIVER], input=data.encode(), capture_output=True, timeout=timeout, env=dict(os.environ, OCAMLRUNPARAM="s=4M"))
    out = p.stdout.decode().splitlines()
    if len(out) != len(lines):
        raise RuntimeError('driver: %d responses for %d requests (rc=%s) stderr=%s' % (len(out), len(lines), p.returncode, p.stderr.decode()[-2000:]))
    return out

_DEFAULT_REPL = []
def default_repl():
    """the default --replacement text AS THE COMPILED PROGRAM HAS IT (harness op dump), so that a run of the CLI without -r and an in-process
    configuration without a replacement mean the same thing whatever that text is"""
    if not _DEFAULT_REPL:
        try: _DEFAULT_REPL.append(json.load(open(os.path.join(BUILD, 'dump.json')))['consts']['RedactedString'])
        except Exception: _DEFAULT_REPL.append('REDACTED')
    return _DEFAULT_REPL[0]

class Cfg:
    """One redaction configuration, renderable for both sides."""
    def __init__(self, repl=None, nums=False, bools=False, ips=False, nss=False, eager=(), re='', encrypt=False, key=None):
        if repl is None: repl = default_repl()
        self.repl = repl if isinstance(repl, bytes) else repl.encode()
        self.nums, self.bools, self.ips, self.nss = nums, bools, ips, nss
        self.eager = [e if isinstance(e, bytes) else e.encode() for e in eager]
        self.re = re
        self.encrypt = encrypt
        self.key = key  # bytes or None
    def harness_req(self):
        return {"op": "cfg", "repl": b64(self.repl), "nums": self.nums, "bools": self.bools, "ips": self.ips,
                "nss": self.nss, "eager": [b64(e) for e in self.eager], "re": self.re,
                "encrypt": self.encrypt, "key": b64(self.key) if self.key is not None else ""}
    def driver_line(self, re_table=None, enc_table=None):
        flags = ''.join('1' if x else '0' for x in (self.nums, self.bools, self.ips, self.nss))
        eager = ','.join(hx(e) if e else '=' for e in self.eager) if self.eager else '-'
        if self.re:
            items = ['%s:%d' % (hx(n) if n else '', 1 if v else 0) for n, v in (re_table or {}).items()]
            re = ','.join(items) if items else '='
        else:
            re = '-'
        if self.encrypt and self.key is not None:
            items = ['%s:%s' % (hx(p) if p else '', ('!' if ct is None else hx(ct))) for p, ct in (enc_table or {}).items()]
            enc = ','.join(items) if items else '='
        else:
            enc = '-'
        return 'CFG %s %s %s %s %s' % (flags, hx(self.repl), eager, re, enc)
    def describe(self):
        return {"repl": self.repl.decode('utf-8', 'replace'), "nums": self.nums, "bools": self.bools, "ips": self.ips, "nss": self.nss,
                "eager": [e.decode('utf-8', 'replace') for e in self.eager], "re": self.re, "encrypt": self.encrypt,
                "key": b64(self.key) if self.key is not None else None}
    def cli_flags(self, keyfile=None):
        f = []
        f += ['-r', self.repl.decode('utf-8', 'surrogateescape')]      # always given: what the default text is, is not the business of any property
        if self.nums: f.append('-n')
        if self.bools: f.append('-b')
        if self.ips: f.append('-i')
        if self.nss: f.append('-w')
        for e in self.eager: f += ['-f', e.decode('utf-8', 'surrogateescape')]
        if self.re: f += ['-z', self.re]
        if self.encrypt: f += ['-y', '-q', keyfile]
        return f

# ---- tables for the abstract components of the model (regexp, encryption) ----
from vlib import jtree as _jt

def _fix(s):
    """what Go's decoder makes of a string holding lone surrogates: each becomes U+FFFD"""
    try:
        s.encode('utf-8'); return s
    except UnicodeEncodeError:
        return s.encode('utf-16', 'surrogatepass').decode('utf-16', 'replace')

def all_names_and_strings(lines):
    """all object keys and all string leaves (also with one leading '$' removed) of the parseable lines"""
    names, strings = set(), set()
    def walk(t):
        k = _jt.kind(t)
        if k == 'obj':
            for key, v in t:
                names.add(_fix(key)); walk(v)
        elif k == 'arr':
            for v in t: walk(v)
        elif k == 'str':
            strings.add(_fix(t))
    for l in lines:
        t = _jt.parse(l)
        if t is not None: walk(t)
    return names, strings

def re_table(regex, lines):
    names, strings = all_names_and_strings(lines)
    cand = set(names) | set(strings) | {s[1:] for s in strings if s.startswith('$')}
    cand = sorted(cand)
    res = run_harness([{"op": "rematch", "re": regex, "names": [b64(n) for n in cand]}])[0]
    return {n.encode('utf-8'): v for n, v in zip(cand, res['m'])}

def enc_table(key, lines):
    _, strings = all_names_and_strings(lines)
    ss = sorted(strings)
    res = run_harness([{"op": "enc", "s": b64(s), "key": b64(key)} for s in ss]) if ss else []
    out = {}
    for s, r in zip(ss, res):
        out[s.encode('utf-8')] = base64.b64encode(unb64(r['ct'])) if 'ct' in r else None
    return out

def run_alone(cfg, lines):
    """the implementation on each line ON ITS OWN: one fresh harness process per line (no state of any kind can come from another line);
    returns bytes | 'SKIP' | 'PANIC:..' per line"""
    from concurrent.futures import ThreadPoolExecutor
    req = cfg.harness_req()
    def one(l):
        h = run_harness([req, {"op": "line", "s": b64(l)}])[1]
        return unb64(h['o']) if h['r'] == 'out' else ('SKIP' if h['r'] == 'skip' else 'PANIC:' + h.get('m', ''))
    with ThreadPoolExecutor(8) as ex:
        return list(ex.map(one, lines))

def run_lines(cfg, lines):
    """run both sides on the lines under cfg; returns list of (impl, model) with impl/model = bytes | 'SKIP' | 'PANIC:..' | 'TABLEMISS'"""
    hr = run_harness([cfg.harness_req()] + [{"op": "line", "s": b64(l)} for l in lines])[1:]
    rt = re_table(cfg.re, lines) if cfg.re else None
    et = enc_table(cfg.key, lines) if (cfg.encrypt and cfg.key is not None) else None
    dr = run_driver([cfg.driver_line(rt, et)] + ['LINE ' + hx(l) for l in lines])[1:]
    out = []
    for h, d in zip(hr, dr):
        io = unb64(h['o']) if h['r'] == 'out' else ('SKIP' if h['r'] == 'skip' else 'PANIC:' + h.get('m', ''))
        if 'TABLEMISS' in d: mo = 'TABLEMISS'
        elif d.startswith('OUT'): mo = unhx(d.split()[1])
        else: mo = 'SKIP'
        out.append((io, mo))
    return out
