"""Running the UNMODIFIED CLI in Atlas mode against the impersonating proxy (harness binary), and the
model's atlas_run on the same world."""
import base64, json, os, shutil, subprocess, tempfile, time, urllib.parse
from vlib.run import *
from vlib import streamlib

PRIV = 'Pr1vK3y-Zq77qZ+secret/val=ue'
PUB = 'pubk3yKp9pK'

def tzif_with_recent_switch(path, now, days_ago=3, before=0, after=3600):
    """writes a minimal TZif (version 1) time-zone file whose UTC offset changed `days_ago` days before `now` (seconds since the epoch) from `before` to
    `after` seconds: a machine whose local clocks were moved within the last week, as every daylight-saving zone is twice a year. Use with TZ=<path>."""
    import struct
    t = int(now) - days_ago * 86400
    abbr = b'AAA\0BBB\0'
    hdr = b'TZif' + b'\0' + b'\0' * 15 + struct.pack('>6l', 0, 0, 0, 1, 2, len(abbr))      # isutcnt, isstdcnt, leapcnt, timecnt, typecnt, charcnt
    body = struct.pack('>l', t) + bytes([1]) + struct.pack('>lBB', before, 0, 0) + struct.pack('>lBB', after, 1, 4) + abbr
    open(path, 'wb').write(hdr + body)
    return path

def conn_string(hosts, srv=False):
    if srv: return 'mongodb+srv://' + hosts[0] + '/?ssl=true'
    return 'mongodb://' + ','.join(hosts) + '/?ssl=true&authSource=admin&replicaSet=atlas-abc-shard-0'

def run_cli(world, flags=None, key_via='flags', window=None, out_name='out.log', extra_env=None, project='P1x', cluster='C1x', pre_outs=None, extra_args=None, tmpdir_form=None, priv=None, pub=None):
    """world: dict for the proxy (see zz_verif_proxy.go). Returns dict with rc, stdout, stderr, requests, tmp listing, outputs."""
    d = tempfile.mkdtemp(prefix='atlas_')
    try:
        json.dump(world, open(os.path.join(d, 'world.json'), 'w'))
        px = subprocess.Popen([HARNESS], env=dict(os.environ, ANONYMONGO_VERIF_PROXY=d), stdout=subprocess.DEVNULL, stderr=subprocess.DEVNULL)
        try:
            for _ in range(200):
                if os.path.exists(os.path.join(d, 'port')) and os.path.getsize(os.path.join(d, 'port')): break
                time.sleep(0.02)
            port = open(os.path.join(d, 'port')).read()
            tmp = os.path.join(d, 'tmp'); os.mkdir(tmp)
            work = os.path.join(d, 'work'); os.mkdir(work)
            for name, data in (pre_outs or {}).items():
                open(os.path.join(work, name), 'wb').write(data)   # files left by an earlier run with the same --outputFile
            tmp_env = {None: tmp, 'slash': tmp + '/', 'double': tmp.replace('/tmp', '//tmp', 1) if tmp.count('/tmp') else tmp + '//', 'dot': os.path.join(d, '.', 'tmp'), 'dotdot': os.path.join(d, 'work', '..', 'tmp'), 'dotslash': os.path.join(d, 'tmp', '.')}[tmpdir_form]
            env = {'PATH': '/usr/bin:/bin', 'HTTPS_PROXY': 'http://127.0.0.1:' + port, 'SSL_CERT_FILE': os.path.join(d, 'ca.pem'), 'TMPDIR': tmp_env, 'HOME': d}
            PRIVK, PUBK = (priv if priv is not None else PRIV), (pub if pub is not None else PUB)
            argv = [CLI, 'redact', '--atlasProjectId', project, '--atlasClusterName', cluster, '-o', out_name] + (flags or [])
            if key_via in ('flags', 'mixed'): argv += ['--atlasPublicKey=' + PUBK]
            if key_via == 'flags': argv += ['--atlasPrivateKey=' + PRIVK]
            if key_via in ('env', 'mixed'): env['ATLAS_PRIVATE_KEY'] = PRIVK
            if key_via == 'env': env['ATLAS_PUBLIC_KEY'] = PUBK
            if window: argv += ['-s', str(window[0]), '-e', str(window[1])]
            if extra_env: env.update(extra_env)
            if extra_args: argv += extra_args
            t0 = int(time.time())
            p = subprocess.run(argv, env=env, cwd=work, stdin=subprocess.DEVNULL, capture_output=True, timeout=120)
            t1 = int(time.time())
        finally:
            px.terminate(); px.wait(timeout=5)
        reqs = [json.loads(l) for l in open(os.path.join(d, 'requests.jsonl'))] if os.path.exists(os.path.join(d, 'requests.jsonl')) else []
        outs = {}
        for f in sorted(os.listdir(work)):
            outs[f] = open(os.path.join(work, f), 'rb').read()
        tmpfiles = {}
        for root, _, fs in os.walk(tmp):          # files at any depth (a private sub-directory of the temp directory is as good a place as any); empty directories are no downloaded logs
            for f in sorted(fs):
                tmpfiles[os.path.relpath(os.path.join(root, f), tmp)] = open(os.path.join(root, f), 'rb').read()
        return {'rc': p.returncode, 'stdout': p.stdout, 'stderr': p.stderr, 'requests': reqs, 'outs': outs, 'tmp': tmpfiles, 't0': t0, 't1': t1, 'argv': argv[1:]}
    finally:
        shutil.rmtree(d, ignore_errors=True)

def model_run(cfg, challenge, cluster_status, hosts, logs, window, now, gunzip_table):
    """logs: list of ('S', code, body) | ('C', sent, body) | ('R',)"""
    def item(x):
        if x[0] == 'S': return 'S:%d:%s' % (x[1], hx(x[2]))
        if x[0] == 'C': return 'C:%d:%s' % (x[1], hx(x[2]))
        return 'R'
    gz = ','.join('%s:%s' % (hx(k), '!' if v is None else hx(v)) for k, v in gunzip_table.items()) or '-'
    s, e = window or (0, 0)
    req = 'ATLAS %s %s %s %s %d %d %d %s' % ('1' if challenge else '0', item(('S', cluster_status, b'x')), '!' if hosts is None else (','.join(hx(h) for h in hosts) or '-'),
                                            ','.join(item(x) for x in logs) or '-', s, e, now, gz)
    r = run_driver([cfg.driver_line(), req])[1].split()
    trace = [] if r[0] == '-' else r[0].split(',')
    outs = {} if r[1] == '-' else {int(x.split(':')[0]): unhx(x.split(':')[1]) for x in r[1].split(',')}
    return {'trace': trace, 'outs': outs, 'tmp_left': int(r[2]), 'status': int(r[3])}

def model_job(cfg, challenge, cluster_status, hosts, logs, window, now, gunzip_table, out_name='out.log', pre=None):
    """the Atlas branch of the WHOLE command (Model/Job.v) on the same world: trace, every file the run leaves under the output name
    (the output file itself, created empty before the key step and the download, and <out>.<i>), temp files left, status"""
    def item(x):
        if x[0] == 'S': return 'S:%d:%s' % (x[1], hx(x[2]))
        if x[0] == 'C': return 'C:%d:%s' % (x[1], hx(x[2]))
        return 'R'
    gz = ','.join('%s:%s' % (hx(k), '!' if v is None else hx(v)) for k, v in gunzip_table.items()) or '-'
    s, e = window or (0, 0)
    fsl = ','.join('%s:F:420:%s' % (hx(k), hx(v)) for k, v in (pre or {}).items()) or '-'
    req = 'JOBA %s %s %s %s %d %d %d %s %s %s' % ('1' if challenge else '0', item(('S', cluster_status, b'x')), '!' if hosts is None else (','.join(hx(h) for h in hosts) or '-'),
                                                ','.join(item(x) for x in logs) or '-', s, e, now, gz, hx(out_name), fsl)
    r = run_driver([cfg.driver_line(), req])[1].split()
    trace = [] if r[0] == '-' else r[0].split(',')
    files = {} if r[1] == '-' else {unhx(x.split(':')[0]).decode(): unhx(x.split(':')[1]) for x in r[1].split(',')}
    return {'trace': trace, 'files': files, 'tmp_left': int(r[2]), 'status': int(r[3])}

def impl_trace(reqs):
    """projection of the proxy's request log to the model's trace alphabet"""
    out = []
    for r in reqs:
        if r['method'] == 'CONNECT': continue
        auth = '1' if 'Authorization' in (r.get('headers') or {}) else '0'
        path = r['path']
        if '/logs/' in path:
            host = path.split('/clusters/')[1].split('/logs/')[0]
            q = urllib.parse.parse_qs(r['query'])
            out.append('L%s:%s:%s:%s' % (hx(urllib.parse.unquote(host)), auth, q.get('startDate', ['?'])[0], q.get('endDate', ['?'])[0]))
        else:
            out.append('C' + auth)
    return out

def collapse(trace):
    """the projection of a request trace that the properties speak about: immediate repetitions dropped (net/http transparently retries an
    idempotent request on a broken connection), and the cluster-description round - how often the tool asks for it before the log downloads start
    is its own business - reduced to its distinct requests in order of first appearance"""
    out = []
    for x in trace:
        if not out or out[-1] != x: out.append(x)
    head = []
    i = 0
    while i < len(out) and out[i].startswith('C'):
        if out[i] not in head: head.append(out[i])
        i += 1
    return head + out[i:]
