"""Greedy structural shrinking of a failing JSON log line: drop members / elements and simplify sub-trees while the given predicate
(re-evaluated on the implementation) still fails. Used to give replays a small witness next to the input as found."""
from vlib import jtree

def _positions(t, path=()):
    """pre-order paths of all sub-trees except the root"""
    k = jtree.kind(t)
    if k == 'obj':
        for i, (_, v) in enumerate(t):
            yield path + (i,)
            yield from _positions(v, path + (i,))
    elif k == 'arr':
        for i, v in enumerate(t):
            yield path + (i,)
            yield from _positions(v, path + (i,))

def _edit(t, path, fn):
    """copy of t with the container at path[:-1] edited by fn(container, index)"""
    if len(path) == 1:
        c = jtree.Obj(t) if jtree.kind(t) == 'obj' else list(t)
        fn(c, path[0])
        return c
    i = path[0]
    if jtree.kind(t) == 'obj':
        c = jtree.Obj(t); c[i] = (c[i][0], _edit(c[i][1], path[1:], fn)); return c
    c = list(t); c[i] = _edit(c[i], path[1:], fn); return c

def _get(t, path):
    for i in path:
        t = t[i][1] if jtree.kind(t) == 'obj' else t[i]
    return t

def _candidates(t):
    pos = sorted(_positions(t), key=lambda p: (len(p), p))
    keep_top = {'c', 'msg', 'attr'}
    for p in pos:                      # removals, outermost first
        parent = _get(t, p[:-1])
        if len(p) == 1 and jtree.kind(t) == 'obj' and t[p[0]][0] in keep_top: continue
        yield _edit(t, p, lambda c, i: c.pop(i))
    for p in pos:                      # simplifications of containers and long strings
        v = _get(t, p)
        k = jtree.kind(v)
        if k in ('obj', 'arr') and len(v) > 0:
            for repl in (jtree.Obj() if k == 'obj' else [],):
                yield _edit(t, p, lambda c, i, r=repl: c.__setitem__(i, (c[i][0], r) if isinstance(c, jtree.Obj) else r))
        elif k == 'str' and len(v) > 12:
            yield _edit(t, p, lambda c, i, r=v[:6]: c.__setitem__(i, (c[i][0], r) if isinstance(c, jtree.Obj) else r))

def shrink_line(line, fails, budget=220):
    """line: bytes; fails(bytes) -> bool. Returns a (possibly) smaller failing line; the original if it cannot be parsed or does not fail."""
    t = jtree.parse(line)
    if t is None or jtree.kind(t) != 'obj': return line
    try:
        if not fails(jtree.dumps(t).encode('utf-8')): return line
    except Exception:
        return line
    best = t
    progress = True
    while progress and budget > 0:
        progress = False
        for cand in _candidates(best):
            budget -= 1
            if budget <= 0: break
            try:
                b = jtree.dumps(cand).encode('utf-8')
                if fails(b):
                    best = cand; progress = True; break
            except Exception:
                continue
    return jtree.dumps(best).encode('utf-8')

def impl_line(cfg, line):
    """the implementation's result for one line under cfg (bytes, or a status string)"""
    from vlib.run import run_harness, b64, unb64
    h = run_harness([cfg.harness_req(), {"op": "line", "s": b64(line)}])[1]
    return unb64(h['o']) if h['r'] == 'out' else ('SKIP' if h['r'] == 'skip' else 'PANIC:' + h.get('m', ''))
