"""Input generators. Every random choice comes from one random.Random(seed).

Grammar-generated command lines carry *planted* literals: a literal that is user data in the
MongoDB grammar (sensitive) embeds a unique alphanumeric core `Zq<n>qZ`; a literal that is an
operational parameter (index name, limit, output-field name, enumerated keyword, binary
subtype, namespace) embeds `Kp<n>pK` or is a fixed keyword. The sensitivity annotation comes
from the grammar (this file), not from the tool's operator tables."""
import json, random

USER_FIELDS = ['name', 'ssn', 'email', 'age', 'addr', 'uf_a', 'uf_b', 'items', 'tags', 'profile', 'zip', 'score1', 'ts', 'uid']

class Planted:
    """Bookkeeping of planted literals for one line."""
    def __init__(self):
        self.n = 0
        self.sensitive = []   # (core, kind, path-description)
        self.neutral = []
        self.sens_numbers = []
        self.names = set()    # user field names used (for selective mode)
    def core(self, sens):
        self.n += 1
        return ('Zq%dqZ' if sens else 'Kp%dpK') % self.n

KEYWORDS = ['if', 'then', 'else', 'index', 'path', 'query', 'type', 'case', 'default', 'branches', 'input', 'as', 'in', 'from', 'pipeline', 'limit', 'sort', 'text', 'equals', 'value', 'score']

import re as _re_mod
_EMAIL_SHAPE = _re_mod.compile(r"^[a-zA-Z0-9.!#$%&'*+/=?^_`{|}~-]+@[a-zA-Z0-9](?:[a-zA-Z0-9-]{0,61}[a-zA-Z0-9])?(?:\.[a-zA-Z0-9](?:[a-zA-Z0-9-]{0,61}[a-zA-Z0-9])?)*$")

def variant_string(lr, kind):
    """another member of the same lexical class (never '$'-prefixed; e-mail-shaped iff kind == 'email')"""
    if kind == 'email':
        n = lr.choice([1, 2, 5, 12, 30, 63, 64, 65, 100, 180, 230])
        return ''.join(lr.choice('abcxyzABZ0189._-+!#') for _ in range(n)) + 'q@' + lr.choice(['x.io', 'example.org', 'a-b.c.d.museum', 'h', 'Example.COM'])
    if lr.random() < 0.08:   # strings that are operator / argument names of the tool's tables (as VALUES they are ordinary literals)
        return lr.choice(KEYWORDS)
    if lr.random() < 0.12:   # strings shaped like what the tool itself emits (placeholder, pseudonym, ciphertext, constants)
        return lr.choice(['REDACTED', 'REDACTED_%016x' % lr.getrandbits(64), 'REDACTED_%016x.REDACTED_%016x' % (lr.getrandbits(64), lr.getrandbits(64)), 'X_%016x' % lr.getrandbits(64),
                          '255.255.255.255:65535', '1970-01-01T00:00:00.000Z', '000000000000000000000000', 'AAAAAAAAAAAAAAAAAAAAAAAAAAAAAA==', '00000000-0000-0000-0000-000000000000',
                          'AQIDBAUGBwgJCgsMDQ4PEBESExQVFhcYGRobHB0eHyA=', 'true', 'false', 'null', '0', '7', '1.5', '-0', '{}', '[]', '{"a":1}'])
    n = lr.choice([0, 1, 2, 5, 20, 200, 200, 3000, 20000])
    alphabet = 'abc XYZ019"\\/{}[]:,<>&\n\t\u00e9\u4e2d\U0001F600$@.%s'
    s = ''.join(lr.choice(alphabet) for _ in range(n))
    if s.startswith('$'): s = 'x' + s
    if '@' in s and lr.random() < 0.9: s = s.replace('@', ' at ')   # keep it out of the e-mail class almost always
    if _EMAIL_SHAPE.match(s) and 3 <= len(s.encode('utf-8')) <= 254: s = s.replace('@', ' at ')      # ... and never INTO it: a generic variant stays generic
    return s

class G:
    def __init__(self, rng, vocab=None, depth=4, collide=False, lit_rng=None, vary_nums=False, vary_bools=False, fields=None, ns_tokens=False):
        self.r = rng
        # user fields; plus every bare word that is a top-level key of the tables consulted for any key (a field of that name must be treated like any other)
        self.fields = fields or (USER_FIELDS + list((vocab or {}).get('bare_top', [])))
        self.ns_tokens = ns_tokens
        self.ns_names = []
        self.lr = lit_rng
        self.vary_nums, self.vary_bools = vary_nums, vary_bools
        self.p = Planted()
        self.vocab = vocab or {}
        self.maxdepth = depth
        self.collide = collide
        self.odd_names = fields is None      # only with the default field pool (checks that plant their own identifiers keep them)
        self.stats = {}

    def hit(self, k):
        self.stats[k] = self.stats.get(k, 0) + 1

    # ---------- literals ----------
    def s_string(self, where):
        """a sensitive string of a random lexical class"""
        core = self.p.core(True)
        k = self.r.choice(['ascii', 'ascii', 'unicode', 'astral', 'email', 'email_mixed', 'dollar_mid', 'digits', 'escapes', 'empty', 'lookalike', 'long', 'padded_email', 'percent', 'at_nonmail', 'pseudoshape', 'edge_special'])
        self.hit('lit_' + k)
        if k == 'ascii': s = 'secret ' + core
        elif k == 'unicode': s = 'résumé ' + core + ' 中文'
        elif k == 'astral': s = '\U0001F600' + core + '\U0001F4A9'
        elif k == 'email': s = core.lower() + '@example.com'; core = core.lower()
        elif k == 'email_mixed': s = core + '.Name@Example.COM'
        elif k == 'percent': s = '100% ' + core + ' %s %d %%'
        elif k == 'edge_special':      # a character that scanners look BEHIND or AHEAD of, at the very end / start of the text
            s = self.r.choice(['%s@', '%s.', '%s$', '%s\\', '%s%%', '%s:', '%s-', '%s+', '%s/', '%s"', '%s{', '%s[', '%s ', '@%s@', '.%s.', 'x@%s@', '%s@.', '%s..', '-%s', '+%s', ':%s', '%s\u00e9', '%s\ud83d\ude00'.encode().decode('unicode_escape').encode('utf-16', 'surrogatepass').decode('utf-16') if False else '%s\U0001F600']) % core
        elif k == 'at_nonmail': s = self.r.choice(['svc_%s@db-host:27017', 'deploy@build01.example.org/%s', 'meet %s@noon today', '%s@my_host', 'a@%s@c', '@%s', '%s@example.org.']) % core
        elif k == 'padded_email':
            core = core.lower()
            s = self.r.choice([' %s@example.com', '%s@example.com ', '\t%s@example.com\n', ' %s@example.com  ']) % core
        elif k == 'dollar_mid': s = 'a$' + core + '$b'
        elif k == 'digits': s = '90' + str(self.p.n).zfill(5) + '77'; core = s
        elif k == 'escapes': s = '"\\' + core + '\n\t<&> /\x01'
        elif k == 'empty':
            self.p.n -= 1
            if self.lr is not None: return variant_string(self.lr, 'generic')
            return ''
        elif k == 'lookalike': s = 'REDACTED' + core
        elif k == 'pseudoshape':   # exactly the shape of a pseudonym (also dotted): a value that looks as if it had been redacted already
            s = 'REDACTED_%016x' % (0xabcd000000000000 + self.p.n)
            if self.r.random() < 0.3: s = s + '.REDACTED_%016x' % (0x1234000000000000 + self.p.n)
            core = s
        else: s = core * 40
        self.p.sensitive.append((core, 'string', where))
        if self.lr is not None:
            import re as _re
            v = variant_string(self.lr, 'email' if k in ('email', 'email_mixed') else 'generic')
            is_mail = lambda x: 3 <= len(x) <= 254 and _re.match(r"^[a-zA-Z0-9.!#$%&'*+/=?^_`{|}~-]+@[a-zA-Z0-9](?:[a-zA-Z0-9-]{0,61}[a-zA-Z0-9])?(?:\.[a-zA-Z0-9](?:[a-zA-Z0-9-]{0,61}[a-zA-Z0-9])?)*$", x) is not None
            if (k in ('email', 'email_mixed')) == is_mail(v): s = v
        return s

    def s_number(self, where):
        self.p.n += 1
        k = self.r.choice(['int', 'int', 'big', 'dec', 'exp', 'neg', 'dot0', 'Exp', 'negz'])
        base = 7000000 + self.p.n
        lit = {'int': str(base), 'big': str(base) + '123456789012', 'dec': str(base) + '.25', 'exp': str(base) + 'e3', 'neg': '-' + str(base),
               'dot0': str(base) + '.0', 'Exp': str(base) + 'E+0', 'negz': self.r.choice(['-0.0', '-0e0', '0.0', '-0', '0e0', '0.000', '0.0000001', '-0.0000005', '1000000000000000000000', '0.000001', '123456789012345678901234567890'])}[k]
        self.p.sens_numbers.append((str(base), where))
        if self.lr is not None and self.vary_nums:
            lit = self.lr.choice(['0', '-0', '1', '12345678901234567890', '3.25', '1e-9', '-7E+3', '-0.0', '1.0', '0e0', str(self.lr.randint(-10**9, 10**9))])
        return RawNum(lit)

    def s_bool(self, where):
        b = self.r.choice([True, False])
        if self.lr is not None and self.vary_bools: b = self.lr.choice([True, False])
        return b

    def s_date(self, where):
        self.p.n += 1
        s = '2024-0%d-1%dT0%d:%02d:%02d.%03dZ' % (1 + self.p.n % 9, self.p.n % 9, self.p.n % 9, self.p.n % 60, (self.p.n // 60) % 60, self.p.n % 1000)
        self.p.sensitive.append((s, 'date', where))
        if self.lr is not None: s = self.lr.choice(['1999-12-31T23:59:59.999Z', '2030-01-01T00:00:00Z', 'not a date', '', variant_string(self.lr, 'generic')[:40].lstrip('$')])
        return {'$date': s}

    def s_oid(self, where):
        self.p.n += 1
        s = '5f%022x' % (0xabc000000 + self.p.n)
        self.p.sensitive.append((s, 'oid', where))
        if self.lr is not None: s = '%024x' % self.lr.getrandbits(96)
        return {'$oid': s}

    def s_binary(self, where):
        import base64
        core = self.p.core(True)
        b = base64.b64encode(('bin' + core + 'x').encode()).decode()
        self.p.sensitive.append((b, 'base64', where))
        sub = self.r.choice(['00', '04', '0', '80'])
        if self.lr is not None: b = base64.b64encode(bytes(self.lr.randrange(256) for _ in range(self.lr.randint(0, 40)))).decode()
        return {'$binary': {'base64': b, 'subType': sub}}

    def literal(self, where, depth=0, scalar_only=False):
        kinds = ['str', 'str', 'str', 'num', 'bool', 'null', 'date', 'oid', 'bin', 'long', 'uuid', 'canon', 'uuid4']
        if not scalar_only and depth < self.maxdepth:
            kinds += ['doc', 'arr', 'arrarr', 'arrdoc', 'longmixed']
        k = self.r.choice(kinds)
        self.hit('val_' + k)
        if k == 'str': return self.s_string(where)
        if k == 'num': return self.s_number(where)
        if k == 'bool': return self.s_bool(where)
        if k == 'null': return None
        if k == 'date': return self.s_date(where)
        if k == 'oid': return self.s_oid(where)
        if k == 'bin': return self.s_binary(where)
        if k == 'long': return {'$numberLong': self.s_string(where + '.$numberLong')}
        if k == 'uuid': return {'$uuid': self.s_string(where + '.$uuid')}
        if k == 'uuid4':   # a canonical RFC 4122 UUID (versions 1-5, all variants of the variant nibble)
            self.p.n += 1
            u = '%08x-%04x-%s%03x-%s%03x-%012x' % (0xa0000000 + self.p.n, self.p.n % 65536, self.r.choice('12345'), self.p.n % 4096, self.r.choice('89ab'), (self.p.n * 7) % 4096, 0xd01de7000000 + self.p.n)
            self.p.sensitive.append((u, 'string', where + '.$uuid'))
            return {'$uuid': u}
        if k == 'canon':   # canonical-mode extended JSON
            c = self.r.choice(['datelong', 'int', 'double', 'decimal', 'timestamp', 'regex', 'symbol', 'code', 'minkey', 'datelongneg'])
            self.hit('canon_' + c)
            if c == 'datelong': return {'$date': {'$numberLong': self.s_string(where + '.$date.$numberLong')}}
            if c == 'datelongneg':
                self.p.n += 1
                ms = '-62%011d' % (10**9 + self.p.n)
                self.p.sensitive.append((ms, 'string', where + '.$date.$numberLong'))
                return {'$date': {'$numberLong': ms}}
            if c == 'int': return {'$numberInt': self.s_string(where + '.$numberInt')}
            if c == 'double': return {'$numberDouble': self.s_string(where + '.$numberDouble')}
            if c == 'decimal': return {'$numberDecimal': self.s_string(where + '.$numberDecimal')}
            if c == 'timestamp': return {'$timestamp': {'t': self.s_number(where), 'i': self.s_number(where)}}
            if c == 'regex': return {'$regularExpression': {'pattern': self.s_string(where + '.pattern'), 'options': 'i'}}
            if c == 'symbol': return {'$symbol': self.s_string(where + '.$symbol')}
            if c == 'code': return {'$code': self.s_string(where + '.$code')}
            return {self.r.choice(['$minKey', '$maxKey']): RawNum('1')}
        if k == 'longmixed':   # a long list whose elements differ in JSON type but not in their text
            n = self.r.choice([31, 32, 33, 40, 257])
            twins = [[RawNum('7'), '7'], ['7', RawNum('7')], [True, 'true'], ['true', True], [RawNum('1.5'), '1.5'], ['false', False], [None, 'null'], ['<nil>', None]]
            out = []
            while len(out) < n:
                if self.r.random() < 0.25: out += self.r.choice(twins)
                else: out.append(self.literal(where + '[]', depth + 2, True))
            self.hit('longmixed_%d' % (32 if n >= 32 else 31))
            return out
        if k == 'doc': return {self.field(): self.literal(where + '.doc', depth + 1) for _ in range(self.r.randint(0, 3))}
        if k == 'arr': return [self.literal(where + '[]', depth + 1) for _ in range(self.r.randint(0, 3))]
        if k == 'arrarr': return [[self.literal(where + '[][]', depth + 2) for _ in range(self.r.randint(0, 2))] for _ in range(self.r.randint(0, 3))]
        if k == 'arrdoc': return [{self.field(): self.literal(where + '[].doc', depth + 2)} for _ in range(self.r.randint(0, 3))]

    def field(self):
        f = self.r.choice(self.fields)
        if self.r.random() < 0.15:
            f = f + '.' + self.r.choice(self.fields)
        if self.odd_names and self.r.random() < 0.08:
            f = self.r.choice(['R&D', '<id>', 'a>b', 'q&a<b>', 'ls\u2028ps\u2029', 'tab\tname', 'quo"te', 'back\\slash', 'nul\x00', 'caf\u00e9', 'a,b', 'sp ace', 'per%cent', 'semi;colon'])
        if self.collide and self.r.random() < 0.3:
            f = self.r.choice(self.vocab.get('argnames', ['index']))
        self.p.names.add(f)
        return f

    def name(self):
        """an operational name (output field, index, ...): neutral"""
        return self.p.core(False)

    def nsname(self):
        """a collection / database name in a namespace-bearing stage argument"""
        if not self.ns_tokens: return self.name()
        self.p.n += 1
        n = 'Nq%dqN' % self.p.n
        self.ns_names.append(n)
        return n

    def nsarg(self):
        """a namespace-typed stage argument: the string form or one of the document forms"""
        k = self.r.choice(['str', 'str', 'dbcoll', 'coll', 'db', 'dbcollx'])
        self.hit('nsarg_' + k)
        if k == 'str': return self.nsname()
        if k == 'dbcoll': return {'db': self.nsname(), 'coll': self.nsname()}
        if k == 'coll': return {'coll': self.nsname()}
        if k == 'db': return {'db': self.nsname()}
        return {'coll': self.nsname(), 'db': self.nsname(), 'v': RawNum('1')}    # members in the other order, plus a non-string member (every STRING member of such a document is a name)

    def fieldref(self):
        return '$' + self.field()

    # ---------- query predicates ----------
    def cond(self, where, depth):
        k = self.r.choice(['lit', 'lit', 'cmp', 'in', 'regex', 'not', 'elem', 'exists', 'all', 'size', 'type', 'mod', 'geo', 'multi'])
        self.hit('cond_' + k)
        if k == 'lit': return self.literal(where, depth)
        if k == 'cmp': return {self.r.choice(['$eq', '$ne', '$gt', '$gte', '$lt', '$lte']): self.literal(where, depth + 1)}
        if k == 'in': return {self.r.choice(['$in', '$nin']): [self.literal(where + '.$in', depth + 1) for _ in range(self.r.randint(0, 3))]}
        if k == 'all': return {'$all': [self.literal(where + '.$all', depth + 1) for _ in range(self.r.randint(1, 3))]}
        if k == 'regex': return {'$regex': self.s_string(where + '.$regex'), '$options': 'i'}
        if k == 'not': return {'$not': self.cond(where + '.$not', depth + 1)} if depth < self.maxdepth else {'$not': {'$eq': self.s_string(where)}}
        if k == 'elem': return {'$elemMatch': self.filter(where + '.$elemMatch', depth + 1)}
        if k == 'exists': return {'$exists': self.s_bool(where)}
        if k == 'size': return {'$size': self.s_number(where)}
        if k == 'type': return {'$type': self.r.choice(['string', 'int'])}
        if k == 'mod': return {'$mod': [self.s_number(where), self.s_number(where)]}
        if k == 'geo': return {'$geoWithin': {'$centerSphere': [[self.s_number(where), self.s_number(where)], self.s_number(where)]}}
        if k == 'multi': return {'$gte': self.literal(where, depth + 1, True), '$lt': self.literal(where, depth + 1, True)}

    def filter(self, where, depth=0):
        d = {}
        for _ in range(self.r.randint(0, 3)):
            k = self.r.random()
            if k < 0.7 or depth >= self.maxdepth:
                f = self.field()
                d[f] = self.cond(where + '.' + f, depth + 1)
            elif k < 0.85:
                op = self.r.choice(['$and', '$or', '$nor'])
                d[op] = [self.filter(where + '.' + op, depth + 1) for _ in range(self.r.randint(1, 3))]
            elif k < 0.9:
                d['$expr'] = self.expr(where + '.$expr', depth + 1)
            elif k < 0.94:
                d['$text'] = {'$search': self.s_string(where + '.$text')}
            elif k < 0.97:
                d['$where'] = self.s_string(where + '.$where')
            else:
                d['$comment'] = self.s_string(where + '.$comment')
        return d

    # ---------- expressions ----------
    def expr(self, where, depth=0):
        k = self.r.choice(['ref', 'lit', 'lit', 'op1', 'opn', 'cond', 'condobj', 'literal', 'map', 'obj', 'dfs'])
        if depth >= self.maxdepth:
            k = self.r.choice(['ref', 'lit'])
        self.hit('expr_' + k)
        if k == 'ref': return self.fieldref()
        if k == 'lit': return self.literal(where, depth + 1, True)
        if k == 'op1': return {self.r.choice(['$toUpper', '$toLower', '$abs', '$strLenCP', '$not', '$size']): self.expr(where, depth + 1)}
        if k == 'opn': return {self.r.choice(['$concat', '$add', '$eq', '$ne', '$gt', '$in', '$ifNull', '$multiply', '$and', '$or', '$setUnion', '$mergeObjects', '$arrayElemAt']): [self.expr(where, depth + 1) for _ in range(self.r.randint(1, 3))]}
        if k == 'cond': return {'$cond': [self.expr(where, depth + 1), self.expr(where, depth + 1), self.expr(where, depth + 1)]}
        if k == 'condobj': return {'$cond': {'if': self.expr(where, depth + 1), 'then': self.expr(where, depth + 1), 'else': self.expr(where, depth + 1)}}
        if k == 'literal': return {'$literal': self.literal(where + '.$literal', depth + 1)}
        if k == 'map': return {'$map': {'input': self.expr(where, depth + 1), 'as': self.name(), 'in': self.expr(where, depth + 1)}}
        if k == 'obj': return {self.field(): self.expr(where, depth + 1)}
        if k == 'dfs': return {'$dateFromString': {'dateString': self.s_string(where + '.dateString')}}

    def expr_nolit(self, where, depth=0):
        """an expression that is not a bare scalar literal (argument positions the tool reads as a field path / name)"""
        for _ in range(20):
            e = self.expr(where, depth)
            if isinstance(e, dict) and not any(k in e for k in ('$date', '$oid', '$binary', '$numberLong', '$uuid', '$numberInt', '$numberDouble', '$numberDecimal', '$timestamp', '$regularExpression', '$symbol', '$code', '$minKey', '$maxKey')): return e
            if isinstance(e, str) and e.startswith('$'): return e
        return self.fieldref()

    # ---------- updates ----------
    def update_doc(self, where, depth=0):
        if self.r.random() < 0.2:
            return {self.field(): self.literal(where + '.repl', depth + 1) for _ in range(self.r.randint(1, 3))}
        d = {}
        for _ in range(self.r.randint(1, 3)):
            op = self.r.choice(['$set', '$set', '$unset', '$inc', '$push', '$pushEach', '$pull', '$addToSet', '$setOnInsert', '$min', '$max', '$mul', '$rename', '$currentDate', '$pullAll', '$pop', '$bit'])
            self.hit('upd_' + op)
            f = self.field()
            w = where + '.' + op + '.' + f
            if op in ('$set', '$setOnInsert', '$min', '$max', '$addToSet', '$push'): d.setdefault(op, {})[f] = self.literal(w, depth + 1)
            elif op == '$unset': d.setdefault(op, {})[f] = ''
            elif op in ('$inc', '$mul'): d.setdefault(op, {})[f] = self.s_number(w)
            elif op == '$pushEach': d.setdefault('$push', {})[f] = {'$each': [self.literal(w + '.$each', depth + 1) for _ in range(self.r.randint(0, 3))], '$position': 0}
            elif op == '$pull': d.setdefault(op, {})[f] = self.cond(w, depth + 1)
            elif op == '$rename': d.setdefault(op, {})[f] = self.name()
            elif op == '$currentDate': d.setdefault(op, {})[f] = True
            elif op == '$pullAll': d.setdefault(op, {})[f] = [self.literal(w, depth + 1) for _ in range(self.r.randint(0, 3))]
            elif op == '$pop': d.setdefault(op, {})[f] = 1
            elif op == '$bit': d.setdefault(op, {})[f] = {'and': self.s_number(w)}
        return d

    def update_pipeline(self, where, depth=0):
        out = []
        for _ in range(self.r.randint(1, 3)):
            k = self.r.choice(['$set', '$addFields', '$unset', '$replaceWith', '$project'])
            if k in ('$set', '$addFields', '$project'): out.append({k: {self.field(): self.expr(where + '.' + k, depth + 1)}})
            elif k == '$unset': out.append({k: [self.field()]})
            else: out.append({k: self.expr(where + '.' + k, depth + 1)})
        return out

    # ---------- pipelines ----------
    def stage(self, where, depth=0):
        kinds = ['$match', '$match', '$project', '$addFields', '$set', '$group', '$sort', '$limit', '$skip', '$sample', '$unwind', '$unwindobj',
                 '$count', '$sortByCount', '$unset', '$replaceRoot', '$replaceWith', '$bucket', '$bucketAuto', '$redact', '$geoNear',
                 '$setWindowFields', '$documents', '$out', '$outobj', '$merge', '$mergepipe', '$densify', '$fill']
        if depth < self.maxdepth - 1:
            kinds += ['$lookup', '$lookuppipe', '$graphLookup', '$unionWith', '$unionWithstr', '$facet', '$facet', '$lookupsearch', '$unionWithsearch', '$facetsearch']
        k = self.r.choice(kinds)
        self.hit('stage_' + k)
        w = where + '.' + k
        if k == '$match': return {'$match': self.filter(w, depth + 1)}
        if k in ('$project', '$addFields', '$set'):
            return {k: {self.field(): (self.expr(w, depth + 1) if self.r.random() < 0.7 else RawNum('1')) for _ in range(self.r.randint(1, 3))}}
        if k == '$group': return {'$group': {'_id': self.expr(w, depth + 1), self.name(): {self.r.choice(['$sum', '$avg', '$push', '$first', '$max']): self.expr(w, depth + 1)}}}
        if k == '$sort': return {'$sort': {self.field(): self.r.choice([RawNum('1'), RawNum('-1')])}}
        if k == '$limit': return {'$limit': RawNum(str(self.r.randint(1, 1000)))}
        if k == '$skip': return {'$skip': RawNum(str(self.r.randint(0, 1000)))}
        if k == '$sample': return {'$sample': {'size': RawNum(str(self.r.randint(1, 100)))}}
        if k == '$unwind': return {'$unwind': self.fieldref()}
        if k == '$unwindobj': return {'$unwind': {'path': self.fieldref(), 'preserveNullAndEmptyArrays': True}}
        if k == '$count': return {'$count': self.name()}
        if k == '$sortByCount': return {'$sortByCount': self.expr_nolit(w, depth + 1)}
        if k == '$unset': return {'$unset': self.r.choice([self.field(), [self.field(), self.field()]])}
        if k == '$replaceRoot': return {'$replaceRoot': {'newRoot': self.r.choice([self.expr_nolit(w, depth + 1), {'$mergeObjects': [{self.field(): self.s_string(w + '.newRoot')}, '$$ROOT']}, {'$ifNull': [self.fieldref(), {self.field(): self.s_string(w + '.newRoot')}]}])}}
        if k == '$replaceWith': return {'$replaceWith': self.expr(w, depth + 1)}
        if k == '$bucket': return {'$bucket': {'groupBy': self.r.choice([self.expr_nolit(w, depth + 1), {'$ifNull': [self.fieldref(), self.s_string(w + '.groupBy')]}]), 'boundaries': [self.s_number(w), self.s_number(w)], 'default': self.s_string(w + '.default'), 'output': {self.name(): {'$sum': RawNum('1')}}}}
        if k == '$bucketAuto': return {'$bucketAuto': {'groupBy': self.expr(w, depth + 1), 'buckets': RawNum('5')}}
        if k == '$redact': return {'$redact': {'$cond': [self.expr(w, depth + 1), '$$KEEP', '$$PRUNE']}}
        if k == '$geoNear': return {'$geoNear': {'near': {'type': 'Point', 'coordinates': [self.s_number(w), self.s_number(w)]}, 'distanceField': self.name(), 'maxDistance': self.s_number(w), 'query': self.filter(w + '.query', depth + 1), 'spherical': True}}
        if k == '$setWindowFields': return {'$setWindowFields': {'partitionBy': self.expr(w, depth + 1), 'sortBy': {self.field(): RawNum('1')}, 'output': {self.name(): {'$sum': self.expr(w, depth + 1), 'window': {'documents': ['unbounded', 'current']}}}}}
        if k == '$documents': return {'$documents': [{self.field(): self.literal(w, depth + 1)} for _ in range(self.r.randint(0, 2))]}
        if k == '$out': return {'$out': self.nsname()}
        if k == '$outobj': return {'$out': {'db': self.nsname(), 'coll': self.nsname()}}
        if k == '$merge': return {'$merge': {'into': self.nsarg(), 'on': self.field(), 'whenMatched': self.r.choice(['merge', 'replace', 'keepExisting']), 'whenNotMatched': 'insert'}}
        if k == '$mergepipe': return {'$merge': {'into': {'db': self.nsname(), 'coll': self.nsname()}, 'let': {self.name(): self.expr(w, depth + 1)}, 'whenMatched': self.update_pipeline(w + '.whenMatched', depth + 1)}}
        if k == '$densify': return {'$densify': {'field': self.field(), 'range': {'step': RawNum('1'), 'unit': 'hour', 'bounds': [self.s_date(w), self.s_date(w)]}}}
        if k == '$fill': return {'$fill': {'sortBy': {self.field(): RawNum('1')}, 'output': {self.field(): {'value': self.expr(w, depth + 1)}}}}
        if k == '$lookup': return {'$lookup': {'from': self.nsarg(), 'localField': self.field(), 'foreignField': self.field(), 'as': self.name()}}
        if k == '$lookuppipe': return {'$lookup': {'from': self.nsname(), 'let': {self.name(): self.expr(w, depth + 1)}, 'pipeline': self.pipeline(w + '.pipeline', depth + 1), 'as': self.name()}}
        if k == '$graphLookup': return {'$graphLookup': {'from': self.nsarg(), 'startWith': self.expr(w, depth + 1), 'connectFromField': self.field(), 'connectToField': self.field(), 'as': self.name(), 'maxDepth': RawNum('3'), 'restrictSearchWithMatch': self.filter(w + '.restrict', depth + 1)}}
        if k == '$unionWith': return {'$unionWith': {'coll': self.nsarg(), 'pipeline': self.pipeline(w + '.pipeline', depth + 1)}}
        if k == '$unionWithstr': return {'$unionWith': self.nsname()}
        if k == '$lookupsearch': return {'$lookup': {'from': self.nsname(), 'pipeline': [self.search_stage(w + '.pipeline')] + self.pipeline(w + '.pipeline', depth + 2), 'as': self.name()}}
        if k == '$unionWithsearch': return {'$unionWith': {'coll': self.nsname(), 'pipeline': [self.search_stage(w + '.pipeline')] + self.pipeline(w + '.pipeline', depth + 2)}}
        if k == '$facetsearch': return {'$facet': {self.name(): [{'$lookup': {'from': self.nsname(), 'pipeline': [self.search_stage(w)], 'as': self.name()}}], self.name(): [self.search_stage(w), {'$limit': RawNum('3')}]}}
        if k == '$facet': return {'$facet': {self.name(): self.pipeline(w, depth + 1) for _ in range(self.r.randint(1, 2))}}

    def pipeline(self, where, depth=0):
        return [self.stage(where, depth) for _ in range(self.r.randint(0, 3))]

    # ---------- Atlas Search ----------
    def path(self):
        return self.r.choice([self.field(), self.field(), [self.field(), self.field()], {'wildcard': self.field() + '*'},
                              {'value': self.field(), 'multi': 'keywordAnalyzer'}, [self.field(), {'wildcard': 'x.*'}]])

    def opath(self):
        """the path of an operator that officially takes one field; sometimes one of the multi forms"""
        return self.field() if self.r.random() < 0.8 else self.path()

    def search_op(self, where, depth=0):
        kinds = ['text', 'textarr', 'phrase', 'autocomplete', 'equals', 'in', 'range', 'near', 'regex', 'wildcard', 'queryString', 'exists', 'moreLikeThis', 'moreLikeThisArr', 'inNested', 'geoWithin']
        if depth < self.maxdepth - 1:
            kinds += ['compound', 'compound', 'embeddedDocument']
        k = self.r.choice(kinds)
        self.hit('search_' + k)
        w = where + '.' + k
        if k == 'text': return {'text': {'query': self.s_string(w), 'path': self.path(), 'fuzzy': {'maxEdits': RawNum('1')}}}
        if k == 'textarr': return {'text': {'query': [self.s_string(w), self.s_string(w)], 'path': self.path()}}
        if k == 'phrase': return {'phrase': {'query': self.s_string(w), 'path': self.path(), 'slop': RawNum('2')}}
        if k == 'autocomplete': return {'autocomplete': {'query': self.s_string(w), 'path': self.field(), 'tokenOrder': 'sequential'}}
        if k == 'equals': return {'equals': {'path': self.opath(), 'value': self.literal(w, depth + 1, True)}}
        if k == 'in': return {'in': {'path': self.opath(), 'value': [self.literal(w, depth + 1, True) for _ in range(self.r.randint(1, 3))]}}
        if k == 'range': return {'range': {'path': self.opath(), 'gte': self.literal(w, depth + 1, True), 'lt': self.literal(w, depth + 1, True)}}
        if k == 'near': return {'near': {'path': self.opath(), 'origin': self.r.choice([self.s_date(w), self.s_number(w)]), 'pivot': self.s_number(w)}}
        if k == 'regex': return {'regex': {'query': self.s_string(w), 'path': self.field(), 'allowAnalyzedField': True}}
        if k == 'wildcard': return {'wildcard': {'query': self.s_string(w), 'path': self.field()}}
        if k == 'queryString': return {'queryString': {'defaultPath': self.field(), 'query': self.s_string(w)}}
        if k == 'exists': return {'exists': {'path': self.opath()}}
        if k == 'moreLikeThis': return {'moreLikeThis': {'like': {self.field(): self.literal(w, depth + 1, True)}}}
        if k == 'moreLikeThisArr':   # documents in arrays, and in arrays nested in arrays
            return {'moreLikeThis': {'like': self.r.choice([[{self.field(): self.literal(w, depth + 1, True)}], [[{self.field(): self.literal(w, depth + 1, True)}]],
                                                            [[self.fieldref(), {self.field(): [[{self.field(): self.s_string(w)}]]}], []]])}}
        if k == 'inNested': return {'in': {'path': self.opath(), 'value': [[self.literal(w, depth + 1, True), self.s_string(w)], [self.fieldref()], []]}}   # arrays in arrays; scalars only (the operator takes no documents)
        if k == 'geoWithin': return {'geoWithin': {'path': self.opath(), 'circle': {'center': {'type': 'Point', 'coordinates': [self.s_number(w), self.s_number(w)]}, 'radius': self.s_number(w)}}}
        if k == 'compound':
            d = {}
            for cl in self.r.sample(['must', 'mustNot', 'should', 'filter'], self.r.randint(1, 3)):
                d[cl] = [self.search_op(w + '.' + cl, depth + 1) for _ in range(self.r.randint(1, 2))]
            return {'compound': d}
        if k == 'embeddedDocument': return {'embeddedDocument': {'path': self.field(), 'operator': self.search_op(w + '.operator', depth + 1)}}

    def search_stage(self, where):
        k = self.r.choice(['$search', '$search', '$searchMeta', '$searchMetaFacet', '$vectorSearch', '$rankFusion'])
        self.hit('stage_' + k)
        w = where + '.' + k
        if k == '$search':
            d = {'index': self.name()}
            d.update(self.search_op(w))
            if self.r.random() < 0.3: d['highlight'] = {'path': self.field()}
            if self.r.random() < 0.3: d['count'] = {'type': 'total'}
            if self.r.random() < 0.2: d['returnStoredSource'] = True
            if self.r.random() < 0.25: d['sort'] = {self.field(): RawNum('1'), 'score': {'$meta': 'searchScore'}}
            return {'$search': d}
        if k == '$searchMeta':
            d = {'index': self.name()}
            d.update(self.search_op(w))
            return {'$searchMeta': d}
        if k == '$searchMetaFacet':
            return {'$searchMeta': {'index': self.name(), 'facet': {'operator': self.search_op(w + '.facet.operator'),
                    'facets': {self.name(): {'type': 'string', 'path': self.field(), 'numBuckets': RawNum('5')},
                               self.name(): {'type': 'number', 'path': self.field(), 'boundaries': [self.s_number(w), self.s_number(w)]}}}}}
        if k == '$vectorSearch':
            return {'$vectorSearch': {'index': self.name(), 'path': self.field(), 'queryVector': [self.s_number(w) for _ in range(3)], 'numCandidates': RawNum('100'), 'limit': RawNum('10'), 'filter': self.filter(w + '.filter', 2)}}
        if k == '$rankFusion':
            return {'$rankFusion': {'input': {'pipelines': {self.name(): [self.search_stage(w), {'$limit': RawNum('5')}], self.name(): [{'$match': self.filter(w, 2)}]}}, 'combination': {'weights': {self.name(): RawNum('2')}}, 'scoreDetails': False}}

    # ---------- commands ----------
    def command(self, ns_db, ns_coll):
        verb = self.r.choice(['find', 'find', 'aggregate', 'aggregate', 'aggsearch', 'insert', 'update', 'updatepipe', 'delete', 'count', 'distinct', 'findAndModify', 'findAndModifypipe', 'getMore'])
        self.hit('verb_' + verb)
        w = verb
        if verb == 'find':
            c = {'find': ns_coll, 'filter': self.filter(w + '.filter')}
            if self.r.random() < 0.4: c['sort'] = {self.field(): RawNum('1')}
            if self.r.random() < 0.3: c['limit'] = RawNum('10')
        elif verb == 'aggregate':
            c = {'aggregate': ns_coll, 'pipeline': self.pipeline(w + '.pipeline'), 'cursor': {}}
        elif verb == 'aggsearch':
            pre = self.pipeline(w + '.pipeline', 2)[:2] if self.r.random() < 0.35 else []   # a search stage that is not the first stage (rejected by the server, logged all the same)
            c = {'aggregate': ns_coll, 'pipeline': pre + [self.search_stage(w + '.pipeline')] + self.pipeline(w + '.pipeline', 2), 'cursor': {}}
        elif verb == 'insert':
            c = {'insert': ns_coll, 'documents': [{self.field(): self.literal(w + '.documents') for _ in range(self.r.randint(0, 3))} for _ in range(self.r.randint(0, 3))], 'ordered': True}
        elif verb == 'update':
            c = {'update': ns_coll, 'updates': [{'q': self.filter(w + '.q'), 'u': self.update_doc(w + '.u'), 'multi': False, 'upsert': False} for _ in range(self.r.randint(1, 2))], 'ordered': True}
            if self.r.random() < 0.4:      # filters for the positional operators: query documents inside the statement
                c['updates'][-1]['arrayFilters'] = [{'elem.' + self.field(): self.literal(w + '.arrayFilters')}]; self.hit('stmt_arrayFilters')
        elif verb == 'updatepipe':
            c = {'update': ns_coll, 'updates': [{'q': self.filter(w + '.q'), 'u': self.update_pipeline(w + '.u')}], 'ordered': True}
            if self.r.random() < 0.5:      # the constants document of a pipeline-style update (referenced as $$name from u): user literals like any other
                c['updates'][0]['c'] = {'v%d' % j: self.literal(w + '.c') for j in range(self.r.randint(1, 2))}; self.hit('stmt_c')
        elif verb == 'delete':
            c = {'delete': ns_coll, 'deletes': [{'q': self.filter(w + '.q'), 'limit': RawNum(self.r.choice(['0', '1']))} for _ in range(self.r.randint(1, 2))], 'ordered': True}
        elif verb == 'count':
            c = {'count': ns_coll, 'query': self.filter(w + '.query')}
        elif verb == 'distinct':
            c = {'distinct': ns_coll, 'key': self.field(), 'query': self.filter(w + '.query')}
        elif verb == 'findAndModify':
            c = {'findAndModify': ns_coll, 'query': self.filter(w + '.query'), 'update': self.update_doc(w + '.update'), 'new': True}
            if self.r.random() < 0.3: c['sort'] = {self.field(): RawNum('-1')}
        elif verb == 'findAndModifypipe':
            c = {'findAndModify': ns_coll, 'query': self.filter(w + '.query'), 'update': self.update_pipeline(w + '.update')}
        else:
            c = {'getMore': RawNum('5231234123412341234'), 'collection': ns_coll, 'batchSize': RawNum('101')}
        c['lsid'] = {'id': {'$uuid': 'a657a630-1111-0000-0000-d01de73c37e7'}}
        c['$db'] = ns_db
        return verb, c

    def write_style(self):
        """WRITE-component lines carry q/u directly"""
        k = self.r.choice(['update', 'updatepipe', 'remove'])
        if k == 'update': return {'q': self.filter('write.q'), 'u': self.update_doc('write.u'), 'multi': False, 'upsert': False}
        if k == 'updatepipe': return {'q': self.filter('write.q'), 'u': self.update_pipeline('write.u'), 'multi': True}
        return {'q': self.filter('write.q'), 'limit': RawNum('0')}

class RawNum:
    """A number emitted with its literal text."""
    def __init__(self, lit): self.lit = lit
    def __repr__(self): return 'RawNum(%s)' % self.lit

def dumps(v):
    """JSON serialiser that keeps RawNum literals and member order; non-ASCII as is."""
    if isinstance(v, RawNum): return v.lit
    if isinstance(v, dict): return '{' + ','.join(json.dumps(k, ensure_ascii=False) + ':' + dumps(x) for k, x in v.items()) + '}'
    if isinstance(v, (list, tuple)): return '[' + ','.join(dumps(x) for x in v) + ']'
    return json.dumps(v, ensure_ascii=False)

DBS = ['mydb', 'app_db', 'déb', 'shop']
COLLS = ['users', 'orders.archive', 'cöll', 'system.profile', '$cmd', 'events']

def command_line(rng, vocab=None, collide=False, depth=4, lit_rng=None, vary_nums=False, vary_bools=False, fields=None, ns_tokens=False, db=None, coll=None, plan=None):
    """One grammar-generated log line. Returns (bytes, info). With lit_rng the CONTENTS of the sensitive literals are
    re-drawn from it within their lexical class while every structural choice still comes from rng."""
    g = G(rng, vocab, depth=depth, collide=collide, lit_rng=lit_rng, vary_nums=vary_nums, vary_bools=vary_bools, fields=fields, ns_tokens=ns_tokens)
    db0, coll0 = rng.choice(DBS), rng.choice(COLLS)
    db, coll = (db or db0), (coll or coll0)
    placement = rng.choice(['command', 'command', 'command', 'cmd', 'originatingCommand', 'both', 'write'])
    comp = rng.choice(['COMMAND', 'COMMAND', 'QUERY', 'WRITE', 'slow'])
    attr = {'type': 'command', 'ns': db + '.' + coll, 'appName': rng.choice(['app', 'app', 'C:\\Program Files\\Shop\\orders.exe', 'tool\\u0041v1', 'a/b c', 'web%2Fcheckout 95%', '%s'])}
    verbs = []
    if placement == 'write':
        comp = 'WRITE'
        attr['command'] = g.write_style()
        verbs.append('write')
    else:
        v, c = g.command(db, coll)
        verbs.append(v)
        if placement in ('command', 'both'): attr['command'] = c
        if placement == 'cmd':
            attr['cmd'] = c
            attr['error'] = {'code': RawNum('50'), 'codeName': 'MaxTimeMSExpired', 'errmsg': 'operation exceeded time limit'}
        if placement in ('originatingCommand', 'both'):
            v2, c2 = g.command(db, coll)
            verbs.append(v2)
            attr['originatingCommand'] = c2
            if 'command' not in attr:
                attr['command'] = {'getMore': RawNum('77'), 'collection': coll, '$db': db}
    ip = '10.%d.%d.%d:%d' % (rng.randint(0, 255), rng.randint(0, 255), rng.randint(1, 254), rng.randint(1024, 65000))
    if rng.random() < 0.35:   # other peer notations a server logs
        ip = rng.choice(['[2001:db8::%x]:%d' % (rng.randint(1, 65535), rng.randint(1024, 65000)), '[::ffff:203.0.113.%d]:51234' % rng.randint(1, 254), '[fe80::1c2d:%x%%eth0]:51234' % rng.randint(1, 65535),
                         '[::1]:27017', 'client-%d.corp.example:40123' % rng.randint(1, 999), '/tmp/mongodb-27017.sock', '192.0.2.%d' % rng.randint(1, 254)])
    attr['remote'] = ip
    ps0 = rng.choice(['COLLSCAN', 'IXSCAN { uf_a: 1 }', 'IXSCAN { name: 1, age: -1 }', 'IDHACK'])
    attr['planSummary'] = plan if plan is not None else ps0
    attr['keysExamined'] = RawNum(str(rng.randint(0, 10 ** 6)))
    attr['durationMillis'] = RawNum(str(rng.randint(0, 10 ** 5)))
    entry = {'t': {'$date': '2019-01-02T03:04:05.678+00:00'}, 's': 'I', 'c': 'COMMAND' if comp == 'slow' else comp,
             'id': RawNum('51803'), 'ctx': 'conn%d' % rng.randint(1, 99999), 'msg': 'Slow query' if comp == 'slow' or rng.random() < 0.7 else 'command',
             'attr': attr}
    if comp == 'slow':
        entry['c'] = 'NETWORK' if rng.random() < 0.3 else 'COMMAND'
        entry['msg'] = 'Slow query'
    # member ORDER carries no meaning in JSON: a log that went through another tool (jq -S, a re-serialiser) has its members sorted or shuffled -
    # the command name no longer first, `documents` before `insert`, `attr` before `c`
    if rng.random() < 0.12:
        how = rng.choice(['sorted', 'reversed', 'shuffled'])
        def reorder(d):
            items = list(d.items())
            if how == 'sorted': items.sort(key=lambda kv: kv[0])
            elif how == 'reversed': items.reverse()
            else: rng.shuffle(items)
            return dict(items)
        for ck in ('command', 'cmd', 'originatingCommand'):
            if isinstance(attr.get(ck), dict): attr[ck] = reorder(attr[ck])
        entry['attr'] = reorder(attr)
        if rng.random() < 0.5: entry = reorder(entry)
        g.stats['member_order_' + how] = 1
    info = {'ns_names': g.ns_names, 'sensitive': g.p.sensitive, 'sens_numbers': g.p.sens_numbers, 'names': sorted(g.p.names), 'verbs': verbs,
            'placement': placement, 'ip': ip, 'db': db, 'coll': coll, 'stats': g.stats}
    return dumps(entry).encode('utf-8'), info

# ---------- arbitrary trees ----------
# names that mean something at ONE level of a log line (entry / attr / command document): as keys at any other level they are ordinary names
LEVEL_WORDS = ['ns', 'aggregate', 'insert', 'find', 'update', 'collection', 'delete', '$db', 'count', 'findAndModify', 'findOneAndDelete', 'replace', 'findOneAndReplace', 'findOneAndUpdate',
               'getIndexes', 'countDocuments', 'query', 'filter', 'sort', 'q', 'u', 'updates', 'deletes', 'documents', 'pipeline', 'command', 'cmd', 'originatingCommand', 'remote',
               'planSummary', 'attr', 'c', 'msg', 't', 's', 'id', 'ctx', 'getMore', 'distinct', 'key']

# strings shaped like what one of the flags looks for (a network location for --redactIPs, a namespace for --redactNamespaces, an e-mail address, a plan
# summary, a field reference), drawn as ordinary string values at EVERY place of arbitrary-JSON lines - also where the flag must not act
FLAG_SHAPED = ['10.20.30.40:27017', '192.168.1.1', '127.0.0.1:51234', '[::1]:27017', '255.255.255.255:65535', 'connection from 10.1.2.3:4444 ended', 'db-host-7.example.net:27017',
               'mydb.users', 'shop.orders', 'admin.$cmd', 'someone@example.org', 'IXSCAN { name: 1 }', 'COLLSCAN']

def anyjson_tree(rng, vocab, depth=0, maxdepth=5):
    ks = ['str', 'str', 'num', 'bool', 'null', 'obj', 'obj', 'arr', 'emptyobj', 'emptyarr', 'dollar']
    if depth >= maxdepth: ks = ['str', 'num', 'bool', 'null', 'emptyobj', 'emptyarr', 'dollar']
    k = rng.choice(ks)
    if k == 'str': return rng.choice(['x', '', 'a@b.co', 'héllo', '2024-01-01T00:00:00Z', 'REDACTED', '0123456789abcdef01234567', 'a"b\\c\n', '\U0001F600', '<tag>&',
                                      'C:\\dir\\file.txt', 'lit\\u0041esc', 'trail\\', '100% sure', '%s%d%v%n', 'web%2Fcheckout', '%"q', '\x1b[31mred\x1b[0m', 'bell\x07', 'vt\x0b ff\x0c bs\x08', 'del\x7f', 'tag\U000e0001x', 'nbsp\u00a0 ls\u2028 ps\u2029', '\ufeffbom', 'nul\x00z'] + FLAG_SHAPED)
    if k == 'dollar': return rng.choice(['$name', '$$ROOT', '$', '$a.b', '$eq', '$limit'])
    if k == 'num': return RawNum(rng.choice(['0', '1', '-1', '1.5', '1e10', '-0', '12345678901234567890', '0.1e-7', '1E+2', '9007199254740993', '-0.0', '-0e0', '0.0', '1.0', '100e-2', '1E0', '0.10', '1e400', '-1e-400', '0.0000001', '-0.0000005', '1000000000000000000000', '0.000001', '999999999999999999999.5']))
    if k == 'bool': return rng.choice([True, False])
    if k == 'null': return None
    if k == 'emptyobj': return {}
    if k == 'emptyarr': return []
    if k == 'arr': return [anyjson_tree(rng, vocab, depth + 1, maxdepth) for _ in range(rng.randint(1, 3))]
    d = {}
    for _ in range(rng.randint(1, 4)):
        key = rng.choice(LEVEL_WORDS) if rng.random() < 0.12 else rng.choice(vocab['all']) if rng.random() < 0.6 else rng.choice(USER_FIELDS + ['', 'a.b', '$x', 'k"q', 'na\x01me', 'k\x7f', 'discount%', 'a%b', '%d', 'esc\x1bkey', 'bell\x07', 'tab\tkey', 'ключ', 'k\u2028e', 'back\\slash', 'R&D', '<id>', 'a>b', 'amp&lt;', 'k\u2029p', 'a,b'])
        d[key] = anyjson_tree(rng, vocab, depth + 1, maxdepth)
    return d

def anyjson_line(rng, vocab):
    comp = rng.choice(['COMMAND', 'QUERY', 'WRITE', 'NETWORK', 'STORAGE', 'ACCESS', '-', 'REPL'])
    cmdkeys = ['query', 'filter', 'sort', 'update', 'updates', 'deletes', 'q', 'u', 'documents', 'pipeline', 'insert', 'find', 'aggregate', '$db', 'ns', 'collection', 'other']
    def cmd():
        return {k: anyjson_tree(rng, vocab, 1) for k in rng.sample(cmdkeys, rng.randint(0, 6))}
    attr = {}
    for k in rng.sample(['command', 'cmd', 'originatingCommand', 'ns', 'remote', 'planSummary', 'x', 'durationMillis', 'collection', 'count', 'find', 'update', '$db', 'insert', 'aggregate', 'delete', 'filter', 'query', 'client', 'target', 'error', 'host'], rng.randint(0, 8)):
        if k in ('command', 'cmd', 'originatingCommand'):
            attr[k] = cmd() if rng.random() < 0.85 else anyjson_tree(rng, vocab, 3)
        elif k == 'ns': attr[k] = rng.choice(['mydb.users', 'x', '', RawNum('5'), None, 'a.b.c'])
        elif k == 'remote': attr[k] = rng.choice(['1.2.3.4:5', RawNum('7'), None, {}])
        elif k in ('client', 'target', 'error', 'host'): attr[k] = rng.choice(FLAG_SHAPED)      # attributes that are NOT attr.remote / attr.ns / attr.planSummary
        elif k == 'planSummary': attr[k] = rng.choice(['COLLSCAN', 'IXSCAN { a: 1 }', 'IXSCAN { a: 1, b.c: -1 } IXSCAN { d: 1 }', RawNum('3'), 'IXSCAN {}', 'IXSCAN{x:1}'])
        elif k in ('collection', 'count', 'find', 'update', '$db', 'insert', 'aggregate', 'delete') and rng.random() < 0.6: attr[k] = rng.choice(['orders', '12 of 40 chunks', 'mydb', 'users.archive', ''])      # an attribute of that NAME, not a command member
        else: attr[k] = anyjson_tree(rng, vocab, 3)
    entry = {'t': {'$date': '2020-01-01T00:00:00.000+00:00'}, 's': 'I', 'c': comp, 'id': RawNum('12345678901234567890'), 'ctx': 'c',
             'msg': rng.choice(['Slow query', 'other', 'Connection accepted']),
             'attr': attr if rng.random() < 0.9 else rng.choice([None, 'str', [], RawNum('1')])}
    if rng.random() < 0.1: del entry['attr']
    if rng.random() < 0.1: entry['extra'] = anyjson_tree(rng, vocab, 2)
    return dumps(entry).encode('utf-8')

# ---------- malformed byte strings ----------
def bytes_mutations(rng, base_lines, n):
    out = []
    tokens = [b'{', b'}', b'[', b']', b',', b':', b'"', b'\\', b'null', b'true', b'1', b'-', b'1e', b'"\\ud800"', b'"\\udc00\\ud800"', b'\xff', b'\xc3', b'\x00', b'\x1f', b' ', b'\t', b'\r', b'\xef\xbb\xbf', b'1.', b'01', b'tru', b'"\\x"', b'"\\u12"', b'\xed\xa0\x80', b'\xf4\x90\x80\x80', b'\xe2\x80\xa8']
    firsts = [b'5', b'"s"', b'[1]', b'null', b'true', b'-1.5e3', b'', b' ', b'\t \t', b'2024-01-01T00:00:00.000+0000 I NETWORK  [conn1] received client metadata', b'{', b'}', b'{}', b'{"a":1', b'{"a":[1,2}', b'{"a":{"b":1]}', b'{"a":1,}', b'[1,]', b'{"a":1}}', b'{"a":1} trailing', b'{"a":1}{"b":2}', b'{"a" 1}', b'{"a":}', b'{1:2}', b'{"a":1,,"b":2}', b'{"a":01}', b'{"a":1.}', b'{"a":-}', b'{"a":+1}', b'{"a":.5}', b'{"a":1e}', b'{"a":"\\ud83d\\ude00"}', b'{"a":"\\ud83d"}', b'{"a":"\\ude00\\ud83d"}', b'{"a":"\xff\xfe"}', b'{"a":"\xe2\x80\xa8"}', b'{"a":"\x7f"}', b'{"a":"x\ty"}', b'{"a":"\\/"}', b'{"a":"\\b\\f"}', b'{"a":1,"a":2,"b":3,"a":{"c":4}}', b'\xef\xbb\xbf{"a":1}', b'{"a":tru}', b'{"a":nul}', b'{"a":truex}', b'{"a":"b"x}', b'{"a":[1 2]}', b'{"a":[1,2,]}', b'{"a":[,1]}', b'{"":""}', b'{"a":{"":{"":[[[[]]]]}}}']
    for f in firsts:
        out.append(f)
    while len(out) < n:
        l = bytearray(rng.choice(base_lines))
        k = rng.choice(['trunc', 'insert', 'delete', 'replace', 'dup', 'flip', 'wrap'])
        if not l:
            out.append(bytes(l)); continue
        i = rng.randrange(len(l))
        if k == 'trunc': l = l[:i]
        elif k == 'insert': l[i:i] = rng.choice(tokens)
        elif k == 'delete': del l[i:i + rng.randint(1, 4)]
        elif k == 'replace': l[i:i + 1] = rng.choice(tokens)
        elif k == 'dup': l[i:i] = l[i:i + rng.randint(1, 20)]
        elif k == 'flip': l[i] ^= 1 << rng.randrange(8)
        elif k == 'wrap':
            d = rng.randint(1, 50)
            l = bytearray(b'{"c":"COMMAND","attr":{"command":{"filter":' + b'{"a":' * d + b'[' * d + bytes(l[:200].replace(b'\n', b' ')) + b']' * d + b'}' * d + b'}}}')
        b = bytes(l).replace(b'\n', b' ')
        out.append(b)
    return out

def wrapper_lines(vocab):
    """every value kind under every extended-JSON wrapper and every vocabulary operator, in the three walkers"""
    out = []
    vals = ['5', 'null', 'true', '"s"', '[]', '[1,"x",null]', '{}', '{"a":1}', '[[{"a":"s"}],[]]', '"$ref"', '1.5e300', '{"$date":7}',
            '{"$numberLong":"-62135596800001"}', '{"$numberLong":7}', '{"$numberLong":"1","x":"y"}', '"a657a630-1111-4000-8000-d01de73c37e7"', '"REDACTED_0123456789abcdef"']
    keys = ['$date', '$oid', '$binary', 'base64', 'subType', '$numberLong', '$uuid', '$regex', '$timestamp', '$numberInt', '$numberDouble', '$numberDecimal',
            '$regularExpression', 'pattern', '$symbol', '$code', '$scope', '$minKey', '$maxKey', '$dbPointer', '$ref', '$id', '$undefined', 't', 'i'] + vocab['all']
    for k in keys:
        kq = json.dumps(k)
        for v in vals:
            out.append(('{"c":"COMMAND","msg":"Slow query","attr":{"ns":"d.c","command":{"find":"c","filter":{"f":{%s:%s}},"update":{%s:%s},"pipeline":[{"$match":{"g":{%s:%s}}},{%s:%s},{"$search":{%s:%s,"text":{%s:%s}}}],"documents":[{%s:%s}],"insert":"c","updates":[{"q":{%s:%s},"u":[{%s:%s}]}]}}}'
                        % ((kq, v) * 9)).encode())
            out.append(('{"c":"COMMAND","attr":{"command":{"filter":{"x":{"$binary":{"base64":%s,"subType":%s}}},"pipeline":[{"$match":{"$binary":{%s:%s}}},{"$project":{"y":{"$date":%s}}}]}}}' % (v, v, kq, v, v)).encode())
    return out

def search_lines(vocab):
    """every kind of argument value (plain kinds, extended-JSON wrappers, multi-path forms) under every search operator, in a search
    stage at the first and at a later pipeline position, directly and inside a compound clause, with a sort document"""
    vals = ['"s@t.co"', '5', 'true', 'null', '{"$date":"2020-01-02T03:04:05.006Z"}', '{"$oid":"0123456789abcdef01234567"}',
            '{"$binary":{"base64":"QUJDREVGRw==","subType":"04"}}', '["a@b.co","x"]', '{"wildcard":"na*"}', '{"value":"f","multi":"m"}',
            '[{"$date":"2020-01-02T03:04:05.006Z"},7]', '{"$numberLong":"77"}', '{"$uuid":"a657a630-1111-0000-0000-d01de73c37e7"}',
            '[[{"title":"s@t.co","n":5}],["$ref",{"k":"v"}]]', '[[1,[2,{"b":{"$date":"2020-01-02T03:04:05.006Z"}}]],[]]', '{"doc":{"k":[[{"deep":"x"}]]}}']
    args = ['value', 'query', 'path', 'origin', 'gte', 'lt', 'like', 'defaultPath', 'pivot']
    bodies = []
    for oi, op in enumerate(vocab.get('search_ops', [])):
        for vi, v in enumerate(vals):
            a = args[(oi + vi) % len(args)]
            bodies.append(('%s:{%s:%s}' if a == 'path' else '%s:{%s:%s,"path":"title"}') % (json.dumps(op), json.dumps(a), v))
    for op in ('equals', 'text', 'range'):
        for a in args:
            for v in vals:
                bodies.append('%s:{%s:%s}' % (json.dumps(op), json.dumps(a), v))
    stages = vocab.get('search_stages', ['$search'])
    out = []
    for i, b in enumerate(bodies):
        st = stages[i % len(stages)] if i % 3 == 0 else '$search'
        tpls = ['[{%(st)s:{"index":"idx1",%(b)s}},{"$limit":5}]',
                '[{"$match":{"year":1999}},{%(st)s:{"index":"idx2",%(b)s,"sort":{"title":1}}}]',
                '[{%(st)s:{"index":"idx3","compound":{"must":[{%(b)s}],"should":[{"text":{"query":"q","path":["title",{"wildcard":"x*"}]}}]},"sort":{"released":-1}}}]',
                '[{"$sort":{"a":1}},{"$project":{"a":1}},{%(st)s:{"index":"idx4","numCandidates":150,"limit":10,%(b)s}}]']
        for t in (tpls[i % 4], tpls[(i + 1) % 4]):
            out.append(('{"c":"COMMAND","msg":"Slow query","attr":{"ns":"d.c","command":{"aggregate":"c","pipeline":%s,"$db":"d"}}}' % (t % {'st': json.dumps(st), 'b': b})).encode())
    return out

def collide_lines(vocab):
    """systematic: a user field NAMED like each operator argument of the tables (index, path, type, subType, base64, ...) holding a planted
    literal, in the main query-bearing contexts. Returns [(bytes, info)] with the planted cores annotated as sensitive."""
    out = []
    n = 0
    for name in vocab.get('argnames', []) + vocab.get('bare_top', []):
        if name.startswith('$') or '.' in name or not name: continue
        kq = json.dumps(name)
        cores = []
        def core():
            nonlocal n
            n += 1; c = 'Cq%dqC' % n; cores.append(c); return c
        cmds = [
            '{"find":"c","filter":{%s:"%s","other":{%s:"%s"}},"$db":"d"}' % (kq, core(), kq, core()),
            '{"find":"c","filter":{%s:{"$in":["%s",{%s:"%s"}]}},"$db":"d"}' % (kq, core(), kq, core()),
            '{"update":"c","updates":[{"q":{%s:"%s"},"u":{"$set":{%s:"%s"}}}],"$db":"d"}' % (kq, core(), kq, core()),
            '{"insert":"c","documents":[{%s:"%s","doc":{%s:["%s"]}}],"$db":"d"}' % (kq, core(), kq, core()),
            '{"aggregate":"c","pipeline":[{"$match":{%s:"%s"}},{"$lookup":{"from":"x","pipeline":[{"$match":{%s:"%s"}}],"as":"j"}}],"$db":"d"}' % (kq, core(), kq, core()),
            # free-form user documents inside Atlas Search / vector-search stages
            '{"aggregate":"c","pipeline":[{"$vectorSearch":{"index":"vi","path":"emb","queryVector":[0.5,0.25],"numCandidates":100,"limit":5,"filter":{%s:{"$eq":"%s"},"$and":[{%s:"%s"}]}}}],"$db":"d"}' % (kq, core(), kq, core()),
            '{"aggregate":"c","pipeline":[{"$search":{"index":"si","moreLikeThis":{"like":{%s:"%s","sub":{%s:"%s"}}}}}],"$db":"d"}' % (kq, core(), kq, core()),
            '{"aggregate":"c","pipeline":[{"$search":{"index":"si","compound":{"filter":[{"moreLikeThis":{"like":[{%s:"%s"}]}}],"must":[{"embeddedDocument":{"path":"items","operator":{"moreLikeThis":{"like":{%s:{"$in":["%s"]}}}}}}]}}}],"$db":"d"}' % (kq, core(), kq, core()),
        ]
        for cmd in cmds:
            l = '{"t":{"$date":"2020-01-01T00:00:00.000+00:00"},"s":"I","c":"COMMAND","id":51803,"ctx":"conn1","msg":"Slow query","attr":{"ns":"d.c","command":%s,"remote":"10.0.0.1:5"}}' % cmd
            mine = [c for c in cores if c in cmd]
            out.append((l.encode(), {'kind': 'grammar_collide', 'sensitive': [(c, 'string', 'user field named ' + name) for c in mine], 'sens_numbers': [], 'ip': '10.0.0.1:5', 'stats': {}, 'names': [name], 'verbs': ['collide']}))
    return out

def keyword_value_lines(vocab):
    """systematic: every bare word of the tables (operator-argument names, keywords) as a string VALUE in the query-bearing places.
    As a value it is an ordinary literal. The planted 'core' is the fragment key:value, which survives iff the value does."""
    out = []
    words = [k for k in vocab.get('all', []) if k and not k.startswith('$') and '"' not in k and '\\' not in k]
    for i, w in enumerate(words):
        wq = json.dumps(w)
        frags = ['"zv1":%s' % wq, '"$eq":%s' % wq, '"$in":[%s' % wq, '"zv2":%s' % wq, '"zv3":%s' % wq, '"zv4":[%s' % wq]
        cmd = ('{"aggregate":"c","pipeline":[{"$match":{"zv2":%s,"k":{"$or":[%s,"$flag"]}}},{"$lookup":{"from":"x","pipeline":[{"$match":{"zv3":%s}}],"as":"j"}},{"$project":{"zv4":[%s,"$a"]}}],"$db":"d"}' % (wq, wq, wq, wq)
               if i % 2 else '{"find":"c","filter":{"zv1":%s,"a":{"$eq":%s},"b":{"$in":[%s,"other"]}},"$db":"d"}' % (wq, wq, wq))
        l = '{"t":{"$date":"2020-01-01T00:00:00.000+00:00"},"s":"I","c":"COMMAND","id":51803,"ctx":"conn1","msg":"Slow query","attr":{"ns":"d.c","command":%s,"remote":"10.0.0.1:5"}}' % cmd
        mine = [f for f in frags if f in cmd]
        out.append((l.encode(), {'kind': 'keyword_value', 'sensitive': [(f, 'string', 'literal equal to the table key ' + w) for f in mine], 'sens_numbers': [], 'ip': '10.0.0.1:5', 'stats': {}, 'names': [], 'verbs': ['keyword']}))
    return out

def deep_lines():
    """systematic: sub-documents / arrays / operators nested 50 .. 300 levels deep inside the query-bearing places, with planted literals at the bottom"""
    out = []
    n = 0
    for d in (50, 98, 99, 100, 101, 102, 130, 300):
        for shape in ('doc', 'and', 'arr', 'elem', 'mixed'):
            n += 1
            core, num = 'Dq%dqD' % n, str(8100000 + n)
            bottom = '{"leaf":"%s","n":%s,"flag":true}' % (core, num)
            if shape == 'doc': body = '{"a":' * d + bottom + '}' * d
            elif shape == 'and': body = '{"$and":[' * d + bottom + ']}' * d
            elif shape == 'arr': body = '{"a":' + '[' * d + bottom + ']' * d + '}'
            elif shape == 'elem': body = '{"a":{"$elemMatch":' * d + bottom + '}}' * d
            else: body = '{"a":[{"b":' * (d // 2) + bottom + '}]}' * (d // 2)
            cmds = ['{"find":"c","filter":%s,"$db":"d"}' % body,
                    '{"delete":"c","deletes":[{"q":%s,"limit":0}],"$db":"d"}' % body,
                    '{"aggregate":"c","pipeline":[{"$match":%s}],"$db":"d"}' % body,
                    '{"insert":"c","documents":[%s],"$db":"d"}' % body,
                    '{"update":"c","updates":[{"q":{"k":1},"u":{"$set":%s}}],"$db":"d"}' % body]
            for ci, cmd in enumerate(cmds):
                if (n + ci) % 2 and d > 102: continue
                key = 'originatingCommand' if ci == 1 and d % 2 == 0 else 'command'
                extra = ',"command":{"getMore":7,"collection":"c","$db":"d"}' if key == 'originatingCommand' else ''
                l = '{"t":{"$date":"2020-01-01T00:00:00.000+00:00"},"s":"I","c":"COMMAND","id":51803,"ctx":"conn1","msg":"Slow query","attr":{"ns":"d.c","%s":%s%s,"remote":"10.0.0.1:5"}}' % (key, cmd, extra)
                out.append((l.encode(), {'kind': 'deep', 'sensitive': [(core, 'string', '%s nesting, depth %d' % (shape, d))], 'sens_numbers': [(num, 'depth %d' % d)], 'ip': '10.0.0.1:5',
                                         'stats': {'deep_%d' % d: 1}, 'names': ['a', 'leaf'], 'verbs': ['deep']}))
    return out

def crossclass_lines():
    """systematic: the SAME literal text at several sensitive positions of DIFFERENT classes (plain string, $date, $oid, $binary.base64,
    $uuid, array element) and under DIFFERENT field names, inside one line (every class first once) and spread over consecutive lines;
    the literals include texts shaped like each class and like each placeholder. What a leaf becomes must depend on its position, never on
    where the same text was seen before."""
    lits = ['2024-05-01T10:15:00.000Z', '0123456789abcdef01234567', 'QUJDREVGRw==', 'a657a630-1111-4000-8000-d01de73c37e7', 'zoe@corp.example',
            'Xq77plainqX', '', '42', 'REDACTED', '1970-01-01T00:00:00.000Z', '000000000000000000000000', 'redacted@redacted.com']
    names = ['ssn', 'uf_a', 'addr1', 'name', 'tags', 'zzz', 'other', 'plain', 'email', 'age']
    ctxs = [('plain', '%(k)s:%(x)s'), ('date', '%(k)s:{"$date":%(x)s}'), ('oid', '%(k)s:{"$oid":%(x)s}'),
            ('b64', '%(k)s:{"$binary":{"base64":%(x)s,"subType":"00"}}'), ('arr', '%(k)s:{"$in":[%(x)s,{"$date":%(x)s}]}'), ('uuid', '%(k)s:{"$uuid":%(x)s}')]
    places = ['{"find":"c","filter":{%s},"$db":"d"}', '{"update":"c","updates":[{"q":{"k":1},"u":{"$set":{%s}}}],"$db":"d"}',
              '{"aggregate":"c","pipeline":[{"$match":{%s}}],"$db":"d"}', '{"insert":"c","documents":[{%s}],"$db":"d"}',
              '{"delete":"c","deletes":[{"q":{%s},"limit":0}],"$db":"d"}']
    out = []
    uniq = set(lits[:6])
    def line(cmd, used, what, x):
        l = '{"t":{"$date":"2020-01-01T00:00:00.000+00:00"},"s":"I","c":"COMMAND","id":51803,"ctx":"conn1","msg":"Slow query","attr":{"ns":"d.c","command":%s,"remote":"10.0.0.1:5"}}' % cmd
        out.append((l.encode(), {'kind': 'crossclass', 'sensitive': ([(x, 'string', 'literal repeated across classes')] if x in uniq else []), 'sens_numbers': [], 'ip': '10.0.0.1:5', 'stats': {'crossclass_' + what: 1}, 'names': used, 'verbs': ['crossclass']}))
    n = 0
    for li, x in enumerate(lits):
        xq = json.dumps(x)
        for r in range(len(ctxs)):                       # one line, every class, each class first once
            rot = ctxs[r:] + ctxs[:r]
            used = [names[(li + r + j) % len(names)] for j in range(len(rot))]
            body = ','.join(t % {'k': json.dumps(used[j]), 'x': xq} for j, (_, t) in enumerate(rot))
            line(places[(li + r) % len(places)] % body, used, 'oneline', x)
        for r in range(len(ctxs)):                       # consecutive lines, one class each
            nm = names[(li * 3 + r) % len(names)]
            line(places[(li + 2 * r) % len(places)] % (ctxs[(r + li) % len(ctxs)][1] % {'k': json.dumps(nm), 'x': xq}), [nm], 'sequence', x)
    return out

def family_logs():
    """systematic: families of NEAR-DUPLICATE lines - a base line and variants that differ from it in exactly one member (plan summary, one literal,
    one field name, the namespace, the verb, one diagnostic attribute) while every other member, including planCacheKey / queryHash / ctx / id, is the
    same - arranged as logs in both orders and with repetitions. Whatever a line yields must not depend on which of its relatives came before it.
    Returns a list of logs (lists of lines)."""
    def entry(ns='mydb.users', plan='IXSCAN { name: 1 }', flt=None, key='A1B2C3D4', qh='9F8E7D6C', verb='find', ctx='conn7', extra=None, comp='COMMAND'):
        db, coll = ns.split('.', 1)
        cmd = {verb: coll, 'filter': flt if flt is not None else {'name': 'Fam1 Alice', 'age': {'$gt': 41}}, '$db': db}
        if verb == 'aggregate': cmd = {'aggregate': coll, 'pipeline': [{'$match': flt if flt is not None else {'name': 'Fam1 Alice', 'age': {'$gt': 41}}}], '$db': db}
        attr = {'type': 'command', 'ns': ns, 'command': cmd, 'planSummary': plan, 'planCacheKey': key, 'queryHash': qh, 'queryShapeHash': qh * 4, 'keysExamined': 7, 'remote': '10.1.2.3:4455', 'durationMillis': 12}
        if extra: attr.update(extra)
        return json.dumps({'t': {'$date': '2020-01-01T00:00:00.000+00:00'}, 's': 'I', 'c': comp, 'id': 51803, 'ctx': ctx, 'msg': 'Slow query', 'attr': attr}, separators=(',', ':')).encode()
    base = entry()
    variants = [
        entry(plan='IXSCAN { age: 1 }'), entry(plan='IXSCAN { name: 1, age: -1 }'), entry(plan='COLLSCAN'),
        entry(flt={'name': 'Fam2 Bob', 'age': {'$gt': 41}}), entry(flt={'name': 'Fam1 Alice', 'age': {'$gt': 99}}), entry(flt={'nick': 'Fam1 Alice', 'age': {'$gt': 41}}),
        entry(flt={'name': {'$oid': '0123456789abcdef01234567'}, 'age': {'$gt': 41}}), entry(flt={'name': 'Fam1 Alice', 'age': {'$gt': True}}),
        entry(ns='mydb.orders'), entry(ns='otherdb.users'), entry(ns='mydb_archive.users'), entry(ns='shop.users'),
        entry(key='FFFFFFFF'), entry(qh='00000000'), entry(verb='count'), entry(verb='aggregate'), entry(ctx='conn8'),
        entry(comp='NETWORK'), entry(comp='QUERY'), entry(extra={'originatingCommand': {'find': 'users', 'filter': {'name': 'Fam3 Carol'}, '$db': 'mydb'}}),
        entry(extra={'remote': '[::1]:27017'}), entry(extra={'errMsg': 'E11000 duplicate key', 'ok': 0}),
    ]
    logs = []
    for v in variants:
        logs += [[base, v], [v, base], [base, v, base], [v, v, base, v]]
    logs.append([base] + variants)
    logs.append(list(reversed(variants)) + [base])
    return logs

def dotted_vs_nested_lines():
    """systematic: the same two names once as ONE dotted key ({"owner.ssn": x}) and once as nested documents ({owner: {ssn: x}}), in consecutive lines and
    in both orders: the key paths differ (one name "owner.ssn" against the two names "owner", "ssn") although they read the same when joined with dots"""
    out = []
    def line(flt, names):
        l = '{"t":{"$date":"2020-01-01T00:00:00.000+00:00"},"s":"I","c":"COMMAND","id":51803,"ctx":"conn1","msg":"Slow query","attr":{"ns":"d.c","command":{"find":"c","filter":%s,"$db":"d"},"remote":"10.0.0.1:5"}}' % flt
        out.append((l.encode(), {'kind': 'dotted_vs_nested', 'sensitive': [], 'sens_numbers': [], 'ip': '10.0.0.1:5', 'stats': {'dotted_vs_nested': 1}, 'names': names, 'verbs': ['dotted']}))
    n = 0
    for a, b in (('owner', 'ssn'), ('contact', 'email'), ('u', 'name'), ('addr1', 'zip'), ('x', 'uf_a'), ('k', 'tags')):
        n += 1
        dotted = '{"%s.%s":"Dn%dqa","pad":{"$in":["Dn%dqb"]}}' % (a, b, n, n)
        nested = '{"%s":{"%s":"Dn%dqc","q":{"$in":["Dn%dqd"]}}}' % (a, b, n, n)
        for first, second in ((dotted, nested), (nested, dotted)) if n % 2 else ((nested, dotted), (dotted, nested)):
            line(first, [a, b, a + '.' + b]); line(second, [a, b, a + '.' + b])
    return out

def long_value_lines():
    """systematic: long literals around every power-of-two size a scratch buffer is likely to have (255 .. 65 KiB short of the line limit), each
    once alone and once as a PAIR of literals that agree on all but their last character - in the places a string is redacted"""
    out = []
    sizes = [255, 256, 257, 511, 512, 513, 1023, 1024, 1025, 2048, 4095, 4096, 4097, 8193, 16385, 40000]
    for i, n in enumerate(sizes):
        stem = ('Lq%dq' % n) + ''.join(chr(0x61 + (j * 7 + i) % 26) for j in range(n - 8))
        a, b = stem + 'A', stem + 'B'
        cmds = ['{"find":"c","filter":{"f":%s,"g":{"$in":[%s]}},"$db":"d"}' % (json.dumps(a), json.dumps(b)),
                '{"update":"c","updates":[{"q":{"k":%s},"u":{"$set":{"v":%s}}}],"$db":"d"}' % (json.dumps(a), json.dumps(b)),
                '{"aggregate":"c","pipeline":[{"$match":{"f":%s}},{"$match":{"f":%s}}],"$db":"d"}' % (json.dumps(b), json.dumps(a))]
        cmd = cmds[i % 3]
        l = '{"t":{"$date":"2020-01-01T00:00:00.000+00:00"},"s":"I","c":"COMMAND","id":51803,"ctx":"conn1","msg":"Slow query","attr":{"ns":"d.c","command":%s,"remote":"10.0.0.1:5"}}' % cmd
        out.append((l.encode(), {'kind': 'longvalue', 'sensitive': [(a, 'string', 'long literal %d' % n), (b, 'string', 'long literal %d' % n)], 'sens_numbers': [], 'ip': '10.0.0.1:5',
                                 'stats': {'longvalue_%d' % n: 1}, 'names': ['f', 'g', 'k', 'v'], 'verbs': ['longvalue']}))
    return out

def degenerate_lines(dump):
    """degenerate shapes where the grammar expects a list of clauses, a pipeline or a stage: for every table entry typed as an operator array or a
    pipeline (read from the dump), each of: an empty document, an empty list, a LONE document in place of the list, a list holding an empty document
    (first / last), lists in lists, null, a scalar - directly in $match, below a field, in stage position, inside a search stage and its compound
    clause, in find filters; and the same values as a whole pipeline, as a $facet arm and as the sub-pipeline of $lookup / $unionWith"""
    ot = dump.get('otypes', {})
    want = {ot.get('OperatorArray', 4), ot.get('Pipeline', 0)}
    ops = []
    def walk(m):
        for k, v in m['m']:
            if (isinstance(v, int) and v in want) or (isinstance(v, dict) and v.get('t') in want):
                if k not in ops: ops.append(k)
            if isinstance(v, dict) and 'm' in v: walk(v)
    for name in ['Agg', 'Core', 'MapDefs', 'Search', 'SearchAgg']:
        walk(dump['tables'][name])
    for k in ('$and', '$or', '$nor', 'must', 'mustNot', 'should', 'filter', 'pipeline', '$facet'):
        if k not in ops: ops.append(k)
    vals = ['{}', '[]', '{"dg_a":"dgs1","dg_b":{"dg_c":"dgs2"}}', '[{}]', '[{},{"$match":{"dg_a":"dgs3"}}]', '[{"$match":{"dg_a":"dgs4"}},{}]', '[[]]', '[[{"dg_a":"dgs5"}]]',
            'null', '"dgs6"', '5', '[null]', '["dgs7",{"dg_a":"dgs8"}]', '{"text":{"query":"dgs9","path":"title"}}']
    out = []
    def line(cmd):
        out.append(('{"t":{"$date":"2024-01-01T00:00:00.000+00:00"},"s":"I","c":"COMMAND","id":51803,"ctx":"conn1","msg":"Slow query","attr":{"ns":"d.c","command":%s}}' % cmd).encode())
    for k in ops:
        kq = json.dumps(k)
        for v in vals:
            kv = '%s:%s' % (kq, v)
            line('{"aggregate":"c","pipeline":[{"$match":{%s}},{"$match":{"dg_f":{%s}}},{"$limit":3}],"$db":"d"}' % (kv, kv))
            line('{"aggregate":"c","pipeline":[{%s},{"$sort":{"dg_a":1}}],"$db":"d"}' % kv)
            line('{"aggregate":"c","pipeline":[{"$search":{"index":"i1","compound":{%s}}},{"$search":{"index":"i2",%s}}],"$db":"d"}' % (kv, kv))
            line('{"find":"c","filter":{%s,"dg_g":{%s}},"$db":"d"}' % (kv, kv))
    for v in vals:
        line('{"aggregate":"c","pipeline":%s,"$db":"d"}' % v)
        line('{"aggregate":"c","pipeline":[{"$facet":{"arm1":%s,"arm2":[{"$match":{"dg_a":"dgs0"}}]}}],"$db":"d"}' % v)
        line('{"aggregate":"c","pipeline":[{"$lookup":{"from":"o","pipeline":%s,"as":"x"}},{"$unionWith":{"coll":"o","pipeline":%s}}],"$db":"d"}' % (v, v))
        line('{"update":"c","updates":%s,"$db":"d"}' % v)
        line('{"update":"c","updates":[{"q":%s,"u":%s}],"$db":"d"}' % (v, v))
        line('{"insert":"c","documents":%s,"$db":"d"}' % v)
    return out

def vocab_from_dump(dump):
    allk, argnames = [], []
    def walk(m, top):
        for k, v in m['m']:
            allk.append(k)
            if not top: argnames.append(k)
            if isinstance(v, dict) and 'm' in v:
                walk(v, False)
    for name in ['Agg', 'Core', 'MapDefs', 'Search', 'SearchAgg']:
        walk(dump['tables'][name], True)
    seen = set(); a2 = []
    for k in allk:
        if k not in seen:
            seen.add(k); a2.append(k)
    bare = [k for name in ('Core', 'Agg') for k, _ in dump['tables'][name]['m'] if not k.startswith('$')]
    return {'all': a2, 'argnames': sorted(set(argnames)), 'bare_top': bare, 'search_ops': [k for k, _ in dump['tables']['Search']['m']], 'search_stages': [k for k, _ in dump['tables']['SearchAgg']['m']]}


# ---------- plan summaries with awkward index-key names ----------
PLAN_NAMES = ['a,b', 'x,', ',y', 'a', 'IX', 'N', 'SCAN', 'c++', 'tags[', '(draft', 'rate**', 'x\\y', 'a.b', '$x', 'é', '', ' ', 'a b', 'ab', 'b', 'abc', 'f0', 'REDACTED', '_id', 'x{y', 'q?', '^a$', 'a|b', '[z]', 'name', 'age', 'uf_a']

def plan_line(rng, ns='mydb.users'):
    k = rng.randint(1, 3)
    clauses = []
    for _ in range(rng.randint(1, 2)):
        names = [rng.choice(PLAN_NAMES) for _ in range(k)]
        clauses.append('IXSCAN { ' + ', '.join('%s: %s' % (n, rng.choice(['1', '-1'])) for n in names) + ' }')
    ps = rng.choice([', '.join(clauses), 'COLLSCAN', 'IDHACK', 'IXSCAN {}', 'IXSCAN { a: 1, }', 'IXSCAN { a }', 'IXSCAN { , }', 'IXSCAN { a: 1,, b: 1 }', 'IXSCAN { : 1 }', 'IXSCAN { a:1,b }', 'IXSCAN{' + rng.choice(PLAN_NAMES) + ':1}', 'SORT_MERGE IXSCAN { a: 1 } IXSCAN { b.c: 1 }'])
    flt = {rng.choice(PLAN_NAMES) or 'z': 'v%d' % rng.randint(0, 9) for _ in range(2)}
    entry = {'t': {'$date': '2020-01-01T00:00:00.000+00:00'}, 's': 'I', 'c': 'COMMAND', 'id': RawNum('51803'), 'ctx': 'conn1', 'msg': 'Slow query',
             'attr': {'type': 'command', 'ns': ns, 'command': {'find': ns.split('.', 1)[-1], 'filter': flt, '$db': ns.split('.')[0]}, 'planSummary': ps, 'durationMillis': RawNum('5')}}
    return dumps(entry).encode('utf-8')
