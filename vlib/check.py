"""Check protocol shared by all properties: preparation, proof obligations, verdict, evidence."""
import hashlib, json, os, re, subprocess, sys, time

VERIF = os.path.dirname(os.path.dirname(os.path.abspath(__file__)))
BUILD = os.environ.get('VERIF_BUILD') or os.path.join(VERIF, 'build')

TRUSTED_BASE = [
    "Coq 8.16.1 kernel (coqc; vm_compute used, native_compute not used); coqchk in the thorough tier",
    "no Axiom/Parameter/Admitted in the development; Print Assumptions under every property theorem must say 'Closed under the global context'",
    "translator: harness op `dump` (executes the table initialisers of the compiled program; probes it for the reader's line limit, the gzip endings, the e-mail / IP placeholders and - one probe line per string literal of the sources, tools/ns_candidates.py - redactNamespace's member list) + tools/gen_tables.py -> Gen/Tables.v, Gen/Consts.v, Gen/Limits.v, Gen/Probed.v",
    "extraction: ExtrOcamlBasic + ExtrOcamlNativeString (pulls in ExtrOcamlChar) only; nat/N/positive stay Coq datatypes; OCaml 4.13.1; driver/driver.ml is I/O glue",
    "correspondence machinery: harness/zz_verif_harness.go (overlay, tag verif), vlib/*.py generators, comparators and independent oracles",
    "Model/*.v is a hand transcription of the Go code; its warrant is the correspondence check run on every check invocation",
]

class Check:
    def __init__(self, pid, tier, seed):
        self.pid, self.tier, self.seed = pid, tier, seed
        self.t0 = time.time()
        self.evaluations = 0
        self.nontrivial = set()
        self.samples = []
        self.traces = 0
        self.disagreements = []      # correspondence breaks (model vs implementation, projected)
        self.violations = []         # oracle failures on the implementation: dicts with 'what', 'input', ...
        self.broken_obligations = []
        self.obligations = 0
        self.discharged = 0
        self.notes = []
        self.distribution = {}
        self.drift = 0               # full-line model drift (diagnostic only)
        self.rule = ''
        self.assumptions = []
        self.exhaustive = None
        self.streams = []

    # ----- preparation -----
    def prepare(self):
        p = subprocess.run([os.path.join(VERIF, 'bin', 'prepare')], capture_output=True, text=True)
        if p.returncode != 0:
            self.notes.append('prepare failed: ' + p.stderr[-1500:])
            self.broken_obligations.append({'obligation': 'prepare', 'detail': p.stderr[-1500:]})
            return False
        return True

    # ----- proof obligations -----
    def check_obligations(self, extra_files=()):
        """Theorems of Properties/<id>.v (each followed by Print Assumptions) must be built from the
        regenerated Gen files and be closed under the global context."""
        vfile = os.path.join(VERIF, 'coq', 'Properties', self.pid + '.v')
        src = open(vfile).read() if os.path.exists(vfile) else ''
        theorems = re.findall(r'^\s*Theorem\s+(\w+)', src, re.M)
        self.obligations = len(theorems)
        self.theorems = theorems
        afile = os.path.join(BUILD, 'assumptions', self.pid + '.txt')
        out = open(afile).read() if os.path.exists(afile) else 'NOT-BUILT'
        if 'NOT-BUILT' in out or 'COQC-FAILED' in out or re.search(r'^Error', out, re.M):
            log = ''
            try:
                log = open(os.path.join(BUILD, 'coq_build.log')).read()
            except OSError:
                pass
            errs = re.findall(r'File "\./([^"]+)", line (\d+)[^\n]*\n(Error:[^\n]*(?:\n[^\n]+){0,6})', log)
            self.broken_obligations.append({'obligation': 'Properties/%s.vo not built' % self.pid,
                                            'coq_errors': [{'file': f, 'line': int(l), 'error': e[:600]} for f, l, e in errs][:5]})
            self.discharged = 0
            return False
        closed = len(re.findall(r'Closed under the global context', out))
        axioms = re.findall(r'^Axioms:\s*\n((?:.+\n)+)', out, re.M)
        self.discharged = closed
        if axioms:
            self.broken_obligations.append({'obligation': 'Print Assumptions not closed', 'axioms': axioms[:3]})
            return False
        if closed < self.obligations:
            self.broken_obligations.append({'obligation': 'fewer closed Print Assumptions (%d) than theorems (%d)' % (closed, self.obligations)})
            return False
        if self.tier == 'thorough' and not self.coqchk():
            return False
        # source hygiene: no admits anywhere
        bad = subprocess.run("grep -rnE '\\b(Admitted|admit|Axiom|Parameter|Conjecture|Unset Guard|bypass_check|type-in-type)\\b' --include=*.v %s/coq | grep -v '^[^:]*:[0-9]*: *(\\*' | head -5" % VERIF,
                             shell=True, capture_output=True, text=True).stdout.strip()
        if bad:
            self.broken_obligations.append({'obligation': 'forbidden vernacular found', 'where': bad})
            return False
        return True

    def coqchk(self):
        """Thorough tier: re-check the compiled property file and everything it depends on with the
        independent checker; cached per build key (the .vo files do not change until the key does)."""
        try:
            key = open(os.path.join(BUILD, '.stamp')).read().strip()
        except OSError:
            key = 'nokey'
        d = os.path.join(BUILD, 'coqchk'); os.makedirs(d, exist_ok=True)
        f = os.path.join(d, '%s.%s.txt' % (self.pid, key[:16]))
        if not os.path.exists(f):
            cmd = ['coqchk', '-silent', '-o', '-Q', 'Gen', 'Gen', '-Q', 'Model', 'Model', '-Q', 'Spec', 'Spec', '-Q', 'Proofs', 'Proofs',
                   '-Q', 'Properties', 'Properties', 'Properties.' + self.pid]
            try:
                p = subprocess.run(cmd, cwd=os.path.join(VERIF, 'coq'), capture_output=True, text=True, timeout=3400)
                out = p.stdout + p.stderr + '\nEXIT %d\n' % p.returncode
            except subprocess.TimeoutExpired:
                out = 'TIMEOUT\nEXIT 124\n'
            open(f, 'w').write(out)
        out = open(f).read()
        ok = ('EXIT 0' in out and re.search(r'\* Axioms: <none>', out) and re.search(r'type-in-type: <none>', out)
              and re.search(r'unsafe \(co\)fixpoints: <none>', out) and re.search(r'positivity is assumed: <none>', out))
        self.coqchk_summary = ' | '.join(l.strip() for l in out.splitlines() if l.strip().startswith('*'))[:600]
        if not ok:
            self.broken_obligations.append({'obligation': 'coqchk Properties.%s' % self.pid, 'output': out[-1500:]})
            return False
        return True

    # ----- bookkeeping -----
    def count(self, n=1): self.evaluations += n
    def nontriv(self, key): self.nontrivial.add(key)
    def sample(self, s, limit=6):
        if len(self.samples) < limit: self.samples.append(s)
    def dist(self, k, n=1): self.distribution[k] = self.distribution.get(k, 0) + n

    def disagree(self, stream, case, impl, model):
        self.disagreements.append({'stream': stream, 'case': case, 'impl': impl, 'model': model})

    def violate(self, what, case, **kw):
        d = {'what': what, 'case': case}
        d.update(kw)
        self.violations.append(d)

    # ----- verdict -----
    def finish(self, known=None):
        known = known or []
        wall = time.time() - self.t0
        os.makedirs(os.path.join(VERIF, 'evidence'), exist_ok=True)
        os.makedirs(os.path.join(VERIF, 'replays'), exist_ok=True)
        findings = load_known(self.pid)
        kf_hits, real = {}, []
        for v in self.violations:
            m = match_known(findings, v)
            if m: kf_hits.setdefault(m['id'], (m, v))
            else: real.append(v)
        lines = []
        rc = 0
        for fid, (m, v) in kf_hits.items():
            lines.append('KNOWN-FINDING: property=%s %s (%s)' % (self.pid, m['what'], fid))
        def write_replay(kind, payload):
            h = hashlib.sha256(json.dumps(payload, sort_keys=True, default=str).encode()).hexdigest()[:12]
            path = os.path.join(VERIF, 'replays', '%s-%s.json' % (self.pid, h))
            payload = dict(payload, property=self.pid, kind=kind, seed=self.seed, tier=self.tier)
            json.dump(payload, open(path, 'w'), indent=1, default=str)
            return path
        if real:
            rc = 1
            path = write_replay('oracle', {'violations': real[:5], 'count': len(real)})
            lines.append('VIOLATION property=%s replay=%s' % (self.pid, path))
        elif self.broken_obligations or self.disagreements:
            rc = 1
            path = write_replay('obligation' if self.broken_obligations else 'correspondence',
                                {'broken_obligations': self.broken_obligations, 'disagreements': self.disagreements[:5],
                                 'n_disagreements': len(self.disagreements),
                                 'theorem_or_stream': [b.get('obligation') for b in self.broken_obligations] + sorted({d['stream'] for d in self.disagreements})})
            lines.append('VIOLATION property=%s replay=%s no-failing-input-found' % (self.pid, path))
        ev = {
            'property_id': self.pid, 'tier': self.tier, 'seed': self.seed, 'level': 'proof',
            'coverage': {
                'obligations': self.obligations, 'discharged': self.discharged,
                'checker_cmd': 'cd /verif/coq && make -k -j16 && coqc Properties/%s.v (Print Assumptions)%s' % (self.pid, '; coqchk -silent -o' if self.tier == 'thorough' else ''),
                'trusted_base': TRUSTED_BASE,
                'theorems': getattr(self, 'theorems', []),
                'evaluations': self.evaluations, 'distinct_nontrivial': len(self.nontrivial), 'rule': self.rule,
                'samples': self.samples, 'traces_validated_against_impl': self.traces,
                'disagreements_checked': len(self.disagreements), 'model_drift_lines': self.drift,
                'input_distribution': self.distribution, 'streams': self.streams,
                'known_findings_hit': sorted(kf_hits.keys()), 'notes': self.notes,
            },
            'assumptions': self.assumptions, 'wall_s': round(wall, 2), 'violations': len(real) + (1 if rc and not real else 0),
        }
        if self.exhaustive is not None: ev['coverage']['exhaustive'] = self.exhaustive
        if getattr(self, 'coqchk_summary', None): ev['coverage']['coqchk'] = self.coqchk_summary
        json.dump(ev, open(os.path.join(VERIF, 'evidence', self.pid + '.json'), 'w'), indent=1, default=str)
        for l in lines: print(l)
        print('check %s tier=%s seed=%d: obligations %d/%d, evaluations %d, nontrivial %d, disagreements %d, oracle failures %d (known %d), %.1fs -> %s'
              % (self.pid, self.tier, self.seed, self.discharged, self.obligations, self.evaluations, len(self.nontrivial),
                 len(self.disagreements), len(self.violations), len(self.violations) - len(real), wall, 'FAIL' if rc else 'ok'))
        sys.exit(rc)

def load_known(pid):
    p = os.path.join(VERIF, 'known_findings.json')
    if not os.path.exists(p): return []
    return [f for f in json.load(open(p)) if f.get('property') == pid and f.get('status') == 'open']

def match_known(findings, v):
    """A violation matches an open finding when its declared `tags` include every tag the finding requires."""
    tags = set(v.get('tags', []))
    for f in findings:
        need = set(f.get('match', {}).get('tags_all', ['<<none>>']))
        if need and need <= tags:
            return f
    return None
