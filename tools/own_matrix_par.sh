#!/bin/bash
# Every seeded change against the quick check of its own property, N workers in parallel, each in its own scratch copy of /verif
# (own coq tree and build directory) and its own scratch clone of the repository. Never touches /repo or /verif/build.
# Usage: tools/own_matrix_par.sh <workers> <seed> [ids...]   -> /tmp/ownpar/result.<seed>.tsv
V=$(cd "$(dirname "$0")/.." && pwd)
N=$1; SEED=$2; shift 2
MUTS=${@:-$(ls $V/seeded | grep -E '^C[0-9]+-[0-9]+$')}
mkdir -p /tmp/ownpar; : > /tmp/ownpar/result.$SEED.tsv
i=0
for w in $(seq 1 $N); do : > /tmp/ownpar/list.$w; done
for m in $MUTS; do w=$(( i % N + 1 )); echo $m >> /tmp/ownpar/list.$w; i=$((i+1)); done
for w in $(seq 1 $N); do
  (
    W=/tmp/ownpar/v$w; R=/tmp/ownpar/r$w
    rsync -a --delete --exclude .git --exclude replays --exclude build $V/ $W/
    [ -d $W/build ] || cp -r $V/build $W/build
    rm -rf $R; git clone -q /repo $R
    export VERIF_REPO=$R VERIF_BUILD=$W/build VERIF_SEED=$SEED
    cd $W
    for m in $(cat /tmp/ownpar/list.$w); do
      c=${m%-*}
      git -C $R checkout -q -- .
      git -C $R apply $V/seeded/$m/patch.diff || { echo -e "$m\t$c\tapply-failed\t-" >> /tmp/ownpar/result.$SEED.tsv; continue; }
      out=$(timeout 2400 ./bin/check $c --tier quick 2>&1); rc=$?
      v=$(echo "$out" | grep -m1 '^VIOLATION' || echo -)
      echo -e "$m\t$c\t$rc\t$v" >> /tmp/ownpar/result.$SEED.tsv
    done
    git -C $R checkout -q -- .
  ) > /tmp/ownpar/worker.$w.log 2>&1 &
done
wait
sort /tmp/ownpar/result.$SEED.tsv -o /tmp/ownpar/result.$SEED.tsv
echo "done: $(grep -c VIOLATION /tmp/ownpar/result.$SEED.tsv) of $(wc -l < /tmp/ownpar/result.$SEED.tsv) detected (seed $SEED)"
