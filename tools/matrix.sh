#!/bin/bash
# Detection matrix: run every check (quick tier) against every seeded change, in a scratch copy of the
# repository (never in /repo). Usage: tools/matrix.sh <scratch-repo-dir> [ids...]   (run from a /verif snapshot)
# Output: matrix.tsv lines "<mutation> <check> <exit-code> <VIOLATION line or ->"
V=$(cd "$(dirname "$0")/.." && pwd)
R=$1; shift
export VERIF_REPO=$R VERIF_BUILD=$V/build
CHECKS=${CHECKS:-"C01 C02 C03 C04 C05 C06 C07 C08 C09 C10 C11 C12 C13 C14 C15 C16 C17 C18 C19 C20"}
MUTS=${@:-$(ls $V/seeded)}
cd $V
: > matrix.tsv
for m in base $MUTS; do
  git -C $R checkout -q -- . 
  [ "$m" != base ] && git -C $R apply $V/seeded/$m/patch.diff
  for c in $CHECKS; do
    out=$(timeout 1500 ./bin/check $c --tier quick 2>&1); rc=$?
    v=$(echo "$out" | grep -m1 '^VIOLATION' || echo -)
    echo -e "$m\t$c\t$rc\t$v" | tee -a matrix.tsv
  done
done
git -C $R checkout -q -- .
