#!/bin/bash
# Behaviour-preserving changes (harmless/harmless-k.diff) against ALL twenty quick checks: no check may raise an alarm.
# One worker per patch, each in its own scratch copy of /verif and its own clone of the repository.
# Usage: tools/harmless_matrix.sh [seed]   -> /tmp/harmlesspar/result.tsv
V=$(cd "$(dirname "$0")/.." && pwd)
SEED=${1:-20260930}
mkdir -p /tmp/harmlesspar; : > /tmp/harmlesspar/result.tsv
for p in $V/harmless/${HARMLESS_GLOB:-harmless-*}.diff; do
  k=$(basename $p .diff)
  (
    W=/tmp/harmlesspar/v_$k; R=/tmp/harmlesspar/r_$k
    rsync -a --delete --exclude .git --exclude replays --exclude build $V/ $W/
    [ -d $W/build ] || cp -r $V/build $W/build
    rm -rf $R; git clone -q /repo $R
    git -C $R apply $p || { echo -e "$k\t-\tapply-failed" >> /tmp/harmlesspar/result.tsv; exit; }
    export VERIF_REPO=$R VERIF_BUILD=$W/build VERIF_SEED=$SEED
    cd $W
    for i in ${HARMLESS_CHECKS:-01 02 03 04 05 06 07 08 09 10 11 12 13 14 15 16 17 18 19 20}; do
      out=$(timeout 2400 ./bin/check C$i --tier quick 2>&1); rc=$?
      v=$(echo "$out" | grep -m1 '^VIOLATION' || echo -)
      echo -e "$k\tC$i\t$rc\t$v" >> /tmp/harmlesspar/result.tsv
    done
  ) > /tmp/harmlesspar/worker.$k.log 2>&1 &
  # at most ${HARMLESS_JOBS:-7} patches at a time (each worker builds its own copy of the Coq development)
  while [ $(jobs -rp | wc -l) -ge ${HARMLESS_JOBS:-7} ]; do sleep 5; done
done
wait
sort /tmp/harmlesspar/result.tsv -o /tmp/harmlesspar/result.tsv
echo "done: $(grep -c VIOLATION /tmp/harmlesspar/result.tsv) alarms in $(wc -l < /tmp/harmlesspar/result.tsv) runs"
