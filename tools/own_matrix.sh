#!/bin/bash
# Every seeded change against the quick check of its own property, in a scratch clone of the repository
# (never in /repo). Usage: tools/own_matrix.sh <scratch-repo-dir> [ids...]   -> own_matrix.tsv
V=$(cd "$(dirname "$0")/.." && pwd)
R=$1; shift
export VERIF_REPO=$R VERIF_BUILD=$V/build
MUTS=${@:-$(ls $V/seeded | grep -E '^C[0-9]+-[0-9]+$')}
cd $V
: > own_matrix.tsv
for m in $MUTS; do
  c=${m%-*}
  git -C $R checkout -q -- .
  git -C $R apply $V/seeded/$m/patch.diff || { echo -e "$m\t$c\tapply-failed\t-" | tee -a own_matrix.tsv; continue; }
  out=$(timeout 1800 ./bin/check $c --tier quick 2>&1); rc=$?
  v=$(echo "$out" | grep -m1 '^VIOLATION' || echo -)
  echo -e "$m\t$c\t$rc\t$v" | tee -a own_matrix.tsv
done
git -C $R checkout -q -- .
