#!/usr/bin/env python3
"""Writes MANIFEST.json from the table below (kept in one place so it stays valid)."""
import json, os
V = os.path.dirname(os.path.dirname(os.path.abspath(__file__)))
props = [json.loads(l)['id'] for l in open(os.path.join(V, 'properties.jsonl'))]

CLAIMED = {
 'C13': dict(
   text="Theorems in Coq over the executable model of HashName (SHA-256 defined in Gallina): '$'-invariance, component-wise mapping of dotted paths, the <replacement>_<16 hex> format for every input, reduction of pseudonym collisions to collisions of the 8-byte digest prefix, and injectivity on the finite dictionary by kernel computation (length<=2 in the quick build, length<=3 sharded in the thorough tier). The model is tied to the code by running hash_name / SHA-256 of the extracted model against HashName / crypto/sha256 on generated names, and the oracle (format, '$', component-wise, two processes, shuffled order, dictionary injectivity, CLI -w) runs on the implementation.",
   note="Global collision-freeness of a 64-bit truncation is false by counting; proved on the finite dictionary (bound in the statement) and otherwise reduced to digest-prefix collisions. Sha256.v is hand-written and validated against crypto/sha256 on every run. Trusted: Coq kernel (vm_compute), extraction (ExtrOcamlBasic, ExtrOcamlNativeString), harness and comparators.",
   technique="Coq proof (induction + kernel computation on a finite dictionary) + extracted-model correspondence", ref="6/C13"),
}

def main():
    checks = []
    for pid in props:
        if pid not in CLAIMED: continue
        c = CLAIMED[pid]
        checks.append({
            "property_id": pid,
            "quick_cmd": "./bin/check %s --tier quick" % pid,
            "thorough_cmd": "./bin/check %s --tier thorough" % pid,
            "evidence_file": "/verif/evidence/%s.json" % pid,
            "replay_cmd_template": "./bin/check %s --replay {path}" % pid,
            "engine": "coq-model+correspondence",
            "level_claimed": {"category": "proof", "text": c['text'], "design_ref": "DESIGN.md section " + c['ref']},
            "level_note": c['note'],
            "technique": c['technique'],
        })
    m = {
        "version": 1,
        "setup_cmd": "./bin/prepare",
        "hooks": {"guard": "verif",
                  "enable": "go build -tags verif -overlay /verif/build/overlay.json -modfile /verif/build/go.mod -o /verif/build/harness ./src   (the harness file lives in /verif/harness and is overlaid into package main; /repo is not modified)",
                  "baseline_off_cmd": "cd /repo/src && GOFLAGS=-mod=mod GOPROXY=off go test -vet=off -count=1 ./...",
                  "source_commits": [], "add_only": True},
        "engines": [{"name": "coq-model+correspondence", "path": "/verif/coq", "serves_properties": [c['property_id'] for c in checks],
                     "kind_free_text": "Coq 8.16.1 development (executable Gallina model + theorems), tables regenerated from the compiled program on every run, extracted OCaml model run against a Go harness built from /repo's working tree"}],
        "checks": checks,
        "not_applicable": [{"property_id": p, "reason": "check not registered yet in this commit (framework under construction; see DESIGN.md section 6)"} for p in props if p not in CLAIMED],
        "notes": "All checks share ./bin/prepare (flock, keyed by a hash of /repo/src and /verif sources). Known findings: /verif/known_findings.json.",
    }
    json.dump(m, open(os.path.join(V, 'MANIFEST.json'), 'w'), indent=1)
    print('MANIFEST.json:', len(checks), 'checks,', len(m['not_applicable']), 'not_applicable')
main()
