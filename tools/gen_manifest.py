#!/usr/bin/env python3
"""Writes MANIFEST.json from the table below (kept in one place so it stays valid)."""
import json, os
V = os.path.dirname(os.path.dirname(os.path.abspath(__file__)))
props = [json.loads(l)['id'] for l in open(os.path.join(V, 'properties.jsonl'))]

CLAIMED = {
 'C03': dict(
   text="Theorem C03_shape (Coq): for ANY operator tables, constants, flag set without --redactFieldNames, encryption on or off, and any object tree without duplicate sibling keys, shape_of (redact_tree t) = shape_of t (keys, order, array lengths, leaf kinds), derived from the three-way refinement relation rel3 proved by induction over all trees for the three walkers and lifted to whole lines (line_rel3). C03_keys: keys along every index path are unchanged. The model is tied to the code by comparing the shape projection of the extracted model's output with the implementation's on grammar lines, arbitrary JSON trees and every value kind under every operator/wrapper; an independent ordered-tree diff runs on the implementation.",
   note="Tree-level theorem; that the printer emits one physical line which parses back to the same tree is validated by the byte-level correspondence on every run (codec theorem in progress). Walkers, line logic and text layer are hand-written models tied by the correspondence; tables are regenerated.",
   technique="Coq proof by induction over JSON trees (refinement relation) + extracted-model correspondence", ref="6/C03"),
 'C13': dict(
   text="Theorems in Coq over the executable model of HashName (SHA-256 defined in Gallina): '$'-invariance, component-wise mapping of dotted paths, the <replacement>_<16 hex> format for every input, reduction of pseudonym collisions to collisions of the 8-byte digest prefix, and injectivity on the finite dictionary by kernel computation (length<=2 in the quick build, length<=3 sharded in the thorough tier). The model is tied to the code by running hash_name / SHA-256 of the extracted model against HashName / crypto/sha256 on generated names, and the oracle (format, '$', component-wise, two processes, shuffled order, dictionary injectivity, CLI -w) runs on the implementation.",
   note="Global collision-freeness of a 64-bit truncation is false by counting; proved on the finite dictionary (bound in the statement) and otherwise reduced to digest-prefix collisions. Sha256.v is hand-written and validated against crypto/sha256 on every run. Trusted: Coq kernel (vm_compute), extraction (ExtrOcamlBasic, ExtrOcamlNativeString), harness and comparators.",
   technique="Coq proof (induction + kernel computation on a finite dictionary) + extracted-model correspondence", ref="6/C13"),
 'C04': dict(
   text="Frame theorems in Coq for the model of RedactMongoLog / redactCommand (any tables, any actions, every flag set): every top-level member other than attr is emitted as is; inside attr only remote / originatingCommand / cmd / command / planSummary / ns can change; inside a command document only the query-bearing keys and (with --redactNamespaces) the namespace keys; ungated lines with IP and namespace redaction off are returned as the same tree; keys and order are kept everywhere; $limit/$skip-style arguments are kept wherever the query or pipeline walker meets them for any tables that classify them Exempt, and the regenerated tables do (TablesOK_kept, by computation, incl. $sample, $search.index, $vectorSearch.{index,numCandidates,limit}); number leaves are printed as their literal text. Tied to the code by comparing the non-zone projection (zones masked by an independent key-path predicate) of model and implementation outputs on arbitrary JSON lines of all components; the oracle compares the masked trees with number literals as text.",
   note="Strings are compared after JSON unescaping; invalid UTF-8 / lone surrogates (replaced by U+FFFD by encoding/json) are outside the claim. The text-level parse/print round trip is validated by correspondence, not yet proved.",
   technique="Coq frame lemmas over the line model + table obligation by kernel computation + extracted-model correspondence", ref="6/C04"),
 'C05': dict(
   text="Theorem C05_leafwise (Coq): for any tables, any flag set without --redactFieldNames and every tree, every leaf of the input is found at the same position of the placeholder-mode output either unchanged or replaced by the constant of its class (an e-mail-shaped string never by the generic text, any other string by exactly --replacement, numbers by RedactedNumber, booleans by RedactedBoolean); C05_class_rule gives the context rule of the scalar step ($date / $oid / $binary.base64 by key path, e-mail by shape); consts_ok (regenerated constants: ISO-8601 instant, 24 hex digits, decodable base64, e-mail-shaped, 0, false) and tables_ok_binary by kernel computation. Correspondence through the changed-leaf projection on grammar lines x replacement strings; independent class validators run on the implementation's output.",
   note="Class by context is claimed for direct members of $date / $oid / $binary.base64; array elements are classified by value. That an arbitrary --replacement survives serialisation is checked by the byte-level correspondence and the oracle (codec theorem in progress).",
   technique="Coq proof by induction over JSON trees (refinement relation) + constant/table obligations by computation + correspondence", ref="6/C05"),
 'C10': dict(
   text="Theorem C10_modes (Coq): for any tables, any flag set without --redactFieldNames and ANY encryption function, placeholder-mode and encrypt-mode outputs of the same tree have the same shape and at every leaf position are equal, or placeholder mode emitted a class placeholder ph for string s and encrypt mode emitted redactString(s, ph) (the ciphertext of that same s; ph itself when encryption fails: C10_fail_closed). C10_injective: decryptability implies distinct plaintexts give distinct ciphertexts. Determinism is functionality of the model. Correspondence through the set of positions at which the two modes differ; the oracle decrypts every differing leaf with the implementation's Decrypt, checks equal/unequal plaintext <-> ciphertext across lines and runs, injects unusable keys through the API, and runs two CLI processes with one key file.",
   note="AES-SIV is abstract (the theorem quantifies over every encryption function); cryptographic strength is not modelled. Key loaded once per run is exercised through the CLI stream.",
   technique="Coq proof (two-configuration refinement relation, induction over trees) + correspondence", ref="6/C10"),
 'C01': dict(
   text="Theorem C01_absent (Coq), for ANY operator tables without an exempt empty key, any flags outside the selective mode, any leaf actions (placeholders or encryption): for every query-bearing value of a command document (query/filter/sort/q/update/u objects; update/u/updates/deletes/documents/pipeline arrays) and every index path to a leaf that passes below no key named like a non-redactable table entry, the output holds at that path the strong verdict: a string not starting with '$' is replaced by redactString(s, one of the five class placeholders) or its pseudonym, a number by RedactedNumber under --redactNumbers, a boolean by RedactedBoolean under --redactBooleans (walk_ok1: induction over all trees for the three walkers, nested sub-pipelines and arrays of arrays included; get_op_good: whatever getOp/traverseMapPath return with a type is an entry of the tables keyed by the last path element). Obligation tables_ok_exempt (kernel computation on the regenerated tables): every entry that is not Redactable is in Spec/Exempt.v's list written from the categories of the property text. C01_remote: attr.remote under --redactIPs. Tied to the code by comparing the set of surviving planted literals in model and implementation output; the oracle greps the whole output line for every planted sensitive core, in-process and through the real CLI flags.",
   note="The theorem is about key NAMES: a user field named like an operator argument (type, path, index, ...) makes the path non-clear; those inputs are covered by the 'collide' stream of the correspondence/oracle only. A bare scalar as the whole argument of $replaceRoot.newRoot / $bucket.groupBy / $sortByCount is read as a name by the tool (outside the claim). Field-name redaction on is C15's business. Walkers/line logic are hand-written models tied by correspondence.",
   technique="Coq proof (induction over JSON trees + table-lookup bridge lemma) + regenerated-table obligation + correspondence", ref="6/C01"),
}

def main():
    checks = []
    for pid in props:
        if pid not in CLAIMED: continue
        c = CLAIMED[pid]
        checks.append({
            "property_id": pid,
            "quick_cmd": "./bin/check %s --tier quick" % pid,
            "thorough_cmd": "./bin/check %s --tier thorough" % pid,
            "evidence_file": "/verif/evidence/%s.json" % pid,
            "replay_cmd_template": "./bin/check %s --replay {path}" % pid,
            "engine": "coq-model+correspondence",
            "level_claimed": {"category": "proof", "text": c['text'], "design_ref": "DESIGN.md section " + c['ref']},
            "level_note": c['note'],
            "technique": c['technique'],
        })
    m = {
        "version": 1,
        "setup_cmd": "./bin/prepare",
        "hooks": {"guard": "verif",
                  "enable": "go build -tags verif -overlay /verif/build/overlay.json -modfile /verif/build/go.mod -o /verif/build/harness ./src   (the harness file lives in /verif/harness and is overlaid into package main; /repo is not modified)",
                  "baseline_off_cmd": "cd /repo/src && GOFLAGS=-mod=mod GOPROXY=off go test -vet=off -count=1 ./...",
                  "source_commits": [], "add_only": True},
        "engines": [{"name": "coq-model+correspondence", "path": "/verif/coq", "serves_properties": [c['property_id'] for c in checks],
                     "kind_free_text": "Coq 8.16.1 development (executable Gallina model + theorems), tables regenerated from the compiled program on every run, extracted OCaml model run against a Go harness built from /repo's working tree"}],
        "checks": checks,
        "not_applicable": [{"property_id": p, "reason": "check not registered yet in this commit (framework under construction; see DESIGN.md section 6)"} for p in props if p not in CLAIMED],
        "notes": "All checks share ./bin/prepare (flock, keyed by a hash of /repo/src and /verif sources). Known findings: /verif/known_findings.json.",
    }
    json.dump(m, open(os.path.join(V, 'MANIFEST.json'), 'w'), indent=1)
    print('MANIFEST.json:', len(checks), 'checks,', len(m['not_applicable']), 'not_applicable')
main()
