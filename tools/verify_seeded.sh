#!/bin/bash
# Confirm one seeded change delivered in a scratch worktree W (with W/mutation/{patch.diff,meta.json,demo}):
# the demo passes without the change, fails with it, and the pinned suite passes with it.
# Usage: tools/verify_seeded.sh <worktree>      (never run on /repo)
W=$1
export GOFLAGS=-mod=mod GOPROXY=off
cd $W || exit 2
git checkout -q -- . ; rm -f src/zz_seeded_demo_test.go
demo() {
  if [ -f mutation/zz_seeded_demo_test.go ]; then
    cp mutation/zz_seeded_demo_test.go src/; (cd src && timeout 600 go test -vet=off -count=1 -run 'TestSeededDemo' . </dev/null >/tmp/vs.$$.out 2>&1); rc=$?; rm -f src/zz_seeded_demo_test.go
  else
    (timeout 600 bash mutation/demo.sh </dev/null >/tmp/vs.$$.out 2>&1); rc=$?
  fi
  tail -3 /tmp/vs.$$.out | cut -c1-200 | sed 's/^/    /'; rm -f /tmp/vs.$$.out; return $rc
}
echo "== without change"; demo; a=$?
git apply mutation/patch.diff || { echo "PATCH DOES NOT APPLY"; exit 2; }
echo "== with change"; demo; b=$?
echo "== suite with change"; (cd src && timeout 900 go test -vet=off -count=1 ./... </dev/null 2>&1 | tail -3 | cut -c1-160 | sed 's/^/    /'; exit ${PIPESTATUS[0]}); s=$?
git checkout -q -- . ; git checkout -q go.mod go.sum 2>/dev/null
echo "RESULT $(basename $W) without=$a with=$b suite=$s $([ $a = 0 ] && [ $b != 0 ] && [ $s = 0 ] && echo CONFIRMED || echo REJECTED)"
