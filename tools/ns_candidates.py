#!/usr/bin/env python3
"""Prints the dump request for the harness: op dump + the candidate member names for the namespace probe. The candidates over-approximate
the string literals of the non-test Go sources of the repository: on every source line, the text between ANY two consecutive double quotes
or back quotes (at most 64 bytes; escapes interpreted when they parse). Too many candidates cost a probe each and nothing else.
Usage: ns_candidates.py <repo>"""
import sys, glob, json, base64, os
repo = sys.argv[1]
c = set()
for f in sorted(glob.glob(os.path.join(repo, 'src', '*.go'))):
    if f.endswith('_test.go') or os.path.basename(f).startswith('zz_verif'):
        continue
    for line in open(f, encoding='utf-8', errors='replace').read().split('\n'):
        for q in '"`':
            parts = line.split(q)
            for seg in parts[1:-1]:
                if 0 < len(seg) <= 64:
                    c.add(seg)
                    try:
                        c.add(json.loads('"' + seg + '"'))
                    except Exception:
                        pass
names = [base64.b64encode(x.encode()).decode() for x in sorted(c)]
print(json.dumps({"op": "dump", "names": names}))
