#!/bin/bash
# Build the harness binary (repo + overlay harness, tag verif) and the unmodified CLI
# from /repo's current working tree into /verif/build. /repo is not touched.
set -e
export GOFLAGS=-mod=mod GOPROXY=off
B=/verif/build
mkdir -p $B
cp /repo/go.mod $B/go.mod; cp /repo/go.sum $B/go.sum
cat > $B/overlay.json <<J
{"Replace":{"/repo/src/zz_verif_harness.go":"/verif/harness/zz_verif_harness.go","/repo/src/zz_verif_proxy.go":"/verif/harness/zz_verif_proxy.go"}}
J
cd /repo
go build -tags verif -overlay $B/overlay.json -modfile $B/go.mod -o $B/harness ./src
go build -modfile $B/go.mod -o $B/anonymongo ./src
