#!/bin/bash
# Build the harness binary (repo + overlay harness, tag verif) and the unmodified CLI
# from the repository's current working tree (default /repo; VERIF_REPO overrides for scratch
# copies) into the build directory (default /verif/build; VERIF_BUILD overrides). The repository is not touched.
set -e
export GOFLAGS=-mod=mod GOPROXY=off
V=$(cd "$(dirname "$0")/.." && pwd)
R=${VERIF_REPO:-/repo}
B=${VERIF_BUILD:-$V/build}
mkdir -p $B
cp $R/go.mod $B/go.mod; cp $R/go.sum $B/go.sum
cat > $B/overlay.json <<J
{"Replace":{"$R/src/zz_verif_harness.go":"$V/harness/zz_verif_harness.go","$R/src/zz_verif_proxy.go":"$V/harness/zz_verif_proxy.go"}}
J
cd $R
go build -tags verif -overlay $B/overlay.json -modfile $B/go.mod -o $B/harness ./src
go build -modfile $B/go.mod -o $B/anonymongo ./src
