(* Extraction of the executable model for the correspondence check. Only the standard
   directive files are used (ExtrOcamlBasic, ExtrOcamlNativeString, which pulls in
   ExtrOcamlChar); nat, N, Z, positive stay Coq datatypes. Run coqc in the target directory. *)
From Coq Require Extraction ExtrOcamlBasic ExtrOcamlNativeString.
From Model Require Import Stream Base64 Cli KeyFile Atlas Job.
From Gen Require Import Tables Consts.
Extraction Language OCaml.
Extraction "model.ml"
  redact_line run_io stream hash_name is_email parse_plan_summary redact_plan_summary
  sha256_hex sha8_hex b64_encode b64_decode current current_consts RedactedString
  parse_line print redact_tree decide effects decide_raw effects_raw run_key read_key atlas_run window job.
