(* C05 - type-aware placeholders: each redacted leaf stays a valid member of its class. *)
From Coq Require Import String List.
From Model Require Import Json Tables Walker Line Email.
From Proofs Require Import JsonFacts WalkerRel LineRel RelCorollaries.
From Spec Require Import TablesOK.
From Gen Require Import Tables Consts.
Import ListNotations.

(* what a leaf may become in placeholder mode: itself, or the constant of its class *)
Definition placeholder_of (cs : consts) (c : cfg) (v out : json) : Prop :=
  out = v \/
  (exists s, v = JStr s /\
     (out = JStr (c_isodate cs) \/ out = JStr (c_oid cs) \/ out = JStr (c_uuid cs) \/
      (out = JStr (c_email cs) /\ is_email s = true) \/
      (out = JStr (repl c) /\ is_email s = false) \/
      (out = JStr (Hash.hash_name (repl c) s) /\ nss c = true) \/
      (out = JStr ip_placeholder /\ ips c = true))) \/
  (exists n, v = JNum n /\ out = JNum (c_num cs) /\ nums c = true) \/
  (exists b, v = JBool b /\ out = JBool (c_bool cs) /\ bools c = true).

(* For any tables, every flag set without field-name redaction and every tree: every leaf of the
   input is found at the same position of the output, unchanged or replaced by the constant
   placeholder of its class - an e-mail-shaped string never by the generic text, any other
   string by exactly the --replacement text, a number by RedactedNumber, a boolean by
   RedactedBoolean. *)
Theorem C05_leafwise : forall tb cs c t p v,
  eager c = [] -> nodup_keys t -> jget t p = Some v -> is_leaf v ->
  exists out, jget (redact_tree tb cs c (real_actions cs c None) t) p = Some out /\ placeholder_of cs c v out.
Proof.
  intros tb cs c t p v He Hn Hg Hl.
  destruct (rel3_jget cs c is_email _ _ _ _ _ (line_rel3 tb cs c (real_actions cs c None) (real_actions cs c None) t He Hn) p v Hg Hl)
    as (d & Hok & _ & Hout).
  eexists; split; [exact Hout|]. unfold placeholder_of.
  destruct d; simpl in Hok |- *.
  - left; reflexivity.
  - destruct Hok as (s & -> & H). right; left. exists s. split; [reflexivity|]. simpl.
    destruct H as [-> | [-> | [-> | [[-> E] | [-> E]]]]]; auto 10.
  - destruct Hok as (Hn' & n & ->). right; right; left. exists n. auto.
  - destruct Hok as (Hb & b & ->). right; right; right. exists b. auto.
  - destruct Hok as (Hs & s & ->). right; left. exists s. split; [reflexivity|]. simpl. auto 10.
  - contradiction.
  - destruct Hok as (Hi & -> & s & ->). right; left. exists s. split; [reflexivity|]. simpl. auto 10.
Qed.
Print Assumptions C05_leafwise.

(* the class rule of the scalar step, for a string leaf met with key path init ++ [lst] *)
Definition class_placeholder (cs : consts) (c : cfg) (lst gp s : string) : string :=
  if String.eqb lst "$date" then c_isodate cs
  else if String.eqb lst "$oid" then c_oid cs
  else if String.eqb lst "base64" && String.eqb gp "$binary" then c_uuid cs
  else if is_email s then c_email cs else repl c.

Theorem C05_class_rule : forall tb cs c init lst s search sel,
  let d := scalar_verdict tb cs c is_email init lst (JStr s) search sel in
  d = VKeep \/ d = VStr (class_placeholder cs c lst (last_or_empty init) s).
Proof.
  intros tb cs c init lst s search sel. unfold scalar_verdict, class_placeholder. cbv zeta.
  destruct (match get_op tb init lst search with Some m => is_ty m Exempt | None => false end); [now left|].
  destruct (negb search && _ && negb sel && negb _); [now left|].
  destruct (String.eqb lst "$date"); [now right|].
  destruct (String.eqb lst "$oid"); [now right|].
  destruct (String.eqb lst "base64" && _); [now right|].
  destruct (String.eqb lst "subType" && _); [now left|].
  destruct (is_email s); now right.
Qed.
Print Assumptions C05_class_rule.

(* obligations on the regenerated constants and tables *)
Theorem C05_consts_ok : consts_ok current_consts RedactedString = true.
Proof. vm_compute. reflexivity. Qed.
Print Assumptions C05_consts_ok.

Theorem C05_tables_binary : tables_ok_binary current = true.
Proof. vm_compute. reflexivity. Qed.
Print Assumptions C05_tables_binary.

(* non-vacuity: a concrete tree where every class occurs *)
Definition ex5 : json :=
  JObj [("c", JStr "COMMAND"); ("attr", JObj [("command", JObj [("find", JStr "x");
     ("filter", JObj [("d", JObj [("$date", JStr "2024-01-02T03:04:05Z")]); ("o", JObj [("$oid", JStr "5f0000000000000000000001")]);
                      ("b", JObj [("$binary", JObj [("base64", JStr "QUJD"); ("subType", JStr "04")])]);
                      ("e", JStr "john@example.com"); ("s", JStr "secret"); ("n", JNum "42"); ("t", JBool true)])])])]%string.
Example C05_example :
  redact_tree current current_consts {| repl := "R"; nums := true; bools := true; ips := false; nss := false; eager := nil; re := None |}
              (real_actions current_consts {| repl := "R"; nums := true; bools := true; ips := false; nss := false; eager := nil; re := None |} None) ex5
  = JObj [("c", JStr "COMMAND"); ("attr", JObj [("command", JObj [("find", JStr "x");
     ("filter", JObj [("d", JObj [("$date", JStr (c_isodate current_consts))]); ("o", JObj [("$oid", JStr (c_oid current_consts))]);
                      ("b", JObj [("$binary", JObj [("base64", JStr (c_uuid current_consts)); ("subType", JStr "04")])]);
                      ("e", JStr (c_email current_consts)); ("s", JStr "R"); ("n", JNum (c_num current_consts)); ("t", JBool (c_bool current_consts))])])])]%string.
(* (the constants are those of the regenerated Gen/Consts.v, whatever their text: that each is valid for its class is C05_consts_ok) *)
Proof. vm_compute. reflexivity. Qed.

(* ---------- field-name mode ---------- *)
From Proofs Require Import TableFacts Survivors SurvivorsLine RfnSim RfnLine.

(* With --redactFieldNames active for the line: in every query-bearing value of a command document, on clear index
   paths, a leaf that is not a '$field' reference is unchanged or replaced by the constant placeholder of its class,
   exactly as without the flag. *)
Theorem C05_leafwise_fieldname_mode : forall tb cs c ins k v p leaf,
  re c = None -> nodup_keys v -> sib_ok (real_actions cs c None) v ->
  jget v p = Some leaf -> is_leaf leaf -> nd leaf -> clear tb v p = true ->
  exists out, jget (cmd_member tb cs c (real_actions cs c None) true ins k v) p = Some out /\ placeholder_of cs c leaf out.
Proof.
  intros tb cs c ins k v p leaf Hre Hn Hs Hg Hl Hd Hc.
  destruct (cmd_member_rfn_rel tb cs c (real_actions cs c None) (real_actions cs c None) Hre ins k v p leaf Hn Hs Hs Hg Hl Hd Hc)
    as (d & Hok & _ & Hout).
  eexists; split; [exact Hout|]. unfold placeholder_of.
  destruct d; simpl in Hok |- *.
  - left; reflexivity.
  - destruct Hok as (s & -> & H). right; left. exists s. split; [reflexivity|]. simpl.
    destruct H as [-> | [-> | [-> | [[-> E] | [-> E]]]]]; auto 10.
  - destruct Hok as (Hn' & n & ->). right; right; left. exists n. auto.
  - destruct Hok as (Hb & b & ->). right; right; right. exists b. auto.
  - destruct Hok as (Hs' & s & ->). right; left. exists s. split; [reflexivity|]. simpl. auto 10.
  - contradiction.
  - destruct Hok as (Hi & -> & s & ->). right; left. exists s. split; [reflexivity|]. simpl. auto 10.
Qed.
Print Assumptions C05_leafwise_fieldname_mode.
