(* C17 - raw downloaded logs never outlive the run. *)
From Coq Require Import ZArith List String.
From Model Require Import Atlas.
From Proofs Require Import AtlasProofs.
Import ListNotations.

(* for EVERY world - any number of hosts, any answer of the endpoint to any request (HTTP status,
   connection reset, body cut after any number of bytes), any gunzip / redaction outcome for any
   file, any unwritable output path - and equally on success: when the run ends no downloaded file,
   complete or partial, is left in the temporary directory *)
Theorem C17_no_tmp_left : forall gunzip redact writable w s e now,
  r_tmp_left (atlas_run gunzip redact writable w s e now) = [].
Proof. exact no_tmp_left. Qed.
Print Assumptions C17_no_tmp_left.

(* a failed download is reported and produces no output file content *)
Theorem C17_failure_reported : forall gunzip redact writable w s e now trace tmp,
  download w (fst (window s e now)) (snd (window s e now)) = (trace, tmp, DlFail) ->
  r_status (atlas_run gunzip redact writable w s e now) = Exit1 /\ r_outs (atlas_run gunzip redact writable w s e now) = [].
Proof. exact failure_is_reported. Qed.
Print Assumptions C17_failure_reported.

(* non-vacuity: second of three hosts cut mid-body *)
Example C17_example :
  let w := {| w_challenge := true; w_cluster := HStatus 200 []; w_hosts := Some ["h0"; "h1"; "h2"]%string;
              w_logs := [HStatus 200 [Ascii.ascii_of_N 1]; HCut 3 (repeat (Ascii.ascii_of_N 2) 10); HStatus 200 []] |} in
  let r := atlas_run (fun b => Some b) (fun b => Some b) (fun _ => true) w 0 0 1000000 in
  r_tmp_left r = [] /\ r_status r = Exit1 /\ List.length (r_trace r) = 6.
Proof. vm_compute. auto. Qed.

(* ---------- the whole command ---------- *)
From Model Require Import Json Tables Walker Line Stream Cli KeyFile Job.
From Proofs Require Import JobProofs.
(* whatever the command line, the environment, the file system and the endpoint: when the command (Model/Job.v) ends,
   no downloaded log is left in the temporary directory *)
Theorem C17_job_no_tmp_left : forall tb cs a w, j_tmp_left (job tb cs a w) = 0%nat.
Proof. exact job_no_tmp_left. Qed.
Print Assumptions C17_job_no_tmp_left.
