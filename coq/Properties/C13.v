(* C13 - pseudonyms are a stable, collision-free, component-wise function of the name.
   Statements only; proofs live in Proofs/HashProofs.v. *)
From Coq Require Import NArith List String Ascii.
From Model Require Import Json Sha256 Hash.
From Proofs Require Import HashProofs.
Import ListNotations.
Open Scope string_scope.

(* a leading '$' (any number of them) does not change the result *)
Theorem C13_dollar : forall r s n, hash_name r (dollars n ++ s) = hash_name r s.
Proof. exact hash_dollars. Qed.
Print Assumptions C13_dollar.

(* dotted paths are mapped component by component: depth and separators are kept *)
Theorem C13_componentwise : forall r parts,
  parts <> [] -> Forall dot_free parts -> starts_with_dollar (String.concat "." parts) = false ->
  hash_name r (String.concat "." parts) = String.concat "." (map (pseudo r) parts).
Proof. exact hash_componentwise. Qed.
Print Assumptions C13_componentwise.

(* every component's pseudonym is <replacement>_<16 lower-case hex digits>, for every input *)
Theorem C13_format : forall r p,
  exists l, pseudo r p = r ++ "_" ++ string_of_list_ascii l /\ List.length l = 16 /\ Forall is_lower_hex l.
Proof. exact pseudo_format. Qed.
Print Assumptions C13_format.

(* equal pseudonyms force equal 8-byte digest prefixes: collisions can only come from SHA-256 *)
Theorem C13_collisions_only_from_digest : forall r a b, pseudo r a = pseudo r b -> sha8N a = sha8N b.
Proof. exact pseudo_inj_from_digest. Qed.
Print Assumptions C13_collisions_only_from_digest.

(* finite, exhaustive, by kernel computation: no two of the 1,641 strings of length <= 2 over the
   40-symbol alphabet share a pseudonym (the bound is part of the statement; length <= 3, 65,641
   names, is the sharded Thorough/ development) *)
Theorem C13_injective_len2 : forall r a b,
  In a (words_upto alphabet40 2) -> In b (words_upto alphabet40 2) -> pseudo r a = pseudo r b -> a = b.
Proof. apply dict_injective. vm_compute. reflexivity. Qed.
Print Assumptions C13_injective_len2.

(* non-vacuity: concrete values, checked against Go's HashName by the correspondence run *)
Example C13_example : hash_name "REDACTED" "$a.b" = "REDACTED_ca978112ca1bbdca.REDACTED_3e23e8160039594a".
Proof. vm_compute. reflexivity. Qed.
Example C13_dict_size : List.length (words_upto alphabet40 2) = 1641.
Proof. vm_compute. reflexivity. Qed.
