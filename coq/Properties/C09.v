(* C09 - encrypted values decrypt back to exactly the original. *)
From Coq Require Import NArith List Ascii String.
From Model Require Import Json Base64 KeyFile JsonText.
From Proofs Require Import Base64Proofs KeyProofs.
Import ListNotations.

(* base64: decoding an encoding returns exactly the bytes, for every byte string of every length *)
Theorem C09_base64_roundtrip : forall l, bytes_ok l -> b64_decode (b64_encode l) = Some l.
Proof. exact b64_roundtrip. Qed.
Print Assumptions C09_base64_roundtrip.

(* the ciphertext leaf needs no JSON escaping: it is printed as the bare base64 text *)
Theorem C09_leaf_text : forall l, bytes_ok l ->
  print (JStr (string_of_list_ascii (b64_encode l))) = """"%char :: b64_encode l ++ [""""%char].
Proof. exact print_ciphertext_leaf. Qed.
Print Assumptions C09_leaf_text.

(* the decrypt command, given the key file the run wrote, turns the leaf text back into exactly the
   original bytes - for any plaintext (length 0 included) and any 64-byte key - for EVERY pair of
   functions enc/dec that satisfy dec k (enc k m) = Some m (the contract assumed of AES-SIV) *)
Theorem C09_roundtrip : forall (enc : list N -> list N -> list N) (dec : list N -> list N -> option (list N)),
  (forall k m, dec k (enc k m) = Some m) -> (forall k m, bytes_ok (enc k m)) ->
  forall k m mode, key_ok k -> decrypt_cmd dec (KFile (b64_encode k) mode) (leaf_enc enc k m) = DOk m.
Proof. exact decrypt_leaf_enc. Qed.
Print Assumptions C09_roundtrip.

(* with an authentic primitive (only genuine ciphertexts decrypt): if decrypt prints a plaintext,
   the argument decodes to the genuine ciphertext of exactly that plaintext under the file's key;
   an altered or truncated ciphertext, or another key, yields an error, never a wrong plaintext *)
Theorem C09_never_wrong_plaintext : forall (enc : list N -> list N -> list N) (dec : list N -> list N -> option (list N)),
  (forall k c m, dec k c = Some m -> c = enc k m) ->
  forall k mode value m, key_ok k -> decrypt_cmd dec (KFile (b64_encode k) mode) value = DOk m -> b64_decode value = Some (enc k m).
Proof. intros enc dec H k mode value m. exact (decrypt_only_genuine enc dec H k mode value m). Qed.
Print Assumptions C09_never_wrong_plaintext.

(* non-vacuity: the hypotheses are satisfiable (identity "encryption") and the empty plaintext round-trips *)
Example C09_example :
  decrypt_cmd (fun _ c => Some c) (KFile (b64_encode (repeat 7%N 64)) 384%N) (leaf_enc (fun _ m => m) (repeat 7%N 64) []) = DOk [].
Proof. vm_compute. reflexivity. Qed.
