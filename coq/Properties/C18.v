(* C18 - redact accepts exactly the well-defined jobs; rejections have no side effects. *)
From Coq Require Import List Bool.
From Model Require Import Cli.
From Spec Require Import CliRules.
Import ListNotations.

(* exhaustive over all 2^13 presence / absence combinations: the validation chain, in program
   order, accepts exactly the combinations the rule table calls well defined, in the right mode *)
Theorem C18_decide_eq_rules : forall f : flags, accepted (decide f) = rule_table f.
Proof.
  intros [[] [] [] [] [] [] [] [] [] [] [] [] []]; reflexivity.
Qed.
Print Assumptions C18_decide_eq_rules.

(* a rejection decided from the flags happens before every side effect: no output file created or
   truncated, no key file generated, no network request *)
Theorem C18_reject_no_effects : forall f r, decide f = CReject r -> effects f = [].
Proof.
  intros [[] [] [] [] [] [] [] [] [] [] [] [] []] r; cbv; intros H; try reflexivity; discriminate H.
Qed.
Print Assumptions C18_reject_no_effects.

(* structural form of the same fact: in program order every check precedes every effect *)
Fixpoint checks_first (steps : list step) (seen_effect : bool) : bool :=
  match steps with
  | [] => true
  | SCheck _ _ :: r => negb seen_effect && checks_first r seen_effect
  | SEffect _ _ :: r => checks_first r true
  end.
Theorem C18_checks_precede_effects : checks_first main_steps false = true.
Proof. reflexivity. Qed.
Print Assumptions C18_checks_precede_effects.

(* non-vacuity *)
Example C18_example_accept :
  decide {| f_file := true; f_stdin := false; f_out := true; f_encrypt := true; f_regexp := false; f_fieldnames := false;
            f_proj := false; f_cluster := false; f_pub := false; f_priv := false; f_start := false; f_end := false; f_env := true |} = CAccept MFile.
Proof. reflexivity. Qed.
Example C18_example_reject :
  decide {| f_file := false; f_stdin := false; f_out := true; f_encrypt := false; f_regexp := false; f_fieldnames := false;
            f_proj := false; f_cluster := false; f_pub := false; f_priv := false; f_start := true; f_end := true; f_env := true |} = CReject 7.
Proof. reflexivity. Qed.

(* ---------- the values behind the switches ---------- *)
(* main.go tests values (non-empty string, non-zero date, len(args) == 1); [abstract] is that reading. Whatever the values:
   a rejection has no side effects, a file argument counts as an input source even when it is the empty string, and a
   start or end date given alone is rejected whatever its sign. *)
Theorem C18_raw_reject_no_effects : forall r n, decide_raw r = CReject n -> effects_raw r = [].
Proof. intros r n. apply C18_reject_no_effects. Qed.
Print Assumptions C18_raw_reject_no_effects.

Theorem C18_raw_eq_rules : forall r, accepted (decide_raw r) = rule_table (abstract r).
Proof. intros r. apply C18_decide_eq_rules. Qed.
Print Assumptions C18_raw_eq_rules.

Lemma file_and_other_rejected : forall f, f_file f = true -> (f_stdin f = true \/ atlas_set f = true) -> exists n, decide f = CReject n.
Proof.
  intros [[] [] [] [] [] [] [] [] [] [] [] [] []] Ef Es; cbn in Ef, Es; try discriminate Ef;
    try (destruct Es as [Es|Es]; discriminate Es); eexists; reflexivity.
Qed.

Theorem C18_empty_file_argument_is_a_source : forall r,
  r_file r <> SAbsent -> (r_stdin r = true \/ atlas_set (abstract r) = true) -> exists n, decide_raw r = CReject n.
Proof.
  intros r Hf Hs. unfold decide_raw. apply file_and_other_rejected; [|exact Hs].
  cbn. destruct (r_file r); [contradiction | reflexivity | reflexivity].
Qed.
Print Assumptions C18_empty_file_argument_is_a_source.

Lemma lone_date_rejected : forall f, f_start f <> f_end f -> exists n, decide f = CReject n.
Proof.
  intros [[] [] [] [] [] [] [] [] [] [] [] [] []] E; cbn in E; try (exfalso; apply E; reflexivity); eexists; reflexivity.
Qed.

Theorem C18_lone_date_rejected_whatever_its_sign : forall r,
  nonzero (r_start r) <> nonzero (r_end r) -> exists n, decide_raw r = CReject n.
Proof. intros r H. unfold decide_raw. apply lone_date_rejected. exact H. Qed.
Print Assumptions C18_lone_date_rejected_whatever_its_sign.

(* ---------- the whole command (Model/Job.v: main.go's Run end to end, on a file system) ---------- *)
From Coq Require Import String.
From Model Require Import Json Tables Walker Line Stream KeyFile Atlas Job.
From Proofs Require Import JobProofs.

(* a rejection leaves the world as it was: same file system, nothing on standard output, no request, status 1 *)
Theorem C18_job_reject_changes_nothing : forall tb cs a w r,
  decide (flags_of a w) = CReject r ->
  job tb cs a w = {| j_fs := w_fs w; j_stdout := []; j_trace := []; j_tmp_left := 0; j_status := Exit1 |}.
Proof. intros. erewrite job_reject by eassumption. reflexivity. Qed.
Print Assumptions C18_job_reject_changes_nothing.

(* and an accepted job writes nowhere but to its output file(s) and its key file: every other path - the input file
   included - is, at the end of the run, what it was *)
Theorem C18_job_frame : forall tb cs a w q,
  q <> a_out a -> q <> a_keyfile a -> (forall i, q <> (a_out a ++ "." ++ dec_of_nat i)%string) ->
  j_fs (job tb cs a w) q = w_fs w q.
Proof. exact job_frame. Qed.
Print Assumptions C18_job_frame.

(* local jobs never touch the network *)
Theorem C18_job_local_no_requests : forall tb cs a w m,
  decide (flags_of a w) = CAccept m -> m <> MAtlas -> j_trace (job tb cs a w) = [].
Proof. exact job_local_no_requests. Qed.
Print Assumptions C18_job_local_no_requests.
