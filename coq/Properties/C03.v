(* C03 - redaction preserves the JSON shape of every line. Statements only. *)
From Model Require Import Json Tables Walker Line.
From Proofs Require Import JsonFacts WalkerRel LineRel RelCorollaries.
From Gen Require Import Tables Consts.

(* For ANY operator tables, constants, flag set without field-name redaction, encryption on or
   off, and any object tree without duplicate sibling keys: the redacted tree has exactly the
   shape of the input tree - same keys in the same order, same array lengths, same leaf kinds. *)
Theorem C03_shape : forall tb cs c enc t,
  eager c = nil -> nodup_keys t ->
  shape_of (redact_tree tb cs c (real_actions cs c enc) t) = shape_of t.
Proof.
  intros tb cs c enc t He Hn.
  exact (proj2 (rel3_shape cs c Email.is_email _ _ _ _ _ (line_rel3 tb cs c (real_actions cs c enc) (real_actions cs c enc) t He Hn))).
Qed.
Print Assumptions C03_shape.

(* keys met along any index path are the input's keys (no renaming when the flag is off) *)
Theorem C03_keys : forall tb cs c enc t p,
  eager c = nil -> nodup_keys t ->
  jkeys (redact_tree tb cs c (real_actions cs c enc) t) p = jkeys t p.
Proof.
  intros tb cs c enc t p He Hn.
  exact (proj2 (rel3_keys cs c Email.is_email _ _ _ _ _ (line_rel3 tb cs c (real_actions cs c enc) (real_actions cs c enc) t He Hn) p)).
Qed.
Print Assumptions C03_keys.

(* non-vacuity: a concrete line with nulls, an empty array inside an array and documents in nested arrays *)
Definition ex_tree : json :=
  JObj [("c", JStr "COMMAND"); ("attr", JObj [("command", JObj [("find", JStr "x");
     ("filter", JObj [("a", JNull); ("b", JObj [("$eq", JNull)]); ("q", JArr [JArr [JObj [("x", JStr "s")]]; JArr []])])])])]%string.
Example C03_example_hyp : nodup_keys ex_tree.
Proof. cbn. repeat (match goal with |- _ /\ _ => split | |- NoDup _ => constructor | |- True => exact I | |- ~ _ => cbn; intuition discriminate end). Qed.
Example C03_example :
  shape_of (redact_tree current current_consts {| repl := "R"; nums := true; bools := true; ips := true; nss := true; eager := nil; re := None |}
              (real_actions current_consts {| repl := "R"; nums := true; bools := true; ips := true; nss := true; eager := nil; re := None |} None) ex_tree)
  = shape_of ex_tree.
Proof. vm_compute. reflexivity. Qed.

(* ---------- text level ---------- *)
From Coq Require Import List String Ascii.
From Model Require Import JsonText Hash.
From Proofs Require Import Utf8Facts StrCodec Codec ParseWf TextLevel.

(* The codec: for every object whose strings are valid UTF-8, whose number literals are valid and
   whose objects have no duplicate keys, the parser reads the printed text back as that object. *)
Theorem C03_codec : forall m, wf (JObj m) -> parse_line (print (JObj m)) = Some (JObj m).
Proof. exact parse_line_print. Qed.
Print Assumptions C03_codec.

(* What the parser returns always is such a tree (keys unique, all strings valid UTF-8). *)
Theorem C03_parser_wf : forall l t, parse_line l = Some t -> nodup_keys t /\ strings_valid t.
Proof. exact parse_line_wfp. Qed.
Print Assumptions C03_parser_wf.

(* Every emitted line, for ANY tables and flags without field-name redaction, encryption on or off:
   the output text is one JSON object; it parses back to exactly the redacted tree of the input
   line's tree, and that tree has the input tree's shape. Premises: the configured texts are valid
   UTF-8 (command-line arguments are; the constants are checked below) and so is what the
   encryption function returns (base64 text); pseudonyms are proved valid. *)
Theorem C03_emitted_line : forall tb cs c enc l o,
  eager c = nil ->
  (valid_string (c_isodate cs) /\ valid_string (c_oid cs) /\ valid_string (c_uuid cs) /\ valid_string (c_email cs) /\ valid_string (repl c)) ->
  (forall f s ct, enc = Some f -> f s = Some ct -> valid_string ct) ->
  redact_line tb cs c enc l = Out o ->
  exists t, parse_line l = Some t /\
            parse_line o = Some (redact_tree tb cs c (real_actions cs c enc) t) /\
            shape_of (redact_tree tb cs c (real_actions cs c enc) t) = shape_of t.
Proof.
  intros tb cs c enc l o He Hc Henc.
  exact (emitted_parses_back tb cs c enc He Hc Henc (fun s => hash_name_valid (repl c) s (proj2 (proj2 (proj2 (proj2 Hc))))) l o).
Qed.
Print Assumptions C03_emitted_line.

(* the regenerated constants are plain ASCII, hence valid *)
Theorem C03_consts_valid :
  valid_string (c_isodate current_consts) /\ valid_string (c_oid current_consts) /\ valid_string (c_uuid current_consts) /\
  valid_string (c_email current_consts) /\ valid_string RedactedString.
Proof. repeat split; apply all_ascii_valid; vm_compute; reflexivity. Qed.
Print Assumptions C03_consts_valid.

(* non-vacuity of the codec theorem: a tree with escapes, a 2-, 3- and 4-byte sequence, U+2028 *)
Example C03_codec_example :
  let s := String (ascii_of_nat 34) (String (ascii_of_nat 10) (String (ascii_of_nat 195) (String (ascii_of_nat 169)
           (String (ascii_of_nat 226) (String (ascii_of_nat 128) (String (ascii_of_nat 168)
           (String (ascii_of_nat 240) (String (ascii_of_nat 159) (String (ascii_of_nat 152) (String (ascii_of_nat 128) EmptyString)))))))))) in
  parse_line (print (JObj (("k"%string, JArr (JStr s :: JNum "-1.5e+3"%string :: JNull :: nil)) :: nil))) =
  Some (JObj (("k"%string, JArr (JStr s :: JNum "-1.5e+3"%string :: JNull :: nil)) :: nil)).
Proof. vm_compute. reflexivity. Qed.

(* ---------- the whole log ---------- *)
From Model Require Import Stream.
From Proofs Require Import StreamProofs StreamIdem.

(* The property at the level of a whole output file: for every input text, the fault-free output is the newline-terminated concatenation of lines each of
   which comes from ONE line l of the input that parses as a tree t, parses back to exactly the redacted tree of t, and has the shape of t (same keys in
   the same order, same array lengths, every leaf of its JSON kind) - no emitted line is anything else. *)
Theorem C03_emitted_log : forall tb cs c enc data,
  eager c = nil ->
  (valid_string (c_isodate cs) /\ valid_string (c_oid cs) /\ valid_string (c_uuid cs) /\ valid_string (c_email cs) /\ valid_string (repl c)) ->
  (forall f s ct, enc = Some f -> f s = Some ct -> valid_string ct) ->
  let toks := fst (scan data REof) in
  stream tb cs c enc data = lf_text (outs tb cs c enc toks) /\
  forall o, In o (outs tb cs c enc toks) ->
    exists l t, In l toks /\ parse_line l = Some t /\
                parse_line o = Some (redact_tree tb cs c (real_actions cs c enc) t) /\
                shape_of (redact_tree tb cs c (real_actions cs c enc) t) = shape_of t.
Proof.
  intros tb cs c enc data He Hc Henc toks. split; [apply stream_outs|].
  intros o Ho. apply outs_in in Ho. destruct Ho as (l & Hl & Hr).
  destruct (C03_emitted_line tb cs c enc l o He Hc Henc Hr) as (t & Hp & Ho & Hs).
  exists l, t. repeat split; assumption.
Qed.
Print Assumptions C03_emitted_log.
