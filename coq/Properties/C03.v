(* C03 - redaction preserves the JSON shape of every line. Statements only. *)
From Model Require Import Json Tables Walker Line.
From Proofs Require Import JsonFacts WalkerRel LineRel RelCorollaries.
From Gen Require Import Tables Consts.

(* For ANY operator tables, constants, flag set without field-name redaction, encryption on or
   off, and any object tree without duplicate sibling keys: the redacted tree has exactly the
   shape of the input tree - same keys in the same order, same array lengths, same leaf kinds. *)
Theorem C03_shape : forall tb cs c enc t,
  eager c = nil -> nodup_keys t ->
  shape_of (redact_tree tb cs c (real_actions cs c enc) t) = shape_of t.
Proof.
  intros tb cs c enc t He Hn.
  exact (proj2 (rel3_shape cs c Email.is_email _ _ _ _ _ (line_rel3 tb cs c (real_actions cs c enc) (real_actions cs c enc) t He Hn))).
Qed.
Print Assumptions C03_shape.

(* keys met along any index path are the input's keys (no renaming when the flag is off) *)
Theorem C03_keys : forall tb cs c enc t p,
  eager c = nil -> nodup_keys t ->
  jkeys (redact_tree tb cs c (real_actions cs c enc) t) p = jkeys t p.
Proof.
  intros tb cs c enc t p He Hn.
  exact (proj2 (rel3_keys cs c Email.is_email _ _ _ _ _ (line_rel3 tb cs c (real_actions cs c enc) (real_actions cs c enc) t He Hn) p)).
Qed.
Print Assumptions C03_keys.

(* non-vacuity: a concrete line with nulls, an empty array inside an array and documents in nested arrays *)
Definition ex_tree : json :=
  JObj [("c", JStr "COMMAND"); ("attr", JObj [("command", JObj [("find", JStr "x");
     ("filter", JObj [("a", JNull); ("b", JObj [("$eq", JNull)]); ("q", JArr [JArr [JObj [("x", JStr "s")]]; JArr []])])])])]%string.
Example C03_example_hyp : nodup_keys ex_tree.
Proof. cbn. repeat (match goal with |- _ /\ _ => split | |- NoDup _ => constructor | |- True => exact I | |- ~ _ => cbn; intuition discriminate end). Qed.
Example C03_example :
  shape_of (redact_tree current current_consts {| repl := "R"; nums := true; bools := true; ips := true; nss := true; eager := nil; re := None |}
              (real_actions current_consts {| repl := "R"; nums := true; bools := true; ips := true; nss := true; eager := nil; re := None |} None) ex_tree)
  = shape_of ex_tree.
Proof. vm_compute. reflexivity. Qed.
