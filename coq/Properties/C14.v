(* C14 - selective mode redacts exactly the values under a matching field name. *)
From Coq Require Import String List.
From Model Require Import Json Tables Walker Line Email.
From Proofs Require Import JsonFacts NsProofs.
Import ListNotations.

(* the decision point: outside Atlas Search stages, a string met with key path init ++ [lst] (not an
   exempt operator argument) is left alone IF AND ONLY IF no name on that path matches R and the
   literal is not paired with a matching '$field' in its expression array - whatever the value *)
Theorem C14_decision : forall tb cs c r init lst s search sel,
  re c = Some r ->
  (match get_op tb init lst search with Some m => is_ty m Exempt | None => false end) = false ->
  (String.eqb lst "subType" && String.eqb (last_or_empty init) "$binary")%bool = false ->
  let d := scalar_verdict tb cs c is_email init lst (JStr s) search sel in
  (d = VKeep <-> (search = false /\ sel = false /\ existsb r (init ++ [lst]) = false)).
Proof. exact scalar_selective. Qed.
Print Assumptions C14_decision.

(* the path handed to the decision point grows by exactly the member key in the query walker ... *)
Theorem C14_member_path : forall tb cs c A W rfn search parent kp k s,
  starts_with_dollar s = false ->
  is_ty (match (match parent with MMap pm => oget pm k | _ => oget (Core tb) k end) with Some m => m | None => MNil end) Exempt = false ->
  snd (q_member tb cs c is_email A W rfn search parent kp k (JStr s)) = scalar tb cs c is_email A kp k (JStr s) search false.
Proof. exact q_member_path. Qed.
Print Assumptions C14_member_path.

(* ... and an array element ($in, $nin, $all, $each, array-valued fields) is redacted when any name on
   the path of its array matches, or a sibling '$field' matches *)
Theorem C14_array_element : forall tb cs c A W pk rfn search sel kp s,
  starts_with_dollar s = false ->
  arr_item tb cs c is_email A W pk rfn search sel kp (JStr s) = scalar tb cs c is_email A [] pk (JStr s) search (sel || re_matches_any c kp).
Proof. exact arr_item_path. Qed.
Print Assumptions C14_array_element.

(* the choice depends only on names: the verdict for two strings at the same place is VKeep for both or for neither *)
Theorem C14_value_independent : forall tb cs c r init lst s s' search sel,
  re c = Some r ->
  (match get_op tb init lst search with Some m => is_ty m Exempt | None => false end) = false ->
  (String.eqb lst "subType" && String.eqb (last_or_empty init) "$binary")%bool = false ->
  (scalar_verdict tb cs c is_email init lst (JStr s) search sel = VKeep <->
   scalar_verdict tb cs c is_email init lst (JStr s') search sel = VKeep).
Proof.
  intros tb cs c r init lst s s' search sel H1 H2 H3.
  rewrite (scalar_selective tb cs c r init lst s search sel H1 H2 H3), (scalar_selective tb cs c r init lst s' search sel H1 H2 H3). reflexivity.
Qed.
Print Assumptions C14_value_independent.
