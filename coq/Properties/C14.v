(* C14 - selective mode redacts exactly the values under a matching field name. *)
From Coq Require Import String List.
From Model Require Import Json Tables Walker Line Email.
From Proofs Require Import JsonFacts NsProofs.
Import ListNotations.

(* the decision point: outside Atlas Search stages, a string met with key path init ++ [lst] (not an
   exempt operator argument) is left alone IF AND ONLY IF no name on that path matches R and the
   literal is not paired with a matching '$field' in its expression array - whatever the value *)
Theorem C14_decision : forall tb cs c r init lst s search sel,
  re c = Some r ->
  (match get_op tb init lst search with Some m => is_ty m Exempt | None => false end) = false ->
  (String.eqb lst "subType" && String.eqb (last_or_empty init) "$binary")%bool = false ->
  let d := scalar_verdict tb cs c is_email init lst (JStr s) search sel in
  (d = VKeep <-> (search = false /\ sel = false /\ existsb r (init ++ [lst]) = false)).
Proof. exact scalar_selective. Qed.
Print Assumptions C14_decision.

(* the path handed to the decision point grows by exactly the member key in the query walker ... *)
Theorem C14_member_path : forall tb cs c A W rfn search parent kp k s,
  starts_with_dollar s = false ->
  is_ty (match (match parent with MMap pm => oget pm k | _ => oget (Core tb) k end) with Some m => m | None => MNil end) Exempt = false ->
  snd (q_member tb cs c is_email A W rfn search parent kp k (JStr s)) = scalar tb cs c is_email A kp k (JStr s) search false.
Proof. exact q_member_path. Qed.
Print Assumptions C14_member_path.

(* ... and an array element ($in, $nin, $all, $each, array-valued fields) is redacted when any name on
   the path of its array matches, or a sibling '$field' matches *)
Theorem C14_array_element : forall tb cs c A W pk rfn search sel kp s,
  starts_with_dollar s = false ->
  arr_item tb cs c is_email A W pk rfn search sel kp (JStr s) = scalar tb cs c is_email A [] pk (JStr s) search (sel || re_matches_any c kp).
Proof. exact arr_item_path. Qed.
Print Assumptions C14_array_element.

(* the choice depends only on names: the verdict for two strings at the same place is VKeep for both or for neither *)
Theorem C14_value_independent : forall tb cs c r init lst s s' search sel,
  re c = Some r ->
  (match get_op tb init lst search with Some m => is_ty m Exempt | None => false end) = false ->
  (String.eqb lst "subType" && String.eqb (last_or_empty init) "$binary")%bool = false ->
  (scalar_verdict tb cs c is_email init lst (JStr s) search sel = VKeep <->
   scalar_verdict tb cs c is_email init lst (JStr s') search sel = VKeep).
Proof.
  intros tb cs c r init lst s s' search sel H1 H2 H3.
  rewrite (scalar_selective tb cs c r init lst s search sel H1 H2 H3), (scalar_selective tb cs c r init lst s' search sel H1 H2 H3). reflexivity.
Qed.
Print Assumptions C14_value_independent.

(* ---------- precision, all positions ---------- *)
From Proofs Require Import WalkerRel SelFrame.

(* A subtree in which no name matches R (no key, no '$field' reference; no key that opens an Atlas
   Search stage) under a path on which no name matches R is left exactly as it is - by every walker,
   in every mode outside search stages, for ANY tables, whatever the values are. ("" is the pseudo
   name the walkers use for array contexts; R must not match it.) *)
Theorem C14_unmatched_untouched : forall tb cs c A r t m,
  re c = Some r -> nss c = false -> r ""%string = false ->
  mode_quiet r m -> nodup_keys t -> quiet tb r t ->
  walk tb cs c is_email A m t = t.
Proof. intros tb cs c A r t m H1 H2 H3. exact (walk_quiet_frame tb cs c is_email A r H1 H2 H3 t m). Qed.
Print Assumptions C14_unmatched_untouched.

(* the query-bearing values of a command document *)
Theorem C14_command_untouched : forall tb cs c A r ins k v,
  re c = Some r -> nss c = false -> r ""%string = false -> nodup_keys v -> quiet tb r v ->
  cmd_member tb cs c A false ins k v = v.
Proof.
  intros tb cs c A r ins k v H1 H2 H3 Hn Hq.
  assert (HQ : q_obj tb cs c A false v = v).
  { destruct v; try reflexivity. unfold q_obj, W. apply (walk_quiet_frame tb cs c is_email A r H1 H2 H3); auto. repeat split; reflexivity. }
  assert (HA : a_arr tb cs c A false v = v).
  { destruct v; try reflexivity. unfold a_arr, W. apply (walk_quiet_frame tb cs c is_email A r H1 H2 H3); auto. repeat split; auto. }
  assert (HP : pipe tb cs c A false v = v).
  { destruct v as [| | | | l |]; try reflexivity. unfold pipe, W. f_equal. rewrite <- (map_id l) at 2. apply map_ext_in. intros st Hin.
    rewrite nodup_keys_arr in Hn. rewrite (quiet_arr tb r) in Hq. rewrite (stage_quiet tb r st (Hq st Hin)).
    apply (walk_quiet_frame tb cs c is_email A r H1 H2 H3); auto. repeat split; reflexivity. }
  unfold cmd_member.
  destruct (key_in k _); [exact HQ|].
  destruct (key_in k _); [unfold q_or_a; destruct v; try reflexivity; [exact HA | exact HQ]|].
  destruct (key_in k _); [exact HA|].
  destruct (String.eqb k "documents"); [destruct ins; [exact HA | reflexivity]|].
  destruct (String.eqb k "pipeline"); [exact HP | reflexivity].
Qed.
Print Assumptions C14_command_untouched.

(* non-vacuity: R = (name is "ssn"); a filter with a matching and a non-matching branch *)
From Gen Require Import Tables Consts.
Open Scope string_scope.
Example C14_example :
  let r := fun s => String.eqb s "ssn" in
  let c := {| repl := "REDACTED"; nums := false; bools := false; ips := false; nss := false; eager := []; re := Some r |} in
  let quiet_part := JObj [("city", JObj [("$in", JArr [JStr "Paris"; JStr "Rome"])]); ("age", JNum "5")] in
  quiet current r quiet_part /\
  walk current current_consts c is_email (real_actions current_consts c None) (MQ false false MNil []) quiet_part = quiet_part /\
  walk current current_consts c is_email (real_actions current_consts c None) (MQ false false MNil [])
       (JObj [("ssn", JStr "123-45-6789")]) = JObj [("ssn", JStr "REDACTED")].
Proof. vm_compute. repeat split; try reflexivity; intros; discriminate. Qed.

(* no bare-word entry at the top level of the tables that are consulted for every key: a user field is never
   exempted because of its NAME (obligation on the regenerated tables) *)
From Spec Require TablesOK.
Theorem C14_no_bare_word_exemption : TablesOK.tables_ok_bare current = true.
Proof. vm_compute. reflexivity. Qed.
Print Assumptions C14_no_bare_word_exemption.

(* ---------- the converse, all positions ---------- *)
From Proofs Require Import TableFacts Survivors SurvivorsLine LineRel RelCorollaries SelHot SelLine.
Close Scope string_scope.

(* A walker (any of the three, outside Atlas Search stages) whose key path already holds a name matching R
   computes exactly the tree that the same walker computes in full-redaction mode (re = None) - for ANY
   tables and any tree that is [plain]: no key opens a search stage, a matching key is not the name of a
   list-valued operator argument, and no $facet-style map of named sub-pipelines sits under a matching
   name (the walkers restart the key path there). *)
Theorem C14_matched_as_full_mode : forall tb cs c A r t m s',
  re c = Some r -> mode_hot r m -> plain tb r true t ->
  walk tb cs c is_email A m t = walk tb cs (set_re c None) is_email A (resel m s') t.
Proof. intros tb cs c A r t m s' H. exact (walk_hot tb cs c is_email A r H t m s'). Qed.
Print Assumptions C14_matched_as_full_mode.

(* Started with ANY key path, the selective-mode output and the full-mode output of a walker agree at
   EVERY index path on which some key of the input matches R: everything under a matching name, at any
   depth, through operators and arrays, is redacted precisely where and how full mode redacts it. *)
Theorem C14_all_positions : forall tb cs c A r t m s' p,
  re c = Some r -> mode_cool m -> plain tb r false t -> nodup_keys t ->
  existsb r (jkeys t p) = true ->
  jget (walk tb cs c is_email A m t) p = jget (walk tb cs (set_re c None) is_email A (resel m s') t) p.
Proof. intros tb cs c A r t m s' p H Hm Hq Hn. exact (walk_pa tb cs c is_email A r H t m s' Hm Hq Hn p). Qed.
Print Assumptions C14_all_positions.

(* the same for every query-bearing value of a command document *)
Theorem C14_command_all_positions : forall tb cs c A r ins k v p,
  re c = Some r -> plain tb r false v -> nodup_keys v -> existsb r (jkeys v p) = true ->
  jget (cmd_member tb cs c A false ins k v) p = jget (cmd_member tb cs (set_re c None) A false ins k v) p.
Proof. intros tb cs c A r ins k v p H Hq Hn. exact (cmd_member_pa tb cs c A r H ins k v Hq Hn p). Qed.
Print Assumptions C14_command_all_positions.

(* ... and therefore (with the survivor theorem of C01 for full mode): a literal that has a matching name
   somewhere on its path, on a path that passes below no key named like a non-redactable table entry, is
   replaced by the STRONG verdict for its kind - whatever its value *)
Theorem C14_matching_name_redacted : forall tb cs c A r ins k v p leaf,
  re c = Some r -> ~ In (""%string, Exempt) (all_entries tb) ->
  zone_value ins k v = true -> nodup_keys v -> plain tb r false v ->
  jget v p = Some leaf -> is_leaf leaf -> clear tb v p = true -> existsb r (jkeys v p) = true ->
  exists d, strong cs (set_re c None) leaf d /\
            jget (if nss c then ns_member A k (cmd_member tb cs c A false ins k v) else cmd_member tb cs c A false ins k v) p
            = Some (apply_verdict A d leaf).
Proof.
  intros tb cs c A r ins k v p leaf Hre He Hz Hn Hq Hg Hl Hc Hm.
  destruct (ok1_path tb cs (set_re c None) A _ _ (cmd_full_ok tb cs (set_re c None) A eq_refl He ins k v Hz Hn) p leaf Hg Hl Hc)
    as (d & Hs & Hout).
  exists d. split; [exact Hs|]. cbn [nss set_re] in Hout.
  assert (Hp : p <> []) by (intros ->; discriminate).
  pose proof (cmd_member_pa tb cs c A r Hre ins k v Hq Hn p Hm) as E.
  destruct (nss c); [|now rewrite E].
  unfold ns_member in *. destruct (key_in k ns_fields); [|now rewrite E].
  rewrite (jget_hash_str A _ p Hp). rewrite (jget_hash_str A _ p Hp) in Hout. now rewrite E.
Qed.
Print Assumptions C14_matching_name_redacted.

(* non-vacuity: R = (name is "ssn"); the literals sit under $in, inside an array of sub-documents, under
   an update operator and inside a $facet sub-pipeline; all premises hold and the leaves are replaced *)
Open Scope string_scope.
Definition c14_r := fun s => String.eqb s "ssn".
Definition c14_c := {| repl := "REDACTED"; nums := false; bools := false; ips := false; nss := false; eager := []; re := Some c14_r |}.
Definition c14_pipeline : json :=
  JArr [JObj [("$match", JObj [("ssn", JObj [("$in", JArr [JStr "S1"; JStr "S2"])]); ("city", JStr "Paris")])];
        JObj [("$facet", JObj [("f", JArr [JObj [("$match", JObj [("owner", JObj [("ssn", JArr [JObj [("n", JStr "S3")]])])])]])])]].
Example C14_converse_example :
  plainb current c14_r false c14_pipeline = true /\
  existsb c14_r (jkeys c14_pipeline [0; 0; 0; 0; 1]) = true /\ clear current c14_pipeline [0; 0; 0; 0; 1] = true /\
  existsb c14_r (jkeys c14_pipeline [1; 0; 0; 0; 0; 0; 0; 0; 0]) = true /\ clear current c14_pipeline [1; 0; 0; 0; 0; 0; 0; 0; 0] = true /\
  cmd_member current current_consts c14_c (real_actions current_consts c14_c None) false false "pipeline" c14_pipeline =
  JArr [JObj [("$match", JObj [("ssn", JObj [("$in", JArr [JStr "REDACTED"; JStr "REDACTED"])]); ("city", JStr "Paris")])];
        JObj [("$facet", JObj [("f", JArr [JObj [("$match", JObj [("owner", JObj [("ssn", JArr [JObj [("n", JStr "REDACTED")]])])])]])])]].
Proof. vm_compute. repeat split; reflexivity. Qed.

(* ---------- where the full statement fails on the faithful model (known finding F30) ---------- *)
(* Inside $vectorSearch.filter a literal under a matching name is KEPT when the stage's own `path` argument does not
   match R (augmentOp turns the Redactable `filter` argument Exempt). Search stages are outside the theorems above;
   this witness, replayed on the implementation, is the finding. *)
Theorem C14_vectorsearch_filter_refuted :
  let r := fun s => String.eqb s "name" in
  let c := {| repl := "REDACTED"; nums := false; bools := false; ips := false; nss := false; eager := []; re := Some r |} in
  exists v p, existsb r (jkeys v p) = true /\ jget v p = Some (JStr "secret") /\
              jget (cmd_member current current_consts c (real_actions current_consts c None) false false "pipeline" v) p = Some (JStr "secret").
Proof.
  exists (JArr [JObj [("$vectorSearch", JObj [("index", JStr "i"); ("path", JStr "emb"); ("filter", JObj [("name", JObj [("$lt", JStr "secret")])])])]]), [0; 0; 2; 0; 0].
  vm_compute. repeat split; reflexivity.
Qed.
Print Assumptions C14_vectorsearch_filter_refuted.
