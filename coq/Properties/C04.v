(* C04 - nothing outside the redaction zones is altered. *)
From Coq Require Import String List.
From Model Require Import Json Tables Walker Line Email JsonText.
From Proofs Require Import JsonFacts Frame WalkerRel LineRel RelCorollaries.
From Spec Require Import TablesOK.
From Gen Require Import Tables Consts.
Import ListNotations.
Open Scope string_scope.

(* keys and order of the entry, of attr and of every command document are kept, under every flag set *)
Theorem C04_entry_keys : forall tb cs c A entry, map fst (redact_entry tb cs c A entry) = map fst entry.
Proof. exact entry_frame. Qed.
Print Assumptions C04_entry_keys.

(* every top-level member other than attr (t, s, c, id, ctx, msg, ...) is emitted as it is *)
Theorem C04_top_level : forall tb cs c A entry i k v,
  nth_error entry i = Some (k, v) -> k <> "attr" -> nth_error (redact_entry tb cs c A entry) i = Some (k, v).
Proof. exact entry_member_frame. Qed.
Print Assumptions C04_top_level.

(* inside attr, only remote / originatingCommand / cmd / command / planSummary / ns can change *)
Theorem C04_attr : forall tb cs c A g rfn k v,
  key_in k attr_zone_keys = false -> attr_member tb cs c A g rfn k v = v.
Proof. exact attr_member_frame. Qed.
Print Assumptions C04_attr.

(* inside a command document, only the query-bearing keys and (with --redactNamespaces) the
   namespace-bearing keys can change *)
Theorem C04_command : forall tb cs c A rfn cmd i k v,
  nth_error cmd i = Some (k, v) -> key_in k cmd_zone_keys = false -> (nss c = false \/ key_in k ns_fields = false) ->
  nth_error (redact_command tb cs c A rfn cmd) i = Some (k, v).
Proof. exact command_member_frame. Qed.
Print Assumptions C04_command.

(* which keys are namespace-bearing is MEASURED on the compiled program (Gen/Probed.v) and held against Spec/NsFields.v by the kernel; with that, for the
   program as compiled now and every flag set: a command member that is neither query-bearing nor a member of a MongoDB command that names a collection,
   a database or a namespace is emitted as it is *)
From Spec Require Import NsFields.
From Proofs Require Import NsFieldsOK.
Theorem C04_command_other_members : forall tb cs c A rfn cmd i k v,
  nth_error cmd i = Some (k, v) -> key_in k cmd_zone_keys = false -> key_in k ns_sanctioned = false ->
  nth_error (redact_command tb cs c A rfn cmd) i = Some (k, v).
Proof. exact other_members_kept. Qed.
Print Assumptions C04_command_other_members.

(* lines of other components: with --redactIPs and --redactNamespaces off the tree is returned as is *)
Theorem C04_other_components : forall tb cs c A t,
  ips c = false -> nss c = false -> (forall entry, t = JObj entry -> gate entry = false) ->
  redact_tree tb cs c A t = t.
Proof. exact ungated_identity. Qed.
Print Assumptions C04_other_components.

(* $limit / $skip style arguments are kept wherever the query walker or a pipeline meets them,
   for any tables that classify the operator Exempt ... *)
Theorem C04_kept_in_queries : forall tb cs c A rfn kp k v W,
  kept_op tb k -> is_leaf v -> (rfn = false \/ forall s, v <> JStr s) ->
  snd (q_member tb cs c is_email A W rfn false MNil kp k v) = v.
Proof. exact q_member_kept. Qed.
Print Assumptions C04_kept_in_queries.

Theorem C04_kept_in_pipelines : forall tb cs c A rfn kp k v W,
  kept_op tb k -> snd (p_member tb cs c is_email A W rfn kp false k v) = v.
Proof. exact p_member_kept. Qed.
Print Assumptions C04_kept_in_pipelines.

(* ... and the regenerated tables do: $limit, $skip, $sample; $search(.Meta).index;
   $vectorSearch.{index,numCandidates,limit} *)
Theorem C04_tables_kept : tables_ok_kept current = true.
Proof. vm_compute. reflexivity. Qed.
Print Assumptions C04_tables_kept.

Theorem C04_limit_skip_are_kept_ops : kept_op current "$limit" /\ kept_op current "$skip" /\ kept_op current "$sample".
Proof. unfold kept_op. repeat split; vm_compute; reflexivity. Qed.
Print Assumptions C04_limit_skip_are_kept_ops.

(* number literals are text: whatever the magnitude or notation, a number leaf is printed as the
   literal it was read with *)
Theorem C04_number_text : forall lit, print (JNum lit) = list_ascii_of_string lit.
Proof. reflexivity. Qed.
Print Assumptions C04_number_text.

(* in the zones, with field-name redaction off, keys are the input's keys *)
Theorem C04_zone_keys : forall tb cs c enc t p,
  eager c = nil -> nodup_keys t -> jkeys (redact_tree tb cs c (real_actions cs c enc) t) p = jkeys t p.
Proof.
  intros tb cs c enc t p He Hn.
  exact (proj2 (rel3_keys cs c is_email _ _ _ _ _ (line_rel3 tb cs c (real_actions cs c enc) (real_actions cs c enc) t He Hn) p)).
Qed.
Print Assumptions C04_zone_keys.

(* non-vacuity: an asio-style line of another component is a fixed point even with every value flag on *)
Example C04_example :
  let t := JObj [("t", JObj [("$date", JStr "2020-01-01T00:00:00.000+00:00")]); ("s", JStr "I"); ("c", JStr "NETWORK");
                 ("id", JNum "12345678901234567890"); ("msg", JStr "Connection accepted");
                 ("attr", JObj [("remote", JStr "1.2.3.4:5"); ("keyId", JNum "7469113720208097282"); ("x", JNum "1e-7")])] in
  let c := {| repl := "R"; nums := true; bools := true; ips := false; nss := false; eager := ["a"]; re := None |} in
  redact_tree current current_consts c (real_actions current_consts c None) t = t.
Proof. vm_compute. reflexivity. Qed.
