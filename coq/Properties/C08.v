(* C08 - I/O failures are reported, never turned into silent truncation. *)
From Coq Require Import String List NArith.
From Model Require Import Json Tables Walker Line JsonText Stream.
From Proofs Require Import StreamProofs.
Import ListNotations.

(* success is reported iff the reader ended normally, no line was too long and EVERY write was accepted in full *)
Theorem C08_ok_iff : forall tb cs c enc data e writer bar,
  fst (run_io tb cs c enc data e writer bar) = ROk <->
  (snd (scan data e) = SOk /\ forall i, i < List.length (chunks tb cs c enc (fst (scan data e))) -> writer i = Accept).
Proof. exact io_ok_iff. Qed.
Print Assumptions C08_ok_iff.

(* a read error is never reported as success *)
Theorem C08_read_error : forall tb cs c enc data writer bar,
  fst (run_io tb cs c enc data RErr writer bar) <> ROk.
Proof.
  intros tb cs c enc data writer bar H. apply io_ok_iff in H. destruct H as [H _].
  rewrite scan_unfold in H.
  destruct (snd (scan_terminated (fst (split_lines data)))); cbn [snd] in H; [discriminate|].
  destruct (snd (split_lines data)); cbn [snd] in H; [discriminate|].
  destruct (max_token <=? _)%N; cbn [snd] in H; discriminate.
Qed.
Print Assumptions C08_read_error.

(* whatever was written is a prefix of the fault-free output made of whole chunks (one chunk = one
   redacted line with its newline), followed only by the bytes the device itself took of the refused write *)
Theorem C08_written_prefix : forall tb cs c enc data e writer bar,
  exists j part,
    snd (run_io tb cs c enc data e writer bar) = List.concat (firstn j (chunks tb cs c enc (fst (scan data e)))) ++ part /\
    (part = [] \/ exists n ck, nth_error (chunks tb cs c enc (fst (scan data e))) j = Some ck /\ writer j = Fail n /\ part = firstn n ck).
Proof. exact io_written_prefix. Qed.
Print Assumptions C08_written_prefix.

(* the chunks are exactly the fault-free output *)
Theorem C08_chunks_are_output : forall tb cs c enc data,
  List.concat (chunks tb cs c enc (fst (scan data REof))) = stream tb cs c enc data.
Proof. intros. rewrite concat_chunks, stream_is_map. reflexivity. Qed.
Print Assumptions C08_chunks_are_output.

(* a read fault after a complete block A (data cut at a line boundary): the tokens seen are exactly
   those of A, so what is written is the redaction of A - a whole-line prefix of the fault-free output *)
Theorem C08_cut_at_line_boundary : forall tb cs c enc A B,
  block_ok A ->
  snd (run_io tb cs c enc A RErr (fun _ => Accept) None) = stream tb cs c enc A /\
  stream tb cs c enc (A ++ B) = stream tb cs c enc A ++ stream tb cs c enc B.
Proof.
  intros tb cs c enc A B H. split; [|now apply stream_hom].
  unfold run_io. destruct (tokens_app A [] RErr H) as [E1 E2]. rewrite app_nil_r in *.
  destruct (scan A RErr) as [tokens final] eqn:Es. simpl in E1. rewrite loop_accept. simpl.
  rewrite stream_is_map. subst tokens. cbn. now rewrite app_nil_r.
Qed.
Print Assumptions C08_cut_at_line_boundary.

(* ---------- a cut in the middle of a line ---------- *)
From Proofs Require Import ParsePrefix CutProofs.

(* prefix stability of the parser: once a prefix of a line parses as an object, every longer text
   with that prefix parses as the same object (what follows the first value is ignored) *)
Theorem C08_parse_prefix_stable : forall p x t, parse_line p = Some t -> parse_line (p ++ x) = Some t.
Proof. exact parse_line_prefix. Qed.
Print Assumptions C08_parse_prefix_stable.

(* the reader fails after a complete block A and a part p of the next line (whatever the rest x of
   that line would have been): the failure is reported, and what has been written is the redaction
   of A followed by nothing or by the complete, correctly redacted line - never a partial one *)
Theorem C08_cut_mid_line : forall tb cs c enc A p x,
  block_ok A -> ~ In nl p -> p <> [] -> (len_N p < max_token)%N ->
  fst (run_io tb cs c enc (A ++ p) RErr (fun _ => Accept) None) = RScanErr SReadErr /\
  exists last,
    snd (run_io tb cs c enc (A ++ p) RErr (fun _ => Accept) None) = stream tb cs c enc A ++ last /\
    (last = [] \/ last = emit tb cs c enc (drop_cr (p ++ x))).
Proof. exact cut_mid_line. Qed.
Print Assumptions C08_cut_mid_line.

(* ---------- the whole command: no failure is turned into exit status 0 ---------- *)
From Model Require Import Cli KeyFile Atlas Job.
From Proofs Require Import JobProofs.

(* whatever goes wrong inside the stream processor of a local job - a refused or short write, a reader that ends with an
   error, a line over the limit - the command (Model/Job.v: main.go's Run end to end) exits with status 1 *)
Theorem C08_job_failure_reported : forall tb cs a w m fs1 fs2 enc data e bar,
  decide (flags_of a w) = CAccept m -> m <> MAtlas ->
  stage_out a w = Some fs1 -> stage_key a w fs1 = Some (fs2, enc) ->
  local_input a w m fs2 = Some (data, e, bar) ->
  fst (run_io tb cs (a_cfg a) enc data e (w_writer w) bar) <> ROk ->
  j_status (job tb cs a w) = Exit1.
Proof. exact job_failure_reported. Qed.
Print Assumptions C08_job_failure_reported.

(* a gzip stream that is cut or corrupt makes the reader end with an error: status 1 *)
Theorem C08_job_read_error : forall tb cs a w m fs1 fs2 enc data bar,
  decide (flags_of a w) = CAccept m -> m <> MAtlas ->
  stage_out a w = Some fs1 -> stage_key a w fs1 = Some (fs2, enc) ->
  local_input a w m fs2 = Some (data, RErr, bar) ->
  j_status (job tb cs a w) = Exit1.
Proof. exact job_read_error_reported. Qed.
Print Assumptions C08_job_read_error.

(* an input that cannot be opened: status 1, nothing on standard output *)
Theorem C08_job_input_unavailable : forall tb cs a w m fs1 fs2 enc,
  decide (flags_of a w) = CAccept m -> m <> MAtlas ->
  stage_out a w = Some fs1 -> stage_key a w fs1 = Some (fs2, enc) ->
  local_input a w m fs2 = None ->
  j_status (job tb cs a w) = Exit1 /\ j_stdout (job tb cs a w) = [].
Proof. exact job_input_unavailable. Qed.
Print Assumptions C08_job_input_unavailable.
