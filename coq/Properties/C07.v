(* C07 - no line content can crash or abort a run. *)
From Coq Require Import String List NArith.
From Model Require Import Json Tables Walker Line JsonText Stream.
From Proofs Require Import StreamProofs PrintProofs.
Import ListNotations.

(* every line yields at most one output line, and that line is one physical line: no raw LF or CR *)
Theorem C07_one_physical_line : forall tb cs c enc l o,
  redact_line tb cs c enc l = Out o -> Forall clean o.
Proof.
  intros tb cs c enc l o. unfold redact_line. destruct (parse_line l) as [t|]; [|discriminate].
  cbv zeta. destruct (printable _) eqn:E; [|discriminate]. intros H. injection H as <-. now apply print_one_line.
Qed.
Print Assumptions C07_one_physical_line.

(* whatever a line holds, the lines around it are processed as usual: the output of a log is the
   concatenation of the per-line results (a skipped line contributes the empty string) *)
Theorem C07_others_unaffected : forall tb cs c enc ls, Forall line_ok ls ->
  stream tb cs c enc (lf_text ls) = List.concat (map (fun l => emit tb cs c enc (drop_cr l)) ls).
Proof. exact stream_lines. Qed.
Print Assumptions C07_others_unaffected.

Theorem C07_non_object_skipped : forall tb cs c enc l,
  (forall r, skip_ws l <> "{"%char :: r) -> redact_line tb cs c enc l = Skip.
Proof. exact non_object_skipped. Qed.
Print Assumptions C07_non_object_skipped.

(* the single content-dependent stop: a line over the reader's limit gives an explicit error, the
   lines before it are emitted whole, and no byte of the long line or of what follows is written *)
Theorem C07_toolong : forall tb cs c enc data e bar,
  snd (scan data e) = STooLong ->
  run_io tb cs c enc data e (fun _ => Accept) bar = (RScanErr STooLong, List.concat (map (emit tb cs c enc) (fst (scan data e)))).
Proof. exact toolong_is_error. Qed.
Print Assumptions C07_toolong.

(* non-vacuity, for whatever limit the regenerated Gen/Limits.v carries: a line of at least that length after a complete
   block A makes the scanner stop with the explicit error, the tokens delivered being exactly those of A *)
Theorem C07_toolong_happens : forall A l B e, block_ok A -> ~ In nl l -> (max_token <= len_N l)%N ->
  snd (scan (A ++ l ++ nl :: B) e) = STooLong /\ fst (scan (A ++ l ++ nl :: B) e) = fst (scan A REof).
Proof. exact toolong_after_block. Qed.
Print Assumptions C07_toolong_happens.

Example C07_example_block : block_ok (list_ascii_of_string "{}" ++ [nl]) /\ (0 < max_token)%N.
Proof. split; [apply block_single; split; [intros [H|[H|[]]]; discriminate H | vm_compute; discriminate] | vm_compute; reflexivity]. Qed.

(* ---------- the emitted text is one JSON object ---------- *)
From Proofs Require Import Utf8Facts StrCodec Codec ParseWf TextLevel.

(* whatever the input line holds: if a line is emitted, it is a complete JSON object on one physical
   line - the parser reads it back (any tables, any value flags, encryption on or off; premises: the
   configured texts and the ciphertext encoding are valid UTF-8) *)
Theorem C07_emitted_is_json : forall tb cs c enc l o,
  eager c = nil ->
  (valid_string (c_isodate cs) /\ valid_string (c_oid cs) /\ valid_string (c_uuid cs) /\ valid_string (c_email cs) /\ valid_string (repl c)) ->
  (forall f s ct, enc = Some f -> f s = Some ct -> valid_string ct) ->
  redact_line tb cs c enc l = Out o ->
  Forall clean o /\ exists m, parse_line o = Some (JObj m).
Proof.
  intros tb cs c enc l o He Hc Henc H. split; [eapply C07_one_physical_line; eauto|].
  destruct (emitted_parses_back tb cs c enc He Hc Henc (fun s => hash_name_valid (repl c) s (proj2 (proj2 (proj2 (proj2 Hc))))) l o H) as (t & Ep & Eo & _).
  unfold parse_line in Ep. destruct (parse_value _ l) as [[v r]|]; [|discriminate]. destruct v; try discriminate. injection Ep as <-.
  rewrite Eo. unfold redact_tree. eexists. reflexivity.
Qed.
Print Assumptions C07_emitted_is_json.

(* ---------- the model's fuel is an artefact without effect ---------- *)
From Proofs Require Import ParseFuel FuelFacts.

(* the parser: a successful parse consumes something, succeeds with fuel equal to what it consumes and
   gives the same answer with any larger fuel; so if ANY fuel makes a line parse as an object,
   parse_line (which supplies length + 1) parses it - no line is skipped because the model ran dry *)
Theorem C07_parser_fuel_irrelevant : forall f l t r,
  parse_value f l = Some (t, r) -> forall f', (List.length l - List.length r <= f')%nat -> parse_value f' l = Some (t, r).
Proof. exact parse_value_fuel_irrelevant. Qed.
Print Assumptions C07_parser_fuel_irrelevant.

Theorem C07_parse_line_fuel_sufficient : forall l f m r,
  parse_value f l = Some (JObj m, r) -> parse_line l = Some (JObj m).
Proof. exact parse_line_fuel_sufficient. Qed.
Print Assumptions C07_parse_line_fuel_sufficient.

(* the operator lookup: the supplied fuel (path length + 1) is never exhausted, for any tables *)
Theorem C07_lookup_fuel_sufficient : forall tb path root search,
  traverse tb (S (List.length path)) path root search <> OutOfFuel.
Proof. exact traverse_top_total. Qed.
Print Assumptions C07_lookup_fuel_sufficient.

(* the string reader is called with fuel = text length + 1; any larger fuel gives the same answer *)
Theorem C07_string_fuel_irrelevant : forall l acc f1 f2,
  (List.length l < f1)%nat -> (List.length l < f2)%nat -> parse_str f1 l acc = parse_str f2 l acc.
Proof. intros l acc f1 f2. apply (parse_str_fuel_irrelevant (List.length l)). apply le_n. Qed.
Print Assumptions C07_string_fuel_irrelevant.

(* ---------- the whole command (Model/Job.v: main.go's Run end to end) ---------- *)
From Model Require Import Base64 KeyFile Cli Atlas Job.
From Proofs Require Import JobProofs.

(* whatever bytes the lines hold: a local job whose input holds no line over the reader's limit, whose output can be created and whose
   writes are accepted, ends with status 0, and its destination holds the in-order concatenation of what each line yields on its own *)
Theorem C07_job_never_aborts : forall tb cs a w m fs1 fs2 enc data bar,
  decide (flags_of a w) = CAccept m -> m <> MAtlas ->
  stage_out a w = Some fs1 -> stage_key a w fs1 = Some (fs2, enc) ->
  (nonempty_s (a_out a) = true -> a_encrypt a && nonempty_s (a_keyfile a) = true -> a_keyfile a <> a_out a) ->
  local_input a w m fs2 = Some (data, REof, bar) ->
  (forall i, w_writer w i = Accept) -> snd (scan data REof) = SOk ->
  j_status (job tb cs a w) = Exit0 /\
  dest a (job tb cs a w) = List.concat (map (emit tb cs (a_cfg a) enc) (fst (scan data REof))).
Proof.
  intros. destruct (job_local_output_gen tb cs a w m fs1 fs2 enc data bar) as [S D]; try assumption.
  split; [exact S|]. rewrite D. apply stream_is_map.
Qed.
Print Assumptions C07_job_never_aborts.

(* the single content-dependent stop: a line over the limit ends the run with status 1 (never 0), and the destination holds the redaction
   of the lines before it - nothing of the long line, nothing of what follows *)
Theorem C07_job_toolong : forall tb cs a w m fs1 fs2 enc data e bar,
  decide (flags_of a w) = CAccept m -> m <> MAtlas ->
  stage_out a w = Some fs1 -> stage_key a w fs1 = Some (fs2, enc) ->
  (nonempty_s (a_out a) = true -> a_encrypt a && nonempty_s (a_keyfile a) = true -> a_keyfile a <> a_out a) ->
  local_input a w m fs2 = Some (data, e, bar) ->
  (forall i, w_writer w i = Accept) -> snd (scan data e) = STooLong ->
  j_status (job tb cs a w) = Exit1 /\
  dest a (job tb cs a w) = List.concat (map (emit tb cs (a_cfg a) enc) (fst (scan data e))).
Proof. exact job_toolong. Qed.
Print Assumptions C07_job_toolong.
