(* C16 - Atlas mode fetches exactly the requested logs and redacts each into its own file. *)
From Coq Require Import ZArith List String.
From Model Require Import Atlas.
From Proofs Require Import AtlasProofs.
Import ListNotations.

(* when every step succeeds: the requests are the cluster description followed by exactly one log
   download per host, in the order of the connection string, with the requested window; the stored
   bytes are the response bodies verbatim, file i belonging to host i *)
Theorem C16_requests_exact : forall w s e hosts bodies cb,
  w_cluster w = HStatus 200 cb -> w_hosts w = Some hosts -> w_logs w = ok_answers bodies ->
  List.length bodies = List.length hosts ->
  download w s e =
  (round w RCluster ++ flat_map (fun h => round w (fun a => RLog h a s e)) hosts, combine (seq 0 (List.length hosts)) bodies, DlOk).
Proof. exact requests_exact. Qed.
Print Assumptions C16_requests_exact.

(* one authenticated request per logical request, preceded at most by its unauthenticated challenge round *)
Theorem C16_round_shape : forall w mk, round w mk = [mk false] \/ round w mk = [mk false; mk true].
Proof. exact round_shape. Qed.
Print Assumptions C16_round_shape.

(* the window: the last seven days when none is given (start before end), the given one otherwise *)
Theorem C16_window_default : forall now, window 0 0 now = ((now - 604800)%Z, now) /\ (fst (window 0 0 now) < snd (window 0 0 now))%Z.
Proof. intros now. split; [apply window_default | apply window_default_ordered]. Qed.
Print Assumptions C16_window_default.

Theorem C16_window_explicit : forall s e now, s <> 0%Z -> e <> 0%Z -> window s e now = (s, e).
Proof. exact window_explicit. Qed.
Print Assumptions C16_window_explicit.

(* <outputFile>.<i> receives precisely the redaction of the decompressed log of host i *)
Theorem C16_outputs : forall gunzip redact writable files outs,
  Forall (fun f => writable (fst f) = true /\ exists d o, gunzip (snd f) = Some d /\ redact d = Some o) files ->
  exists res, per_file gunzip redact writable files outs = (outs ++ res, Exit0) /\
              map fst res = map fst files /\
              Forall2 (fun f r => exists d, gunzip (snd f) = Some d /\ redact d = Some (snd r)) files res.
Proof. exact per_file_ok. Qed.
Print Assumptions C16_outputs.

(* ---------- the whole command (Model/Job.v: main.go's Run end to end, on a file system) ---------- *)
From Coq Require Import NArith.
From Model Require Import Json Tables Walker Line Stream Base64 KeyFile Cli Job.
From Proofs Require Import JobProofs JobAtlas.

(* an Atlas job in an all-succeed world - the cluster description names [hosts], every host answers 200 with its body, every body is a gzip stream
   that ends normally and whose log holds no over-long line, every <outputFile>.<j> can be created: the run ends with status 0, no downloaded log is
   left, and for EVERY host index i the file <outputFile>.<i> holds precisely the redaction of host i's log under the active flags - not another
   host's, not a part of it *)
Theorem C16_job_outputs : forall tb cs a w fs1 fs2 enc hosts bodies cb i body data,
  decide (flags_of a w) = CAccept MAtlas ->
  stage_out a w = Some fs1 -> stage_key a w fs1 = Some (fs2, enc) ->
  w_cluster (w_atlas w) = HStatus 200 cb -> w_hosts (w_atlas w) = Some hosts -> w_logs (w_atlas w) = ok_answers bodies ->
  List.length bodies = List.length hosts ->
  (forall j b, nth_error bodies j = Some b ->
     (exists f, create fs2 (a_out a ++ "." ++ dec_of_nat j)%string = Some f) /\
     exists d, w_gunzip w b = (d, REof) /\ snd (scan d REof) = SOk) ->
  nth_error bodies i = Some body -> w_gunzip w body = (data, REof) ->
  j_status (job tb cs a w) = Exit0 /\ j_tmp_left (job tb cs a w) = 0%nat /\
  exists m, j_fs (job tb cs a w) (a_out a ++ "." ++ dec_of_nat i)%string = FFile (stream tb cs (a_cfg a) enc data) m.
Proof. exact job_atlas_outputs. Qed.
Print Assumptions C16_job_outputs.

(* <outputFile>.<i> and <outputFile>.<j> are different files for different hosts *)
Theorem C16_output_names_distinct : forall out i j, (out ++ "." ++ dec_of_nat i)%string = (out ++ "." ++ dec_of_nat j)%string -> i = j.
Proof. exact out_path_inj. Qed.
Print Assumptions C16_output_names_distinct.
