(* C06 - a log is processed as an order-preserving, line-local map. *)
From Coq Require Import String List NArith.
From Model Require Import Json Tables Walker Line JsonText Stream.
From Proofs Require Import StreamProofs.
Import ListNotations.

(* the fault-free output is the in-order concatenation of what each scanned line yields on its own *)
Theorem C06_map : forall tb cs c enc data,
  stream tb cs c enc data = List.concat (map (emit tb cs c enc) (fst (scan data REof))).
Proof. exact stream_is_map. Qed.
Print Assumptions C06_map.

(* for a log given as a list of lines (none over the reader's limit): exactly one, possibly empty,
   output per input line, in input order *)
Theorem C06_lines : forall tb cs c enc ls, Forall line_ok ls ->
  stream tb cs c enc (lf_text ls) = List.concat (map (fun l => emit tb cs c enc (drop_cr l)) ls).
Proof. exact stream_lines. Qed.
Print Assumptions C06_lines.

(* redact(A ++ B) = redact(A) ++ redact(B) for every complete block A: concatenating, splitting
   and permuting blocks of lines commutes with redaction; no state is carried between lines *)
Theorem C06_concat : forall tb cs c enc A B, block_ok A ->
  stream tb cs c enc (A ++ B) = stream tb cs c enc A ++ stream tb cs c enc B.
Proof. exact stream_hom. Qed.
Print Assumptions C06_concat.

(* the progress bar (file output) never influences result or output, for any writer *)
Theorem C06_bar : forall tb cs c enc data e writer bar,
  run_io tb cs c enc data e writer bar = run_io tb cs c enc data e writer None.
Proof.
  intros. unfold run_io. destruct (scan data e) as [tokens final]. apply loop_bar.
Qed.
Print Assumptions C06_bar.

(* CRLF line ends and a missing final newline give the same bytes *)
Theorem C06_crlf : forall tb cs c enc ls,
  Forall line_ok (map (fun l => l ++ [cr]) ls) -> Forall line_ok ls -> Forall (fun l => forall l0, l <> l0 ++ [cr]) ls ->
  stream tb cs c enc (lf_text (map (fun l => l ++ [cr]) ls)) = stream tb cs c enc (lf_text ls).
Proof. exact stream_crlf. Qed.
Print Assumptions C06_crlf.

Theorem C06_final_newline : forall tb cs c enc ls l, Forall line_ok ls -> line_ok l -> l <> [] ->
  stream tb cs c enc (lf_text ls ++ l) = stream tb cs c enc (lf_text (ls ++ [l])).
Proof. exact stream_final_newline. Qed.
Print Assumptions C06_final_newline.

(* blank, whitespace-only and non-object lines contribute nothing; every emitted byte comes from the printer *)
Theorem C06_non_object : forall tb cs c enc l,
  (forall r, skip_ws l <> "{"%char :: r) -> emit tb cs c enc l = [].
Proof. intros. unfold emit. now rewrite non_object_skipped. Qed.
Print Assumptions C06_non_object.

(* ---------- the whole command: the same bytes through every channel ---------- *)
(* Model/Job.v is the Run function of main.go end to end (validation, output-file creation, key step, input channel,
   stream processor). For a local job without encryption whose output can be created and whose writes are accepted:
   exit status 0, and the destination - standard output or the --outputFile - holds exactly [stream data], whatever
   channel delivered [data] (a plain file, a gzip file recognised by its suffix in any letter case, or stdin) and
   whatever the progress bar counted. *)
From Model Require Import Cli KeyFile Atlas Job.
From Proofs Require Import JobProofs.

Theorem C06_job_output : forall tb cs a w m data bar,
  plain_local a w m ->
  (forall fs1, stage_out a w = Some fs1 -> local_input a w m fs1 = Some (data, REof, bar)) ->
  snd (scan data REof) = SOk ->
  j_status (job tb cs a w) = Exit0 /\ dest a (job tb cs a w) = stream tb cs (a_cfg a) None data.
Proof. exact job_local_output. Qed.
Print Assumptions C06_job_output.

Theorem C06_job_channel_independent : forall tb cs a1 w1 m1 a2 w2 m2 data bar1 bar2,
  plain_local a1 w1 m1 -> plain_local a2 w2 m2 -> a_cfg a1 = a_cfg a2 ->
  (forall fs1, stage_out a1 w1 = Some fs1 -> local_input a1 w1 m1 fs1 = Some (data, REof, bar1)) ->
  (forall fs1, stage_out a2 w2 = Some fs1 -> local_input a2 w2 m2 fs1 = Some (data, REof, bar2)) ->
  snd (scan data REof) = SOk ->
  dest a1 (job tb cs a1 w1) = dest a2 (job tb cs a2 w2) /\
  j_status (job tb cs a1 w1) = Exit0 /\ j_status (job tb cs a2 w2) = Exit0.
Proof. exact job_channel_independent. Qed.
Print Assumptions C06_job_channel_independent.

(* what the three channels deliver *)
Theorem C06_job_channels : forall a w fs1,
  (forall p raw mode, a_file a = Some p -> fs1 p = FFile raw mode -> is_gz p = false ->
     exists bar, local_input a w MFile fs1 = Some (raw, REof, bar)) /\
  (forall p raw mode data, a_file a = Some p -> fs1 p = FFile raw mode -> is_gz p = true -> w_gunzip w raw = (data, REof) ->
     exists bar, local_input a w MFile fs1 = Some (data, REof, bar)) /\
  (forall data, w_stdin w = Some data -> local_input a w MStdin fs1 = Some (data, REof, None)).
Proof.
  intros a w fs1. split; [|split].
  - intros. eapply local_input_file; eassumption.
  - intros. eapply local_input_gz; eassumption.
  - intros. now apply local_input_stdin.
Qed.
Print Assumptions C06_job_channels.

(* non-vacuity, on the regenerated tables: one log through a plain file to --outputFile, through "LOG.GZ" (gunzip a
   parameter: here it strips a one-byte wrapper) to standard output, and through stdin to standard output *)
From Gen Require Import Tables Consts.
From Coq Require Import ZArith.
Example C06_job_example :
  let line := (list_ascii_of_string "{""c"":""COMMAND"",""attr"":{""command"":{""find"":""c"",""filter"":{""a"":""secret""}}}}" ++ [nl])%list in
  let fs0 : fsys := fun p => if String.eqb p "in.log" then FFile line 420 else if String.eqb p "LOG.GZ" then FFile ("z"%char :: line) 420 else FAbsent true in
  let c0 := {| repl := "REDACTED"; nums := false; bools := false; ips := false; nss := false; eager := []; re := None |} in
  let mk f o := {| a_file := f; a_out := o; a_encrypt := false; a_keyfile := "k"; a_cfg := c0; a_regexp_given := false; a_fieldnames_given := false;
                   a_proj := ""; a_cluster := ""; a_pub := ""; a_priv := ""; a_start := 0%Z; a_end := 0%Z; a_env := false |} in
  let w si := {| w_fs := fs0; w_stdin := si; w_rnd := []; w_encrypt := fun _ _ => None; w_gunzip := fun raw => (tl raw, REof);
                 w_writer := fun _ => Accept; w_atlas := {| w_challenge := false; w_cluster := HReset; w_hosts := None; w_logs := [] |}; w_now := 0%Z |} in
  let r1 := job current current_consts (mk (Some "in.log"%string) "out.txt"%string) (w None) in
  let r2 := job current current_consts (mk (Some "LOG.GZ"%string) ""%string) (w None) in
  let r3 := job current current_consts (mk None ""%string) (w (Some line)) in
  j_status r1 = Exit0 /\ j_status r2 = Exit0 /\ j_status r3 = Exit0 /\
  dest (mk (Some "in.log"%string) "out.txt"%string) r1 = j_stdout r2 /\ j_stdout r2 = j_stdout r3 /\
  j_stdout r3 = (list_ascii_of_string "{""c"":""COMMAND"",""attr"":{""command"":{""find"":""c"",""filter"":{""a"":""REDACTED""}}}}" ++ [nl])%list /\
  j_fs r1 "in.log"%string = FFile line 420.
Proof. vm_compute. repeat split; reflexivity. Qed.

(* ---------- the output as a list of lines ---------- *)
From Proofs Require Import StreamIdem.

(* "exactly one newline-terminated line for each input line that is a JSON object, in input order": the output of a fault-free pass over ANY input text
   is the newline-terminated concatenation of [outs tokens] - for each token the scanner delivers, in order, the line it yields on its own when it
   yields one, nothing when it does not; no emitted line holds a line feed (so the lines of the output ARE these lines), every emitted line is the
   result of one of the tokens, and there are never more output lines than input lines. *)
Theorem C06_one_line_per_object : forall tb cs c enc data,
  let toks := fst (scan data REof) in
  stream tb cs c enc data = lf_text (outs tb cs c enc toks) /\
  Forall (fun o => ~ In nl o) (outs tb cs c enc toks) /\
  (forall o, In o (outs tb cs c enc toks) <-> exists t, In t toks /\ redact_line tb cs c enc t = Out o) /\
  List.length (outs tb cs c enc toks) <= List.length toks.
Proof.
  intros tb cs c enc data toks. split; [apply stream_outs|]. split; [|split; [intros o; apply outs_in | apply outs_length]].
  pose proof (outs_clean tb cs c enc toks) as H. rewrite Forall_forall in *. intros o Ho. exact (proj1 (H o Ho)).
Qed.
Print Assumptions C06_one_line_per_object.
