(* C06 - a log is processed as an order-preserving, line-local map. *)
From Coq Require Import String List NArith.
From Model Require Import Json Tables Walker Line JsonText Stream.
From Proofs Require Import StreamProofs.
Import ListNotations.

(* the fault-free output is the in-order concatenation of what each scanned line yields on its own *)
Theorem C06_map : forall tb cs c enc data,
  stream tb cs c enc data = List.concat (map (emit tb cs c enc) (fst (scan data REof))).
Proof. exact stream_is_map. Qed.
Print Assumptions C06_map.

(* for a log given as a list of lines (none over the reader's limit): exactly one, possibly empty,
   output per input line, in input order *)
Theorem C06_lines : forall tb cs c enc ls, Forall line_ok ls ->
  stream tb cs c enc (lf_text ls) = List.concat (map (fun l => emit tb cs c enc (drop_cr l)) ls).
Proof. exact stream_lines. Qed.
Print Assumptions C06_lines.

(* redact(A ++ B) = redact(A) ++ redact(B) for every complete block A: concatenating, splitting
   and permuting blocks of lines commutes with redaction; no state is carried between lines *)
Theorem C06_concat : forall tb cs c enc A B, block_ok A ->
  stream tb cs c enc (A ++ B) = stream tb cs c enc A ++ stream tb cs c enc B.
Proof. exact stream_hom. Qed.
Print Assumptions C06_concat.

(* the progress bar (file output) never influences result or output, for any writer *)
Theorem C06_bar : forall tb cs c enc data e writer bar,
  run_io tb cs c enc data e writer bar = run_io tb cs c enc data e writer None.
Proof.
  intros. unfold run_io. destruct (scan data e) as [tokens final]. apply loop_bar.
Qed.
Print Assumptions C06_bar.

(* CRLF line ends and a missing final newline give the same bytes *)
Theorem C06_crlf : forall tb cs c enc ls,
  Forall line_ok (map (fun l => l ++ [cr]) ls) -> Forall line_ok ls -> Forall (fun l => forall l0, l <> l0 ++ [cr]) ls ->
  stream tb cs c enc (lf_text (map (fun l => l ++ [cr]) ls)) = stream tb cs c enc (lf_text ls).
Proof. exact stream_crlf. Qed.
Print Assumptions C06_crlf.

Theorem C06_final_newline : forall tb cs c enc ls l, Forall line_ok ls -> line_ok l -> l <> [] ->
  stream tb cs c enc (lf_text ls ++ l) = stream tb cs c enc (lf_text (ls ++ [l])).
Proof. exact stream_final_newline. Qed.
Print Assumptions C06_final_newline.

(* blank, whitespace-only and non-object lines contribute nothing; every emitted byte comes from the printer *)
Theorem C06_non_object : forall tb cs c enc l,
  (forall r, skip_ws l <> "{"%char :: r) -> emit tb cs c enc l = [].
Proof. intros. unfold emit. now rewrite non_object_skipped. Qed.
Print Assumptions C06_non_object.
