(* C01 - sensitive literal values never survive redaction (full-redaction mode). *)
From Coq Require Import String List.
From Model Require Import Json Tables Walker Line Email.
From Proofs Require Import JsonFacts TableFacts WalkerRel Survivors SurvivorsLine LineRel.
From Spec Require Import TablesOK Exempt.
From Gen Require Import Tables Consts.
Import ListNotations.
Open Scope string_scope.

(* For ANY operator tables without an exempt empty key, any flags outside the selective mode, any
   leaf actions (placeholder or encryption) and field-name redaction off: take any query-bearing
   value of a command document (query / filter / sort / q / update / u objects, update / u /
   updates / deletes / documents / pipeline arrays) and any index path to a leaf that does not
   pass below a key named like a non-redactable table entry. Then the output holds, at the same
   path, the STRONG verdict for that leaf: a string not starting with '$' is replaced by
   redactString(s, ph) for one of the five class placeholders ph; a number
   by RedactedNumber when --redactNumbers; a boolean by RedactedBoolean when --redactBooleans. *)
Theorem C01_absent : forall tb cs c A ins k v p leaf,
  re c = None -> ~ In ("", Exempt) (all_entries tb) ->
  zone_value ins k v = true -> nodup_keys v ->
  jget v p = Some leaf -> is_leaf leaf -> clear tb v p = true ->
  exists d, strong cs c leaf d /\
            jget (if nss c then ns_member A k (cmd_member tb cs c A false ins k v) else cmd_member tb cs c A false ins k v) p
            = Some (apply_verdict A d leaf).
Proof.
  intros tb cs c A ins k v p leaf Hre He Hz Hn Hg Hl Hc.
  exact (ok1_path tb cs c A _ _ (cmd_full_ok tb cs c A Hre He ins k v Hz Hn) p leaf Hg Hl Hc).
Qed.
Print Assumptions C01_absent.

(* ... and with --redactFieldNames active for the line (field-name mode, the remaining flag outside the
   selective mode): the leaf found at the same index path of the field-name-mode output is the same strong
   verdict. Positions are index paths and keys are renamed in this mode, so the statement asks that the pseudonym
   function merges no two sibling keys of the input ([sib_ok]; cf. C13); '$field' references are renamed, not
   redacted, and are outside the claim. *)
From Proofs Require Import RfnSim RfnLine SelLine.
Open Scope string_scope.
Theorem C01_absent_fieldname_mode : forall tb cs c A ins k v p leaf,
  re c = None -> ~ In (""%string, Exempt) (all_entries tb) ->
  zone_value ins k v = true -> nodup_keys v -> sib_ok A v ->
  jget v p = Some leaf -> is_leaf leaf -> nd leaf -> clear tb v p = true ->
  exists d, strong cs c leaf d /\
            jget (if nss c then ns_member A k (cmd_member tb cs c A true ins k v) else cmd_member tb cs c A true ins k v) p
            = Some (apply_verdict A d leaf).
Proof.
  intros tb cs c A ins k v p leaf Hre He Hz Hn Hk Hg Hl Hd Hc.
  destruct (C01_absent tb cs c A ins k v p leaf Hre He Hz Hn Hg Hl Hc) as (d & Hs & Hout).
  exists d. split; [exact Hs|].
  pose proof (cmd_member_pl tb cs c A Hre ins k v Hk Hn p leaf Hg Hl Hd Hc) as E.
  assert (Hp : p <> []).
  { intros ->. simpl in Hg. injection Hg as <-. unfold zone_value in Hz. destruct v; try discriminate; contradiction. }
  destruct (nss c); [|now rewrite <- E].
  unfold ns_member in *. destruct (key_in k ns_fields); [|now rewrite <- E].
  rewrite (jget_hash_str A _ p Hp). rewrite (jget_hash_str A _ p Hp) in Hout. now rewrite <- E.
Qed.
Print Assumptions C01_absent_fieldname_mode.

(* the client address: with --redactIPs a string attr.remote becomes the fixed placeholder *)
Theorem C01_remote : forall tb cs c A g rfn s,
  ips c = true -> attr_member tb cs c A g rfn "remote" (JStr s) = JStr ip_placeholder.
Proof.
  intros tb cs c A g rfn s H. unfold attr_member. rewrite H. cbn.
  rewrite !Bool.andb_false_r. reflexivity.
Qed.
Print Assumptions C01_remote.

(* the regenerated tables exempt nothing outside the sanctioned list, and have no exempt empty key *)
Theorem C01_tables_ok : tables_ok_exempt current = true.
Proof. vm_compute. reflexivity. Qed.
Print Assumptions C01_tables_ok.

(* inside Atlas Search stages the operator table is consulted for every key: no leaf entry there exempts a user field by its name *)
Theorem C01_no_bare_search_exemption : tables_ok_search_bare current = true.
Proof. vm_compute. reflexivity. Qed.
Print Assumptions C01_no_bare_search_exemption.

Lemma current_no_empty_exempt : ~ In ("", Exempt) (all_entries current).
Proof.
  intros H.
  assert (E : existsb (fun kt => String.eqb (fst kt) "" && otype_eqb (snd kt) Exempt) (all_entries current) = true).
  { apply existsb_exists. exists ("", Exempt). split; [exact H | reflexivity]. }
  vm_compute in E. discriminate.
Qed.

(* instance for the current tables in placeholder mode: the string leaf becomes exactly a class placeholder *)
Theorem C01_current_placeholder_mode : forall c ins k v p s,
  re c = None -> zone_value ins k v = true -> nodup_keys v ->
  jget v p = Some (JStr s) -> starts_with_dollar s = false -> clear current v p = true ->
  exists out, jget (if nss c then ns_member (real_actions current_consts c None) k (cmd_member current current_consts c (real_actions current_consts c None) false ins k v)
                    else cmd_member current current_consts c (real_actions current_consts c None) false ins k v) p = Some (JStr out) /\
              In out (placeholders current_consts c).
Proof.
  intros c ins k v p s Hre Hz Hn Hg Hd Hc.
  destruct (C01_absent current current_consts c (real_actions current_consts c None) ins k v p (JStr s) Hre current_no_empty_exempt Hz Hn Hg I Hc)
    as (d & Hs & Hout).
  simpl in Hs. destruct Hs as [(ph & -> & Hin) | [_ Hx]].
  - exists ph. split; [exact Hout | exact Hin].
  - congruence.
Qed.
Print Assumptions C01_current_placeholder_mode.

(* non-vacuity: a delete specification, a pipeline-style update and a $facet sub-pipeline *)
Definition ex1 : json :=
  JArr [JObj [("$match", JObj [("ssn", JObj [("$in", JArr [JStr "S1"; JStr "S2"])])])];
        JObj [("$facet", JObj [("f", JArr [JObj [("$match", JObj [("name", JStr "SECRET")])]])])];
        JObj [("$project", JObj [("x", JObj [("$or", JArr [JStr "LIT"; JStr "$a"])])])]].
Example C01_example_hyp : zone_value false "pipeline" ex1 = true /\ clear current ex1 [1; 0; 0; 0; 0; 0] = true /\
                          jget ex1 [1; 0; 0; 0; 0; 0] = Some (JStr "SECRET").
Proof. vm_compute. auto. Qed.
Example C01_example :
  let c := {| repl := "R"; nums := false; bools := false; ips := false; nss := false; eager := nil; re := None |} in
  cmd_member current current_consts c (real_actions current_consts c None) false false "pipeline" ex1 =
  JArr [JObj [("$match", JObj [("ssn", JObj [("$in", JArr [JStr "R"; JStr "R"])])])];
        JObj [("$facet", JObj [("f", JArr [JObj [("$match", JObj [("name", JStr "R")])]])])];
        JObj [("$project", JObj [("x", JObj [("$or", JArr [JStr "R"; JStr "$a"])])])]].
Proof. vm_compute. reflexivity. Qed.

(* no bare-word entry at the top level of the tables that are consulted for every key: a user field is never
   exempted because of its NAME (obligation on the regenerated tables) *)
Theorem C01_no_bare_word_exemption : TablesOK.tables_ok_bare current = true.
Proof. vm_compute. reflexivity. Qed.
Print Assumptions C01_no_bare_word_exemption.

(* ---------- the places walked by the query walker: no condition on names ---------- *)
From Proofs Require Import QuerySurvivors.

(* For query / filter / sort / q / update / u documents and update / u / updates / deletes / documents arrays - everything
   except aggregation pipelines - the claim needs no "clear path" in terms of NAMES: the query walker and the array walker
   never call the pipeline walker, and what they keep is decided by two table lookups. [qcl] replays those lookups along
   the index path; where none of them answers "exempt" (and the leaf is not a $binary.subType) the output leaf is the
   strong verdict. A user field may be called type, path, index, subType, limit, ...: see the example. *)
Theorem C01_query_places_any_names : forall tb cs c A ins k v p leaf,
  re c = None -> qzone ins k v = true -> nodup_keys v ->
  jget v p = Some leaf -> is_leaf leaf -> qcl tb c (qstart v) v p = true ->
  exists d, strong cs c leaf d /\ jget (cmd_member tb cs c A false ins k v) p = Some (apply_verdict A d leaf).
Proof. intros tb cs c A ins k v p leaf H. exact (cmd_member_qcl tb cs c A H ins k v p leaf). Qed.
Print Assumptions C01_query_places_any_names.

(* ... and the lookups answer nothing for a user field: a key that is no entry of the core table, under a key path whose
   first key is no entry of the stage table, is never exempt (whatever the tables say about that NAME elsewhere) *)
Theorem C01_user_field_never_exempt : forall tb kp k,
  oget (Core tb) k = None ->
  (match (kp ++ [k])%list with x :: _ => oget (Agg tb) x = None | [] => True end) ->
  exempt_key tb kp k false = false.
Proof. exact exempt_key_user. Qed.
Print Assumptions C01_user_field_never_exempt.

(* non-vacuity: user fields named like operator arguments and keywords; every literal is on a qcl path and is replaced *)
Definition ex_names : json :=
  JObj [("type", JStr "S1"); ("path", JObj [("$in", JArr [JStr "S2"; JStr "S3"])]); ("index", JObj [("subType", JStr "S4"); ("limit", JStr "S5")]);
        ("$or", JArr [JObj [("from", JStr "S6")]; JObj [("as", JObj [("$ne", JStr "S7")])]])].
Example C01_any_names_example :
  let c := {| repl := "R"; nums := false; bools := false; ips := false; nss := false; eager := nil; re := None |} in
  forallb (qcl current c (qstart ex_names) ex_names) [[0]; [1; 0; 0]; [1; 0; 1]; [2; 0]; [2; 1]; [3; 0; 0]; [3; 1; 0; 0]] = true /\
  cmd_member current current_consts c (real_actions current_consts c None) false false "filter" ex_names =
  JObj [("type", JStr "R"); ("path", JObj [("$in", JArr [JStr "R"; JStr "R"])]); ("index", JObj [("subType", JStr "R"); ("limit", JStr "R")]);
        ("$or", JArr [JObj [("from", JStr "R")]; JObj [("as", JObj [("$ne", JStr "R")])]])].
Proof. vm_compute. split; reflexivity. Qed.

(* ---------- all three walkers: what survives is decided by the tables alone ---------- *)
From Proofs Require Import WalkSurvivors.

(* For EVERY query-bearing value of a command document, aggregation pipelines included, and any tables: [cmd_wcl] replays
   along the index path exactly the lookups the walkers make (getOp on the key path, the argument map of a map-typed
   operator, the core table in the query walker). Where none of them answers field-path / namespace / exempt (and no
   list-valued argument holds a non-list) the leaf found in the output is the strong verdict. No condition on NAMES: the
   name-based reading of C01_absent is the special case in which the lookups are bounded by "is named like a table entry". *)
Theorem C01_survivors_are_decided_by_the_tables : forall tb cs c A ins k v p leaf,
  re c = None -> zone_value ins k v = true -> nodup_keys v ->
  jget v p = Some leaf -> is_leaf leaf -> cmd_wcl tb c k v p = true ->
  exists d, strong cs c leaf d /\ jget (cmd_member tb cs c A false ins k v) p = Some (apply_verdict A d leaf).
Proof. intros tb cs c A ins k v p leaf H. exact (cmd_member_wcl tb cs c A H ins k v p leaf). Qed.
Print Assumptions C01_survivors_are_decided_by_the_tables.

(* the same for a walker in any mode (field-name switch off), Atlas Search stages included *)
Theorem C01_walkers_survivors : forall tb cs c A p t m leaf,
  re c = None -> wmode m -> nodup_keys t -> jget t p = Some leaf -> is_leaf leaf -> wcl tb c m t p = true -> p <> [] ->
  exists d, strong cs c leaf d /\ jget (walk tb cs c is_email A m t) p = Some (apply_verdict A d leaf).
Proof. intros tb cs c A p t m leaf H. exact (walk_wcl tb cs c is_email A H (List.length p) p t m leaf (le_n _)). Qed.
Print Assumptions C01_walkers_survivors.

(* non-vacuity: a pipeline whose user fields are named like operator arguments (index, path, type, limit, from, as) - name-based
   clear paths would exclude them; the lookups do not, and every literal is replaced, also inside $facet and a search stage *)
Definition ex_pipe_names : json :=
  JArr [JObj [("$match", JObj [("index", JStr "S1"); ("path", JObj [("$in", JArr [JStr "S2"])]); ("type", JObj [("limit", JStr "S3")])])];
        JObj [("$facet", JObj [("f", JArr [JObj [("$match", JObj [("from", JStr "S4")])]])])];
        JObj [("$search", JObj [("index", JStr "idx"); ("text", JObj [("query", JStr "S5"); ("path", JStr "title")])])]].
Example C01_tables_decide_example :
  let c := {| repl := "R"; nums := false; bools := false; ips := false; nss := false; eager := nil; re := None |} in
  forallb (cmd_wcl current c "pipeline" ex_pipe_names) [[0; 0; 0]; [0; 0; 1; 0; 0]; [0; 0; 2; 0]; [1; 0; 0; 0; 0; 0]; [2; 0; 1; 0]] = true /\
  cmd_wcl current c "pipeline" ex_pipe_names [2; 0; 0] = false /\ cmd_wcl current c "pipeline" ex_pipe_names [2; 0; 1; 1] = false /\
  clear current ex_pipe_names [0; 0; 0] = false /\
  cmd_member current current_consts c (real_actions current_consts c None) false false "pipeline" ex_pipe_names =
  JArr [JObj [("$match", JObj [("index", JStr "R"); ("path", JObj [("$in", JArr [JStr "R"])]); ("type", JObj [("limit", JStr "R")])])];
        JObj [("$facet", JObj [("f", JArr [JObj [("$match", JObj [("from", JStr "R")])]])])];
        JObj [("$search", JObj [("index", JStr "idx"); ("text", JObj [("query", JStr "R"); ("path", JStr "title")])])]].
Proof. vm_compute. repeat split; reflexivity. Qed.
