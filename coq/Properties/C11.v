(* C11 - key-file life cycle: create once, never overwrite, refuse unusable keys. *)
From Coq Require Import NArith List Ascii.
From Model Require Import Json Base64 KeyFile Cli.
From Proofs Require Import Base64Proofs KeyProofs.
Import ListNotations.

(* a valid key file is used and left byte-for-byte (and mode) untouched by any number of runs *)
Theorem C11_never_overwritten : forall content m k rnds,
  read_key content = Some k ->
  run_seq (KFile content m) rnds = KFile content m /\ forall r, snd (run_key (KFile content m) r) = KeyOk k.
Proof. exact valid_never_overwritten. Qed.
Print Assumptions C11_never_overwritten.

(* from an absent file: the first run stores base64 of the fresh 64 bytes with mode 0600, uses that
   key, and every later run reads back exactly the same key and leaves the file alone *)
Theorem C11_created_once : forall rnd rnds, key_ok rnd ->
  run_key KAbsent rnd = (KFile (b64_encode rnd) mode_0600, KeyOk rnd) /\
  run_seq KAbsent (rnd :: rnds) = KFile (b64_encode rnd) mode_0600 /\
  forall r, snd (run_key (KFile (b64_encode rnd) mode_0600) r) = KeyOk rnd.
Proof. exact created_once. Qed.
Print Assumptions C11_created_once.

(* an unusable key path (empty / short / long / not base64, a directory, unreadable, parent missing):
   every run fails, the state is never changed ... *)
Theorem C11_unusable_fails : forall st rnds, unusable st ->
  run_seq st rnds = st /\ forall r, run_key st r = (st, KeyFail).
Proof. exact unusable_fails. Qed.
Print Assumptions C11_unusable_fails.

(* ... and nothing is redacted *)
Theorem C11_no_output_without_key : forall (Out : Type) (redact : list N -> Out) (empty : Out) st r,
  unusable st -> encrypt_run redact empty st r = (st, (false, empty)).
Proof. intros Out. exact (@no_output_without_key Out). Qed.
Print Assumptions C11_no_output_without_key.

(* in the program order of main() the key-file step comes before any input is read *)
Theorem C11_key_before_input :
  exists pre post, main_steps = pre ++ [SEffect (fun f => f_encrypt f) EKeyFile] ++ post /\
                   Forall (fun s => match s with SEffect _ EReadInput | SEffect _ ENetwork => False | _ => True end) pre.
Proof.
  eexists (firstn 12 main_steps), (skipn 13 main_steps). split; [reflexivity|].
  cbv. repeat constructor.
Qed.
Print Assumptions C11_key_before_input.

(* a key file with a trailing newline is the same key *)
Theorem C11_trailing_newline : forall content, read_key (content ++ [ascii_of_N 10]) = read_key content.
Proof. intros. unfold read_key. now rewrite b64_decode_trailing_newline. Qed.
Print Assumptions C11_trailing_newline.

(* non-vacuity of the "unusable" cases *)
Example C11_examples : unusable (KFile [] 420%N) /\ unusable (KFile (b64_encode (repeat 1%N 63)) 420%N) /\
                       unusable (KFile (list_ascii_of_string "not base64!") 420%N) /\ unusable KDir.
Proof. repeat split; vm_compute; reflexivity. Qed.

(* ---------- the whole command (Model/Job.v: main.go's Run end to end) ---------- *)
From Coq Require Import String.
From Model Require Import Tables Walker Line Stream Atlas Job.
From Proofs Require Import JobProofs.

(* an unusable key: the run ends with status 1 right after the key step - nothing on standard output, the output file
   (created before the key step) holds nothing, the key path is exactly as it was *)
Theorem C11_job_unusable_key : forall tb cs a w m fs1,
  decide (flags_of a w) = CAccept m -> stage_out a w = Some fs1 ->
  a_encrypt a = true -> nonempty_s (a_keyfile a) = true ->
  unusable (kstate_of (fs1 (a_keyfile a))) ->
  job tb cs a w = fail fs1 /\
  (a_keyfile a <> a_out a -> j_fs (job tb cs a w) (a_keyfile a) = w_fs w (a_keyfile a)) /\
  dest a (job tb cs a w) = [].
Proof. exact job_key_unusable. Qed.
Print Assumptions C11_job_unusable_key.

(* no key file yet: base64 of the fresh bytes, mode 0600, is at the key path BEFORE the run proper starts, and the run
   encrypts under exactly those bytes *)
Theorem C11_job_key_created_first : forall tb cs a w m fs1,
  decide (flags_of a w) = CAccept m -> stage_out a w = Some fs1 ->
  a_encrypt a = true -> nonempty_s (a_keyfile a) = true ->
  fs1 (a_keyfile a) = FAbsent true ->
  stage_key a w fs1 = Some (upd fs1 (a_keyfile a) (FFile (b64_encode (w_rnd w)) mode_0600), Some (w_encrypt w (w_rnd w))) /\
  job tb cs a w = stage_run tb cs a w m (upd fs1 (a_keyfile a) (FFile (b64_encode (w_rnd w)) mode_0600)) (Some (w_encrypt w (w_rnd w))).
Proof. exact job_key_created. Qed.
Print Assumptions C11_job_key_created_first.

(* a valid key file is used and is, at the end of the run, byte for byte and mode for mode what it was *)
Theorem C11_job_valid_key_untouched : forall tb cs a w m fs1 content mode key,
  decide (flags_of a w) = CAccept m -> stage_out a w = Some fs1 ->
  a_encrypt a = true -> nonempty_s (a_keyfile a) = true ->
  fs1 (a_keyfile a) = FFile content mode -> read_key content = Some key ->
  a_keyfile a <> a_out a -> (forall i, a_keyfile a <> (a_out a ++ "." ++ dec_of_nat i)%string) ->
  j_fs (job tb cs a w) (a_keyfile a) = FFile content mode /\
  exists fs2, stage_key a w fs1 = Some (fs2, Some (w_encrypt w key)).
Proof. exact job_key_valid_untouched. Qed.
Print Assumptions C11_job_valid_key_untouched.
