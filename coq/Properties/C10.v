(* C10 - encryption is deterministic, injective, placeholder-equivalent and fail-closed. *)
From Coq Require Import String List.
From Model Require Import Json Tables Walker Line Email.
From Proofs Require Import JsonFacts WalkerRel LineRel RelCorollaries.
Import ListNotations.

(* Placeholder-mode and encrypt-mode outputs of the same line, for any tables, any flag set
   without field-name redaction and ANY encryption function: same shape, and at every leaf
   position either the two outputs are the same value, or placeholder mode emitted the class
   placeholder ph of a string s and encrypt mode emitted redactString(s, ph) - the ciphertext of
   that same s, or ph itself when encryption failed (fail closed: never s in clear by this path). *)
Theorem C10_modes : forall tb cs c f t p v,
  eager c = [] -> nodup_keys t -> jget t p = Some v -> is_leaf v ->
  exists op oe,
    jget (redact_tree tb cs c (real_actions cs c None) t) p = Some op /\
    jget (redact_tree tb cs c (real_actions cs c (Some f)) t) p = Some oe /\
    (oe = op \/
     exists s ph, v = JStr s /\ op = JStr ph /\
                  oe = JStr (match f s with Some ct => ct | None => ph end)).
Proof.
  intros tb cs c f t p v He Hn Hg Hl.
  destruct (rel3_jget cs c is_email _ _ _ _ _ (line_rel3 tb cs c (real_actions cs c None) (real_actions cs c (Some f)) t He Hn) p v Hg Hl)
    as (d & Hok & Hp & Hen).
  do 2 eexists. split; [exact Hp|]. split; [exact Hen|].
  destruct d; simpl in Hok |- *; try (left; destruct v; reflexivity).
  destruct Hok as (s & -> & _). right. exists s, ph. simpl. auto.
Qed.
Print Assumptions C10_modes.

Theorem C10_same_shape : forall tb cs c f t,
  eager c = [] -> nodup_keys t ->
  shape_of (redact_tree tb cs c (real_actions cs c (Some f)) t) = shape_of (redact_tree tb cs c (real_actions cs c None) t).
Proof.
  intros tb cs c f t He Hn.
  destruct (rel3_shape cs c is_email _ _ _ _ _ (line_rel3 tb cs c (real_actions cs c None) (real_actions cs c (Some f)) t He Hn)) as [E1 E2].
  now rewrite E1, E2.
Qed.
Print Assumptions C10_same_shape.

(* fail closed at the choke point: when Encrypt returns an error the placeholder is emitted *)
Theorem C10_fail_closed : forall f s ph, f s = None -> subst_with (Some f) s ph = ph.
Proof. intros f s ph H. unfold subst_with. now rewrite H. Qed.
Print Assumptions C10_fail_closed.

(* determinism and injectivity of the emitted ciphertext text follow from a decryptable encoding:
   if some decoder recovers s from f s for every s, equal outputs come from equal plaintexts *)
Theorem C10_injective : forall (f : string -> option string) (g : string -> option string),
  (forall s ct, f s = Some ct -> g ct = Some s) ->
  forall s1 s2 ct, f s1 = Some ct -> f s2 = Some ct -> s1 = s2.
Proof.
  intros f g H s1 s2 ct H1 H2. apply H in H1. apply H in H2. rewrite H1 in H2. now injection H2.
Qed.
Print Assumptions C10_injective.

(* ---------- field-name mode ---------- *)
From Proofs Require Import TableFacts Survivors SurvivorsLine RfnSim RfnLine.

(* The same comparison of the two modes when --redactFieldNames is active for the line, for every query-bearing
   value of a command document: on clear index paths (field-path / namespace / exempt arguments are where the
   field-name mode differs by design) and for leaves that are not '$field' references. The action sets of both
   modes use the same pseudonym function, so [sib_ok] is one premise. *)
Theorem C10_modes_fieldname_mode : forall tb cs c f ins k v p leaf,
  re c = None -> nodup_keys v -> sib_ok (real_actions cs c None) v ->
  jget v p = Some leaf -> is_leaf leaf -> nd leaf -> clear tb v p = true ->
  exists op oe,
    jget (cmd_member tb cs c (real_actions cs c None) true ins k v) p = Some op /\
    jget (cmd_member tb cs c (real_actions cs c (Some f)) true ins k v) p = Some oe /\
    (oe = op \/
     exists s ph, leaf = JStr s /\ op = JStr ph /\
                  oe = JStr (match f s with Some ct => ct | None => ph end)).
Proof.
  intros tb cs c f ins k v p leaf Hre Hn Hs Hg Hl Hd Hc.
  destruct (cmd_member_rfn_rel tb cs c (real_actions cs c None) (real_actions cs c (Some f)) Hre ins k v p leaf Hn Hs Hs Hg Hl Hd Hc)
    as (d & Hok & Hp & Hen).
  do 2 eexists. split; [exact Hp|]. split; [exact Hen|].
  destruct d; simpl in Hok |- *; try (left; destruct leaf; reflexivity).
  destruct Hok as (s & -> & _). right. exists s, ph. simpl. auto.
Qed.
Print Assumptions C10_modes_fieldname_mode.

(* ---------- the whole command (Model/Job.v: main.go's Run end to end) ---------- *)
From Coq Require Import NArith.
From Model Require Import Stream Base64 KeyFile Cli Atlas Job.
From Proofs Require Import JobProofs.

(* an accepted local job, encryption included: when the output can be created, the key step succeeds with the string action [enc], the
   input channel delivers [data] and the writes are accepted, the run ends with status 0 and leaves exactly [stream enc data] - the
   placeholder-mode stream when [enc] is None, the encrypt-mode stream under the key of the key file otherwise - at its destination *)
Theorem C10_job_output : forall tb cs a w m fs1 fs2 enc data bar,
  decide (flags_of a w) = CAccept m -> m <> MAtlas ->
  stage_out a w = Some fs1 -> stage_key a w fs1 = Some (fs2, enc) ->
  (nonempty_s (a_out a) = true -> a_encrypt a && nonempty_s (a_keyfile a) = true -> a_keyfile a <> a_out a) ->
  local_input a w m fs2 = Some (data, REof, bar) ->
  (forall i, w_writer w i = Accept) -> snd (scan data REof) = SOk ->
  j_status (job tb cs a w) = Exit0 /\ dest a (job tb cs a w) = stream tb cs (a_cfg a) enc data.
Proof. exact job_local_output_gen. Qed.
Print Assumptions C10_job_output.

(* "with one key file, equal plaintexts give equal ciphertexts across lines, files and separate runs": the bytes an encrypting run leaves
   are a function of the key in the key FILE, the configuration and the data - two runs (other processes, other directories, other
   channels) whose key files hold the same key produce the same bytes *)
Theorem C10_job_deterministic_across_runs : forall tb cs a1 w1 m1 a2 w2 m2 f1 f2 g1 g2 c1 mo1 c2 mo2 key data b1 b2,
  decide (flags_of a1 w1) = CAccept m1 -> m1 <> MAtlas -> decide (flags_of a2 w2) = CAccept m2 -> m2 <> MAtlas ->
  stage_out a1 w1 = Some f1 -> stage_out a2 w2 = Some f2 ->
  a_encrypt a1 = true -> a_encrypt a2 = true -> nonempty_s (a_keyfile a1) = true -> nonempty_s (a_keyfile a2) = true ->
  f1 (a_keyfile a1) = FFile c1 mo1 -> f2 (a_keyfile a2) = FFile c2 mo2 -> read_key c1 = Some key -> read_key c2 = Some key ->
  a_keyfile a1 <> a_out a1 -> a_keyfile a2 <> a_out a2 ->
  stage_key a1 w1 f1 = Some (g1, Some (w_encrypt w1 key)) -> stage_key a2 w2 f2 = Some (g2, Some (w_encrypt w2 key)) ->
  w_encrypt w1 key = w_encrypt w2 key -> a_cfg a1 = a_cfg a2 ->
  local_input a1 w1 m1 g1 = Some (data, REof, b1) -> local_input a2 w2 m2 g2 = Some (data, REof, b2) ->
  (forall i, w_writer w1 i = Accept) -> (forall i, w_writer w2 i = Accept) -> snd (scan data REof) = SOk ->
  dest a1 (job tb cs a1 w1) = dest a2 (job tb cs a2 w2).
Proof. exact job_encrypt_deterministic. Qed.
Print Assumptions C10_job_deterministic_across_runs.
