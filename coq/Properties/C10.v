(* C10 - encryption is deterministic, injective, placeholder-equivalent and fail-closed. *)
From Coq Require Import String List.
From Model Require Import Json Tables Walker Line Email.
From Proofs Require Import JsonFacts WalkerRel LineRel RelCorollaries.
Import ListNotations.

(* Placeholder-mode and encrypt-mode outputs of the same line, for any tables, any flag set
   without field-name redaction and ANY encryption function: same shape, and at every leaf
   position either the two outputs are the same value, or placeholder mode emitted the class
   placeholder ph of a string s and encrypt mode emitted redactString(s, ph) - the ciphertext of
   that same s, or ph itself when encryption failed (fail closed: never s in clear by this path). *)
Theorem C10_modes : forall tb cs c f t p v,
  eager c = [] -> nodup_keys t -> jget t p = Some v -> is_leaf v ->
  exists op oe,
    jget (redact_tree tb cs c (real_actions cs c None) t) p = Some op /\
    jget (redact_tree tb cs c (real_actions cs c (Some f)) t) p = Some oe /\
    (oe = op \/
     exists s ph, v = JStr s /\ op = JStr ph /\
                  oe = JStr (match f s with Some ct => ct | None => ph end)).
Proof.
  intros tb cs c f t p v He Hn Hg Hl.
  destruct (rel3_jget cs c is_email _ _ _ _ _ (line_rel3 tb cs c (real_actions cs c None) (real_actions cs c (Some f)) t He Hn) p v Hg Hl)
    as (d & Hok & Hp & Hen).
  do 2 eexists. split; [exact Hp|]. split; [exact Hen|].
  destruct d; simpl in Hok |- *; try (left; destruct v; reflexivity).
  destruct Hok as (s & -> & _). right. exists s, ph. simpl. auto.
Qed.
Print Assumptions C10_modes.

Theorem C10_same_shape : forall tb cs c f t,
  eager c = [] -> nodup_keys t ->
  shape_of (redact_tree tb cs c (real_actions cs c (Some f)) t) = shape_of (redact_tree tb cs c (real_actions cs c None) t).
Proof.
  intros tb cs c f t He Hn.
  destruct (rel3_shape cs c is_email _ _ _ _ _ (line_rel3 tb cs c (real_actions cs c None) (real_actions cs c (Some f)) t He Hn)) as [E1 E2].
  now rewrite E1, E2.
Qed.
Print Assumptions C10_same_shape.

(* fail closed at the choke point: when Encrypt returns an error the placeholder is emitted *)
Theorem C10_fail_closed : forall f s ph, f s = None -> subst_with (Some f) s ph = ph.
Proof. intros f s ph H. unfold subst_with. now rewrite H. Qed.
Print Assumptions C10_fail_closed.

(* determinism and injectivity of the emitted ciphertext text follow from a decryptable encoding:
   if some decoder recovers s from f s for every s, equal outputs come from equal plaintexts *)
Theorem C10_injective : forall (f : string -> option string) (g : string -> option string),
  (forall s ct, f s = Some ct -> g ct = Some s) ->
  forall s1 s2 ct, f s1 = Some ct -> f s2 = Some ct -> s1 = s2.
Proof.
  intros f g H s1 s2 ct H1 H2. apply H in H1. apply H in H2. rewrite H1 in H2. now injection H2.
Qed.
Print Assumptions C10_injective.

(* ---------- field-name mode ---------- *)
From Proofs Require Import TableFacts Survivors SurvivorsLine RfnSim RfnLine.

(* The same comparison of the two modes when --redactFieldNames is active for the line, for every query-bearing
   value of a command document: on clear index paths (field-path / namespace / exempt arguments are where the
   field-name mode differs by design) and for leaves that are not '$field' references. The action sets of both
   modes use the same pseudonym function, so [sib_ok] is one premise. *)
Theorem C10_modes_fieldname_mode : forall tb cs c f ins k v p leaf,
  re c = None -> nodup_keys v -> sib_ok (real_actions cs c None) v ->
  jget v p = Some leaf -> is_leaf leaf -> nd leaf -> clear tb v p = true ->
  exists op oe,
    jget (cmd_member tb cs c (real_actions cs c None) true ins k v) p = Some op /\
    jget (cmd_member tb cs c (real_actions cs c (Some f)) true ins k v) p = Some oe /\
    (oe = op \/
     exists s ph, leaf = JStr s /\ op = JStr ph /\
                  oe = JStr (match f s with Some ct => ct | None => ph end)).
Proof.
  intros tb cs c f ins k v p leaf Hre Hn Hs Hg Hl Hd Hc.
  destruct (cmd_member_rfn_rel tb cs c (real_actions cs c None) (real_actions cs c (Some f)) Hre ins k v p leaf Hn Hs Hs Hg Hl Hd Hc)
    as (d & Hok & Hp & Hen).
  do 2 eexists. split; [exact Hp|]. split; [exact Hen|].
  destruct d; simpl in Hok |- *; try (left; destruct leaf; reflexivity).
  destruct Hok as (s & -> & _). right. exists s, ph. simpl. auto.
Qed.
Print Assumptions C10_modes_fieldname_mode.
