(* C12 - namespace pseudonymisation is complete, consistent and confined. *)
From Coq Require Import String List Bool.
From Model Require Import Json Tables Walker Line Hash Email.
From Proofs Require Import JsonFacts NsProofs Frame HashProofs.
From Spec Require Import TablesOK.
From Gen Require Import Tables Consts.
Import ListNotations.
Open Scope string_scope.

(* attr.ns, on every line that has one (no command document needed) *)
Theorem C12_attr_ns : forall tb cs c A g rfn s, nss c = true ->
  attr_member tb cs c A g rfn "ns" (JStr s) = JStr (a_hash A s).
Proof. exact attr_ns_hashed. Qed.
Print Assumptions C12_attr_ns.

(* the collection named by the command verb, $db, getMore's collection, ns - in command, cmd and originatingCommand alike *)
Theorem C12_command_keys : forall tb cs c A rfn cmd i k s,
  nss c = true -> nth_error cmd i = Some (k, JStr s) -> key_in k ns_fields = true ->
  nth_error (redact_command tb cs c A rfn cmd) i = Some (k, JStr (a_hash A s)).
Proof. exact command_ns_hashed. Qed.
Print Assumptions C12_command_keys.

(* WHICH members those are is not written in the model: redactNamespace's list is measured on the compiled program on every run (one probe line per
   string literal of the sources, Gen/Probed.v) and held against the specification side (Spec/NsFields.v): every member the property text lists is
   in it (completeness), and it holds nothing but members of MongoDB commands that name a collection, a database or a namespace (confinement:
   nothing else in the line may differ from the run without the flag). *)
From Spec Require Import NsFields.
From Proofs Require Import NsFieldsOK.
Theorem C12_ns_fields_regenerated : ns_fields_ok ns_fields = true.
Proof. exact ns_fields_ok_now. Qed.
Print Assumptions C12_ns_fields_regenerated.

(* hence, for the program as compiled now: the collection named by any declared verb, $db and getMore's collection are pseudonymised where they stand *)
Theorem C12_declared_verbs : forall tb cs c A rfn cmd i k s,
  nss c = true -> In k ns_required -> nth_error cmd i = Some (k, JStr s) ->
  nth_error (redact_command tb cs c A rfn cmd) i = Some (k, JStr (a_hash A s)).
Proof. exact declared_verbs_hashed. Qed.
Print Assumptions C12_declared_verbs.

(* and a command member whose name is no namespace-bearing member of a MongoDB command is never changed by the flag *)
Theorem C12_only_namespace_members : forall k, key_in k ns_sanctioned = false -> key_in k ns_fields = false.
Proof. exact ns_fields_sanctioned. Qed.
Print Assumptions C12_only_namespace_members.

(* Namespace-typed stage arguments: the string form and the {db, coll} document form *)
Theorem C12_stage_argument : forall tb cs c A W rfn kp search k v,
  p_op tb c kp k search v = Some (MT Namespace) ->
  snd (p_member tb cs c is_email A W rfn kp search k v) = if nss c then ns_value A v else v.
Proof. exact p_member_namespace. Qed.
Print Assumptions C12_stage_argument.

Theorem C12_stage_argument_doc : forall A l, NoDup (map fst l) ->
  ns_value A (JObj l) = JObj (map (fun kv => (fst kv, match snd kv with JStr s => JStr (a_hash A s) | x => x end)) l).
Proof. exact ns_value_doc. Qed.
Print Assumptions C12_stage_argument_doc.

(* consistency: everywhere the SAME function of the name is used, and it maps 'db.coll' to 'P(db).P(coll)' *)
Theorem C12_consistent : forall cs c enc, a_hash (real_actions cs c enc) = hash_name (repl c).
Proof. reflexivity. Qed.
Print Assumptions C12_consistent.

Theorem C12_componentwise : forall r db coll,
  dot_free db -> dot_free coll -> starts_with_dollar (String.concat "." [db; coll]) = false ->
  hash_name r (String.concat "." [db; coll]) = String.concat "." [pseudo r db; pseudo r coll].
Proof. intros r db coll H1 H2 H3. apply (hash_componentwise r [db; coll]); [discriminate | repeat constructor; assumption | exact H3]. Qed.
Print Assumptions C12_componentwise.

(* confinement outside the walkers: with the flag off nothing namespace-related happens; keys that are
   not namespace-bearing are untouched by the namespace step *)
Theorem C12_confined_attr : forall tb cs c A g rfn v, nss c = false -> attr_member tb cs c A g rfn "ns" v = v.
Proof. exact attr_ns_kept. Qed.
Print Assumptions C12_confined_attr.

Theorem C12_confined_command : forall tb cs c A rfn cmd i k v,
  nth_error cmd i = Some (k, v) -> key_in k cmd_zone_keys = false -> key_in k ns_fields = false ->
  nth_error (redact_command tb cs c A rfn cmd) i = Some (k, v).
Proof. intros. eapply command_member_frame; eauto. Qed.
Print Assumptions C12_confined_command.

(* the regenerated tables type exactly $lookup.from, $graphLookup.from, $unionWith.coll, $merge.into, $out.{db,coll} as namespaces *)
Theorem C12_tables_ns : tables_ok_ns current = true.
Proof. vm_compute. reflexivity. Qed.
Print Assumptions C12_tables_ns.

(* ---------- confinement inside the walkers, all positions ---------- *)
From Proofs Require Import WalkerRel RelCorollaries NsConfine.

(* switching the flag off is the same as keeping it on with the identity as pseudonym function:
   the walkers consult the flag only where they call that function (any tables, any mode,
   field-name mode off) *)
Theorem C12_flag_is_the_hash : forall tb cs c A t m,
  mode_rfn m = false -> nodup_keys t ->
  walk tb cs (set_nss c false) is_email A m t = walk tb cs (set_nss c true) is_email (with_hash A (fun s => s)) m t.
Proof. intros tb cs c A t m. exact (walk_nss_off tb cs c is_email A t m). Qed.
Print Assumptions C12_flag_is_the_hash.

(* hence, at EVERY leaf position of every tree and for every walker: the outputs with the flag on
   and off are equal, or the input leaf is a string s at a namespace position and the outputs are
   the pseudonym of s (flag on) and s itself (flag off) *)
Theorem C12_confined_walkers : forall tb cs c A t m p v,
  mode_rfn m = false -> nodup_keys t -> jget t p = Some v -> is_leaf v ->
  jget (walk tb cs (set_nss c true) is_email A m t) p = jget (walk tb cs (set_nss c false) is_email A m t) p \/
  exists s, v = JStr s /\
    jget (walk tb cs (set_nss c true) is_email A m t) p = Some (JStr (a_hash A s)) /\
    jget (walk tb cs (set_nss c false) is_email A m t) p = Some (JStr s).
Proof.
  intros tb cs c A t m p v Hm Hn Hg Hl.
  pose proof (walk_nss_confined tb cs c is_email A t m Hm Hn) as Hrel.
  destruct (rel3_jget cs (set_nss c true) is_email A (with_hash A (fun s => s)) _ _ _ Hrel p v Hg Hl) as (d & Hok & Ha & Hb).
  rewrite Ha, Hb. destruct d as [| ph | | | | | k]; try (left; destruct v; reflexivity).
  simpl in Hok. destruct Hok as (_ & s & ->). right. exists s. auto.
Qed.
Print Assumptions C12_confined_walkers.

(* ---------- where the full statement fails on the faithful model (known findings F16a, F16b) ---------- *)
(* "Each name is always replaced by the same pseudonym": the model - like the code - replaces a collection named in a
   NESTED sub-pipeline, and the string form of $out, by the generic placeholder instead. The witness, replayed on the
   implementation, is the finding (known_findings.json); the theorems above therefore speak about first-level stages. *)
From Gen Require Import Tables Consts.
Theorem C12_nested_and_string_forms_refuted :
  let c := {| repl := "REDACTED"; nums := false; bools := false; ips := false; nss := true; eager := []; re := None |} in
  exists v p q s,
    jget v p = Some (JStr "orders") /\ jget v q = Some (JStr "orders") /\ jget v s = Some (JStr "orders") /\
    let out := cmd_member current current_consts c (real_actions current_consts c None) false false "pipeline" v in
    jget out p = Some (JStr (Hash.hash_name "REDACTED" "orders")) /\
    jget out q = Some (JStr "REDACTED") /\ jget out s = Some (JStr "REDACTED").
Proof.
  exists (JArr [JObj [("$lookup", JObj [("from", JStr "orders"); ("pipeline", JArr [JObj [("$lookup", JObj [("from", JStr "orders"); ("as", JStr "j")])]]); ("as", JStr "k")])];
                JObj [("$out", JStr "orders")]]), [0; 0; 0], [0; 0; 1; 0; 0; 0], [1; 0].
  vm_compute. repeat split; reflexivity.
Qed.
Print Assumptions C12_nested_and_string_forms_refuted.
