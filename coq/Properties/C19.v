(* C19 - redacted output is a fixed point of redaction. *)
From Coq Require Import String List.
From Model Require Import Json Tables Walker Line Email.
From Proofs Require Import JsonFacts IdemProofs.
From Spec Require Import TablesOK.
From Gen Require Import Tables Consts.
Import ListNotations.

(* every placeholder is recognised as a member of its own class: the scalar step applied to its own
   output, at the same place, returns it unchanged - for any tables, flags and key path *)
Theorem C19_scalar_idem : forall tb cs c A init lst v search sel,
  (forall s ph, a_str A s ph = ph) -> (forall n, a_num A n = c_num cs) -> (forall b, a_bool A b = c_bool cs) ->
  is_email (c_email cs) = true -> is_email (repl c) = false -> is_leaf v ->
  scalar tb cs c is_email A init lst (scalar tb cs c is_email A init lst v search sel) search sel =
  scalar tb cs c is_email A init lst v search sel.
Proof. intros tb cs c A init lst v search sel H1 H2 H3 H4 H5. exact (scalar_idem tb cs c is_email A H1 H2 H3 H4 H5 init lst v search sel). Qed.
Print Assumptions C19_scalar_idem.

(* the regenerated constants satisfy the class conditions used above *)
Theorem C19_consts : consts_ok current_consts RedactedString = true.
Proof. vm_compute. reflexivity. Qed.
Print Assumptions C19_consts.

(* ---------- tree level ---------- *)
From Proofs Require Import WalkerRel WalkerIdem LineIdem.

(* every walker, in every mode it can be called in, on every tree without duplicate sibling keys:
   a second pass changes nothing. ANY tables; placeholder-mode actions; no regexp, no namespace
   pseudonymisation, field-name mode off; replacement text not e-mail shaped. *)
Theorem C19_walkers : forall tb cs c A t m,
  (forall s ph, a_str A s ph = ph) -> (forall n, a_num A n = c_num cs) -> (forall b, a_bool A b = c_bool cs) ->
  is_email (c_email cs) = true -> is_email (repl c) = false -> re c = None -> nss c = false ->
  mode_rfn m = false -> nodup_keys t ->
  walk tb cs c is_email A m (walk tb cs c is_email A m t) = walk tb cs c is_email A m t.
Proof. intros tb cs c A t m H1 H2 H3 H4 H5 H6 H7. exact (walk_idem tb cs c is_email A H1 H2 H3 H4 H5 H6 H7 t m). Qed.
Print Assumptions C19_walkers.

(* whole log entries (gate, attr members, command dispatch, IP placeholder), any tables *)
Theorem C19_entry : forall tb cs c e,
  is_email (c_email cs) = true -> is_email (repl c) = false -> re c = None -> nss c = false -> eager c = [] ->
  nodup_keys (JObj e) ->
  let A := real_actions cs c None in
  redact_entry tb cs c A (redact_entry tb cs c A e) = redact_entry tb cs c A e.
Proof.
  intros tb cs c e H4 H5 H6 H7 H8 Hn A.
  apply (redact_entry_idem tb cs c A); auto.
Qed.
Print Assumptions C19_entry.

(* the program as it is now: regenerated tables and constants, every flag combination of
   --redactNumbers / --redactBooleans / --redactIPs / --replacement (not e-mail shaped) *)
Theorem C19_current : forall rp n b i t,
  is_email rp = false -> nodup_keys t ->
  let c := {| repl := rp; nums := n; bools := b; ips := i; nss := false; eager := []; re := None |} in
  let R := redact_tree current current_consts c (real_actions current_consts c None) in
  R (R t) = R t.
Proof.
  intros rp n b i t Hr Hn c R. apply (redact_tree_idem current current_consts c (real_actions current_consts c None)); auto.
Qed.
Print Assumptions C19_current.

(* non-vacuity: a tree that the first pass really changes *)
Open Scope string_scope.
Example C19_nonvacuous :
  let c := {| repl := "REDACTED"; nums := true; bools := false; ips := false; nss := false; eager := []; re := None |} in
  let R := redact_tree current current_consts c (real_actions current_consts c None) in
  let t := JObj [("c", JStr "COMMAND"); ("attr", JObj [("command", JObj [("find", JStr "x"); ("filter", JObj [("a", JStr "s@t.co"); ("n", JNum "5")])])])] in
  R t <> t /\ R (R t) = R t.
Proof. vm_compute. split; [discriminate | reflexivity]. Qed.

(* ---------- text level: the emitted line is a fixed point ---------- *)
From Model Require Import JsonText.
From Proofs Require Import Utf8Facts StrCodec Codec ParseWf TextLevel.

(* For the regenerated tables and constants, every combination of --redactNumbers /
   --redactBooleans / --redactIPs and every replacement text that is valid UTF-8 and not e-mail
   shaped: a line the tool emits, fed back, is emitted again byte for byte. *)
Theorem C19_line_fixed_point : forall rp n b i l o,
  is_email rp = false -> valid_string rp ->
  let c := {| repl := rp; nums := n; bools := b; ips := i; nss := false; eager := []; re := None |} in
  redact_line current current_consts c None l = Out o ->
  redact_line current current_consts c None o = Out o.
Proof.
  intros rp n b i l o Hr Hv c H.
  assert (Hc : valid_string (c_isodate current_consts) /\ valid_string (c_oid current_consts) /\ valid_string (c_uuid current_consts) /\
               valid_string (c_email current_consts) /\ valid_string (repl c)).
  { repeat split; try (apply all_ascii_valid; vm_compute; reflexivity). exact Hv. }
  destruct (emitted_parses_back current current_consts c None eq_refl Hc ltac:(discriminate)
              (fun s => hash_name_valid (repl c) s Hv) l o H) as (t & Ep & Eo & _).
  pose proof H as H0. unfold redact_line in H0. rewrite Ep in H0.
  destruct (printable (redact_tree current current_consts c (real_actions current_consts c None) t)) eqn:Hpr; [|discriminate].
  injection H0 as Ho.
  destruct (parse_line_wfp l t Ep) as [Hn _].
  pose proof (C19_current rp n b i t Hr Hn) as Hfix. cbv zeta in Hfix. fold c in Hfix.
  unfold redact_line. rewrite Eo. rewrite Hfix, Hpr. now rewrite Ho.
Qed.
Print Assumptions C19_line_fixed_point.

(* ---------- where the fixed point ends: the stream level (finding F34) ---------- *)
From Coq Require Import NArith.
From Model Require Import Stream.
From Proofs Require Import StreamProofs.

(* every single line is a fixed point (C19_line_fixed_point); a log is not always one. Redaction can lengthen a line - every short string grows to
   the replacement text - and when an emitted line o reaches the reader's limit, a second pass over the output stops at it with the explicit error:
   after the block A of lines before it nothing more is delivered. The full statement "redact (redact x) = redact x" for whole logs is therefore
   false of the faithful model exactly for such lines; the implementation shows the same (36,184 bytes in, 99,184 bytes out, second run: exit 1). *)
Theorem C19_second_pass_stops_at_a_grown_line : forall A o B e,
  block_ok A -> ~ In nl o -> (max_token <= len_N o)%N ->
  snd (scan (A ++ o ++ nl :: B) e) = STooLong /\ fst (scan (A ++ o ++ nl :: B) e) = fst (scan A REof).
Proof. exact toolong_after_block. Qed.
Print Assumptions C19_second_pass_stops_at_a_grown_line.

(* ---------- the whole log: what a second pass over an output file does ---------- *)
From Proofs Require Import StreamIdem.

(* The property as it is worded - "feeding a placeholder-mode output file back through the tool reproduces it byte for byte" - for every input
   text, every combination of --redactNumbers / --redactBooleans / --redactIPs and every replacement text that is valid UTF-8 and not e-mail
   shaped, on the regenerated tables: a fault-free second pass over the output of a fault-free pass EITHER stops with the explicit too-long error
   (a line grew past the reader's limit, the case of the theorem above: F34) OR succeeds and writes exactly the bytes it read. Nothing else can
   happen: no line is dropped, reordered, merged or re-redacted. *)
Theorem C19_log_second_pass : forall rp n b i data,
  is_email rp = false -> valid_string rp ->
  let c := {| repl := rp; nums := n; bools := b; ips := i; nss := false; eager := []; re := None |} in
  let out := stream current current_consts c None data in
  snd (scan out REof) = STooLong
  \/ run_io current current_consts c None out REof (fun _ => Accept) None = (ROk, out).
Proof.
  intros rp n b i data Hr Hv c out. subst out.
  apply second_pass. intros l o H. exact (C19_line_fixed_point rp n b i l o Hr Hv H).
Qed.
Print Assumptions C19_log_second_pass.

(* hence redact (redact x) = redact x for every log none of whose redacted lines reaches the reader's limit - a condition on the OUTPUT that
   can be read off it (for the measured limit: every line shorter than max_token bytes, newline included) *)
Theorem C19_log_fixed_point : forall rp n b i data,
  is_email rp = false -> valid_string rp ->
  let c := {| repl := rp; nums := n; bools := b; ips := i; nss := false; eager := []; re := None |} in
  Forall (fun o => (len_N o + 1 <= max_token)%N) (outs current current_consts c None (fst (scan data REof))) ->
  stream current current_consts c None (stream current current_consts c None data) = stream current current_consts c None data.
Proof.
  intros rp n b i data Hr Hv c F.
  apply stream_fixed_point_short; [|exact F]. intros l o H. exact (C19_line_fixed_point rp n b i l o Hr Hv H).
Qed.
Print Assumptions C19_log_fixed_point.

(* non-vacuity: a two-line log (the second line is not JSON and vanishes) whose first pass changes it and whose second pass changes nothing *)
Example C19_log_nonvacuous :
  let c := {| repl := "REDACTED"; nums := true; bools := false; ips := false; nss := false; eager := []; re := None |} in
  let S := stream current current_consts c None in
  let x := list_ascii_of_string ("{""c"":""COMMAND"",""attr"":{""command"":{""find"":""x"",""filter"":{""a"":""s@t.co"",""n"":5}}}}" ++ String (ascii_of_N 10) "legacy text" ++ String (ascii_of_N 10) "") in
  S x <> x /\ S x <> [] /\ S (S x) = S x.
Proof. vm_compute. repeat split; discriminate. Qed.

(* ---------- the whole command ---------- *)
From Coq Require Import ZArith.
From Model Require Import Cli Atlas KeyFile Job.
From Proofs Require Import JobProofs JobIdem.

(* main.go's Run end to end (Job.v): an accepted plain local run - placeholder mode, the value flags and replacement of C19_line_fixed_point -
   whose input channel (file, gzip file or stdin) delivers the OUTPUT of a fault-free pass under the same configuration, with an output that can
   be created and accepts its writes: status 0 and exactly the bytes read at the destination (standard output or --outputFile), or status 1
   with a line of that output at the reader's limit. *)
Theorem C19_job_second_run : forall a w m data bar,
  plain_local a w m ->
  is_email (repl (a_cfg a)) = false -> valid_string (repl (a_cfg a)) ->
  nss (a_cfg a) = false -> eager (a_cfg a) = [] -> re (a_cfg a) = None ->
  let out := stream current current_consts (a_cfg a) None data in
  (forall fs1, stage_out a w = Some fs1 -> local_input a w m fs1 = Some (out, REof, bar)) ->
  (j_status (job current current_consts a w) = Exit0 /\ dest a (job current current_consts a w) = out)
  \/ (j_status (job current current_consts a w) = Exit1 /\ snd (scan out REof) = STooLong).
Proof.
  intros a w m data bar Hpl Hr Hv Hn He Hre out Hin. subst out.
  apply (job_second_run current current_consts a w m data bar Hpl); [|exact Hin].
  destruct (a_cfg a) as [rp n b i ns eg rx]. cbn [repl nss eager re] in *. subst ns eg rx.
  intros l o H. exact (C19_line_fixed_point rp n b i l o Hr Hv H).
Qed.
Print Assumptions C19_job_second_run.
