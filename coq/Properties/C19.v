(* C19 - redacted output is a fixed point of redaction. *)
From Coq Require Import String List.
From Model Require Import Json Tables Walker Line Email.
From Proofs Require Import JsonFacts IdemProofs.
From Spec Require Import TablesOK.
From Gen Require Import Tables Consts.
Import ListNotations.

(* every placeholder is recognised as a member of its own class: the scalar step applied to its own
   output, at the same place, returns it unchanged - for any tables, flags and key path *)
Theorem C19_scalar_idem : forall tb cs c A init lst v search sel,
  (forall s ph, a_str A s ph = ph) -> (forall n, a_num A n = c_num cs) -> (forall b, a_bool A b = c_bool cs) ->
  is_email (c_email cs) = true -> is_email (repl c) = false -> is_leaf v ->
  scalar tb cs c is_email A init lst (scalar tb cs c is_email A init lst v search sel) search sel =
  scalar tb cs c is_email A init lst v search sel.
Proof. intros tb cs c A init lst v search sel H1 H2 H3 H4 H5. exact (scalar_idem tb cs c is_email A H1 H2 H3 H4 H5 init lst v search sel). Qed.
Print Assumptions C19_scalar_idem.

(* the regenerated constants satisfy the class conditions used above *)
Theorem C19_consts : consts_ok current_consts RedactedString = true.
Proof. vm_compute. reflexivity. Qed.
Print Assumptions C19_consts.
