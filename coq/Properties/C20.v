(* C20 - the Atlas private key never leaves the process except as a digest response. *)
From Coq Require Import List.
From Model Require Import Atlas.
From Proofs Require Import AtlasProofs.
Import ListNotations.

(* the artefacts of a run (request lines, headers, progress and error messages quoting status, URL and
   server text), as the atoms they are built from: for every number of hosts, with or without a
   challenge, on success and for a failure at any host - the private key is in none of them *)
Theorem C20_priv_never_in_artefacts : forall challenge n fail, ~ In APriv (run_atoms challenge n fail).
Proof. exact priv_never_in_artefacts. Qed.
Print Assumptions C20_priv_never_in_artefacts.

(* without a challenge from the server no credential material is sent at all *)
Theorem C20_no_challenge_no_credentials : forall n fail,
  ~ In APub (run_atoms false n fail) /\ ~ In ADigestResponse (run_atoms false n fail).
Proof. exact no_challenge_no_credentials. Qed.
Print Assumptions C20_no_challenge_no_credentials.

(* everything that can occur *)
Theorem C20_atoms : forall a challenge n fail, In a (run_atoms challenge n fail) ->
  a = AProj \/ a = ANum \/ a = ACluster \/ a = AServerText \/ (exists i, a = AHost i) \/ (challenge = true /\ (a = APub \/ a = ADigestResponse)).
Proof. exact in_run. Qed.
Print Assumptions C20_atoms.
