(* C02 - output is independent of the redacted values (non-interference). *)
From Coq Require Import String List.
From Model Require Import Json Tables Walker Line Email JsonText.
From Proofs Require Import JsonFacts TableFacts WalkerRel Survivors SurvivorsLine NonInterference NILine.
From Spec Require Import Exempt.
From Gen Require Import Tables Consts.
Import ListNotations.
Open Scope string_scope.

(* Two-run hyperproperty, for ANY tables without an exempt empty key, any flags outside the
   selective mode - field-name redaction (--redactFieldNames) on or off, for any configured prefixes -
   and any leaf actions whose string / number / boolean
   result does not depend on the original value (placeholder mode): two log entries that pass the
   gate and are related by [entry_sim] - identical except, inside the query-bearing values of their
   command documents, for the CONTENTS of leaves on clear paths, each leaf keeping its lexical class
   (string not starting with '$' with the same e-mail-shape bit; any number under --redactNumbers;
   any boolean under --redactBooleans) - are mapped to the SAME output entry. *)
Theorem C02_noninterference : forall tb cs c A e e',
  re c = None -> ~ In ("", Exempt) (all_entries tb) ->
  (forall s s' ph, a_str A s ph = a_str A s' ph) -> (forall n n', a_num A n = a_num A n') -> (forall b b', a_bool A b = a_bool A b') ->
  gate e = true -> entry_sim tb c e e' ->
  redact_entry tb cs c A e = redact_entry tb cs c A e'.
Proof. intros tb cs c A e e' H1 H2 H4 H5 H6. exact (redact_entry_ni tb cs c A H1 H2 H4 H5 H6 e e'). Qed.
Print Assumptions C02_noninterference.

(* the placeholder-mode actions of the tool satisfy the independence hypotheses, so the emitted
   BYTES are identical (printing is a function of the tree) *)
Theorem C02_bytes : forall tb cs c e e',
  re c = None -> ~ In ("", Exempt) (all_entries tb) -> gate e = true -> entry_sim tb c e e' ->
  print (redact_tree tb cs c (real_actions cs c None) (JObj e)) = print (redact_tree tb cs c (real_actions cs c None) (JObj e')).
Proof.
  intros tb cs c e e' H1 H2 Hg Hs. cbn [redact_tree]. f_equal. f_equal.
  apply C02_noninterference; auto.
Qed.
Print Assumptions C02_bytes.

(* the walker-level statement, for every mode the walkers are used in (field-name mode included) *)
Theorem C02_walkers : forall tb cs c A t t' m,
  re c = None -> ~ In ("", Exempt) (all_entries tb) ->
  (forall s s' ph, a_str A s ph = a_str A s' ph) -> (forall n n', a_num A n = a_num A n') -> (forall b b', a_bool A b = a_bool A b') ->
  applicable m t -> mode_ok tb m -> guard tb m -> csim tb c is_email t t' ->
  walk tb cs c is_email A m t = walk tb cs c is_email A m t'.
Proof. intros tb cs c A t t' m H1 H2 H3 H4 H5. exact (walk_ni tb cs c is_email A H1 H2 H3 H4 H5 t t' m). Qed.
Print Assumptions C02_walkers.

(* non-vacuity: secrets of very different length and content, an e-mail pair, a swapped pair *)
Definition flt (a b e : string) : json :=
  JObj [("ssn", JObj [("$in", JArr [JStr a; JStr b])]); ("mail", JStr e); ("n", JNum "5")].
Example C02_example_hyp :
  csim current {| repl := "R"; nums := false; bools := false; ips := false; nss := false; eager := nil; re := None |} is_email
       (flt "x" "y" "a@b.co") (flt "a much longer secret ""with"" quotes" "x" "zz@example.org").
Proof.
  apply C_obj. constructor.
  { split; [reflexivity|]. right. split; [vm_compute; reflexivity|]. split; [vm_compute; reflexivity|].
    apply C_obj. constructor; [|constructor].
    split; [reflexivity|]. right. split; [vm_compute; reflexivity|]. split; [vm_compute; reflexivity|].
    apply C_arr. constructor; [apply C_leaf; repeat split; vm_compute; reflexivity|].
    constructor; [apply C_leaf; repeat split; vm_compute; reflexivity | constructor]. }
  constructor.
  { split; [reflexivity|]. right. split; [vm_compute; reflexivity|]. split; [vm_compute; reflexivity|].
    apply C_leaf. repeat split; vm_compute; reflexivity. }
  constructor; [|constructor]. split; [reflexivity | left; reflexivity].
Qed.
Example C02_example :
  let c := {| repl := "R"; nums := false; bools := false; ips := false; nss := false; eager := nil; re := None |} in
  walk current current_consts c is_email (real_actions current_consts c None) (MQ false false MNil []) (flt "x" "y" "a@b.co") =
  walk current current_consts c is_email (real_actions current_consts c None) (MQ false false MNil []) (flt "a much longer secret ""with"" quotes" "x" "zz@example.org").
Proof. vm_compute. reflexivity. Qed.

(* The similarity relation of the theorems above lets two inputs differ only at positions that lie
   below no key classified as not redactable. That reading is only as good as the tables: the
   regenerated tables classify nothing as not redactable outside the sanctioned list (operational
   parameters, keywords, field paths, namespaces, structural keys) - re-checked on every run. A
   table entry that starts to keep literals under an ordinary name breaks this obligation. *)
Theorem C02_tables_ok : tables_ok_exempt current = true.
Proof. vm_compute. reflexivity. Qed.
Print Assumptions C02_tables_ok.

(* no bare-word entry at the top level of the tables that are consulted for every key: a user field is never
   exempted because of its NAME (obligation on the regenerated tables) *)
From Spec Require TablesOK.
Theorem C02_no_bare_word_exemption : TablesOK.tables_ok_bare current = true.
Proof. vm_compute. reflexivity. Qed.
Print Assumptions C02_no_bare_word_exemption.

(* ---------- selective mode ---------- *)
From Proofs Require Import SelHot SelLine SelNI SelNILine.
Close Scope string_scope.

(* With --redactFieldsRegexp R the sensitive literals are those under a name matching R (C14). Two trees related by
   [ssim] - identical except, on clear paths, for the contents of leaves (each keeping its lexical class) that lie
   UNDER A KEY MATCHING R - are mapped by every walker (outside Atlas Search stages) to the same output tree, for ANY
   tables, under the side condition [plain] of C14. Obtained by composition: below a matching key the selective walker
   is the full-mode walker (SelHot.walk_hot), which is non-interfering (walk_ni); above, the two runs go in lock step. *)
Theorem C02_selective_mode_walkers : forall tb cs c A r t t' m,
  re c = Some r -> ~ In (""%string, Exempt) (all_entries tb) ->
  (forall s s' ph, a_str A s ph = a_str A s' ph) -> (forall n n', a_num A n = a_num A n') -> (forall b b', a_bool A b = a_bool A b') ->
  mode_cool m -> applicable m t -> mode_ok tb m ->
  plain tb r false t -> plain tb r false t' -> ssim tb c is_email r t t' ->
  walk tb cs c is_email A m t = walk tb cs c is_email A m t'.
Proof. intros tb cs c A r t t' m H1 H2 H3 H4 H5. exact (walk_sni tb cs c is_email A r H1 H2 H3 H4 H5 t t' m). Qed.
Print Assumptions C02_selective_mode_walkers.

(* the query-bearing values of a command document *)
Theorem C02_selective_mode : forall tb cs c A r ins k v v',
  re c = Some r -> ~ In (""%string, Exempt) (all_entries tb) ->
  (forall s s' ph, a_str A s ph = a_str A s' ph) -> (forall n n', a_num A n = a_num A n') -> (forall b b', a_bool A b = a_bool A b') ->
  zone_value ins k v = true -> plain tb r false v -> plain tb r false v' -> ssim tb c is_email r v v' ->
  cmd_member tb cs c A false ins k v = cmd_member tb cs c A false ins k v'.
Proof. intros tb cs c A r ins k v v' H1 H2 H3 H4 H5. exact (cmd_member_sni tb cs c A r H1 H2 H3 H4 H5 ins k v v'). Qed.
Print Assumptions C02_selective_mode.

(* non-vacuity: R = (name is "ssn"); the secrets under ssn differ, everything else is identical *)
Open Scope string_scope.
Definition c02_r := fun s => String.eqb s "ssn".
Definition c02_c := {| repl := "R"; nums := false; bools := false; ips := false; nss := false; eager := nil; re := Some c02_r |}.
Definition c02_flt (a b : string) : json :=
  JObj [("ssn", JObj [("$in", JArr [JStr a; JStr b])]); ("city", JStr "Paris"); ("owner", JObj [("ssn", JStr b)])].
Example C02_selective_example_hyp :
  ssim current c02_c is_email c02_r (c02_flt "x" "y") (c02_flt "a much longer secret" "zz") /\
  plainb current c02_r false (c02_flt "x" "y") = true /\ plainb current c02_r false (c02_flt "a much longer secret" "zz") = true.
Proof.
  split; [|split; vm_compute; reflexivity].
  apply S_obj. constructor.
  { split; [reflexivity|]. right. split; [vm_compute; reflexivity|]. split; [vm_compute; reflexivity|]. left. split; [reflexivity|].
    apply C_obj. constructor; [|constructor].
    split; [reflexivity|]. right. split; [vm_compute; reflexivity|]. split; [vm_compute; reflexivity|].
    apply C_arr. constructor; [apply C_leaf; repeat split; vm_compute; reflexivity|].
    constructor; [apply C_leaf; repeat split; vm_compute; reflexivity | constructor]. }
  constructor; [split; [reflexivity | left; reflexivity]|].
  constructor; [|constructor].
  split; [reflexivity|]. right. split; [vm_compute; reflexivity|]. split; [vm_compute; reflexivity|]. right. split; [reflexivity|].
  apply S_obj. constructor; [|constructor].
  split; [reflexivity|]. right. split; [vm_compute; reflexivity|]. split; [vm_compute; reflexivity|]. left. split; [reflexivity|].
  apply C_leaf. repeat split; vm_compute; reflexivity.
Qed.
Example C02_selective_example :
  walk current current_consts c02_c is_email (real_actions current_consts c02_c None) (MQ false false MNil []) (c02_flt "x" "y") =
  walk current current_consts c02_c is_email (real_actions current_consts c02_c None) (MQ false false MNil []) (c02_flt "a much longer secret" "zz") /\
  walk current current_consts c02_c is_email (real_actions current_consts c02_c None) (MQ false false MNil []) (c02_flt "x" "y") =
  JObj [("ssn", JObj [("$in", JArr [JStr "R"; JStr "R"])]); ("city", JStr "Paris"); ("owner", JObj [("ssn", JStr "R")])].
Proof. vm_compute. split; reflexivity. Qed.

(* ---------- whole logs ---------- *)
From Model Require Import Stream.
From Proofs Require Import StreamProofs.
Close Scope string_scope.

(* two lines are twins when they are the same bytes, or both parse as entries that pass the gate and are related by [entry_sim] *)
Definition twin_lines (tb : tables) (c : cfg) (l l' : list Ascii.ascii) : Prop :=
  l = l' \/ exists e e', parse_line l = Some (JObj e) /\ parse_line l' = Some (JObj e') /\ gate e = true /\ entry_sim tb c e e'.

(* a twin line yields the same output line, or nothing in both runs *)
Theorem C02_line : forall tb cs c l l',
  re c = None -> ~ In (""%string, Exempt) (all_entries tb) -> twin_lines tb c l l' ->
  redact_line tb cs c None l = redact_line tb cs c None l'.
Proof.
  intros tb cs c l l' H1 H2 [-> | (e & e' & Hp & Hp' & Hg & Hs)]; [reflexivity|].
  unfold redact_line. rewrite Hp, Hp'. cbn [redact_tree].
  rewrite (C02_noninterference tb cs c (real_actions cs c None) e e' H1 H2 (fun _ _ _ => eq_refl) (fun _ _ => eq_refl) (fun _ _ => eq_refl) Hg Hs).
  reflexivity.
Qed.
Print Assumptions C02_line.

(* the hyperproperty for whole logs in placeholder mode: two input texts that the scanner cuts into the same number of lines, twins pairwise (the texts may
   differ in length: literals are re-drawn freely within their class), give the same output file, byte for byte *)
Theorem C02_log : forall tb cs c data data',
  re c = None -> ~ In (""%string, Exempt) (all_entries tb) ->
  Forall2 (twin_lines tb c) (fst (scan data REof)) (fst (scan data' REof)) ->
  stream tb cs c None data = stream tb cs c None data'.
Proof.
  intros tb cs c data data' H1 H2 F. rewrite !stream_is_map.
  induction F as [|l l' r r' Hl _ IH]; [reflexivity|]. cbn [map List.concat]. rewrite IH. f_equal.
  unfold emit. now rewrite (C02_line tb cs c l l' H1 H2 Hl).
Qed.
Print Assumptions C02_log.
