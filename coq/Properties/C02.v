(* C02 - output is independent of the redacted values (non-interference). *)
From Coq Require Import String List.
From Model Require Import Json Tables Walker Line Email JsonText.
From Proofs Require Import JsonFacts TableFacts WalkerRel Survivors SurvivorsLine NonInterference NILine.
From Spec Require Import Exempt.
From Gen Require Import Tables Consts.
Import ListNotations.
Open Scope string_scope.

(* Two-run hyperproperty, for ANY tables without an exempt empty key, any flags outside the
   selective mode - field-name redaction (--redactFieldNames) on or off, for any configured prefixes -
   and any leaf actions whose string / number / boolean
   result does not depend on the original value (placeholder mode): two log entries that pass the
   gate and are related by [entry_sim] - identical except, inside the query-bearing values of their
   command documents, for the CONTENTS of leaves on clear paths, each leaf keeping its lexical class
   (string not starting with '$' with the same e-mail-shape bit; any number under --redactNumbers;
   any boolean under --redactBooleans) - are mapped to the SAME output entry. *)
Theorem C02_noninterference : forall tb cs c A e e',
  re c = None -> ~ In ("", Exempt) (all_entries tb) ->
  (forall s s' ph, a_str A s ph = a_str A s' ph) -> (forall n n', a_num A n = a_num A n') -> (forall b b', a_bool A b = a_bool A b') ->
  gate e = true -> entry_sim tb c e e' ->
  redact_entry tb cs c A e = redact_entry tb cs c A e'.
Proof. intros tb cs c A e e' H1 H2 H4 H5 H6. exact (redact_entry_ni tb cs c A H1 H2 H4 H5 H6 e e'). Qed.
Print Assumptions C02_noninterference.

(* the placeholder-mode actions of the tool satisfy the independence hypotheses, so the emitted
   BYTES are identical (printing is a function of the tree) *)
Theorem C02_bytes : forall tb cs c e e',
  re c = None -> ~ In ("", Exempt) (all_entries tb) -> gate e = true -> entry_sim tb c e e' ->
  print (redact_tree tb cs c (real_actions cs c None) (JObj e)) = print (redact_tree tb cs c (real_actions cs c None) (JObj e')).
Proof.
  intros tb cs c e e' H1 H2 Hg Hs. cbn [redact_tree]. f_equal. f_equal.
  apply C02_noninterference; auto.
Qed.
Print Assumptions C02_bytes.

(* the walker-level statement, for every mode the walkers are used in (field-name mode included) *)
Theorem C02_walkers : forall tb cs c A t t' m,
  re c = None -> ~ In ("", Exempt) (all_entries tb) ->
  (forall s s' ph, a_str A s ph = a_str A s' ph) -> (forall n n', a_num A n = a_num A n') -> (forall b b', a_bool A b = a_bool A b') ->
  applicable m t -> mode_ok tb m -> guard tb m -> csim tb c is_email t t' ->
  walk tb cs c is_email A m t = walk tb cs c is_email A m t'.
Proof. intros tb cs c A t t' m H1 H2 H3 H4 H5. exact (walk_ni tb cs c is_email A H1 H2 H3 H4 H5 t t' m). Qed.
Print Assumptions C02_walkers.

(* non-vacuity: secrets of very different length and content, an e-mail pair, a swapped pair *)
Definition flt (a b e : string) : json :=
  JObj [("ssn", JObj [("$in", JArr [JStr a; JStr b])]); ("mail", JStr e); ("n", JNum "5")].
Example C02_example_hyp :
  csim current {| repl := "R"; nums := false; bools := false; ips := false; nss := false; eager := nil; re := None |} is_email
       (flt "x" "y" "a@b.co") (flt "a much longer secret ""with"" quotes" "x" "zz@example.org").
Proof.
  apply C_obj. constructor.
  { split; [reflexivity|]. right. split; [vm_compute; reflexivity|]. split; [vm_compute; reflexivity|].
    apply C_obj. constructor; [|constructor].
    split; [reflexivity|]. right. split; [vm_compute; reflexivity|]. split; [vm_compute; reflexivity|].
    apply C_arr. constructor; [apply C_leaf; repeat split; vm_compute; reflexivity|].
    constructor; [apply C_leaf; repeat split; vm_compute; reflexivity | constructor]. }
  constructor.
  { split; [reflexivity|]. right. split; [vm_compute; reflexivity|]. split; [vm_compute; reflexivity|].
    apply C_leaf. repeat split; vm_compute; reflexivity. }
  constructor; [|constructor]. split; [reflexivity | left; reflexivity].
Qed.
Example C02_example :
  let c := {| repl := "R"; nums := false; bools := false; ips := false; nss := false; eager := nil; re := None |} in
  walk current current_consts c is_email (real_actions current_consts c None) (MQ false false MNil []) (flt "x" "y" "a@b.co") =
  walk current current_consts c is_email (real_actions current_consts c None) (MQ false false MNil []) (flt "a much longer secret ""with"" quotes" "x" "zz@example.org").
Proof. vm_compute. reflexivity. Qed.

(* The similarity relation of the theorems above lets two inputs differ only at positions that lie
   below no key classified as not redactable. That reading is only as good as the tables: the
   regenerated tables classify nothing as not redactable outside the sanctioned list (operational
   parameters, keywords, field paths, namespaces, structural keys) - re-checked on every run. A
   table entry that starts to keep literals under an ordinary name breaks this obligation. *)
Theorem C02_tables_ok : tables_ok_exempt current = true.
Proof. vm_compute. reflexivity. Qed.
Print Assumptions C02_tables_ok.

(* no bare-word entry at the top level of the tables that are consulted for every key: a user field is never
   exempted because of its NAME (obligation on the regenerated tables) *)
From Spec Require TablesOK.
Theorem C02_no_bare_word_exemption : TablesOK.tables_ok_bare current = true.
Proof. vm_compute. reflexivity. Qed.
Print Assumptions C02_no_bare_word_exemption.
