(* C15 - field-name redaction renames consistently, completely, only in chosen namespaces. *)
From Coq Require Import String List.
From Model Require Import Json Tables Walker Line Email Hash.
From Proofs Require Import JsonFacts NsProofs Frame.
Import ListNotations.
Open Scope string_scope.

(* lines of other namespaces: the mode is off for them - attr is processed exactly as without the flag
   (rfn = false), and the plan summary is not touched *)
Theorem C15_foreign_namespace : forall tb cs c A g attr,
  eager_on c attr = false ->
  redact_attr tb cs c A g attr = map (fun kv => (fst kv, attr_member tb cs c A g false (fst kv) (snd kv))) attr.
Proof. exact foreign_namespace. Qed.
Print Assumptions C15_foreign_namespace.

Theorem C15_no_prefix_no_mode : forall c attr,
  Forall (fun p => String.prefix p (str_of (oget attr "ns")) = false) (eager c) -> eager_on c attr = false.
Proof.
  intros c attr H. unfold eager_on. induction (eager c) as [|p ps IH]; [reflexivity|].
  inversion H; subst. simpl. rewrite H2. simpl. auto.
Qed.
Print Assumptions C15_no_prefix_no_mode.

(* in the mode: a key that is not an operator is renamed by the one pseudonym function, an operator key is kept *)
Theorem C15_query_key_renamed : forall tb cs c A W search parent kp k v,
  (match parent with MMap pm => oget pm k | _ => oget (Core tb) k end) = None ->
  fst (q_member tb cs c is_email A W true search parent kp k v) = a_hash A k.
Proof. exact q_member_key_renamed. Qed.
Print Assumptions C15_query_key_renamed.

Theorem C15_operator_key_kept : forall tb cs c A W search parent kp k v m,
  (match parent with MMap pm => oget pm k | _ => oget (Core tb) k end) = Some m ->
  fst (q_member tb cs c is_email A W true search parent kp k v) = k.
Proof. exact q_member_key_kept. Qed.
Print Assumptions C15_operator_key_kept.

Theorem C15_stage_key_renamed : forall tb cs c A W kp search k v,
  get_op tb kp k search = None -> fst (p_member tb cs c is_email A W true kp search k v) = a_hash A k.
Proof. exact p_member_key_renamed. Qed.
Print Assumptions C15_stage_key_renamed.

(* the same name receives the same pseudonym wherever it occurs: one function, also used for the plan summary *)
Theorem C15_one_function : forall cs c enc, a_hash (real_actions cs c enc) = hash_name (repl c).
Proof. reflexivity. Qed.
Print Assumptions C15_one_function.

(* member count and order of every object are those of the input whenever the renamed keys are pairwise distinct *)
Theorem C15_count_and_order : forall (l : list (string * json)), NoDup (map fst l) -> build l = l.
Proof. exact (@build_nodup json). Qed.
Print Assumptions C15_count_and_order.
