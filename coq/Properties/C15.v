(* C15 - field-name redaction renames consistently, completely, only in chosen namespaces. *)
From Coq Require Import String List.
From Model Require Import Json Tables Walker Line Email Hash.
From Proofs Require Import JsonFacts NsProofs Frame.
Import ListNotations.
Open Scope string_scope.

(* lines of other namespaces: the mode is off for them - attr is processed exactly as without the flag
   (rfn = false), and the plan summary is not touched *)
Theorem C15_foreign_namespace : forall tb cs c A g attr,
  eager_on c attr = false ->
  redact_attr tb cs c A g attr = map (fun kv => (fst kv, attr_member tb cs c A g false (fst kv) (snd kv))) attr.
Proof. exact foreign_namespace. Qed.
Print Assumptions C15_foreign_namespace.

Theorem C15_no_prefix_no_mode : forall c attr,
  Forall (fun p => String.prefix p (str_of (oget attr "ns")) = false) (eager c) -> eager_on c attr = false.
Proof.
  intros c attr H. unfold eager_on. induction (eager c) as [|p ps IH]; [reflexivity|].
  inversion H; subst. simpl. rewrite H2. simpl. auto.
Qed.
Print Assumptions C15_no_prefix_no_mode.

(* in the mode: a key that is not an operator is renamed by the one pseudonym function, an operator key is kept *)
Theorem C15_query_key_renamed : forall tb cs c A W search parent kp k v,
  (match parent with MMap pm => oget pm k | _ => oget (Core tb) k end) = None ->
  fst (q_member tb cs c is_email A W true search parent kp k v) = a_hash A k.
Proof. exact q_member_key_renamed. Qed.
Print Assumptions C15_query_key_renamed.

Theorem C15_operator_key_kept : forall tb cs c A W search parent kp k v m,
  (match parent with MMap pm => oget pm k | _ => oget (Core tb) k end) = Some m ->
  fst (q_member tb cs c is_email A W true search parent kp k v) = k.
Proof. exact q_member_key_kept. Qed.
Print Assumptions C15_operator_key_kept.

Theorem C15_stage_key_renamed : forall tb cs c A W kp search k v,
  get_op tb kp k search = None -> fst (p_member tb cs c is_email A W true kp search k v) = a_hash A k.
Proof. exact p_member_key_renamed. Qed.
Print Assumptions C15_stage_key_renamed.

(* the same name receives the same pseudonym wherever it occurs: one function, also used for the plan summary *)
Theorem C15_one_function : forall cs c enc, a_hash (real_actions cs c enc) = hash_name (repl c).
Proof. reflexivity. Qed.
Print Assumptions C15_one_function.

(* member count and order of every object are those of the input whenever the renamed keys are pairwise distinct *)
Theorem C15_count_and_order : forall (l : list (string * json)), NoDup (map fst l) -> build l = l.
Proof. exact (@build_nodup json). Qed.
Print Assumptions C15_count_and_order.

(* ---------- other namespaces, whole line ---------- *)
From Model Require Import JsonText.
From Proofs Require Import ForeignNs.

(* a line none of whose attr documents has a namespace starting with a configured value is emitted,
   byte for byte, as by a run without --redactFieldNames (the configuration with the empty list) *)
Theorem C15_other_namespace_line : forall tb cs c enc l,
  (forall entry a, parse_line l = Some (JObj entry) -> In ("attr", JObj a) entry ->
     Forall (fun p => String.prefix p (str_of (oget a "ns")) = false) (eager c)) ->
  redact_line tb cs c enc l = redact_line tb cs (set_eager c []) enc l.
Proof.
  intros tb cs c enc l H. apply foreign_line. intros entry Hp a Hin.
  apply C15_no_prefix_no_mode. now apply (H entry a).
Qed.
Print Assumptions C15_other_namespace_line.

(* the same for the tree, for any action set *)
Theorem C15_other_namespace_tree : forall tb cs c A t,
  (forall entry, t = JObj entry -> foreign_entry c entry) ->
  redact_tree tb cs c A t = redact_tree tb cs (set_eager c []) A t.
Proof. exact foreign_tree. Qed.
Print Assumptions C15_other_namespace_tree.

(* the premise is met by an ordinary line: namespace shop_archive.orders, configured value "shop." *)
Example C15_other_namespace_example :
  let l := list_ascii_of_string "{""c"":""COMMAND"",""attr"":{""ns"":""shop_archive.orders"",""command"":{""find"":""orders"",""filter"":{""owner"":""x""}}}}" in
  let c := {| repl := "REDACTED"; nums := false; bools := false; ips := false; nss := false; eager := ["shop."]; re := None |} in
  match parse_line l with
  | Some (JObj entry) => forallb (fun kv => match kv with
                           | (k, JObj a) => negb (String.eqb k "attr") || forallb (fun p => negb (String.prefix p (str_of (oget a "ns")))) (eager c)
                           | _ => true end) entry = true
  | _ => False
  end.
Proof. vm_compute. reflexivity. Qed.
