(* C15 - field-name redaction renames consistently, completely, only in chosen namespaces. *)
From Coq Require Import String List.
From Model Require Import Json Tables Walker Line Email Hash.
From Proofs Require Import JsonFacts NsProofs Frame.
Import ListNotations.
Open Scope string_scope.

(* lines of other namespaces: the mode is off for them - attr is processed exactly as without the flag
   (rfn = false), and the plan summary is not touched *)
Theorem C15_foreign_namespace : forall tb cs c A g attr,
  eager_on c attr = false ->
  redact_attr tb cs c A g attr = map (fun kv => (fst kv, attr_member tb cs c A g false (fst kv) (snd kv))) attr.
Proof. exact foreign_namespace. Qed.
Print Assumptions C15_foreign_namespace.

Theorem C15_no_prefix_no_mode : forall c attr,
  Forall (fun p => String.prefix p (str_of (oget attr "ns")) = false) (eager c) -> eager_on c attr = false.
Proof.
  intros c attr H. unfold eager_on. induction (eager c) as [|p ps IH]; [reflexivity|].
  inversion H; subst. simpl. rewrite H2. simpl. auto.
Qed.
Print Assumptions C15_no_prefix_no_mode.

(* in the mode: a key that is not an operator is renamed by the one pseudonym function, an operator key is kept *)
Theorem C15_query_key_renamed : forall tb cs c A W search parent kp k v,
  (match parent with MMap pm => oget pm k | _ => oget (Core tb) k end) = None ->
  fst (q_member tb cs c is_email A W true search parent kp k v) = a_hash A k.
Proof. exact q_member_key_renamed. Qed.
Print Assumptions C15_query_key_renamed.

Theorem C15_operator_key_kept : forall tb cs c A W search parent kp k v m,
  (match parent with MMap pm => oget pm k | _ => oget (Core tb) k end) = Some m ->
  fst (q_member tb cs c is_email A W true search parent kp k v) = k.
Proof. exact q_member_key_kept. Qed.
Print Assumptions C15_operator_key_kept.

Theorem C15_stage_key_renamed : forall tb cs c A W kp search k v,
  get_op tb kp k search = None -> fst (p_member tb cs c is_email A W true kp search k v) = a_hash A k.
Proof. exact p_member_key_renamed. Qed.
Print Assumptions C15_stage_key_renamed.

(* the same name receives the same pseudonym wherever it occurs: one function, also used for the plan summary *)
Theorem C15_one_function : forall cs c enc, a_hash (real_actions cs c enc) = hash_name (repl c).
Proof. reflexivity. Qed.
Print Assumptions C15_one_function.

(* member count and order of every object are those of the input whenever the renamed keys are pairwise distinct *)
Theorem C15_count_and_order : forall (l : list (string * json)), NoDup (map fst l) -> build l = l.
Proof. exact (@build_nodup json). Qed.
Print Assumptions C15_count_and_order.

(* ---------- other namespaces, whole line ---------- *)
From Model Require Import JsonText.
From Proofs Require Import ForeignNs.

(* a line none of whose attr documents has a namespace starting with a configured value is emitted,
   byte for byte, as by a run without --redactFieldNames (the configuration with the empty list) *)
Theorem C15_other_namespace_line : forall tb cs c enc l,
  (forall entry a, parse_line l = Some (JObj entry) -> In ("attr", JObj a) entry ->
     Forall (fun p => String.prefix p (str_of (oget a "ns")) = false) (eager c)) ->
  redact_line tb cs c enc l = redact_line tb cs (set_eager c []) enc l.
Proof.
  intros tb cs c enc l H. apply foreign_line. intros entry Hp a Hin.
  apply C15_no_prefix_no_mode. now apply (H entry a).
Qed.
Print Assumptions C15_other_namespace_line.

(* the same for the tree, for any action set *)
Theorem C15_other_namespace_tree : forall tb cs c A t,
  (forall entry, t = JObj entry -> foreign_entry c entry) ->
  redact_tree tb cs c A t = redact_tree tb cs (set_eager c []) A t.
Proof. exact foreign_tree. Qed.
Print Assumptions C15_other_namespace_tree.

(* the premise is met by an ordinary line: namespace shop_archive.orders, configured value "shop." *)
Example C15_other_namespace_example :
  let l := list_ascii_of_string "{""c"":""COMMAND"",""attr"":{""ns"":""shop_archive.orders"",""command"":{""find"":""orders"",""filter"":{""owner"":""x""}}}}" in
  let c := {| repl := "REDACTED"; nums := false; bools := false; ips := false; nss := false; eager := ["shop."]; re := None |} in
  match parse_line l with
  | Some (JObj entry) => forallb (fun kv => match kv with
                           | (k, JObj a) => negb (String.eqb k "attr") || forallb (fun p => negb (String.prefix p (str_of (oget a "ns")))) (eager c)
                           | _ => true end) entry = true
  | _ => False
  end.
Proof. vm_compute. reflexivity. Qed.

(* ---------- values are redacted as without the flag ---------- *)
From Proofs Require Import JsonFacts TableFacts WalkerRel Survivors SurvivorsLine RfnSim RfnLine.
From Model Require Import Email.
From Gen Require Import Tables Consts.

(* Each of the three walkers, run with the field-name switch on, emits - at every CLEAR index path
   (one that passes below no key the tables classify as not redactable: field-path, namespace and
   exempt arguments are where field-name mode differs by design) - every leaf that is not a '$field'
   reference exactly as the same walker emits it with the switch off. For ANY tables, any flags
   outside the selective mode (which excludes --redactFieldNames anyway, C18), any leaf actions.
   Positions are index paths: [sib_ok] asks that the pseudonym function does not merge two sibling
   keys of the input (then the renamed members keep their count and order, cf. C15_count_and_order). *)
Theorem C15_values_as_without_the_flag_walkers : forall tb cs c A t m p leaf,
  re c = None -> sib_ok A t -> nodup_keys t ->
  jget t p = Some leaf -> is_leaf leaf -> nd leaf -> clear tb t p = true ->
  jget (walk tb cs c is_email A (setrfn true m) t) p = jget (walk tb cs c is_email A (setrfn false m) t) p.
Proof.
  intros tb cs c A t m p leaf Hre Hk Hn Hg Hl Hd Hc. symmetry.
  exact (walk_rfn_pl tb cs c is_email A Hre t m Hk Hn p leaf Hg Hl Hd Hc).
Qed.
Print Assumptions C15_values_as_without_the_flag_walkers.

(* the same for every query-bearing value of a command document *)
Theorem C15_values_as_without_the_flag : forall tb cs c A ins k v p leaf,
  re c = None -> sib_ok A v -> nodup_keys v ->
  jget v p = Some leaf -> is_leaf leaf -> nd leaf -> clear tb v p = true ->
  jget (cmd_member tb cs c A true ins k v) p = jget (cmd_member tb cs c A false ins k v) p.
Proof.
  intros tb cs c A ins k v p leaf Hre Hk Hn Hg Hl Hd Hc. symmetry.
  exact (cmd_member_pl tb cs c A Hre ins k v Hk Hn p leaf Hg Hl Hd Hc).
Qed.
Print Assumptions C15_values_as_without_the_flag.

(* non-vacuity: the premises hold for a filter with three fields and the real pseudonym function *)
Open Scope string_scope.
Definition c15_c := {| repl := "REDACTED"; nums := true; bools := false; ips := false; nss := false; eager := ["shop."]; re := None |}.
Definition c15_filter : json := JObj [("owner", JStr "alice"); ("age", JObj [("$gte", JNum "41")]); ("tags", JArr [JStr "x"; JStr "$ref"])].
Example C15_values_example_premises :
  sib_ok (real_actions current_consts c15_c None) c15_filter /\ nodup_keys c15_filter /\
  clear current c15_filter [1; 0] = true /\ clear current c15_filter [2; 0] = true.
Proof.
  split; [|split; [|split; vm_compute; reflexivity]].
  - assert (K : forall ks, (forall k1 k2, In k1 ks -> In k2 ks -> k1 <> k2 ->
                 hash_name "REDACTED" k1 <> hash_name "REDACTED" k2 /\ hash_name "REDACTED" k1 <> k2) ->
               keys_ok (real_actions current_consts c15_c None) ks) by (intros ks H; exact H).
    cbn [sib_ok c15_filter map fst snd]. split; [|split; [exact I | split; [|split; [|exact I]]]].
    + apply K. intros k1 k2 H1 H2 Hne. cbn [In] in H1, H2.
      destruct H1 as [<-|[<-|[<-|[]]]], H2 as [<-|[<-|[<-|[]]]]; try (exfalso; apply Hne; reflexivity); vm_compute; split; discriminate.
    + split; [|split; exact I]. apply K. intros k1 k2 H1 H2 Hne. cbn [In] in H1, H2. destruct H1 as [<-|[]], H2 as [<-|[]]. exfalso; apply Hne; reflexivity.
    + split; [exact I | split; exact I].
  - cbn. repeat split; try exact I; repeat constructor; cbn; intuition discriminate.
Qed.
Example C15_values_example :
  let A := real_actions current_consts c15_c None in
  jget (cmd_member current current_consts c15_c A true false "filter" c15_filter) [1; 0] = Some (JNum "0") /\
  jget (cmd_member current current_consts c15_c A false false "filter" c15_filter) [1; 0] = Some (JNum "0") /\
  jget (cmd_member current current_consts c15_c A true false "filter" c15_filter) [0] = Some (JStr "REDACTED") /\
  jget (cmd_member current current_consts c15_c A true false "filter" c15_filter) [2; 0] = Some (JStr "REDACTED").
Proof. vm_compute. repeat split; reflexivity. Qed.

(* ---------- where the full statement fails on the faithful model (known findings F18, F31, F33) ---------- *)
(* The witnesses, replayed on the implementation, are the findings recorded in known_findings.json. *)
From Model Require Import PlanSummary Hash.
From Proofs Require Import RelCorollaries.
Open Scope string_scope.

(* F18: the plan summary is rewritten by global substring replacement - an index key that is a substring of the word IXSCAN destroys it *)
Theorem C15_plan_summary_refuted :
  exists ps, String.prefix "IXSCAN {" ps = true /\
             String.prefix "IXSCAN {" (redact_plan_summary_with (hash_name "REDACTED") ps) = false.
Proof. exists "IXSCAN { IX: 1 }". vm_compute. split; reflexivity. Qed.
Print Assumptions C15_plan_summary_refuted.

(* F31: a field name given as a plain string VALUE (distinct's key) stays readable while the same name as a key is renamed;
   F33: a user field called `then` (a bare word of the core operator table) keeps its name as a key *)
Theorem C15_names_remaining_refuted :
  let c := {| repl := "REDACTED"; nums := false; bools := false; ips := false; nss := false; eager := ["mydb"]; re := None |} in
  let A := real_actions current_consts c None in
  (exists e p q, jget (JObj e) p = Some (JStr "secretField") /\ jkeys (JObj e) q = ["attr"; "command"; "query"; "secretField"] /\
                 jget (redact_tree current current_consts c A (JObj e)) p = Some (JStr "secretField") /\
                 jkeys (redact_tree current current_consts c A (JObj e)) q = ["attr"; "command"; "query"; hash_name "REDACTED" "secretField"]) /\
  (exists v, cmd_member current current_consts c A true false "filter" v = JObj [("then", JStr "REDACTED"); (hash_name "REDACTED" "owner", JStr "REDACTED")] /\
             v = JObj [("then", JStr "x"); ("owner", JStr "y")]).
Proof.
  split.
  - exists [("c", JStr "COMMAND"); ("attr", JObj [("ns", JStr "mydb.users"); ("command", JObj [("distinct", JStr "users"); ("key", JStr "secretField"); ("query", JObj [("secretField", JNum "1")])])])],
           [1; 1; 1], [1; 1; 2; 0].
    vm_compute. repeat split; reflexivity.
  - eexists. split; [|reflexivity]. vm_compute. reflexivity.
Qed.
Print Assumptions C15_names_remaining_refuted.

(* ---------- completeness for keys, at every depth, in the places walked by the query and the array walker ---------- *)
From Proofs Require Import KeyRen.
Open Scope string_scope.

(* Field-name mode, any tables, any flags, any actions: in the value of query / filter / sort / q / update / u / updates /
   deletes / documents of a command document, at EVERY index path that ends at a member of an object - whatever operators
   and arrays lie above it - the output holds at that path either the pseudonym of the input key or the input key itself,
   and in the second case the key is a WORD of the operator tables (a key of some table at some level). Premises: no
   duplicate sibling keys, and the pseudonym function merges no two sibling keys (sib_ok). *)
Theorem C15_keys_renamed_at_every_depth : forall tb cs c A ins k v p name,
  walked ins k v -> sib_ok A v -> nodup_keys v -> jkey v p = Some name ->
  jkey (cmd_member tb cs c A true ins k v) p = Some (a_hash A name) \/
  (jkey (cmd_member tb cs c A true ins k v) p = Some name /\ word tb name).
Proof. intros tb cs c A ins k v p name Hw Hs Hn Hj. exact (cmd_member_kl tb cs c A ins k v Hw Hs Hn p name Hj). Qed.
Print Assumptions C15_keys_renamed_at_every_depth.

(* hence: a user field name that is no table word does not remain as a key anywhere in those values *)
Theorem C15_user_field_renamed_everywhere : forall tb cs c A ins k v p name,
  walked ins k v -> sib_ok A v -> nodup_keys v -> jkey v p = Some name -> ~ word tb name ->
  jkey (cmd_member tb cs c A true ins k v) p = Some (a_hash A name).
Proof.
  intros tb cs c A ins k v p name Hw Hs Hn Hj Hnw.
  destruct (C15_keys_renamed_at_every_depth tb cs c A ins k v p name Hw Hs Hn Hj) as [H | [_ H]]; [exact H | contradiction].
Qed.
Print Assumptions C15_user_field_renamed_everywhere.

(* the walkers themselves, every mode of the query walker (on a document) and of the array walker (on a list) *)
Theorem C15_walkers_keys : forall tb cs c is_email A t m,
  sib_ok A t -> nodup_keys t -> fits tb m t -> KL tb A t (walk tb cs c is_email A m t).
Proof. exact walk_kl. Qed.
Print Assumptions C15_walkers_keys.

(* non-vacuity on the regenerated tables: a user field four levels down, below $or, $elemMatch and an array *)
Example C15_keys_example :
  let c := {| repl := "REDACTED"; nums := false; bools := false; ips := false; nss := false; eager := ["mydb"]; re := None |} in
  let A := real_actions current_consts c None in
  let v := JObj [("$or", JArr [JObj [("items", JObj [("$elemMatch", JObj [("sku", JStr "x"); ("qty", JObj [("$gt", JNum "5")])])])]])] in
  jkey v [0; 0; 0; 0; 0] = Some "sku" /\
  jkey (cmd_member current current_consts c A true false "filter" v) [0; 0; 0; 0; 0] = Some (hash_name "REDACTED" "sku") /\
  jkey (cmd_member current current_consts c A true false "filter" v) [0; 0; 0; 0] = Some "$elemMatch" /\
  jkey (cmd_member current current_consts c A true false "filter" v) [0; 0; 0; 0; 1; 0] = Some "$gt".
Proof. vm_compute. repeat split; reflexivity. Qed.
