(* Obligations on the REGENERATED operator tables and constants (Gen/*.v). Each is a
   finite check closed by kernel computation; general theorems are stated for any tables
   satisfying them, so only these small computations are re-run when the code changes. *)
From Coq Require Import NArith.
From Model Require Import Json Tables Walker Base64 Email.
Open Scope string_scope. Open Scope list_scope.

Fixpoint lookup_path (m : list (string * meta)) (p : list string) : option meta :=
  match p with
  | [] => Some (MMap m)
  | [k] => oget m k
  | k :: r => match oget m k with Some (MMap m') => lookup_path m' r | _ => None end
  end.

Definition is_exempt_at (m : list (string * meta)) (p : list string) : bool :=
  match lookup_path m p with Some (MT Exempt) => true | _ => false end.

Definition has_ty_at (m : list (string * meta)) (p : list string) (t : otype) : bool :=
  match lookup_path m p with Some x => is_ty x t | None => false end.

(* C04: operational parameters that must be carried over *)
Definition tables_ok_kept (tb : tables) : bool :=
  forallb (fun k => is_exempt_at (Core tb) [k] && is_exempt_at (Agg tb) [k]) ["$limit"; "$skip"; "$sample"] &&
  forallb (is_exempt_at (SearchAgg tb))
    [["$search"; "index"]; ["$searchMeta"; "index"]; ["$vectorSearch"; "index"]; ["$vectorSearch"; "numCandidates"]; ["$vectorSearch"; "limit"]].

(* C01 / C02 / C14: the tables the walkers consult for ANY key (the top level of Core, and of Agg for stages) are keyed by
   operator names. A top-level key that is not '$'-prefixed is looked up for every user field of that name, so it must not
   change what happens to the field's literals: such entries (today: if / then / else) are Redactable, nothing else. *)
Definition tables_ok_bare (tb : tables) : bool :=
  forallb (fun km => starts_with_dollar (fst km) || (match snd km with MT Redactable => true | _ => false end)) (Core tb ++ Agg tb).

(* the same for the table consulted as a fallback for ANY key inside an Atlas Search stage: its top level holds operators
   (maps of arguments); a leaf entry there would apply to every user field of that name inside $vectorSearch.filter,
   moreLikeThis.like, ... - so only Redactable is harmless *)
Definition tables_ok_search_bare (tb : tables) : bool :=
  forallb (fun km => match snd km with MMap _ => true | MT Redactable => true | _ => false end) (Search tb).

(* C05: the extended-JSON wrappers *)
Definition tables_ok_binary (tb : tables) : bool :=
  has_ty_at (Core tb) ["$binary"; "base64"] Redactable && has_ty_at (Core tb) ["$binary"; "subType"] Exempt &&
  has_ty_at (Core tb) ["$date"] Redactable && has_ty_at (Core tb) ["$oid"] Redactable.

(* all (path, type) leaf entries of a table *)
Fixpoint flat_meta (fuel : nat) (prefix : list string) (m : list (string * meta)) : list (list string * otype) :=
  match fuel with
  | O => []
  | S f =>
    flat_map (fun km => match snd km with
                        | MT t => [(prefix ++ [fst km], t)]
                        | MMap m' => flat_meta f (prefix ++ [fst km]) m'
                        | MNil => []
                        end) m
  end.

Definition flat_tables (tb : tables) : list (string * list string * otype) :=
  map (fun pt => ("Agg", fst pt, snd pt)) (flat_meta 8 [] (Agg tb)) ++
  map (fun pt => ("Core", fst pt, snd pt)) (flat_meta 8 [] (Core tb)) ++
  map (fun pt => ("MapDefs", fst pt, snd pt)) (flat_meta 8 [] (MapDefs tb)) ++
  map (fun pt => ("Search", fst pt, snd pt)) (flat_meta 8 [] (Search tb)) ++
  map (fun pt => ("SearchAgg", fst pt, snd pt)) (flat_meta 8 [] (SearchAgg tb)).

(* C12: the Namespace-typed entries *)
Definition ns_entries (tb : tables) : list (list string) :=
  map (fun x => snd (fst x)) (filter (fun x => otype_eqb (snd x) Namespace && String.eqb (fst (fst x)) "Agg") (flat_tables tb)).

Definition list_eqb {A} (eqb : A -> A -> bool) (a b : list A) : bool :=
  Nat.eqb (List.length a) (List.length b) && forallb (fun xy => eqb (fst xy) (snd xy)) (combine a b).

Definition path_eqb := list_eqb String.eqb.

Definition tables_ok_ns (tb : tables) : bool :=
  list_eqb path_eqb (ns_entries tb)
    [["$graphLookup"; "from"]; ["$lookup"; "from"]; ["$merge"; "into"]; ["$out"; "db"]; ["$out"; "coll"]; ["$unionWith"; "coll"]].

(* ---------- constants (C05, C19) ---------- *)
Definition is_digit_c (ch : ascii) : bool := let n := nat_of_ascii ch in (48 <=? n)%nat && (n <=? 57)%nat.
Definition is_hex_c (ch : ascii) : bool :=
  let n := nat_of_ascii ch in ((48 <=? n) && (n <=? 57) || (97 <=? n) && (n <=? 102) || (65 <=? n) && (n <=? 70))%nat.

Definition num2 (a b : ascii) : nat := (nat_of_ascii a - 48) * 10 + (nat_of_ascii b - 48).

(* YYYY-MM-DDThh:mm:ss(.f+)?Z with calendar-plausible ranges *)
Definition is_iso8601_instant (s : string) : bool :=
  match list_ascii_of_string s with
  | y1 :: y2 :: y3 :: y4 :: "-" :: m1 :: m2 :: "-" :: d1 :: d2 :: "T" :: h1 :: h2 :: ":" :: n1 :: n2 :: ":" :: s1 :: s2 :: rest =>
    forallb is_digit_c [y1; y2; y3; y4; m1; m2; d1; d2; h1; h2; n1; n2; s1; s2] &&
    (1 <=? num2 m1 m2)%nat && (num2 m1 m2 <=? 12)%nat && (1 <=? num2 d1 d2)%nat && (num2 d1 d2 <=? 31)%nat &&
    (num2 h1 h2 <=? 23)%nat && (num2 n1 n2 <=? 59)%nat && (num2 s1 s2 <=? 59)%nat &&
    match rest with
    | ["Z"] => true
    | "." :: fr => match rev fr with
                   | "Z" :: ds => negb (Nat.eqb (List.length ds) 0) && forallb is_digit_c ds
                   | _ => false
                   end
    | _ => false
    end
  | _ => false
  end%char.

Definition consts_ok (cs : consts) (default_repl : string) : bool :=
  is_iso8601_instant (c_isodate cs) &&
  Nat.eqb (String.length (c_oid cs)) 24 && forallb is_hex_c (list_ascii_of_string (c_oid cs)) &&
  (match b64_decode (list_ascii_of_string (c_uuid cs)) with Some _ => true | None => false end) &&
  is_email (c_email cs) && negb (is_email default_repl) &&
  String.eqb (c_num cs) "0" && negb (c_bool cs).
