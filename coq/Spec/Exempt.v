(* Specification side of C01: which operator arguments may legitimately be left alone.
   Written from the categories the property text puts outside the claim - operational
   parameters that are not user data (index names, limits, output-field names, enumerated
   keywords and option documents, BSON binary subtype), field-path references, namespaces -
   plus the structural keys whose value is a list of sub-documents. A table entry that is not
   Redactable and is not listed here fails the obligation [tables_ok_exempt]. *)
From Model Require Import Json Tables.
From Proofs Require Import TableFacts.
Open Scope string_scope.

Definition sanctioned : list (string * otype) :=
  (* limits / counts / sizes *)
  [("$limit", Exempt); ("$skip", Exempt); ("$sample", Exempt); ("limit", Exempt); ("numCandidates", Exempt);
   ("numBuckets", Exempt); ("maxCharsToExamine", Exempt); ("maxNumPassages", Exempt); ("minimumShouldMatch", Exempt);
   ("slop", Exempt); ("threshold", Exempt); ("step", Exempt);
   (* index names *)
   ("index", Exempt);
   (* output-field names *)
   ("as", Exempt); ("$count", FieldName); ("distanceField", FieldName); ("depthField", FieldName);
   (* enumerated keywords, switches and option documents *)
   ("allowAnalyzedField", Exempt); ("concurrent", Exempt); ("exact", Exempt); ("fuzzy", Exempt); ("inOrder", Exempt);
   ("matchCriteria", Exempt); ("relation", Exempt); ("returnStoredSource", Exempt); ("score", Exempt); ("scoreDetails", Exempt);
   ("spanToReturn", Exempt); ("timeseries", Exempt); ("tokenOrder", Exempt); ("type", Exempt); ("units", Exempt);
   ("whenNotMatched", Exempt);
   (* diagnostic stages without user data *)
   ("$planCacheStats", Exempt); ("$querySettings", Exempt); ("$queryStats", Exempt); ("$shardedDataDistribution", Exempt);
   (* BSON binary subtype *)
   ("subType", Exempt);
   (* field-path references *)
   ("$sortByCount", FieldName); ("$unset", FieldName); ("$unwind", FieldName); ("combination", FieldName);
   ("connectFromField", FieldName); ("connectToField", FieldName); ("defaultPath", FieldName); ("field", FieldName);
   ("groupBy", FieldName); ("newRoot", FieldName); ("partitionByFields", FieldName); ("path", FieldName); ("sort", FieldName);
   ("sortBy", FieldName);
   (* namespaces *)
   ("coll", Namespace); ("db", Namespace); ("from", Namespace); ("into", Namespace);
   (* structural: lists of operator documents / sub-pipelines (their scalars are redacted, their documents walked) *)
   ("$and", OperatorArray); ("$or", OperatorArray); ("must", OperatorArray); ("mustNot", OperatorArray); ("should", OperatorArray);
   ("$facet", Pipeline); ("pipeline", Pipeline); ("pipelines", Pipeline); ("whenMatched", Pipeline)].

Definition entry_eqb (a b : string * otype) : bool := String.eqb (fst a) (fst b) && otype_eqb (snd a) (snd b).

Definition tables_ok_exempt (tb : tables) : bool :=
  forallb (fun kt => otype_eqb (snd kt) Redactable || otype_eqb (snd kt) OperatorMap || existsb (entry_eqb kt) sanctioned)
          (all_entries tb) &&
  negb (existsb (fun kt => String.eqb (fst kt) "" && otype_eqb (snd kt) Exempt) (all_entries tb)).
