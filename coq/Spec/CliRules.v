(* The rule table of C18, written from the documentation and the property text - not from the code:
   exactly one input source among file, piped stdin and Atlas; Atlas mode needs project id AND
   cluster name, an output file and an API key pair (flags or environment); start and end dates
   together or not at all; --encrypt cannot be used with stdin or stdout; --redactFieldsRegexp and
   --redactFieldNames exclude each other. *)
From Coq Require Import List Bool Arith.
From Model Require Import Cli.

Definition atlas_intent (f : flags) : bool := f_proj f || f_cluster f || f_pub f || f_priv f || f_start f || f_end f.

Definition b2n (b : bool) : nat := if b then 1 else 0.

Definition well_defined (f : flags) : bool :=
  negb (f_regexp f && f_fieldnames f) &&
  Bool.eqb (f_start f) (f_end f) &&
  Nat.eqb (b2n (f_file f) + b2n (f_stdin f) + b2n (atlas_intent f)) 1 &&
  (negb (atlas_intent f) || (f_proj f && f_cluster f && f_out f && (f_pub f || f_env f) && (f_priv f || f_env f))) &&
  (negb (f_encrypt f) || (negb (f_stdin f) && f_out f)).

Definition expected_mode (f : flags) : inmode := if atlas_intent f then MAtlas else if f_file f then MFile else MStdin.

Definition accepted (v : cverdict) : option inmode := match v with CAccept m => Some m | CReject _ => None end.

Definition rule_table (f : flags) : option inmode := if well_defined f then Some (expected_mode f) else None.
