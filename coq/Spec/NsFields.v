(* Specification side of the probed list of namespace-bearing command members (Gen/Probed.v: ns_fields_dumped, which Model/Line.v uses as
   redactNamespace's list). Written from the text of C12 and C04, not from the code.

   ns_required  - C12, completeness: "the collection named by the command verb, $db, getMore's collection" for "the command verbs the tool
                  declares (find, aggregate, insert, update, delete, count, findAndModify and aliases, getMore)".
   ns_sanctioned - C04 / C12, confinement: the only command members --redactNamespaces may change are "namespace-bearing command fields":
                  members of MongoDB commands whose string value names a collection, a database or a full namespace. *)
From Coq Require Import String List Bool.
From Model Require Import Line.
Import ListNotations.
Open Scope string_scope.

Definition ns_required : list string :=
  ["find"; "aggregate"; "insert"; "update"; "delete"; "count"; "findAndModify"; "$db"; "collection"].

Definition ns_sanctioned : list string :=
  [ (* read / write verbs and their driver-level aliases: the value is the collection *)
    "find"; "aggregate"; "insert"; "update"; "delete"; "count"; "countDocuments"; "distinct"; "findAndModify"; "findandmodify";
    "findOneAndDelete"; "findOneAndReplace"; "findOneAndUpdate"; "replace"; "mapReduce"; "mapreduce"; "bulkWrite";
    (* administrative verbs that take a collection *)
    "create"; "drop"; "createIndexes"; "dropIndexes"; "listIndexes"; "getIndexes"; "reIndex"; "collMod"; "collStats"; "validate"; "compact";
    "convertToCapped"; "cloneCollectionAsCapped"; "renameCollection"; "to"; "shardCollection"; "explain";
    (* database / namespace members *)
    "$db"; "db"; "ns"; "collection"; "coll" ].

Definition ns_fields_ok (l : list string) : bool :=
  forallb (fun k => key_in k l) ns_required && forallb (fun k => key_in k ns_sanctioned) l.
