(* C12, confinement inside the walkers. With field-name mode off, switching --redactNamespaces
   off is the same as leaving it on and taking the identity for the pseudonym function: the
   walkers consult the flag only where they call the pseudonym function. Combined with the
   refinement relation rel3 (two action sets, one configuration) this gives: the outputs with the
   flag on and off have the same shape and differ exactly at the leaves whose verdict is VHash,
   where one holds the pseudonym and the other the original name. *)
From Coq Require Import Lia.
From Model Require Import Json Tables Walker.
From Proofs Require Import JsonFacts WalkerRel.
Close Scope string_scope. Open Scope list_scope.

Definition set_nss (c : cfg) (b : bool) : cfg :=
  {| repl := repl c; nums := nums c; bools := bools c; ips := ips c; nss := b; eager := eager c; re := re c |}.

Definition with_hash (A : actions) (h : string -> string) : actions :=
  {| a_str := a_str A; a_num := a_num A; a_bool := a_bool A; a_hash := h; a_generic := a_generic A |}.

Section Confine.
Variable tb : tables.
Variable cs : consts.
Variable c : cfg.
Variable is_email : string -> bool.
Variable A : actions.

Notation c_off := (set_nss c false).
Notation c_on := (set_nss c true).
Notation A_id := (with_hash A (fun s => s)).
Notation Woff := (walk tb cs c_off is_email A).
Notation Won := (walk tb cs c_on is_email A_id).

Lemma scalar_verdict_not_hash cc init lst v search sel : scalar_verdict tb cs cc is_email init lst v search sel <> VHash.
Proof.
  unfold scalar_verdict.
  repeat (match goal with |- context [if ?b then _ else _] => destruct b end); destruct v; try discriminate;
  repeat (match goal with |- context [if ?b then _ else _] => destruct b end); discriminate.
Qed.

Lemma scalar_eq init lst v search sel :
  scalar tb cs c_off is_email A init lst v search sel = scalar tb cs c_on is_email A_id init lst v search sel.
Proof.
  unfold scalar. change (scalar_verdict tb cs c_on is_email init lst v search sel) with (scalar_verdict tb cs c_off is_email init lst v search sel).
  pose proof (scalar_verdict_not_hash c_off init lst v search sel) as Hn.
  destruct (scalar_verdict tb cs c_off is_email init lst v search sel); try reflexivity. contradiction.
Qed.

Lemma ns_value_id v : nodup_keys v -> ns_value A_id v = v.
Proof.
  intros Hn. destruct v as [| b | n | s | l | l]; try reflexivity. cbn [ns_value].
  apply nodup_keys_obj in Hn. destruct Hn as [Hnd _].
  assert (E : map (fun kv : string * json => match snd kv with JStr s => (fst kv, JStr (hn A_id s)) | x => (fst kv, x) end) l = l).
  { rewrite <- (map_id l) at 2. apply map_ext. intros [k v]. destruct v; reflexivity. }
  rewrite E. now rewrite build_nodup.
Qed.

Section Step.
Variable n : nat.
Hypothesis IH : forall t m, size t < n -> mode_rfn m = false -> nodup_keys t -> Woff m t = Won m t.

Lemma arr_item_eq pk search sel kp x : size x < n -> nodup_keys x ->
  arr_item tb cs c_off is_email A Woff pk false search sel kp x = arr_item tb cs c_on is_email A_id Won pk false search sel kp x.
Proof.
  intros Hs Hn. destruct x as [| b | num | s | l | l]; cbn [arr_item].
  - reflexivity.
  - apply scalar_eq.
  - apply scalar_eq.
  - destruct (starts_with_dollar s); [reflexivity | apply scalar_eq].
  - now apply IH.
  - now apply IH.
Qed.

Lemma arr_eq pk search sel kp l : size (JArr l) <= n -> nodup_keys (JArr l) ->
  map (arr_item tb cs c_off is_email A Woff pk false search sel kp) l = map (arr_item tb cs c_on is_email A_id Won pk false search sel kp) l.
Proof.
  intros Hs Hn. apply map_ext_in. intros x Hx. apply arr_item_eq.
  - pose proof (size_in_arr x l Hx). lia.
  - rewrite nodup_keys_arr in Hn. auto.
Qed.

Lemma walk_value_eq search kp sinit slast v : size v < n -> nodup_keys v ->
  walk_value tb cs c_off is_email A Woff false search kp sinit slast v = walk_value tb cs c_on is_email A_id Won false search kp sinit slast v.
Proof.
  intros Hs Hn. destruct v as [| b | num | s | l | l]; cbn [walk_value]; try apply scalar_eq; now apply IH.
Qed.

Lemma fieldname_value_eq search kp sinit slast keep v : size v < n -> nodup_keys v ->
  fieldname_value tb cs c_off is_email A Woff false search kp sinit slast keep v = fieldname_value tb cs c_on is_email A_id Won false search kp sinit slast keep v.
Proof.
  intros Hs Hn. unfold fieldname_value. destruct v as [| b | num | s | l | l]; try reflexivity.
  destruct search; [reflexivity | now apply IH].
Qed.

Lemma stages_eq (f : json -> mode) l : (forall st, mode_rfn (f st) = false) -> size (JArr l) <= n -> nodup_keys (JArr l) ->
  map (fun st => Woff (f st) st) l = map (fun st => Won (f st) st) l.
Proof.
  intros Hm Hs Hn. apply map_ext_in. intros st Hin. apply IH; auto.
  - pose proof (size_in_arr st l Hin). lia.
  - rewrite nodup_keys_arr in Hn. auto.
Qed.

Lemma pipeline_map_member_eq subk subv : size subv < n -> nodup_keys subv ->
  pipeline_map_member tb cs c_off is_email A Woff false subk subv = pipeline_map_member tb cs c_on is_email A_id Won false subk subv.
Proof.
  intros Hs Hn. destruct subv as [| b | num | s | l | l]; cbn [pipeline_map_member]; try apply scalar_eq.
  - f_equal. apply (stages_eq (fun st => MP false [] (is_in_search_stage tb st))); auto. lia.
  - now apply IH.
Qed.

Lemma sub_member_eq search nkp k m subk subv : size subv < n -> nodup_keys subv ->
  sub_member tb cs c_off is_email A Woff false search nkp k m subk subv = sub_member tb cs c_on is_email A_id Won false search nkp k m subk subv.
Proof.
  intros Hs Hn. unfold sub_member. cbn [andb].
  destruct (oget m subk) as [[[]|m'|]|]; try (f_equal; now apply walk_value_eq).
  - (* Pipeline *) f_equal. destruct subv as [| b | num | s | l | l]; try reflexivity. now apply IH.
  - (* FieldName *) f_equal. now apply fieldname_value_eq.
  - (* OperatorArray *) f_equal. destruct subv as [| b | num | s | l | l]; try reflexivity. f_equal.
    apply (stages_eq (fun _ => MP false nkp search)); auto. lia.
  - (* Namespace *) f_equal. cbn [nss set_nss]. symmetry. now apply ns_value_id.
Qed.

Lemma p_generic_eq kp search k v : size v < n -> nodup_keys v ->
  p_generic tb cs c_off is_email A Woff false kp search k v = p_generic tb cs c_on is_email A_id Won false kp search k v.
Proof.
  intros Hs Hn. unfold p_generic. destruct v as [| b | num | s | l | l]; try (now apply walk_value_eq).
  destruct (starts_with_dollar s && negb false); [reflexivity | apply scalar_eq].
Qed.

Lemma obj_map_eq (l : list (string * json)) (g1 g2 : string -> json -> string * json) :
  (forall kv, In kv l -> g1 (fst kv) (snd kv) = g2 (fst kv) (snd kv)) ->
  build (map (fun kv => g1 (fst kv) (snd kv)) l) = build (map (fun kv => g2 (fst kv) (snd kv)) l).
Proof. intros H. f_equal. apply map_ext_in. exact H. Qed.

Lemma p_member_eq kp search k v : size v < n -> nodup_keys v ->
  p_member tb cs c_off is_email A Woff false kp search k v = p_member tb cs c_on is_email A_id Won false kp search k v.
Proof.
  intros Hs Hn. unfold p_member.
  change (p_op tb c_on kp k search v) with (p_op tb c_off kp k search v).
  change (p_key tb A_id false kp k search) with (p_key tb A false kp k search).
  destruct (p_op tb c_off kp k search v) as [[[]|m|]|]; try (f_equal; now apply p_generic_eq).
  - (* Pipeline *) f_equal. destruct v as [| b | num | s | l | l]; try reflexivity.
    + now apply IH.
    + f_equal. pose proof Hn as Hn'. apply nodup_keys_obj in Hn'. destruct Hn' as [_ Hch].
      apply (obj_map_eq l (fun k0 v0 => (k0, pipeline_map_member tb cs c_off is_email A Woff false k0 v0))
                          (fun k0 v0 => (k0, pipeline_map_member tb cs c_on is_email A_id Won false k0 v0))).
      intros kv Hkv. f_equal. apply pipeline_map_member_eq; auto. pose proof (size_in_obj kv l Hkv). lia.
  - (* FieldName *) f_equal. now apply fieldname_value_eq.
  - (* OperatorArray *) f_equal. destruct v as [| b | num | s | l | l]; try reflexivity. f_equal.
    apply (stages_eq (fun _ => MP false (kp ++ [k]) search)); auto. lia.
  - (* Namespace *) f_equal. cbn [nss set_nss]. symmetry. now apply ns_value_id.
  - (* operator map *)
    destruct v as [| b | num | s | l | l]; try (f_equal; now apply p_generic_eq).
    f_equal. f_equal. pose proof Hn as Hn'. apply nodup_keys_obj in Hn'. destruct Hn' as [_ Hch].
    apply (obj_map_eq l (sub_member tb cs c_off is_email A Woff false search (kp ++ [k]) k m)
                        (sub_member tb cs c_on is_email A_id Won false search (kp ++ [k]) k m)).
    intros kv Hkv. apply sub_member_eq; auto. pose proof (size_in_obj kv l Hkv). lia.
Qed.

Lemma q_member_eq search parent kp k v : size v < n -> nodup_keys v ->
  q_member tb cs c_off is_email A Woff false search parent kp k v = q_member tb cs c_on is_email A_id Won false search parent kp k v.
Proof.
  intros Hs Hn. unfold q_member. cbn [andb]. f_equal.
  destruct v as [| b | num | s | l | l]; try reflexivity.
  - destruct (starts_with_dollar s); [reflexivity|]. destruct (is_ty _ Exempt); [reflexivity | apply scalar_eq].
  - now apply IH.
  - now apply IH.
Qed.

End Step.

Theorem walk_nss_off : forall t m, mode_rfn m = false -> nodup_keys t -> Woff m t = Won m t.
Proof.
  intros t. induction t as [t IHt] using json_size_ind. intros m Hm Hn.
  assert (IH : forall t' m', size t' < size t -> mode_rfn m' = false -> nodup_keys t' -> Woff m' t' = Won m' t').
  { intros t' m' Hs Hm' Hn'. apply IHt; auto. }
  destruct t as [| b | num | s | l | l].
  - destruct m; reflexivity.
  - destruct m as [rfn kp search | |]; try reflexivity; cbn [walk p_leaf]; apply scalar_eq.
  - destruct m as [rfn kp search | |]; try reflexivity; cbn [walk p_leaf]; apply scalar_eq.
  - destruct m as [rfn kp search | |]; try reflexivity. simpl in Hm. subst. cbn [walk p_leaf].
    destruct (starts_with_dollar s); [reflexivity | apply scalar_eq].
  - destruct m as [rfn kp search | rfn search parent kp | pk rfn search sel kp]; simpl in Hm; subst; cbn [walk].
    + f_equal. apply (arr_eq (size (JArr l)) IH); auto.
    + reflexivity.
    + f_equal. apply (arr_eq (size (JArr l)) IH); auto.
  - pose proof Hn as Hn'. apply nodup_keys_obj in Hn'. destruct Hn' as [_ Hch].
    destruct m as [rfn kp search | rfn search parent kp | pk rfn search sel kp]; simpl in Hm; subst; cbn [walk].
    + f_equal. apply (obj_map_eq l (p_member tb cs c_off is_email A Woff false kp search) (p_member tb cs c_on is_email A_id Won false kp search)).
      intros kv Hkv. apply (p_member_eq (size (JObj l)) IH); auto. now apply size_in_obj.
    + f_equal. apply (obj_map_eq l (q_member tb cs c_off is_email A Woff false search parent kp) (q_member tb cs c_on is_email A_id Won false search parent kp)).
      intros kv Hkv. apply (q_member_eq (size (JObj l)) IH); auto. now apply size_in_obj.
    + reflexivity.
Qed.

(* the two outputs, position by position *)
Theorem walk_nss_confined t m : mode_rfn m = false -> nodup_keys t ->
  rel3 cs c_on is_email A A_id t (walk tb cs c_on is_email A m t) (Woff m t).
Proof.
  intros Hm Hn. rewrite (walk_nss_off t m Hm Hn). now apply walk_rel3.
Qed.

End Confine.
