(* C14, the converse, for the query-bearing values of a command document. *)
From Coq Require Import Lia.
From Model Require Import Json Tables Walker Line Email.
From Proofs Require Import JsonFacts TableFacts WalkerRel Survivors SurvivorsLine LineRel RelCorollaries SelHot.
Close Scope string_scope. Open Scope list_scope.

Section SelLine.
Variable tb : tables.
Variable cs : consts.
Variable c : cfg.
Variable A : actions.
Variable r : string -> bool.
Hypothesis Hre : re c = Some r.

Notation c0 := (set_re c None).
Notation PAr := (PA r).
Notation plainr := (plain tb r).

Lemma q_obj_pa v : plainr false v -> nodup_keys v -> PAr v (q_obj tb cs c A false v) (q_obj tb cs c0 A false v).
Proof.
  intros Hq Hn. destruct v; try apply PA_eq. unfold q_obj, W.
  apply (walk_pa tb cs c is_email A r Hre (JObj l) (MQ false false MNil []) false); auto. split; reflexivity.
Qed.

Lemma a_arr_pa v : plainr false v -> nodup_keys v -> PAr v (a_arr tb cs c A false v) (a_arr tb cs c0 A false v).
Proof.
  intros Hq Hn. destruct v; try apply PA_eq. unfold a_arr, W.
  apply (walk_pa tb cs c is_email A r Hre (JArr l) (MA "" false false false []) false); auto. split; reflexivity.
Qed.

Lemma pipe_pa v : plainr false v -> nodup_keys v -> PAr v (pipe tb cs c A false v) (pipe tb cs c0 A false v).
Proof.
  intros Hq Hn. destruct v as [| | | | l |]; try apply PA_eq. unfold pipe, W.
  apply (stages_pa tb cs c is_email A r (S (size (JArr l)))); auto.
  intros t m s' _ Hm Hq' Hn'. now apply walk_pa.
Qed.

(* every position of a query-bearing value: under a key matching R the emitted subtree is the one of full mode *)
Theorem cmd_member_pa ins k v : plainr false v -> nodup_keys v ->
  PAr v (cmd_member tb cs c A false ins k v) (cmd_member tb cs c0 A false ins k v).
Proof.
  intros Hq Hn. unfold cmd_member.
  destruct (key_in k _); [now apply q_obj_pa|].
  destruct (key_in k _); [unfold q_or_a; destruct v; try apply PA_eq; [now apply a_arr_pa | now apply q_obj_pa]|].
  destruct (key_in k _); [now apply a_arr_pa|].
  destruct (String.eqb k "documents"); [destruct ins; [now apply a_arr_pa | apply PA_eq]|].
  destruct (String.eqb k "pipeline"); [now apply pipe_pa | apply PA_eq].
Qed.


(* with --redactNamespaces the namespace step only rewrites a top-level string: no position below a key is affected *)
Lemma jget_hash_str o p : p <> [] -> jget (hash_str A o) p = jget o p.
Proof. intros Hp. destruct o; try reflexivity. destruct p; [contradiction | reflexivity]. Qed.

(* ---------- a decidable version of the side condition ---------- *)
Definition member_plainb (h : bool) (k : string) (v : json) : bool :=
  negb (existsb (String.eqb k) (TopSearch tb)) &&
  (negb (r k) || negb (has_entry (sub_entries tb) k OperatorArray || has_entry (sub_entries tb) k Pipeline)) &&
  (negb (is_objb v) || negb (has_entry (all_entries tb) k Pipeline) || (negb (h || r k) && negb (existsb r (obj_keys v)))).

Fixpoint plainb (h : bool) (t : json) : bool :=
  match t with
  | JArr l => forallb (plainb h) l
  | JObj l => forallb (fun kv => member_plainb h (fst kv) (snd kv) && plainb (h || r (fst kv)) (snd kv)) l
  | _ => true
  end.

Lemma member_plainb_sound h k v : member_plainb h k v = true -> member_plain tb r h k v.
Proof.
  unfold member_plainb, member_plain. intros H. apply Bool.andb_true_iff in H. destruct H as [H H3].
  apply Bool.andb_true_iff in H. destruct H as [H1 H2]. split; [|split].
  - now apply Bool.negb_true_iff in H1.
  - intros Hr [Hin|Hin]; rewrite Hr in H2; cbn in H2; rewrite (has_entry_in _ _ _ Hin) in H2; cbn in H2; try discriminate.
    rewrite Bool.orb_true_r in H2. discriminate.
  - intros Ho Hin. rewrite Ho, (has_entry_in _ _ _ Hin) in H3. cbn in H3.
    apply Bool.andb_true_iff in H3. destruct H3 as [Ha Hb]. split; now apply Bool.negb_true_iff.
Qed.

Lemma plainb_sound : forall t h, plainb h t = true -> plainr h t.
Proof.
  intros t. induction t as [t IH] using json_size_ind. intros h H. destruct t as [| | | | l | l]; try exact I.
  - apply plain_arr. intros x Hx. cbn [plainb] in H. rewrite forallb_forall in H. apply IH; [now apply size_in_arr | now apply H].
  - apply plain_obj. intros kv Hkv. cbn [plainb] in H. rewrite forallb_forall in H. specialize (H kv Hkv).
    apply Bool.andb_true_iff in H. destruct H as [H1 H2]. split; [now apply member_plainb_sound|].
    apply IH; [apply (size_in_obj kv l Hkv) | exact H2].
Qed.

End SelLine.
