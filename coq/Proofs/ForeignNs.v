(* C15, last sentence, at the level of the whole line: a line whose namespace starts with none of
   the configured prefixes is redacted exactly as by a run without --redactFieldNames. *)
From Coq Require Import String List.
From Model Require Import Json Tables Walker Line.
From Proofs Require Import JsonFacts.
Import ListNotations.
Open Scope string_scope.

Definition set_eager (c : cfg) (e : list string) : cfg :=
  {| repl := repl c; nums := nums c; bools := bools c; ips := ips c; nss := nss c; eager := e; re := re c |}.

Section Foreign.
Variable tb : tables.
Variable cs : consts.
Variable c : cfg.
Variable A : actions.

Notation c0 := (set_eager c []).

Lemma eager_off attr : eager_on c0 attr = false.
Proof. reflexivity. Qed.

(* nothing but the per-line switch looks at the list of prefixes *)
Lemma attr_member_cfg g rfn k v : attr_member tb cs c0 A g rfn k v = attr_member tb cs c A g rfn k v.
Proof. reflexivity. Qed.

Lemma foreign_attr g attr : eager_on c attr = false -> redact_attr tb cs c A g attr = redact_attr tb cs c0 A g attr.
Proof. intros H. unfold redact_attr. rewrite H, eager_off. reflexivity. Qed.

Definition foreign_entry (entry : list (string * json)) : Prop :=
  forall a, In ("attr", JObj a) entry -> eager_on c a = false.

Lemma foreign_entry_eq entry : foreign_entry entry -> redact_entry tb cs c A entry = redact_entry tb cs c0 A entry.
Proof.
  intros H. unfold redact_entry. change (gate entry) with (gate entry). apply map_ext_in. intros [k v] Hin. cbn [fst snd].
  destruct (String.eqb_spec k "attr") as [->|]; [|reflexivity].
  destruct v as [| | | | |a]; try reflexivity. f_equal. f_equal. apply foreign_attr. now apply H.
Qed.

Theorem foreign_tree t :
  (forall entry, t = JObj entry -> foreign_entry entry) -> redact_tree tb cs c A t = redact_tree tb cs c0 A t.
Proof. intros H. destruct t; try reflexivity. cbn [redact_tree]. f_equal. apply foreign_entry_eq. now apply H. Qed.

End Foreign.

(* the same through the text: parse, redact, print *)
Theorem foreign_line tb cs c enc l :
  (forall entry, parse_line l = Some (JObj entry) -> foreign_entry c entry) ->
  redact_line tb cs c enc l = redact_line tb cs (set_eager c []) enc l.
Proof.
  intros H. unfold redact_line. destruct (parse_line l) as [t|] eqn:E; [|reflexivity].
  change (real_actions cs (set_eager c []) enc) with (real_actions cs c enc).
  rewrite (foreign_tree tb cs c (real_actions cs c enc) t); [reflexivity|].
  intros entry ->. now apply H.
Qed.
