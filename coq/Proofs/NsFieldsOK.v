(* The probed list of namespace-bearing command members (Gen/Probed.v, used by Model/Line.v as redactNamespace's list) against the specification
   side (Spec/NsFields.v): re-checked by the kernel on every run against what the compiled program does now. *)
From Coq Require Import String List Bool.
From Model Require Import Json Tables Walker Line.
From Spec Require Import NsFields.
From Proofs Require Import NsProofs Frame.
Import ListNotations.
Open Scope string_scope.

Lemma ns_fields_ok_now : ns_fields_ok ns_fields = true.
Proof. vm_compute. reflexivity. Qed.

Lemma ns_required_in k : In k ns_required -> key_in k ns_fields = true.
Proof.
  intros Hk. pose proof ns_fields_ok_now as H. unfold ns_fields_ok in H. apply andb_prop in H. destruct H as [H _].
  rewrite forallb_forall in H. exact (H k Hk).
Qed.

Lemma ns_fields_sanctioned k : key_in k ns_sanctioned = false -> key_in k ns_fields = false.
Proof.
  intros Hk. destruct (key_in k ns_fields) eqn:E; [|reflexivity]. exfalso.
  pose proof ns_fields_ok_now as H. unfold ns_fields_ok in H. apply andb_prop in H. destruct H as [_ H].
  rewrite forallb_forall in H. unfold key_in in E. apply existsb_exists in E. destruct E as (x & Hx & Ex).
  apply String.eqb_eq in Ex. subst x. rewrite (H k Hx) in Hk. discriminate.
Qed.

Section S.
Variable tb : tables.
Variable cs : consts.
Variable c : cfg.
Variable A : actions.

(* completeness, for the program as compiled now *)
Lemma declared_verbs_hashed rfn cmd i k s :
  nss c = true -> In k ns_required -> nth_error cmd i = Some (k, JStr s) ->
  nth_error (redact_command tb cs c A rfn cmd) i = Some (k, JStr (a_hash A s)).
Proof. intros Hn Hk Hi. apply command_ns_hashed; [exact Hn | exact Hi | apply ns_required_in; exact Hk]. Qed.

(* confinement, for the program as compiled now: a command member that is neither query-bearing nor a namespace-bearing member of a MongoDB command
   is emitted as it is, whatever the flags *)
Lemma other_members_kept rfn cmd i k v :
  nth_error cmd i = Some (k, v) -> key_in k cmd_zone_keys = false -> key_in k ns_sanctioned = false ->
  nth_error (redact_command tb cs c A rfn cmd) i = Some (k, v).
Proof. intros Hi Hz Hs. eapply command_member_frame; eauto. right. apply ns_fields_sanctioned. exact Hs. Qed.
End S.
