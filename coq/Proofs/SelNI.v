(* C02 in selective mode (--redactFieldsRegexp R): two input trees that differ only in the contents of
   leaves lying UNDER A KEY MATCHING R (on clear paths, each leaf keeping its lexical class) are mapped
   by the walkers to the same output tree. Obtained by composition: below a matching key the selective
   walker IS the full-mode walker (SelHot.walk_hot), full mode is non-interfering (NonInterference.walk_ni),
   and above the matching keys the two inputs are walked in lock step. *)
From Coq Require Import Lia.
From Model Require Import Json Tables Walker.
From Proofs Require Import JsonFacts TableFacts WalkerRel Survivors SurvivorsLine NonInterference SelHot.
Close Scope string_scope. Open Scope list_scope.

Section SelNI.
Variable tb : tables.
Variable cs : consts.
Variable c : cfg.
Variable is_email : string -> bool.
Variable A : actions.
Variable r : string -> bool.
Hypothesis Hre : re c = Some r.
Hypothesis Hempty : ~ In (""%string, Exempt) (all_entries tb).
Hypothesis Hstr : forall s s' ph, a_str A s ph = a_str A s' ph.
Hypothesis Hnum : forall n n', a_num A n = a_num A n'.
Hypothesis Hbool : forall b b', a_bool A b = a_bool A b'.

Notation c0 := (set_re c None).
Notation W := (walk tb cs c is_email A).
Notation W0 := (walk tb cs c0 is_email A).
Notation csim0 := (csim tb c0 is_email).
Notation ck := (NonInterference.clear_key tb).
Notation plainr := (plain tb r).
Notation mplain := (member_plain tb r).

Lemma Hre0 : re c0 = None. Proof. reflexivity. Qed.

Definition IHni (n : nat) : forall t t' m, size t < n -> applicable m t -> mode_ok tb m -> guard tb m -> csim0 t t' -> W0 m t = W0 m t' :=
  fun t t' m _ Ha Ho Hg Hc => walk_ni tb cs c0 is_email A Hre0 Hempty Hstr Hnum Hbool t t' m Ha Ho Hg Hc.

(* the two inputs: equal, or containers related member by member; a member may differ only below a clear
   key, and then: under a matching key as full-mode non-interference allows, otherwise recursively *)
Inductive ssim : json -> json -> Prop :=
| S_eq t : ssim t t
| S_arr l l' : Forall2 ssim l l' -> ssim (JArr l) (JArr l')
| S_obj l l' : Forall2 (fun kv kv' => fst kv = fst kv' /\
                  (snd kv = snd kv' \/
                   (ck (fst kv) (snd kv) = true /\ ck (fst kv) (snd kv') = true /\
                    ((r (fst kv) = true /\ csim0 (snd kv) (snd kv')) \/ (r (fst kv) = false /\ ssim (snd kv) (snd kv')))))) l l' ->
               ssim (JObj l) (JObj l').

Definition mrel (k : string) (v v' : json) : Prop :=
  v = v' \/ (ck k v = true /\ ck k v' = true /\ ((r k = true /\ csim0 v v') \/ (r k = false /\ ssim v v'))).

Lemma ssim_kind t t' : ssim t t' -> match t, t' with
  | JArr _, JArr _ | JObj _, JObj _ | JStr _, JStr _ | JNum _, JNum _ | JBool _, JBool _ | JNull, JNull => True | _, _ => False end.
Proof. intros H. destruct H as [x | l l' Hf | l l' Hf]; [destruct x; exact I | exact I | exact I]. Qed.

Lemma sel_of_ssim l l' : Forall2 ssim l l' -> sel_of c l = sel_of c l'.
Proof.
  intros H. unfold sel_of. rewrite Hre. induction H as [|x y l l' Hxy _ IH]; [reflexivity|]. cbn [existsb]. rewrite IH. f_equal.
  inversion Hxy; subst; reflexivity.
Qed.

(* ---------- a member under a matching key: through full mode ---------- *)
Lemma no_facet k v : mplain false k v -> r k = true -> is_objb v = true -> ~ In (k, Pipeline) (all_entries tb).
Proof. intros (_ & _ & H) Hr Ho Hin. destruct (H Ho Hin) as [Hf _]. cbn [orb] in Hf. congruence. Qed.

Lemma p_member_bridge kp k v v' : r k = true -> mplain false k v -> mplain false k v' -> plainr true v -> plainr true v' ->
  msim tb c0 is_email k v v' ->
  p_member tb cs c is_email A W false kp false k v = p_member tb cs c is_email A W false kp false k v'.
Proof.
  intros Hr Hm Hm' Hq Hq' Hs.
  rewrite (p_member_hot tb cs c is_email A r Hre (S (size v)) (IHhot tb cs c is_email A r Hre (S (size v))) kp k v (Nat.lt_succ_diag_r _) (hot_last r kp k Hr) Hq (no_facet k v Hm Hr)).
  rewrite (p_member_hot tb cs c is_email A r Hre (S (size v')) (IHhot tb cs c is_email A r Hre (S (size v'))) kp k v' (Nat.lt_succ_diag_r _) (hot_last r kp k Hr) Hq' (no_facet k v' Hm' Hr)).
  apply (p_member_ni tb cs c0 is_email A Hre0 Hempty Hstr Hnum Hbool (S (size v)) (IHni (S (size v)))); auto.
Qed.

Lemma sub_member_bridge nkp k m subk subv subv' : within2 tb m -> r subk = true -> mplain false subk subv -> mplain false subk subv' ->
  plainr true subv -> plainr true subv' -> msim tb c0 is_email subk subv subv' ->
  sub_member tb cs c is_email A W false false nkp k m subk subv = sub_member tb cs c is_email A W false false nkp k m subk subv'.
Proof.
  intros Hw Hr Hm Hm' Hq Hq' Hs.
  assert (Hla : ~ list_arg tb subk) by (destruct Hm as (_ & H & _); auto).
  rewrite (sub_member_hot tb cs c is_email A r Hre (S (size subv)) (IHhot tb cs c is_email A r Hre (S (size subv))) nkp k m subk subv Hw (Nat.lt_succ_diag_r _) (hot_last r nkp subk Hr) (or_intror Hla) Hq).
  rewrite (sub_member_hot tb cs c is_email A r Hre (S (size subv')) (IHhot tb cs c is_email A r Hre (S (size subv'))) nkp k m subk subv' Hw (Nat.lt_succ_diag_r _) (hot_last r nkp subk Hr) (or_intror Hla) Hq').
  apply (sub_member_ni tb cs c0 is_email A Hre0 Hempty Hstr Hnum Hbool (S (size subv)) (IHni (S (size subv)))); auto.
Qed.

Lemma q_member_bridge parent kp k v v' : meta_rootish tb parent -> r k = true -> plainr true v -> plainr true v' ->
  msim tb c0 is_email k v v' ->
  q_member tb cs c is_email A W false false parent kp k v = q_member tb cs c is_email A W false false parent kp k v'.
Proof.
  intros Hp Hr Hq Hq' Hs.
  rewrite (q_member_hot tb cs c is_email A r Hre (S (size v)) (IHhot tb cs c is_email A r Hre (S (size v))) parent kp k v (Nat.lt_succ_diag_r _) (hot_last r kp k Hr) Hq).
  rewrite (q_member_hot tb cs c is_email A r Hre (S (size v')) (IHhot tb cs c is_email A r Hre (S (size v'))) parent kp k v' (Nat.lt_succ_diag_r _) (hot_last r kp k Hr) Hq').
  apply (q_member_ni tb cs c0 is_email A Hre0 Hstr Hnum Hbool (S (size v)) (IHni (S (size v)))); auto.
Qed.

Lemma full_in' k t : In (k, t) (all_entries tb) -> ty_full t -> key_full tb k = true.
Proof. intros Hin Ht. apply sanct_full_b. exists t. auto. Qed.

(* ---------- the lock-step part ---------- *)
Section Step.
Variable n : nat.
Hypothesis IH : forall t t' m, size t < n -> mode_cool m -> applicable m t -> mode_ok tb m ->
  plainr false t -> plainr false t' -> ssim t t' -> W m t = W m t'.

Lemma arr_item_sni pk sel kp x x' : size x < n -> plainr false x -> plainr false x' -> ssim x x' ->
  arr_item tb cs c is_email A W pk false false sel kp x = arr_item tb cs c is_email A W pk false false sel kp x'.
Proof.
  intros Hs Hq Hq' H. inversion H as [t | l l' Hf | l l' Hf]; subst; [reflexivity | |]; cbn [arr_item].
  - apply IH; simpl; auto.
  - apply IH; simpl; auto.
Qed.

Lemma arr_sni pk sel kp l l' : size (JArr l) <= n -> plainr false (JArr l) -> plainr false (JArr l') -> Forall2 ssim l l' ->
  map (arr_item tb cs c is_email A W pk false false sel kp) l = map (arr_item tb cs c is_email A W pk false false sel kp) l'.
Proof.
  intros Hs Hq Hq' Hf. rewrite plain_arr in Hq, Hq'. apply (map_Forall2 _ _ ssim); [exact Hf|]. intros x y Hx Hy Hxy.
  apply arr_item_sni; auto. pose proof (size_in_arr x l Hx). lia.
Qed.

Lemma walk_value_sni kp sinit slast v v' : size v < n -> plainr false v -> plainr false v' -> ssim v v' ->
  walk_value tb cs c is_email A W false false kp sinit slast v = walk_value tb cs c is_email A W false false kp sinit slast v'.
Proof.
  intros Hs Hq Hq' H. inversion H as [t | l l' Hf | l l' Hf]; subst; [reflexivity | |]; cbn [walk_value].
  - rewrite (sel_of_ssim l l' Hf). apply IH; simpl; auto.
  - apply IH; simpl; auto.
Qed.

Lemma elems_sni kp l l' : size (JArr l) <= n -> plainr false (JArr l) -> plainr false (JArr l') -> Forall2 ssim l l' ->
  map (fun e => W (MP false kp false) e) l = map (fun e => W (MP false kp false) e) l'.
Proof.
  intros Hs Hq Hq' Hf. rewrite plain_arr in Hq, Hq'. apply (map_Forall2 _ _ ssim); [exact Hf|]. intros x y Hx Hy Hxy.
  apply IH; simpl; auto; [pose proof (size_in_arr x l Hx); lia | destruct x; exact I].
Qed.

Lemma stages_sni l l' : size (JArr l) <= n -> plainr false (JArr l) -> plainr false (JArr l') -> Forall2 ssim l l' ->
  map (fun st => W (MP false [] (is_in_search_stage tb st)) st) l = map (fun st => W (MP false [] (is_in_search_stage tb st)) st) l'.
Proof.
  intros Hs Hq Hq' Hf. rewrite plain_arr in Hq, Hq'. apply (map_Forall2 _ _ ssim); [exact Hf|]. intros x y Hx Hy Hxy.
  rewrite (stage_plain tb r false x (Hq x Hx)), (stage_plain tb r false y (Hq' y Hy)).
  apply IH; simpl; auto; [pose proof (size_in_arr x l Hx); lia | destruct x; exact I].
Qed.

Lemma pipeline_map_member_sni subk subv subv' : size subv < n -> plainr false subv -> plainr false subv' -> ssim subv subv' ->
  pipeline_map_member tb cs c is_email A W false subk subv = pipeline_map_member tb cs c is_email A W false subk subv'.
Proof.
  intros Hs Hq Hq' H. inversion H as [t | l l' Hf | l l' Hf]; subst; [reflexivity | |]; cbn [pipeline_map_member].
  - f_equal. apply stages_sni; auto. lia.
  - apply IH; simpl; auto.
Qed.

Lemma clear_facts k v : ck k v = true -> key_full tb k = false /\ key_nonarr tb k v = false.
Proof. intros H. apply clear_not_full in H. tauto. Qed.

Lemma sub_member_sni nkp k m subk subv subv' : within2 tb m -> size subv < n ->
  mplain false subk subv -> mplain false subk subv' -> plainr (r subk) subv -> plainr (r subk) subv' -> mrel subk subv subv' ->
  sub_member tb cs c is_email A W false false nkp k m subk subv = sub_member tb cs c is_email A W false false nkp k m subk subv'.
Proof.
  intros Hw Hs Hm Hm' Hq Hq' [-> | (Hc & Hc' & [(Hr & Hcs) | (Hr & Hss)])]; [reflexivity | |].
  - rewrite Hr in Hq, Hq'. apply sub_member_bridge; auto. right. auto.
  - rewrite Hr in Hq, Hq'.
    destruct (clear_facts _ _ Hc) as (Hf & Hna). destruct (clear_facts _ _ Hc') as (_ & Hna').
    assert (Hwv : walk_value tb cs c is_email A W false false (nkp ++ [subk]) nkp subk subv = walk_value tb cs c is_email A W false false (nkp ++ [subk]) nkp subk subv')
      by (now apply walk_value_sni).
    unfold sub_member. cbn [andb].
    destruct (oget m subk) as [[t|mm|]|] eqn:Eo; cbn zeta; try (now rewrite Hwv).
    assert (Hsub : In (subk, t) (sub_entries tb)) by (apply Hw; now apply keys_of_leaf).
    pose proof (sub_entries_all tb _ Hsub) as Hin.
    pose proof (ssim_kind _ _ Hss) as Hk.
    destruct t; try (now rewrite Hwv).
    + (* Pipeline *)
      destruct subv as [| | | | l |], subv' as [| | | | l' |]; try contradiction;
        try (exfalso; unfold SurvivorsLine.key_nonarr in Hna; rewrite (has_entry_in _ _ _ Hsub) in Hna; simpl in Hna; rewrite ?Bool.orb_true_r in Hna; discriminate).
      f_equal. inversion Hss as [t | l0 l0' Hfa |]; subst; [reflexivity|]. rewrite (sel_of_ssim l l' Hfa). apply IH; simpl; auto.
    + exfalso. rewrite (full_in' subk Exempt Hin) in Hf; [discriminate | right; left; reflexivity].
    + exfalso. rewrite (full_in' subk FieldName Hin) in Hf; [discriminate | left; reflexivity].
    + (* OperatorArray *)
      destruct subv as [| | | | l |], subv' as [| | | | l' |]; try contradiction;
        try (exfalso; unfold SurvivorsLine.key_nonarr in Hna; rewrite (has_entry_in _ _ _ Hsub) in Hna; simpl in Hna; rewrite ?Bool.orb_true_r in Hna; discriminate).
      f_equal. f_equal. inversion Hss as [t | l0 l0' Hfa |]; subst; [reflexivity|]. apply elems_sni; auto. simpl in *. lia.
    + exfalso. rewrite (full_in' subk Namespace Hin) in Hf; [discriminate | right; right; reflexivity].
Qed.

Lemma p_generic_sni kp k v v' : size v < n -> plainr false v -> plainr false v' -> ssim v v' ->
  p_generic tb cs c is_email A W false kp false k v = p_generic tb cs c is_email A W false kp false k v'.
Proof.
  intros Hs Hq Hq' H. pose proof (ssim_kind _ _ H) as Hk. unfold p_generic.
  destruct v as [| b | num | s | l | l], v' as [| b' | num' | s' | l' | l']; try contradiction; try (now apply walk_value_sni).
  inversion H; subst. reflexivity.
Qed.

Lemma p_op_cool kp k v : p_op tb c kp k false v = get_op tb kp k false.
Proof. exact (proj1 (p_op_plain tb c kp k v)). Qed.

Lemma p_member_sni kp k v v' : size v < n ->
  mplain false k v -> mplain false k v' -> plainr (r k) v -> plainr (r k) v' -> mrel k v v' ->
  p_member tb cs c is_email A W false kp false k v = p_member tb cs c is_email A W false kp false k v'.
Proof.
  intros Hs Hm Hm' Hq Hq' [-> | (Hc & Hc' & [(Hr & Hcs) | (Hr & Hss)])]; [reflexivity | |].
  - rewrite Hr in Hq, Hq'. apply p_member_bridge; auto. right. auto.
  - rewrite Hr in Hq, Hq'.
    destruct (clear_facts _ _ Hc) as (Hf & Hna). destruct (clear_facts _ _ Hc') as (_ & Hna').
    pose proof (ssim_kind _ _ Hss) as Hk.
    unfold p_member. rewrite !p_op_cool.
    destruct (get_op tb kp k false) as [[t|m|]|] eqn:Eg; cbn zeta; try (f_equal; now apply p_generic_sni).
    + pose proof Eg as Eg'. apply get_op_good in Eg'. simpl in Eg'.
      destruct t; try (f_equal; now apply p_generic_sni); (destruct Eg' as [Eg'|Hin]; [discriminate|]).
      * (* Pipeline *)
        destruct v as [| b | num | s | l | l], v' as [| b' | num' | s' | l' | l']; try contradiction;
          try (exfalso; unfold SurvivorsLine.key_nonarr in Hna; rewrite (has_entry_in _ _ _ Hin) in Hna; simpl in Hna; discriminate).
        -- f_equal. inversion Hss as [t | l0 l0' Hfa |]; subst; [reflexivity|]. rewrite (sel_of_ssim l l' Hfa). apply IH; simpl; auto.
        -- f_equal. f_equal. f_equal.
           inversion Hss as [t | | l0 l0' Hfa]; subst; [reflexivity|].
           destruct Hm as (_ & _ & Hfac). destruct (Hfac eq_refl Hin) as [_ Hnone]. cbn [obj_keys] in Hnone.
           pose proof Hq as Hql. rewrite plain_obj in Hql. pose proof Hq' as Hql'. rewrite plain_obj in Hql'.
           apply (map_Forall2 _ _ _ _ _ Hfa). intros a b Ha Hb [E Hrel]. rewrite <- E. f_equal.
           assert (Era : r (fst a) = false) by (apply (existsb_false_in r (map fst l)); [exact Hnone | now apply in_map]).
           destruct (Hql a Ha) as (_ & Hpa). destruct (Hql' b Hb) as (_ & Hpb). rewrite <- E in Hpb. rewrite Era in Hpa, Hpb. cbn [orb] in Hpa, Hpb.
           destruct Hrel as [-> | (_ & _ & [(Hra & _) | (_ & Hs2)])]; [reflexivity | congruence |].
           apply pipeline_map_member_sni; auto. pose proof (size_in_obj a l Ha). simpl in *. lia.
      * exfalso. rewrite (full_in' k Exempt Hin) in Hf; [discriminate | right; left; reflexivity].
      * exfalso. rewrite (full_in' k FieldName Hin) in Hf; [discriminate | left; reflexivity].
      * (* OperatorArray *)
        destruct v as [| b | num | s | l | l], v' as [| b' | num' | s' | l' | l']; try contradiction;
          try (exfalso; unfold SurvivorsLine.key_nonarr in Hna; rewrite (has_entry_in _ _ _ Hin) in Hna; simpl in Hna; rewrite ?Bool.orb_true_r in Hna; discriminate).
        f_equal. f_equal. inversion Hss as [t | l0 l0' Hfa |]; subst; [reflexivity|]. apply elems_sni; auto. simpl in *. lia.
      * exfalso. rewrite (full_in' k Namespace Hin) in Hf; [discriminate | right; right; reflexivity].
    + (* operator map *)
      pose proof Eg as Hw. apply get_op_good in Hw. simpl in Hw.
      destruct v as [| b | num | s | l | l], v' as [| b' | num' | s' | l' | l']; try contradiction; try (f_equal; now apply p_generic_sni).
      f_equal. f_equal. f_equal.
      inversion Hss as [t | | l0 l0' Hfa]; subst; [reflexivity|].
      pose proof Hq as Hql. rewrite plain_obj in Hql. pose proof Hq' as Hql'. rewrite plain_obj in Hql'.
      apply (map_Forall2 _ _ _ _ _ Hfa). intros a b Ha Hb [E Hrel]. rewrite <- E.
      destruct (Hql a Ha) as (Hma & Hpa). destruct (Hql' b Hb) as (Hmb & Hpb). rewrite <- E in Hmb, Hpb. cbn [orb] in Hpa, Hpb.
      apply sub_member_sni; auto. pose proof (size_in_obj a l Ha). simpl in *. lia.
Qed.

Lemma q_member_sni parent kp k v v' : meta_rootish tb parent -> size v < n ->
  plainr (r k) v -> plainr (r k) v' -> mrel k v v' ->
  q_member tb cs c is_email A W false false parent kp k v = q_member tb cs c is_email A W false false parent kp k v'.
Proof.
  intros Hpw Hs Hq Hq' [-> | (Hc & Hc' & [(Hr & Hcs) | (Hr & Hss)])]; [reflexivity | |].
  - rewrite Hr in Hq, Hq'. apply q_member_bridge; auto. right. auto.
  - rewrite Hr in Hq, Hq'. unfold q_member. cbn [andb]. f_equal.
    set (found := match parent with MMap pm => oget pm k | _ => oget (Core tb) k end).
    assert (Hfound : forall mm, found = Some mm -> good tb k mm).
    { intros mm Hfd. unfold found in Hfd. destruct parent as [t|pm|]; simpl in Hpw.
      - eapply oget_good; [apply rootish_Core | exact Hfd].
      - eapply oget_good; [exact Hpw | exact Hfd].
      - eapply oget_good; [apply rootish_Core | exact Hfd]. }
    inversion Hss as [t | l l' Hfa | l l' Hfa]; subst; [reflexivity | |].
    + rewrite (sel_of_ssim l l' Hfa). apply IH; simpl; auto.
    + apply IH; simpl; auto.
      destruct found as [mm|] eqn:Ef; simpl; auto. specialize (Hfound _ eq_refl). destruct mm; simpl in *; auto. now apply within2_rootish.
Qed.

End Step.

Theorem walk_sni : forall t t' m, mode_cool m -> applicable m t -> mode_ok tb m ->
  plainr false t -> plainr false t' -> ssim t t' -> W m t = W m t'.
Proof.
  intros t. induction t as [t IHt] using json_size_ind. intros t' m Hm Happ Hok Hq Hq' H.
  assert (IH : forall x x' m', size x < size t -> mode_cool m' -> applicable m' x -> mode_ok tb m' ->
                plainr false x -> plainr false x' -> ssim x x' -> W m' x = W m' x') by (intros; apply IHt; auto).
  inversion H as [x | l l' Hf | l l' Hf]; subst; [reflexivity | |].
  - destruct m as [rfn kp search | rfn search parent kp | pk rfn search sel kp]; simpl in Happ; try contradiction; destruct Hm as (-> & ->); cbn [walk].
    + f_equal. rewrite (sel_of_ssim l l' Hf). apply (arr_sni (size (JArr l)) IH); auto.
    + f_equal. apply (arr_sni (size (JArr l)) IH); auto.
  - pose proof Hq as Hql. rewrite plain_obj in Hql. pose proof Hq' as Hql'. rewrite plain_obj in Hql'.
    destruct m as [rfn kp search | rfn search parent kp | pk rfn search sel kp]; simpl in Happ; try contradiction; destruct Hm as (-> & ->); cbn [walk].
    + f_equal. f_equal. apply (map_Forall2 _ _ _ _ _ Hf). intros a b Ha Hb [E Hrel]. rewrite <- E.
      destruct (Hql a Ha) as (Hma & Hpa). destruct (Hql' b Hb) as (Hmb & Hpb). rewrite <- E in Hmb, Hpb. cbn [orb] in Hpa, Hpb.
      apply (p_member_sni (size (JObj l)) IH); auto. now apply size_in_obj.
    + f_equal. f_equal. apply (map_Forall2 _ _ _ _ _ Hf). intros a b Ha Hb [E Hrel]. rewrite <- E.
      destruct (Hql a Ha) as (Hma & Hpa). destruct (Hql' b Hb) as (Hmb & Hpb). rewrite <- E in Hmb, Hpb. cbn [orb] in Hpa, Hpb.
      apply (q_member_sni (size (JObj l)) IH); auto; try (now apply size_in_obj); destruct parent; simpl in *; auto.
Qed.

End SelNI.
