(* What the parser returns is well formed: no duplicate sibling keys (objects are built with
   oset) and every string - key or value - is valid UTF-8 (escapes are re-encoded, invalid bytes
   become U+FFFD, valid sequences are copied). *)
From Coq Require Import NArith List Ascii String Bool Lia.
From Model Require Import Json Utf8 JsonText.
From Proofs Require Import JsonFacts Utf8Facts NumFacts StrCodec Codec.
Import ListNotations.
Open Scope char_scope. Open Scope list_scope.

(* ---------- strings ---------- *)
Definition accI (acc : list ascii) : Prop := valid_utf8 (map N_of (rev acc)).

Lemma push_list acc X : accI acc -> valid_utf8 (map N_of X) -> accI (rev X ++ acc).
Proof. unfold accI. intros Ha Hx. rewrite rev_app_distr, rev_involutive, map_app. now apply valid_app. Qed.

Lemma push1 acc ch : accI acc -> (N_of ch < 128)%N -> accI (ch :: acc).
Proof.
  intros Ha Hc. change (ch :: acc) with (rev [ch] ++ acc). apply push_list; [exact Ha|].
  simpl. eapply valid_single_rune. apply R1. exact Hc.
Qed.

Lemma push_rune acc u : accI acc -> accI (rev (bytes_to_ascii (encode_rune u)) ++ acc).
Proof.
  intros Ha. apply push_list; [exact Ha|]. unfold bytes_to_ascii. rewrite map_map.
  rewrite (map_ext_in _ (fun x => x)), map_id; [apply encode_rune_valid|].
  intros b Hb. apply N_of_ch_of. pose proof (encode_rune_bytes u) as H. rewrite Forall_forall in H. now apply H.
Qed.

Lemma firstn_firstn_le {X} (l : list X) a b : (a <= b)%nat -> firstn a (firstn b l) = firstn a l.
Proof. intros H. rewrite firstn_firstn. now rewrite Nat.min_l. Qed.

Lemma push_seq acc (l : list ascii) cp size : accI acc ->
  decode_rune (map N_of (firstn 4 l)) = Some (cp, size) -> accI (rev (firstn size l) ++ acc).
Proof.
  intros Ha Hd. apply push_list; [exact Ha|].
  apply decode_rune_at in Hd. destruct Hd as (pre & r & Hr & ->).
  pose proof (rune_at_app _ _ _ _ Hr) as E.
  assert (Hlen : (List.length pre <= 4)%nat) by (inversion Hr; simpl; lia).
  assert (Ep : map N_of (firstn (List.length pre) l) = pre).
  { rewrite <- (firstn_firstn_le l _ 4 Hlen). rewrite <- firstn_map, E.
    rewrite firstn_app, Nat.sub_diag, firstn_all. cbn [firstn]. apply app_nil_r. }
  rewrite Ep. eapply valid_single_rune. rewrite <- (app_nil_r pre) at 1. eapply rune_at_tail. exact Hr.
Qed.

Lemma str_bytes_of_list l : str_bytes (string_of_list_ascii l) = map N_of l.
Proof. unfold str_bytes. now rewrite list_ascii_of_string_of_list_ascii. Qed.

Lemma parse_str_valid fuel : forall l acc s r, accI acc -> parse_str fuel l acc = Some (s, r) -> valid_string s.
Proof.
  induction fuel as [|f IH]; intros l acc s r Ha H; [discriminate|].
  cbn [parse_str] in H. destruct l as [|ch r0]; [discriminate|].
  destruct (N_of ch =? 34)%N.
  { injection H as <- <-. unfold valid_string. rewrite str_bytes_of_list, rev'_rev. exact Ha. }
  destruct (N_of ch <? 32)%N; [discriminate|].
  destruct (N_of ch =? 92)%N.
  { destruct r0 as [|e r2]; [discriminate|].
    destruct (Ascii.eqb e """"); [eapply IH; [|exact H]; apply push1; [exact Ha | reflexivity]|].
    destruct (Ascii.eqb e "\"); [eapply IH; [|exact H]; apply push1; [exact Ha | reflexivity]|].
    destruct (Ascii.eqb e "/"); [eapply IH; [|exact H]; apply push1; [exact Ha | reflexivity]|].
    destruct (Ascii.eqb e "b"); [eapply IH; [|exact H]; apply push1; [exact Ha | reflexivity]|].
    destruct (Ascii.eqb e "f"); [eapply IH; [|exact H]; apply push1; [exact Ha | reflexivity]|].
    destruct (Ascii.eqb e "n"); [eapply IH; [|exact H]; apply push1; [exact Ha | reflexivity]|].
    destruct (Ascii.eqb e "r"); [eapply IH; [|exact H]; apply push1; [exact Ha | reflexivity]|].
    destruct (Ascii.eqb e "t"); [eapply IH; [|exact H]; apply push1; [exact Ha | reflexivity]|].
    destruct (Ascii.eqb e "u"); [|discriminate].
    destruct (hex4 r2) as [[u1 r3]|]; [|discriminate].
    destruct ((55296 <=? u1)%N && (u1 <? 57344)%N).
    - cbv zeta in H.
      destruct (hd_is "\" r3) as [r3'|]; [|eapply IH; [|exact H]; now apply push_rune].
      destruct (hd_is "u" r3') as [r4|]; [|eapply IH; [|exact H]; now apply push_rune].
      destruct (hex4 r4) as [[u2 r5]|].
      + destruct ((u1 <? 56320)%N && (56320 <=? u2)%N && (u2 <? 57344)%N);
          (eapply IH; [|exact H]); now apply push_rune.
      + eapply IH; [|exact H]. now apply push_rune.
    - eapply IH; [|exact H]. now apply push_rune. }
  destruct (N_of ch <? 128)%N eqn:E128.
  { eapply IH; [|exact H]. apply push1; [exact Ha | now apply N.ltb_lt]. }
  destruct (decode_rune (map N_of (firstn 4 (ch :: r0)))) as [[cp size]|] eqn:Ed.
  - eapply IH; [|exact H]. eapply push_seq; eauto.
  - eapply IH; [|exact H]. now apply push_rune.
Qed.

Lemma accI_nil : accI [].
Proof. unfold accI. simpl. constructor. Qed.

(* ---------- values ---------- *)
Definition wfp (t : json) : Prop := nodup_keys t /\ strings_valid t.

Lemma oset_keys {A} (acc : list (string * A)) k v : map fst (oset acc k v) = map fst acc \/ (~ In k (map fst acc) /\ map fst (oset acc k v) = map fst acc ++ [k]).
Proof.
  induction acc as [|[k' v'] acc IH]; simpl.
  - right. split; [tauto | reflexivity].
  - destruct (String.eqb k' k) eqn:E.
    + left. reflexivity.
    + destruct IH as [IH | [Hn IH]].
      * left. simpl. now rewrite IH.
      * right. split; [|simpl; now rewrite IH]. intros [Hk | Hk]; [|tauto]. subst. rewrite String.eqb_refl in E. discriminate.
Qed.

Lemma oset_nodup {A} (acc : list (string * A)) k v : NoDup (map fst acc) -> NoDup (map fst (oset acc k v)).
Proof.
  intros H. destruct (oset_keys acc k v) as [E | [Hn E]]; rewrite E; [exact H|].
  clear E. induction (map fst acc) as [|a l IHl]; simpl.
  - constructor; [intros [] | constructor].
  - inversion H as [|? ? Ha Hl]; subst. constructor.
    + intros Hin. apply in_app_or in Hin. destruct Hin as [Hin | [<- | []]]; [contradiction|]. apply Hn. simpl. auto.
    + apply IHl; auto. intros Hin. apply Hn. simpl. auto.
Qed.

Lemma oset_in {A} (acc : list (string * A)) k v kv : In kv (oset acc k v) -> kv = (k, v) \/ In kv acc.
Proof.
  induction acc as [|[k' v'] acc IH]; simpl.
  - intros [<- | []]. now left.
  - destruct (String.eqb k' k) eqn:E.
    + apply String.eqb_eq in E. subst. intros [<- | H]; [now left | right; now right].
    + intros [<- | H]; [right; now left|]. destruct (IH H); [now left | right; now right].
Qed.

Definition obj_ok (acc : list (string * json)) : Prop :=
  NoDup (map fst acc) /\ forall kv, In kv acc -> valid_string (fst kv) /\ wfp (snd kv).

Lemma obj_ok_wfp acc : obj_ok acc -> wfp (JObj acc).
Proof.
  intros [Hn H]. split.
  - apply nodup_keys_obj. split; [exact Hn|]. intros kv Hkv. apply H. exact Hkv.
  - apply strings_valid_obj. intros kv Hkv. destruct (H kv Hkv) as [Hk [_ Hv]]. auto.
Qed.

Lemma arr_ok_wfp l : (forall x, In x l -> wfp x) -> wfp (JArr l).
Proof.
  intros H. split; [apply nodup_keys_arr | apply strings_valid_arr]; intros x Hx; apply H; exact Hx.
Qed.

Lemma parse_scalar_wfp l t r : parse_scalar l = Some (t, r) -> wfp t.
Proof.
  unfold parse_scalar. destruct (strip_prefix lit_true l); [intros H; injection H as <- _; split; exact I|].
  destruct (strip_prefix lit_false l); [intros H; injection H as <- _; split; exact I|].
  destruct (strip_prefix lit_null l); [intros H; injection H as <- _; split; exact I|].
  destruct (parse_num l) as [[lit r']|]; [|discriminate]. intros H. injection H as <- _. split; exact I.
Qed.

Lemma parse_wfp fuel :
  (forall l t r, parse_value fuel l = Some (t, r) -> wfp t) /\
  (forall l acc t r, obj_ok acc -> parse_members fuel l acc = Some (t, r) -> wfp t) /\
  (forall l acc t r, (forall x, In x acc -> wfp x) -> parse_elems fuel l acc = Some (t, r) -> wfp t).
Proof.
  induction fuel as [|f (IHv & IHm & IHe)]; [split; [|split]; intros; discriminate|].
  split; [|split].
  - intros l t r H. cbn [parse_value] in H. destruct (skip_ws l) as [|ch r0]; [discriminate|].
    destruct (Ascii.eqb ch "{").
    { destruct (hd_is "}" (skip_ws r0)).
      - injection H as <- _. split; [simpl; split; [constructor | exact I] | exact I].
      - eapply IHm; [|exact H]. split; [constructor | intros kv []]. }
    destruct (Ascii.eqb ch "[").
    { destruct (hd_is "]" (skip_ws r0)).
      - injection H as <- _. split; exact I.
      - eapply IHe; [|exact H]. intros x []. }
    destruct (Ascii.eqb ch """").
    { destruct (parse_str (S (List.length r0)) r0 []) as [[s r']|] eqn:Es; [|discriminate]. injection H as <- _.
      split; [exact I|]. simpl. eapply parse_str_valid; [apply accI_nil | exact Es]. }
    eapply parse_scalar_wfp. exact H.
  - intros l acc t r Hacc H. cbn [parse_members] in H.
    destruct (hd_is """" l) as [r0|]; [|discriminate].
    destruct (parse_str (S (List.length r0)) r0 []) as [[k r1]|] eqn:Es; [|discriminate].
    destruct (hd_is ":" (skip_ws r1)) as [r2|]; [|discriminate].
    destruct (parse_value f r2) as [[v r3]|] eqn:Ev; [|discriminate].
    assert (Hacc' : obj_ok (oset acc k v)).
    { destruct Hacc as [Hn Hall]. split; [now apply oset_nodup|]. intros kv Hkv. apply oset_in in Hkv. destruct Hkv as [-> | Hkv]; [|auto].
      split; [eapply parse_str_valid; [apply accI_nil | exact Es] | eapply IHv; exact Ev]. }
    cbv zeta in H.
    destruct (hd_is "," (skip_ws r3)) as [r4|]; [eapply IHm; [exact Hacc' | exact H]|].
    destruct (hd_is "}" (skip_ws r3)) as [r4|]; [|discriminate].
    injection H as <- _. now apply obj_ok_wfp.
  - intros l acc t r Hacc H. cbn [parse_elems] in H.
    destruct (hd_is "]" l); [discriminate|]. destruct (hd_is "}" l); [discriminate|].
    destruct (parse_value f l) as [[v r1]|] eqn:Ev; [|discriminate].
    assert (Hacc' : forall x, In x (v :: acc) -> wfp x).
    { intros x [<- | Hx]; [eapply IHv; exact Ev | auto]. }
    destruct (hd_is "," (skip_ws r1)) as [r2|]; [eapply IHe; [exact Hacc' | exact H]|].
    destruct (hd_is "]" (skip_ws r1)) as [r2|]; [|discriminate].
    injection H as <- _. apply arr_ok_wfp. intros x Hx. rewrite rev'_rev in Hx. apply in_rev in Hx. auto.
Qed.

Theorem parse_line_wfp l t : parse_line l = Some t -> nodup_keys t /\ strings_valid t.
Proof.
  unfold parse_line. destruct (parse_value (S (List.length l)) l) as [[v r]|] eqn:E; [|discriminate].
  destruct v; try discriminate. intros H. injection H as <-.
  destruct (parse_wfp (S (List.length l))) as (Hv & _). exact (Hv _ _ _ E).
Qed.
