(* Field-name mode (--redactFieldNames) against the same run without it, walker by walker:
   on every CLEAR index path (one that passes below no key the tables classify as not redactable)
   a leaf that is not a '$field' reference is emitted by the field-name-mode walker exactly as by
   the ordinary walker. Hence (C15) values are redacted as without the flag, and (C01) the survivor
   theorem carries over to field-name mode.

   Keys are renamed in field-name mode; positions are index paths, so the statement needs the
   renamed sibling keys to stay pairwise distinct (otherwise orderedmap.Set merges two members):
   [sib_ok], an injectivity condition on the pseudonym function over the sibling keys of the input. *)
From Coq Require Import Lia.
From Model Require Import Json Tables Walker.
From Proofs Require Import JsonFacts TableFacts WalkerRel Survivors SurvivorsLine NonInterference.
Close Scope string_scope. Open Scope list_scope.

Section RfnSim.
Variable tb : tables.
Variable cs : consts.
Variable c : cfg.
Variable is_email : string -> bool.
Variable A : actions.
Hypothesis Hre : re c = None.

Notation W := (walk tb cs c is_email A).
Notation hn := (a_hash A).
Notation clear := (clear tb).
Notation key_full := (key_full tb).
Notation key_nonarr := (key_nonarr tb).

(* the pseudonym function does not merge sibling keys *)
Definition keys_ok (ks : list string) : Prop :=
  forall k1 k2, In k1 ks -> In k2 ks -> k1 <> k2 -> hn k1 <> hn k2 /\ hn k1 <> k2.

Fixpoint sib_ok (t : json) : Prop :=
  match t with
  | JArr l => (fix go (l : list json) : Prop := match l with [] => True | x :: rest => sib_ok x /\ go rest end) l
  | JObj l => keys_ok (map fst l) /\
              (fix go (l : list (string * json)) : Prop := match l with [] => True | kv :: rest => sib_ok (snd kv) /\ go rest end) l
  | _ => True
  end.

Lemma sib_ok_arr l : sib_ok (JArr l) <-> forall x, In x l -> sib_ok x.
Proof.
  simpl. induction l as [|y l IH]; split; intros H.
  - intros x [].
  - exact I.
  - intros x [->|Hx]; [tauto|]. apply IH; tauto.
  - split; [apply H; simpl; auto|]. apply IH. intros x Hx. apply H. simpl. auto.
Qed.

Lemma sib_ok_obj l : sib_ok (JObj l) <-> keys_ok (map fst l) /\ forall kv, In kv l -> sib_ok (snd kv).
Proof.
  simpl. split.
  - intros [Hn H]. split; [exact Hn|]. clear Hn. induction l as [|y l IH]; intros kv Hin; [contradiction|].
    destruct Hin as [->|Hin]; [tauto|]. apply IH; tauto.
  - intros [Hn H]. split; [exact Hn|]. clear Hn. induction l as [|y l IH]; [exact I|].
    split; [apply H; simpl; auto|]. apply IH. intros kv Hin. apply H. simpl. auto.
Qed.

(* members renamed or not, one by one: the keys stay pairwise distinct *)
Lemma renamed_nodup (l : list (string * json)) (g : string * json -> string * json) :
  NoDup (map fst l) -> keys_ok (map fst l) ->
  (forall kv, In kv l -> fst (g kv) = fst kv \/ fst (g kv) = hn (fst kv)) ->
  NoDup (map fst (map g l)).
Proof.
  intros Hnd Hok Hg. rewrite map_map.
  assert (Hgen : forall l', incl l' l -> NoDup (map fst l') -> NoDup (map (fun kv => fst (g kv)) l')).
  { induction l' as [|a l' IH]; intros Hi Hn; [constructor|]. simpl. inversion Hn as [|x xs Hnotin Hn']; subst.
    constructor; [|apply IH; [intros z Hz; apply Hi; simpl; auto | exact Hn']].
    intros Hin. apply in_map_iff in Hin. destruct Hin as (b & Eb & Hb).
    assert (Hab : fst a <> fst b) by (intros E; apply Hnotin; rewrite E; now apply in_map).
    assert (Ia : In (fst a) (map fst l)) by (apply in_map; apply Hi; simpl; auto).
    assert (Ib : In (fst b) (map fst l)) by (apply in_map; apply Hi; simpl; auto).
    destruct (Hok _ _ Ia Ib Hab) as [H1 H2]. destruct (Hok _ _ Ib Ia (fun E => Hab (eq_sym E))) as [H3 H4].
    destruct (Hg a (Hi a (or_introl eq_refl))) as [Ea|Ea], (Hg b (Hi b (or_intror Hb))) as [Eb'|Eb']; rewrite Ea, Eb' in Eb; congruence. }
  apply Hgen; [apply incl_refl | exact Hnd].
Qed.

Definition nd (v : json) : Prop := match v with JStr s => starts_with_dollar s = false | _ => True end.

(* agreement of two outputs on the clear paths of the input that lead to a leaf which is not a '$field' reference *)
Definition PL (t o o' : json) : Prop :=
  forall p leaf, jget t p = Some leaf -> is_leaf leaf -> nd leaf -> clear t p = true -> jget o p = jget o' p.

Lemma PL_eq t o : PL t o o.
Proof. intros p leaf _ _ _ _. reflexivity. Qed.

Lemma PL_leaf t o o' : is_leaf t -> (nd t -> o = o') -> PL t o o'.
Proof.
  intros Hl H p leaf Hg Hlf Hnd _. destruct p as [|i r].
  - simpl in Hg. injection Hg as <-. now rewrite (H Hnd).
  - destruct t; try contradiction; discriminate.
Qed.

Lemma PL_arr l f f' : (forall x, In x l -> PL x (f x) (f' x)) -> PL (JArr l) (JArr (map f l)) (JArr (map f' l)).
Proof.
  intros H p leaf Hg Hlf Hnd Hc. destruct p as [|i r].
  - simpl in Hg. injection Hg as <-. contradiction.
  - cbn [jget] in *. cbn [SurvivorsLine.clear] in Hc. rewrite !nth_error_map.
    destruct (nth_error l i) as [x|] eqn:E; [|discriminate]. cbn [option_map].
    apply (H x (nth_error_In _ _ E) r leaf); auto.
Qed.

Definition clear_key (k : string) (v : json) : bool :=
  negb (key_full k) && negb (String.eqb k "subType") && negb (key_nonarr k v).

Lemma PL_obj l (g g' : string * json -> string * json) :
  NoDup (map fst (map g l)) -> NoDup (map fst (map g' l)) ->
  (forall kv, In kv l -> clear_key (fst kv) (snd kv) = true -> PL (snd kv) (snd (g kv)) (snd (g' kv))) ->
  PL (JObj l) (JObj (build (map g l))) (JObj (build (map g' l))).
Proof.
  intros Hn Hn' H. rewrite (build_nodup _ Hn), (build_nodup _ Hn').
  intros p leaf Hg Hlf Hnd Hc. destruct p as [|i r].
  - simpl in Hg. injection Hg as <-. contradiction.
  - cbn [jget] in *. cbn [SurvivorsLine.clear] in Hc. rewrite !nth_error_map.
    destruct (nth_error l i) as [[k x]|] eqn:E; [|discriminate]. cbn [option_map snd].
    apply andb_prop in Hc. destruct Hc as [Hc Hc4].
    exact (H (k, x) (nth_error_In _ _ E) Hc r leaf Hg Hlf Hnd Hc4).
Qed.

Lemma clear_key_facts k v : clear_key k v = true -> key_full k = false /\ k <> "subType"%string /\ key_nonarr k v = false.
Proof.
  unfold clear_key. intros H. apply andb_prop in H. destruct H as [H H3]. apply andb_prop in H. destruct H as [H1 H2].
  apply Bool.negb_true_iff in H1, H2, H3. repeat split; auto. intros ->. discriminate.
Qed.

Lemma full_in k t : In (k, t) (all_entries tb) -> ty_full t -> key_full k = true.
Proof. intros Hin Ht. apply sanct_full_b. exists t. auto. Qed.

Section Step.
Variable n : nat.
(* the three walkers, each against itself with the field-name switch on *)
Hypothesis IHP : forall t kp s, size t < n -> sib_ok t -> nodup_keys t -> PL t (W (MP false kp s) t) (W (MP true kp s) t).
Hypothesis IHQ : forall t s par kp, size t < n -> sib_ok t -> nodup_keys t -> PL t (W (MQ false s par kp) t) (W (MQ true s par kp) t).
Hypothesis IHA : forall t pk s sel kp, size t < n -> sib_ok t -> nodup_keys t -> PL t (W (MA pk false s sel kp) t) (W (MA pk true s sel kp) t).

Lemma arr_item_pl pk s sel kp x : size x < n -> sib_ok x -> nodup_keys x ->
  PL x (arr_item tb cs c is_email A W pk false s sel kp x) (arr_item tb cs c is_email A W pk true s sel kp x).
Proof.
  intros Hs Hk Hn. destruct x as [| b | num | str | l | l]; cbn [arr_item].
  - apply PL_eq.
  - apply PL_eq.
  - apply PL_eq.
  - apply PL_leaf; [exact I|]. cbn [nd]. intros ->. reflexivity.
  - now apply IHA.
  - now apply IHQ.
Qed.

Lemma arr_pl pk s sel kp l : size (JArr l) <= n -> sib_ok (JArr l) -> nodup_keys (JArr l) ->
  PL (JArr l) (JArr (map (arr_item tb cs c is_email A W pk false s sel kp) l)) (JArr (map (arr_item tb cs c is_email A W pk true s sel kp) l)).
Proof.
  intros Hs Hk Hn. apply PL_arr. intros x Hx. rewrite sib_ok_arr in Hk. rewrite nodup_keys_arr in Hn.
  apply arr_item_pl; auto. pose proof (size_in_arr x l Hx). lia.
Qed.

Lemma walk_value_pl s kp sinit slast v : size v < n -> sib_ok v -> nodup_keys v ->
  PL v (walk_value tb cs c is_email A W false s kp sinit slast v) (walk_value tb cs c is_email A W true s kp sinit slast v).
Proof.
  intros Hs Hk Hn. destruct v as [| b | num | str | l | l]; cbn [walk_value]; try apply PL_eq.
  - now apply IHA.
  - now apply IHP.
Qed.

Lemma elems_pl kp s l : size (JArr l) <= n -> sib_ok (JArr l) -> nodup_keys (JArr l) ->
  PL (JArr l) (JArr (map (fun e => W (MP false kp s) e) l)) (JArr (map (fun e => W (MP true kp s) e) l)).
Proof.
  intros Hs Hk Hn. apply PL_arr. intros e Hin. rewrite sib_ok_arr in Hk. rewrite nodup_keys_arr in Hn.
  apply IHP; auto. pose proof (size_in_arr e l Hin). lia.
Qed.

Lemma stages_pl l : size (JArr l) <= n -> sib_ok (JArr l) -> nodup_keys (JArr l) ->
  PL (JArr l) (JArr (map (fun st => W (MP false [] (is_in_search_stage tb st)) st) l)) (JArr (map (fun st => W (MP true [] (is_in_search_stage tb st)) st) l)).
Proof.
  intros Hs Hk Hn. apply PL_arr. intros e Hin. rewrite sib_ok_arr in Hk. rewrite nodup_keys_arr in Hn.
  apply IHP; auto. pose proof (size_in_arr e l Hin). lia.
Qed.

Lemma pipeline_map_member_pl subk subv : size subv < n -> sib_ok subv -> nodup_keys subv ->
  PL subv (pipeline_map_member tb cs c is_email A W false subk subv) (pipeline_map_member tb cs c is_email A W true subk subv).
Proof.
  intros Hs Hk Hn. destruct subv as [| b | num | str | l | l]; cbn [pipeline_map_member]; try apply PL_eq.
  - apply stages_pl; auto. lia.
  - now apply IHP.
Qed.

Lemma sub_member_fst rfn s nkp k m subk subv :
  fst (sub_member tb cs c is_email A W rfn s nkp k m subk subv) = subk \/ fst (sub_member tb cs c is_email A W rfn s nkp k m subk subv) = hn subk.
Proof.
  unfold sub_member. destruct (oget m subk) as [[[]|m'|]|]; cbn [fst]; auto;
    match goal with |- context [if ?b then _ else _] => destruct b; auto end.
Qed.

Lemma sub_member_pl s nkp k m subk subv : within2 tb m -> size subv < n -> sib_ok subv -> nodup_keys subv ->
  clear_key subk subv = true ->
  PL subv (snd (sub_member tb cs c is_email A W false s nkp k m subk subv)) (snd (sub_member tb cs c is_email A W true s nkp k m subk subv)).
Proof.
  intros Hw Hs Hk Hn Hc. apply clear_key_facts in Hc. destruct Hc as (Hf & _ & _).
  unfold sub_member. cbn [andb].
  destruct (oget m subk) as [[t|m'|]|] eqn:Eo; cbn [snd]; try (now apply walk_value_pl).
  assert (Hin : In (subk, t) (all_entries tb)) by (apply sub_entries_all; apply Hw; now apply keys_of_leaf).
  destruct t; cbn [snd]; try (now apply walk_value_pl); try apply PL_eq.
  - (* Pipeline *) destruct subv as [| b | num | str | l | l]; try apply PL_eq. now apply IHA.
  - (* FieldName *) exfalso. rewrite (full_in subk FieldName Hin) in Hf; [discriminate | left; reflexivity].
  - (* OperatorArray *) destruct subv as [| b | num | str | l | l]; try apply PL_eq. apply elems_pl; auto. lia.
Qed.

Lemma p_generic_pl kp s k v : size v < n -> sib_ok v -> nodup_keys v ->
  PL v (p_generic tb cs c is_email A W false kp s k v) (p_generic tb cs c is_email A W true kp s k v).
Proof.
  intros Hs Hk Hn. unfold p_generic. destruct v as [| b | num | str | l | l]; try (now apply walk_value_pl).
  apply PL_leaf; [exact I|]. cbn [nd]. intros ->. reflexivity.
Qed.

Lemma p_member_fst rfn kp s k v :
  fst (p_member tb cs c is_email A W rfn kp s k v) = k \/ fst (p_member tb cs c is_email A W rfn kp s k v) = hn k.
Proof.
  assert (Hk : p_key tb A rfn kp k s = k \/ p_key tb A rfn kp k s = hn k) by (unfold p_key; match goal with |- context [if ?b then _ else _] => destruct b; auto end).
  unfold p_member. destruct (p_op tb c kp k s v) as [[[]|m|]|]; cbn [fst]; try exact Hk. destruct v; exact Hk.
Qed.

Lemma p_member_pl kp s k v : size v < n -> sib_ok v -> nodup_keys v -> clear_key k v = true ->
  PL v (snd (p_member tb cs c is_email A W false kp s k v)) (snd (p_member tb cs c is_email A W true kp s k v)).
Proof.
  intros Hs Hk Hn Hc. apply clear_key_facts in Hc. destruct Hc as (Hf & _ & _).
  unfold p_member.
  destruct (p_op tb c kp k s v) as [[t|m|]|] eqn:Eop; cbn [snd]; try (now apply p_generic_pl).
  - pose proof (p_op_MT tb c kp k s v t Eop) as Eg. apply get_op_good in Eg. simpl in Eg.
    destruct t; cbn [snd]; try (now apply p_generic_pl); try apply PL_eq.
    + (* Pipeline *) destruct v as [| b | num | str | l | l]; try apply PL_eq.
      * now apply IHA.
      * pose proof Hn as Hn'. apply nodup_keys_obj in Hn'. destruct Hn' as [Hnd Hch]. pose proof Hk as Hk'. rewrite sib_ok_obj in Hk'. destruct Hk' as [_ Hkc].
        apply (PL_obj l (fun kv => (fst kv, pipeline_map_member tb cs c is_email A W false (fst kv) (snd kv)))
                        (fun kv => (fst kv, pipeline_map_member tb cs c is_email A W true (fst kv) (snd kv)))).
        -- rewrite map_map. exact Hnd.
        -- rewrite map_map. exact Hnd.
        -- intros kv Hkv _. cbn [snd]. apply pipeline_map_member_pl; auto. pose proof (size_in_obj kv l Hkv). simpl in *. lia.
    + (* FieldName *) exfalso. destruct Eg as [Eg|Eg]; [discriminate|]. rewrite (full_in k FieldName Eg) in Hf; [discriminate | left; reflexivity].
    + (* OperatorArray *) destruct v as [| b | num | str | l | l]; try apply PL_eq. apply elems_pl; auto. lia.
  - pose proof (p_op_MMap tb c Hre kp k s v m Eop) as Hw.
    destruct v as [| b | num | str | l | l]; cbn [snd]; try (now apply p_generic_pl).
    pose proof Hn as Hn'. apply nodup_keys_obj in Hn'. destruct Hn' as [Hnd Hch]. pose proof Hk as Hk'. rewrite sib_ok_obj in Hk'. destruct Hk' as [Hko Hkc].
    apply (PL_obj l (fun kv => sub_member tb cs c is_email A W false s (kp ++ [k]) k m (fst kv) (snd kv))
                    (fun kv => sub_member tb cs c is_email A W true s (kp ++ [k]) k m (fst kv) (snd kv))).
    + apply renamed_nodup; auto; intros kv _; apply sub_member_fst.
    + apply renamed_nodup; auto; intros kv _; apply sub_member_fst.
    + intros kv Hkv Hck. apply sub_member_pl; auto. pose proof (size_in_obj kv l Hkv). simpl in *. lia.
Qed.

Lemma q_member_fst rfn s parent kp k v :
  fst (q_member tb cs c is_email A W rfn s parent kp k v) = k \/ fst (q_member tb cs c is_email A W rfn s parent kp k v) = hn k.
Proof. unfold q_member. cbn [fst]. match goal with |- context [if ?b then _ else _] => destruct b; auto end. Qed.

Lemma q_member_pl s parent kp k v : size v < n -> sib_ok v -> nodup_keys v ->
  PL v (snd (q_member tb cs c is_email A W false s parent kp k v)) (snd (q_member tb cs c is_email A W true s parent kp k v)).
Proof.
  intros Hs Hk Hn. unfold q_member. cbn [snd].
  destruct v as [| b | num | str | l | l]; try apply PL_eq.
  - apply PL_leaf; [exact I|]. cbn [nd]. intros ->. reflexivity.
  - now apply IHA.
  - now apply IHQ.
Qed.

End Step.

Definition setrfn (b : bool) (m : mode) : mode :=
  match m with MP _ kp s => MP b kp s | MQ _ s par kp => MQ b s par kp | MA pk _ s sel kp => MA pk b s sel kp end.

Theorem walk_rfn_pl : forall t m, sib_ok t -> nodup_keys t -> PL t (W (setrfn false m) t) (W (setrfn true m) t).
Proof.
  intros t. induction t as [t IHt] using json_size_ind. intros m Hk Hn.
  assert (IHP : forall t' kp s, size t' < size t -> sib_ok t' -> nodup_keys t' -> PL t' (W (MP false kp s) t') (W (MP true kp s) t'))
    by (intros t' kp s Hs Hk' Hn'; apply (IHt t' Hs (MP false kp s)); auto).
  assert (IHQ : forall t' s par kp, size t' < size t -> sib_ok t' -> nodup_keys t' -> PL t' (W (MQ false s par kp) t') (W (MQ true s par kp) t'))
    by (intros t' s par kp Hs Hk' Hn'; apply (IHt t' Hs (MQ false s par kp)); auto).
  assert (IHA : forall t' pk s sel kp, size t' < size t -> sib_ok t' -> nodup_keys t' -> PL t' (W (MA pk false s sel kp) t') (W (MA pk true s sel kp) t'))
    by (intros t' pk s sel kp Hs Hk' Hn'; apply (IHt t' Hs (MA pk false s sel kp)); auto).
  destruct t as [| b | num | str | l | l].
  - destruct m; apply PL_eq.
  - destruct m; apply PL_eq.
  - destruct m; apply PL_eq.
  - destruct m as [rfn kp s | |]; try apply PL_eq. cbn [setrfn walk p_leaf].
    apply PL_leaf; [exact I|]. cbn [nd]. intros ->. reflexivity.
  - destruct m as [rfn kp s | rfn s par kp | pk rfn s sel kp]; cbn [setrfn walk].
    + apply (arr_pl (size (JArr l)) IHQ IHA); auto.
    + apply PL_eq.
    + apply (arr_pl (size (JArr l)) IHQ IHA); auto.
  - pose proof Hn as Hn'. apply nodup_keys_obj in Hn'. destruct Hn' as [Hnd Hch]. pose proof Hk as Hk'. rewrite sib_ok_obj in Hk'. destruct Hk' as [Hko Hkc].
    destruct m as [rfn kp s | rfn s par kp | pk rfn s sel kp]; cbn [setrfn walk].
    + apply (PL_obj l (fun kv => p_member tb cs c is_email A W false kp s (fst kv) (snd kv)) (fun kv => p_member tb cs c is_email A W true kp s (fst kv) (snd kv))).
      * apply renamed_nodup; auto; intros kv _; apply p_member_fst.
      * apply renamed_nodup; auto; intros kv _; apply p_member_fst.
      * intros kv Hkv Hck. apply (p_member_pl (size (JObj l)) IHP IHA); auto. apply (size_in_obj kv l Hkv).
    + apply (PL_obj l (fun kv => q_member tb cs c is_email A W false s par kp (fst kv) (snd kv)) (fun kv => q_member tb cs c is_email A W true s par kp (fst kv) (snd kv))).
      * apply renamed_nodup; auto; intros kv _; apply q_member_fst.
      * apply renamed_nodup; auto; intros kv _; apply q_member_fst.
      * intros kv Hkv _. apply (q_member_pl (size (JObj l)) IHQ IHA); auto. apply (size_in_obj kv l Hkv).
    + apply PL_eq.
Qed.

End RfnSim.
