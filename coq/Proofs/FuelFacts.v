(* The operator lookup (traverseMapPath) is modelled with explicit fuel; the fuel the model supplies
   is always sufficient: every recursive call is on a strictly shorter path, so the out-of-fuel
   answer - which traverse_top would turn into "not found" - never arises. *)
From Coq Require Import List String Lia.
From Model Require Import Json Tables.
Import ListNotations.

Section Fuel.
Variable tb : tables.

Lemma tloop_restart path cur rest : tloop path cur = LRestart rest -> List.length rest < List.length path.
Proof.
  revert cur. induction path as [|part tl IH]; intros cur H; [discriminate|].
  cbn [tloop] in H. destruct cur as [t|m|]; try discriminate.
  destruct (oget m part) as [val|]; [|discriminate].
  destruct ((match tl with [] => false | _ => true end) && is_ty val OperatorArray)%bool.
  - injection H as <-. simpl. lia.
  - destruct (is_ty val OperatorMap); [discriminate|]. apply IH in H. simpl. lia.
Qed.

Lemma traverse_fuel fuel : forall path root search, List.length path < fuel -> traverse tb fuel path root search <> OutOfFuel.
Proof.
  induction fuel as [|f IH]; intros path root search Hf; [lia|].
  cbn [traverse]. destruct (tloop path (MMap root)) as [r | rest | cur cut] eqn:E.
  - (* the loop itself never answers OutOfFuel *)
    clear IH Hf. revert E. generalize (MMap root). induction path as [|part tl IHp]; intros cur E; [discriminate|].
    cbn [tloop] in E. destruct cur as [t|m|]; try (injection E as <-; discriminate).
    destruct (oget m part) as [val|]; [|injection E as <-; discriminate].
    destruct ((match tl with [] => false | _ => true end) && is_ty val OperatorArray)%bool; [discriminate|].
    destruct (is_ty val OperatorMap); [discriminate|]. now apply (IHp val).
  - apply IH. apply tloop_restart in E. lia.
  - destruct cut as [cutp|]; [|destruct cur; discriminate].
    destruct (Nat.ltb (List.length (remove_elements_before_including (remove_element_after path cutp) cutp)) (List.length path)) eqn:El; [|destruct cur; discriminate].
    destruct (oget (MapDefs tb) cutp) as [[t|m|]|]; try (destruct cur; discriminate).
    apply IH. apply PeanoNat.Nat.ltb_lt in El. lia.
Qed.

Theorem traverse_top_total path root search : traverse tb (S (List.length path)) path root search <> OutOfFuel.
Proof. apply traverse_fuel. lia. Qed.

End Fuel.
