(* Generic facts about json trees, ordered-map operations and sizes. *)
From Coq Require Import Lia.
From Model Require Import Json.
Close Scope string_scope. Open Scope list_scope.

Fixpoint size (t : json) : nat :=
  match t with
  | JArr l => S (fold_right (fun x a => size x + a) 0 l)
  | JObj l => S (fold_right (fun kv a => size (snd kv) + a) 0 l)
  | _ => 1
  end.

Lemma size_in_arr x l : In x l -> size x < size (JArr l).
Proof.
  simpl. induction l as [|y l IH]; intros H; [contradiction|].
  destruct H as [->|H]; simpl; [lia|]. apply IH in H. lia.
Qed.

Lemma size_in_obj kv l : In kv l -> size (snd kv) < size (JObj l).
Proof.
  simpl. induction l as [|y l IH]; intros H; [contradiction|].
  destruct H as [->|H]; simpl; [lia|]. apply IH in H. lia.
Qed.

Definition is_leaf (t : json) : Prop :=
  match t with JArr _ | JObj _ => False | _ => True end.

(* strong induction on size *)
Lemma json_size_ind (P : json -> Prop) :
  (forall t, (forall t', size t' < size t -> P t') -> P t) -> forall t, P t.
Proof.
  intros H t. remember (size t) as n eqn:E. revert t E.
  induction n as [n IH] using lt_wf_ind. intros t ->. apply H. intros t' Hlt. eapply IH; eauto.
Qed.

(* ---------- oset / build ---------- *)
Lemma oset_notin {A} (l : list (string * A)) k v : ~ In k (map fst l) -> oset l k v = l ++ [(k, v)].
Proof.
  induction l as [|[k' v'] l IH]; intros H; simpl; [reflexivity|].
  destruct (String.eqb k' k) eqn:E.
  - apply String.eqb_eq in E. subst. exfalso. apply H. simpl. auto.
  - rewrite IH; [reflexivity|]. intros Hin. apply H. simpl. auto.
Qed.

Lemma build_app_nodup {A} (l acc : list (string * A)) :
  NoDup (map fst (acc ++ l)) ->
  fold_left (fun a kv => oset a (fst kv) (snd kv)) l acc = acc ++ l.
Proof.
  revert acc; induction l as [|[k v] l IH]; intros acc H; simpl.
  - now rewrite app_nil_r.
  - rewrite oset_notin.
    + rewrite IH; rewrite <- app_assoc; simpl; [reflexivity | exact H].
    + rewrite map_app in H. simpl in H. apply NoDup_remove_2 in H. intros Hin. apply H. apply in_or_app. now left.
Qed.

Lemma build_nodup {A} (l : list (string * A)) : NoDup (map fst l) -> build l = l.
Proof. intros H. unfold build. now rewrite build_app_nodup. Qed.

(* ---------- nodup_keys ---------- *)
Lemma nodup_keys_arr l : nodup_keys (JArr l) <-> forall x, In x l -> nodup_keys x.
Proof.
  simpl. induction l as [|y l IH]; split; intros H.
  - intros x [].
  - exact I.
  - intros x [->|Hx]; [tauto|]. apply IH; tauto.
  - split; [apply H; simpl; auto|]. apply IH. intros x Hx. apply H. simpl. auto.
Qed.

Lemma nodup_keys_obj l : nodup_keys (JObj l) <-> NoDup (map fst l) /\ forall kv, In kv l -> nodup_keys (snd kv).
Proof.
  simpl. split.
  - intros [Hn H]. split; [exact Hn|]. clear Hn. induction l as [|y l IH]; intros kv Hin; [contradiction|].
    destruct Hin as [->|Hin]; [tauto|]. apply IH; tauto.
  - intros [Hn H]. split; [exact Hn|]. clear Hn. induction l as [|y l IH]; [exact I|].
    split; [apply H; simpl; auto|]. apply IH. intros kv Hin. apply H. simpl. auto.
Qed.

Lemma shape_leaf_eq a b : is_leaf a ->
  match a, b with JNull, JNull | JBool _, JBool _ | JNum _, JNum _ | JStr _, JStr _ => True | _, _ => False end ->
  shape_of a = shape_of b.
Proof. destruct a, b; simpl; tauto. Qed.
