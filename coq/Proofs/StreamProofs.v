(* The stream loop (C06, C07, C08): the output is the in-order concatenation of per-line results;
   progress bar and write index never influence it; concatenation of inputs; final newline;
   write faults; over-long lines. *)
From Coq Require Import NArith Lia.
From Model Require Import Json Tables Walker Line JsonText Stream.
Close Scope string_scope. Close Scope N_scope. Open Scope nat_scope. Open Scope list_scope.

Section SP.
Variable tb : tables.
Variable cs : consts.
Variable c : cfg.
Variable enc : encf.

Notation emit := (emit tb cs c enc).
Notation loop := (loop tb cs c enc).
Notation run_io := (run_io tb cs c enc).

Definition res_of (final : sres) : result := match final with SOk => ROk | s => RScanErr s end.

Lemma parse_line_nil : parse_line [] = None.
Proof. reflexivity. Qed.

Lemma emit_nil : emit [] = [].
Proof. unfold Stream.emit, redact_line. rewrite parse_line_nil. reflexivity. Qed.

(* ---------- all writes accepted: the loop is a filtered map; bar and write index are irrelevant ---------- *)
Lemma loop_accept tokens : forall widx bar written final,
  loop tokens (fun _ => Accept) widx bar written final = (res_of final, written ++ List.concat (map emit tokens)).
Proof.
  induction tokens as [|t r IH]; intros widx bar written final; simpl.
  - rewrite app_nil_r. destruct final; reflexivity.
  - destruct (match t, bar with [], Some (cur, mx) => Nat.eqb cur mx | _, _ => false end) eqn:Eb.
    + assert (t = []) as -> by (destruct t; [reflexivity | destruct bar as [[? ?]|]; discriminate]).
      rewrite IH, emit_nil. reflexivity.
    + unfold Stream.emit. destruct (redact_line tb cs c enc t) as [o|]; rewrite IH; [rewrite <- app_assoc|]; reflexivity.
Qed.

Theorem stream_is_map data :
  stream tb cs c enc data = List.concat (map emit (fst (scan data REof))).
Proof.
  unfold stream, Stream.run_io. destruct (scan data REof) as [tokens final]. rewrite loop_accept. reflexivity.
Qed.

Theorem bar_irrelevant data e bar1 bar2 :
  run_io data e (fun _ => Accept) bar1 = run_io data e (fun _ => Accept) bar2.
Proof. unfold Stream.run_io. destruct (scan data e) as [tokens final]. now rewrite !loop_accept. Qed.

(* ---------- general writer: result and written bytes ---------- *)
(* the chunks a fault-free run writes, one per emitted line *)
Definition chunks (tokens : list (list ascii)) : list (list ascii) :=
  filter (fun x => match x with [] => false | _ => true end) (map emit tokens).

Lemma emit_nonempty_or_nil t : emit t = [] \/ exists o, redact_line tb cs c enc t = Out o /\ emit t = o ++ [nl].
Proof. unfold Stream.emit. destruct (redact_line tb cs c enc t) as [o|]; [right; eauto | now left]. Qed.

Lemma out_chunk_nonempty (o : list ascii) : match o ++ [nl] with [] => false | _ => true end = true.
Proof. destruct o; reflexivity. Qed.

(* bar is irrelevant for every writer *)
Lemma loop_bar tokens writer : forall widx bar written final,
  loop tokens writer widx bar written final = loop tokens writer widx None written final.
Proof.
  induction tokens as [|t r IH]; intros widx bar written final; [reflexivity|].
  cbn [Stream.loop].
  assert (Hn : match t, @None (nat * nat) with [], Some (cur, mx) => Nat.eqb cur mx | _, _ => false end = false) by (destruct t; reflexivity).
  rewrite Hn.
  destruct (match t, bar with [], Some (cur, mx) => Nat.eqb cur mx | _, _ => false end) eqn:Eb.
  - assert (t = []) as -> by (destruct t; [reflexivity | destruct bar as [[? ?]|]; discriminate]).
    unfold redact_line. rewrite parse_line_nil. apply IH.
  - destruct (redact_line tb cs c enc t) as [o|].
    + destruct (writer widx); [apply IH | reflexivity].
    + apply IH.
Qed.

(* the loop against an arbitrary writer, described through the list of chunks:
   it writes chunks in order until the first refused write *)
Fixpoint write_all (cks : list (list ascii)) (writer : nat -> wres) (widx : nat) (written : list ascii) (final : sres) : result * list ascii :=
  match cks with
  | [] => (res_of final, written)
  | ck :: r => match writer widx with
               | Accept => write_all r writer (S widx) (written ++ ck) final
               | Fail n => (RWriteErr, written ++ firstn n ck)
               end
  end.

Lemma loop_write_all tokens writer : forall widx written final,
  loop tokens writer widx None written final = write_all (chunks tokens) writer widx written final.
Proof.
  induction tokens as [|t r IH]; intros widx written final.
  - simpl. destruct final; reflexivity.
  - cbn [Stream.loop].
    assert (Hn : match t, @None (nat * nat) with [], Some (cur, mx) => Nat.eqb cur mx | _, _ => false end = false) by (destruct t; reflexivity).
    rewrite Hn.
    assert (Hc : chunks (t :: r) = match emit t with [] => chunks r | _ => emit t :: chunks r end).
    { unfold chunks. simpl. destruct (emit t); reflexivity. }
    rewrite Hc. unfold Stream.emit.
    destruct (redact_line tb cs c enc t) as [o|].
    + destruct (o ++ [nl]) eqn:Eo; [destruct o; discriminate|]. rewrite <- Eo.
      simpl. destruct (writer widx); [apply IH | reflexivity].
    + apply IH.
Qed.

Theorem run_io_write_all data e writer bar :
  run_io data e writer bar = write_all (chunks (fst (scan data e))) writer 0 [] (snd (scan data e)).
Proof.
  unfold Stream.run_io. destruct (scan data e) as [tokens final]. simpl. rewrite loop_bar. apply loop_write_all.
Qed.

(* success iff the scanner ended normally and every write was accepted in full *)
Lemma write_all_ok cks writer : forall widx written final,
  fst (write_all cks writer widx written final) = ROk <->
  (final = SOk /\ forall i, i < List.length cks -> writer (widx + i) = Accept).
Proof.
  induction cks as [|ck r IH]; intros widx written final; simpl.
  - split.
    + intros H. destruct final; try discriminate. split; [reflexivity | intros i Hi; lia].
    + intros [-> _]. reflexivity.
  - destruct (writer widx) eqn:Ew.
    + rewrite IH. split; intros [Hf Hall]; (split; [exact Hf|]).
      * intros i Hi. destruct i; [rewrite Nat.add_0_r; exact Ew|]. replace (widx + S i) with (S widx + i) by lia. apply Hall. lia.
      * intros i Hi. replace (S widx + i) with (widx + S i) by lia. apply Hall. lia.
    + simpl. split; [discriminate|]. intros [_ Hall]. specialize (Hall 0). rewrite Nat.add_0_r in Hall. rewrite Ew in Hall.
      assert (0 < S (List.length r)) by lia. specialize (Hall H). discriminate.
Qed.

Theorem io_ok_iff data e writer bar :
  fst (run_io data e writer bar) = ROk <->
  (snd (scan data e) = SOk /\ forall i, i < List.length (chunks (fst (scan data e))) -> writer i = Accept).
Proof. rewrite run_io_write_all. rewrite write_all_ok. simpl. reflexivity. Qed.

(* whatever was written is a whole-chunk prefix of the fault-free output, plus the bytes the
   device took of the refused write *)
Lemma write_all_prefix cks writer : forall widx written final,
  exists j part, snd (write_all cks writer widx written final) = written ++ List.concat (firstn j cks) ++ part /\
                 (part = [] \/ exists n ck, nth_error cks j = Some ck /\ writer (widx + j) = Fail n /\ part = firstn n ck).
Proof.
  induction cks as [|ck r IH]; intros widx written final; simpl.
  - exists 0, []. simpl. rewrite app_nil_r. auto.
  - destruct (writer widx) eqn:Ew.
    + destruct (IH (S widx) (written ++ ck) final) as (j & part & E & Hp).
      exists (S j), part. simpl. rewrite E. rewrite <- !app_assoc. split; [reflexivity|].
      destruct Hp as [-> | (n & ck' & H1 & H2 & H3)]; [now left|]. right. exists n, ck'.
      replace (widx + S j) with (S widx + j) by lia. auto.
    + exists 0, (firstn taken ck). simpl. split; [reflexivity|]. right. exists taken, ck. rewrite Nat.add_0_r. auto.
Qed.

Theorem io_written_prefix data e writer bar :
  exists j part,
    snd (run_io data e writer bar) = List.concat (firstn j (chunks (fst (scan data e)))) ++ part /\
    (part = [] \/ exists n ck, nth_error (chunks (fst (scan data e))) j = Some ck /\ writer j = Fail n /\ part = firstn n ck).
Proof.
  rewrite run_io_write_all. destruct (write_all_prefix (chunks (fst (scan data e))) writer 0 [] (snd (scan data e))) as (j & part & E & Hp).
  exists j, part. simpl in *. auto.
Qed.

(* the fault-free output is the concatenation of all chunks *)
Lemma concat_chunks tokens : List.concat (chunks tokens) = List.concat (map emit tokens).
Proof.
  unfold chunks. induction (map emit tokens) as [|x r IH]; simpl; [reflexivity|].
  destruct x; simpl; [exact IH | now rewrite IH].
Qed.

(* ---------- over-long line: explicit error, nothing of that line is written ---------- *)
Theorem toolong_is_error data e bar :
  snd (scan data e) = STooLong ->
  run_io data e (fun _ => Accept) bar = (RScanErr STooLong, List.concat (map emit (fst (scan data e)))).
Proof.
  intros H. unfold Stream.run_io. destruct (scan data e) as [tokens final]. simpl in *. subst. now rewrite loop_accept.
Qed.

End SP.

(* ---------- lines ---------- *)
Lemma split_lines_cons ch r :
  split_lines (ch :: r) =
  (if Ascii.eqb ch nl then ([] :: fst (split_lines r), snd (split_lines r))
   else match fst (split_lines r) with
        | [] => ([], ch :: snd (split_lines r))
        | l1 :: ls' => ((ch :: l1) :: ls', snd (split_lines r))
        end).
Proof. cbn [split_lines]. destruct (split_lines r) as [ls tl]. reflexivity. Qed.

Lemma split_lines_snoc_nl A B :
  split_lines (A ++ nl :: B) =
  (fst (split_lines A) ++ [snd (split_lines A)] ++ fst (split_lines B), snd (split_lines B)).
Proof.
  induction A as [|ch A IH].
  - rewrite app_nil_l, split_lines_cons, Ascii.eqb_refl. reflexivity.
  - rewrite <- app_comm_cons, !split_lines_cons, IH. cbn [fst snd].
    destruct (Ascii.eqb ch nl); [reflexivity|].
    destruct (fst (split_lines A)); reflexivity.
Qed.

Lemma split_lines_nonl l : ~ In nl l -> split_lines l = ([], l).
Proof.
  induction l as [|ch l IH]; intros H; simpl; [reflexivity|].
  rewrite IH by (intros Hx; apply H; now right).
  destruct (Ascii.eqb ch nl) eqn:E; [apply Ascii.eqb_eq in E; subst; exfalso; apply H; now left | reflexivity].
Qed.

Lemma scan_terminated_app l1 l2 :
  snd (scan_terminated l1) = false ->
  scan_terminated (l1 ++ l2) = (fst (scan_terminated l1) ++ fst (scan_terminated l2), snd (scan_terminated l2)).
Proof.
  induction l1 as [|l r IH]; simpl; intros H.
  - now destruct (scan_terminated l2).
  - destruct (max_token <? len_N l + 1)%N; [discriminate|].
    destruct (scan_terminated r) as [ts tl] eqn:Er. simpl in H. rewrite (IH H). reflexivity.
Qed.

(* a complete block of lines: ends with a newline (or is empty) and no line is too long *)
Definition block_ok (A : list ascii) : Prop :=
  snd (split_lines A) = [] /\ snd (scan_terminated (fst (split_lines A))) = false.

Lemma tail_nil_ends_nl A : snd (split_lines A) = [] -> A = [] \/ exists A0, A = A0 ++ [nl].
Proof.
  induction A as [|ch A IH]; [now left|]. rewrite split_lines_cons. right.
  destruct (Ascii.eqb ch nl) eqn:E.
  - cbn [snd] in H. apply Ascii.eqb_eq in E. subst ch. destruct (IH H) as [-> | [A0 ->]].
    + exists []. reflexivity.
    + exists (nl :: A0). reflexivity.
  - destruct (fst (split_lines A)) eqn:Ef; cbn [snd] in H; [discriminate|].
    destruct (IH H) as [-> | [A0 ->]]; [simpl in Ef; discriminate|]. exists (ch :: A0). reflexivity.
Qed.

Lemma scan_unfold data e :
  scan data e =
  (if snd (scan_terminated (fst (split_lines data))) then (fst (scan_terminated (fst (split_lines data))), STooLong)
   else match snd (split_lines data) with
        | [] => (fst (scan_terminated (fst (split_lines data))), match e with REof => SOk | RErr => SReadErr end)
        | _ => if (max_token <=? len_N (snd (split_lines data)))%N then (fst (scan_terminated (fst (split_lines data))), STooLong)
               else (fst (scan_terminated (fst (split_lines data))) ++ [drop_cr (snd (split_lines data))], match e with REof => SOk | RErr => SReadErr end)
        end).
Proof.
  unfold scan. destruct (split_lines data) as [ls tl]. cbn [fst snd]. destruct (scan_terminated ls) as [ts b]. reflexivity.
Qed.

Lemma tokens_app A B e :
  block_ok A ->
  fst (scan (A ++ B) e) = fst (scan A REof) ++ fst (scan B e) /\ snd (scan (A ++ B) e) = snd (scan B e).
Proof.
  intros [Ht Hl]. destruct (tail_nil_ends_nl A Ht) as [-> | [A0 ->]].
  - simpl. split; reflexivity.
  - rewrite <- app_assoc. cbn [app].
    rewrite (scan_unfold (A0 ++ nl :: B)), (scan_unfold (A0 ++ [nl])), (scan_unfold B).
    rewrite split_lines_snoc_nl in Hl. rewrite !split_lines_snoc_nl. cbn [fst snd split_lines app] in *.
    rewrite ?app_nil_r in *.
    replace (fst (split_lines A0) ++ snd (split_lines A0) :: fst (split_lines B))
      with ((fst (split_lines A0) ++ [snd (split_lines A0)]) ++ fst (split_lines B)) by (rewrite <- app_assoc; reflexivity).
    rewrite scan_terminated_app by exact Hl. rewrite Hl. cbn [fst snd].
    destruct (snd (scan_terminated (fst (split_lines B)))); cbn [fst snd]; [split; reflexivity|].
    destruct (snd (split_lines B)); cbn [fst snd]; [split; reflexivity|].
    destruct (max_token <=? _)%N; cbn [fst snd]; [split; reflexivity|].
    rewrite app_assoc. split; reflexivity.
Qed.

(* an over-long line after a complete block: the scanner stops with the explicit error after delivering exactly the block's tokens *)
Lemma toolong_after_block A l B e : block_ok A -> ~ In nl l -> (max_token <= len_N l)%N ->
  snd (scan (A ++ l ++ nl :: B) e) = STooLong /\ fst (scan (A ++ l ++ nl :: B) e) = fst (scan A REof).
Proof.
  intros HA Hl Hlen. destruct (tokens_app A (l ++ nl :: B) e HA) as [Ef Es]. rewrite Ef, Es.
  rewrite (scan_unfold (l ++ nl :: B)). rewrite split_lines_snoc_nl. rewrite (split_lines_nonl l Hl). cbn [fst snd app scan_terminated].
  assert (Hlt : (max_token <? len_N l + 1)%N = true) by (apply N.ltb_lt; lia).
  rewrite Hlt. cbn [fst snd]. rewrite app_nil_r. split; reflexivity.
Qed.

Section Hom.
Variable tb : tables.
Variable cs : consts.
Variable c : cfg.
Variable enc : encf.

(* redact(A ++ B) = redact(A) ++ redact(B) for a complete block A: every line is processed on
   its own, in order; hence permuting / splitting / concatenating complete blocks commutes with redaction *)
Theorem stream_hom A B : block_ok A ->
  stream tb cs c enc (A ++ B) = stream tb cs c enc A ++ stream tb cs c enc B.
Proof.
  intros H. rewrite !stream_is_map. destruct (tokens_app A B REof H) as [E _]. rewrite E, map_app, List.concat_app. reflexivity.
Qed.

End Hom.

(* ---------- a log given as a list of lines ---------- *)
Definition line_ok (l : list ascii) : Prop := ~ In nl l /\ (len_N l + 1 <= max_token)%N.

Lemma scan_single l e : line_ok l -> scan (l ++ [nl]) e = ([drop_cr l], match e with REof => SOk | RErr => SReadErr end).
Proof.
  intros [Hn Hlen]. rewrite scan_unfold.
  assert (E : split_lines (l ++ [nl]) = ([l], [])).
  { rewrite split_lines_snoc_nl. rewrite split_lines_nonl by exact Hn. reflexivity. }
  rewrite E. cbn [fst snd scan_terminated].
  assert (Hlt : (max_token <? len_N l + 1)%N = false) by (apply N.ltb_ge; exact Hlen).
  rewrite Hlt. reflexivity.
Qed.

Lemma block_single l : line_ok l -> block_ok (l ++ [nl]).
Proof.
  intros [Hn Hlen]. unfold block_ok. rewrite split_lines_snoc_nl. rewrite split_lines_nonl by exact Hn.
  cbn [fst snd scan_terminated app split_lines].
  assert (Hlt : (max_token <? len_N l + 1)%N = false) by (apply N.ltb_ge; exact Hlen).
  rewrite Hlt. split; reflexivity.
Qed.

Definition lf_text (ls : list (list ascii)) : list ascii := List.concat (map (fun l => l ++ [nl]) ls).

Section Lines.
Variable tb : tables.
Variable cs : consts.
Variable c : cfg.
Variable enc : encf.
Notation emit := (emit tb cs c enc).

(* C06: one (possibly empty) output per input line, in input order, each what the line yields on its own *)
Theorem stream_lines ls : Forall line_ok ls ->
  stream tb cs c enc (lf_text ls) = List.concat (map (fun l => emit (drop_cr l)) ls).
Proof.
  induction ls as [|l r IH]; intros H.
  - reflexivity.
  - inversion H as [|? ? Hl Hr]; subst. unfold lf_text. cbn [map List.concat].
    rewrite stream_hom by (now apply block_single). fold (lf_text r). rewrite IH by exact Hr.
    f_equal. rewrite stream_is_map, scan_single by exact Hl. simpl. now rewrite app_nil_r.
Qed.

(* CRLF line ends give the same output as LF line ends *)
Lemma drop_cr_cons2 a b r : drop_cr (a :: b :: r) = a :: drop_cr (b :: r).
Proof. reflexivity. Qed.

Lemma drop_cr_snoc l : drop_cr (l ++ [cr]) = l.
Proof.
  induction l as [|a l IH]; [reflexivity|].
  destruct l as [|b l']; [reflexivity|].
  change ((a :: b :: l') ++ [cr]) with (a :: b :: (l' ++ [cr])). rewrite drop_cr_cons2. f_equal. exact IH.
Qed.

Lemma drop_cr_id l : (forall l0, l <> l0 ++ [cr]) -> drop_cr l = l.
Proof.
  induction l as [|a l IH]; intros H; [reflexivity|].
  destruct l as [|b l'].
  - simpl. destruct (Ascii.eqb a cr) eqn:E; [|reflexivity]. apply Ascii.eqb_eq in E. subst. exfalso. apply (H []). reflexivity.
  - rewrite drop_cr_cons2. f_equal. apply IH. intros l0 E. apply (H (a :: l0)). simpl. now rewrite E.
Qed.

Theorem stream_crlf ls :
  Forall line_ok (map (fun l => l ++ [cr]) ls) -> Forall line_ok ls -> Forall (fun l => forall l0, l <> l0 ++ [cr]) ls ->
  stream tb cs c enc (lf_text (map (fun l => l ++ [cr]) ls)) = stream tb cs c enc (lf_text ls).
Proof.
  intros H1 H2 H3. rewrite !stream_lines by assumption. rewrite map_map. f_equal.
  apply map_ext_in. intros l Hin. rewrite drop_cr_snoc. rewrite Forall_forall in H3. now rewrite drop_cr_id by (apply H3; exact Hin).
Qed.

(* a missing final newline changes nothing: the last line may be left unterminated *)
Theorem stream_final_newline ls l : Forall line_ok ls -> line_ok l -> l <> [] ->
  stream tb cs c enc (lf_text ls ++ l) = stream tb cs c enc (lf_text (ls ++ [l])).
Proof.
  intros Hls Hl Hne.
  assert (Hb : forall ls0, Forall line_ok ls0 -> block_ok (lf_text ls0)).
  { clear. induction ls0 as [|x r IH]; intros H.
    - split; reflexivity.
    - inversion H as [|? ? Hx Hr]; subst. unfold lf_text. cbn [map List.concat]. fold (lf_text r).
      destruct (block_single x Hx) as [B1 B2]. destruct (IH Hr) as [R1 R2].
      destruct Hx as [Hn Hlen].
      rewrite <- app_assoc. cbn [app].
      unfold block_ok. rewrite split_lines_snoc_nl. rewrite split_lines_nonl by exact Hn. cbn [fst snd app].
      split; [exact R1|]. cbn [scan_terminated].
      assert (Hlt : (max_token <? len_N x + 1)%N = false) by (apply N.ltb_ge; exact Hlen).
      rewrite Hlt. destruct (scan_terminated (fst (split_lines (lf_text r)))) as [ts b] eqn:E. simpl in R2 |- *. exact R2. }
  unfold lf_text at 2. rewrite map_app, List.concat_app. fold (lf_text ls). cbn [map List.concat]. rewrite app_nil_r.
  rewrite !stream_hom by (apply Hb; exact Hls). f_equal.
  rewrite !stream_is_map. rewrite scan_single by exact Hl.
  destruct Hl as [Hn Hlen]. rewrite scan_unfold. rewrite split_lines_nonl by exact Hn. cbn [fst snd scan_terminated].
  destruct l as [|a l']; [contradiction|].
  assert (Hle : (max_token <=? len_N (a :: l'))%N = false) by (apply N.leb_gt; lia).
  rewrite Hle. reflexivity.
Qed.

(* a line whose first non-space byte is not '{' is skipped: blank, whitespace-only, legacy text,
   a JSON scalar or array at top level *)
Lemma parse_elems_arr f : forall l acc t r, parse_elems f l acc = Some (t, r) -> exists x, t = JArr x.
Proof.
  induction f as [|f IH]; intros l acc t r H; [discriminate|].
  cbn [parse_elems] in H.
  destruct (hd_is "]" l); [discriminate|]. destruct (hd_is "}" l); [discriminate|].
  destruct (parse_value f l) as [[v r1]|]; [|discriminate].
  destruct (hd_is "," (skip_ws r1)); [eapply IH; exact H|].
  destruct (hd_is "]" (skip_ws r1)); [injection H as <- _; eauto | discriminate].
Qed.

Lemma parse_scalar_not_obj l m r : parse_scalar l <> Some (JObj m, r).
Proof.
  unfold parse_scalar. destruct (strip_prefix lit_true l); [discriminate|].
  destruct (strip_prefix lit_false l); [discriminate|]. destruct (strip_prefix lit_null l); [discriminate|].
  destruct (parse_num l) as [[lit r']|]; discriminate.
Qed.

Lemma parse_value_obj fuel l m r : parse_value fuel l = Some (JObj m, r) -> exists r', skip_ws l = "{"%char :: r'.
Proof.
  destruct fuel as [|f]; [discriminate|]. cbn [parse_value].
  destruct (skip_ws l) as [|ch r0]; [discriminate|].
  destruct (Ascii.eqb ch "{") eqn:E1; [apply Ascii.eqb_eq in E1; subst; eauto|].
  destruct (Ascii.eqb ch "[") eqn:E2.
  { intros H. exfalso.
    assert (Hx : exists x, JObj m = JArr x).
    { destruct (hd_is "]" (skip_ws r0)); [discriminate H | eapply parse_elems_arr; exact H]. }
    destruct Hx as [x Hx]. discriminate. }
  destruct (Ascii.eqb ch """") eqn:E3.
  { destruct (parse_str _ r0 []) as [[s r']|]; discriminate. }
  intros H. exfalso. eapply parse_scalar_not_obj; eauto.
Qed.

Theorem non_object_skipped l :
  (forall r, skip_ws l <> "{"%char :: r) -> redact_line tb cs c enc l = Skip.
Proof.
  intros H. unfold redact_line, parse_line.
  destruct (parse_value (S (List.length l)) l) as [[t r]|] eqn:E; [|reflexivity].
  destruct t; try reflexivity. apply parse_value_obj in E. destruct E as [r' E]. exfalso. eapply H; eauto.
Qed.

End Lines.
