(* C12 / C14 / C15: lemmas about the places where names are pseudonymised and where the selective
   mode decides; all direct consequences of the model's definitions, stated so that the properties
   can be read off. *)
From Model Require Import Json Tables Walker Line Hash.
From Proofs Require Import JsonFacts.
Close Scope string_scope. Open Scope list_scope.

Section Ns.
Variable tb : tables.
Variable cs : consts.
Variable c : cfg.
Variable A : actions.

(* attr.ns: replaced by HashName under --redactNamespaces, on every line that has a string there *)
Lemma attr_ns_hashed g rfn s : nss c = true ->
  attr_member tb cs c A g rfn "ns" (JStr s) = JStr (a_hash A s).
Proof. intros H. unfold attr_member. rewrite H. cbn. rewrite !Bool.andb_false_r. reflexivity. Qed.

Lemma attr_ns_kept g rfn v : nss c = false -> attr_member tb cs c A g rfn "ns" v = v.
Proof. intros H. unfold attr_member. rewrite H. cbn. rewrite !Bool.andb_false_r. reflexivity. Qed.

(* the namespace-bearing keys of a command document: verb keys, $db, collection, ns *)
Lemma command_ns_hashed rfn cmd i k s :
  nss c = true -> nth_error cmd i = Some (k, JStr s) -> key_in k ns_fields = true ->
  nth_error (redact_command tb cs c A rfn cmd) i = Some (k, JStr (a_hash A s)).
Proof.
  intros Hn Hi Hk. unfold redact_command. rewrite nth_error_map, Hi. cbn [option_map fst snd]. rewrite Hn.
  unfold ns_member. rewrite Hk.
  assert (E : cmd_member tb cs c A rfn (has_key cmd "insert") k (JStr s) = JStr s).
  { unfold cmd_member, q_obj, q_or_a, a_arr, pipe. repeat match goal with |- context [if ?b then _ else _] => destruct b end; reflexivity. }
  rewrite E. reflexivity.
Qed.

(* with the flag off no command key is pseudonymised *)
Lemma command_ns_off rfn cmd : nss c = false ->
  redact_command tb cs c A rfn cmd = map (fun kv => (fst kv, cmd_member tb cs c A rfn (has_key cmd "insert") (fst kv) (snd kv))) cmd.
Proof. intros H. unfold redact_command. now rewrite H. Qed.

(* Namespace-typed stage arguments met by the pipeline walker *)
Lemma ns_value_string s : ns_value A (JStr s) = JStr (a_hash A s).
Proof. reflexivity. Qed.

Lemma ns_value_doc l : NoDup (map fst l) ->
  ns_value A (JObj l) = JObj (map (fun kv => (fst kv, match snd kv with JStr s => JStr (a_hash A s) | x => x end)) l).
Proof.
  intros H. unfold ns_value. f_equal.
  assert (E : map (fun kv : string * json => match snd kv with JStr s => (fst kv, JStr (hn A s)) | x => (fst kv, x) end) l
              = map (fun kv => (fst kv, match snd kv with JStr s => JStr (a_hash A s) | x => x end)) l).
  { apply map_ext. intros [k v]. simpl. destruct v; reflexivity. }
  rewrite E. apply build_nodup. rewrite map_map. exact H.
Qed.

Lemma p_member_namespace W rfn kp search k v :
  p_op tb c kp k search v = Some (MT Namespace) ->
  snd (p_member tb cs c is_email A W rfn kp search k v) = if nss c then ns_value A v else v.
Proof. intros H. unfold p_member. rewrite H. reflexivity. Qed.

(* ---------- C14: the decision of the scalar step in selective mode ---------- *)
Lemma scalar_selective r init lst s search sel :
  re c = Some r ->
  (match get_op tb init lst search with Some m => is_ty m Exempt | None => false end) = false ->
  (String.eqb lst "subType" && String.eqb (last_or_empty init) "$binary")%bool = false ->
  let d := scalar_verdict tb cs c is_email init lst (JStr s) search sel in
  (d = VKeep <-> (search = false /\ sel = false /\ existsb r (init ++ [lst]) = false)).
Proof.
  intros Hr Hex Hst. cbv zeta. unfold scalar_verdict. rewrite Hex, Hr. unfold re_matches_any. rewrite Hr.
  destruct search, sel, (existsb r (init ++ [lst])); cbn [negb andb]; rewrite ?Hst;
    (split; [intros H | intros (H1 & H2 & H3); try discriminate; try reflexivity]);
    try (repeat split; reflexivity);
    try (exfalso; revert H;
         destruct (String.eqb lst "$date"); [discriminate|];
         destruct (String.eqb lst "$oid"); [discriminate|];
         destruct (String.eqb lst "base64" && _); [discriminate|];
         destruct (is_email s); discriminate).
Qed.

(* the key path grows by exactly the member key, in both walkers *)
Lemma q_member_path W rfn search parent kp k s :
  starts_with_dollar s = false ->
  is_ty (match (match parent with MMap pm => oget pm k | _ => oget (Core tb) k end) with Some m => m | None => MNil end) Exempt = false ->
  snd (q_member tb cs c is_email A W rfn search parent kp k (JStr s)) = scalar tb cs c is_email A kp k (JStr s) search false.
Proof. intros Hd He. unfold q_member. cbn [snd]. rewrite Hd, He. reflexivity. Qed.

(* an array element sees the path of its array (and the '$field' sibling rule through sel) *)
Lemma arr_item_path W pk rfn search sel kp s :
  starts_with_dollar s = false ->
  arr_item tb cs c is_email A W pk rfn search sel kp (JStr s) = scalar tb cs c is_email A [] pk (JStr s) search (sel || re_matches_any c kp).
Proof. intros Hd. unfold arr_item. now rewrite Hd. Qed.

(* ---------- C15: keys ---------- *)
Lemma q_member_key_renamed W search parent kp k v :
  (match parent with MMap pm => oget pm k | _ => oget (Core tb) k end) = None ->
  fst (q_member tb cs c is_email A W true search parent kp k v) = a_hash A k.
Proof. intros H. unfold q_member. cbn [fst]. rewrite H. reflexivity. Qed.

Lemma q_member_key_kept W search parent kp k v m :
  (match parent with MMap pm => oget pm k | _ => oget (Core tb) k end) = Some m ->
  fst (q_member tb cs c is_email A W true search parent kp k v) = k.
Proof. intros H. unfold q_member. cbn [fst]. rewrite H. reflexivity. Qed.

Lemma p_member_key_renamed W kp search k v :
  get_op tb kp k search = None -> fst (p_member tb cs c is_email A W true kp search k v) = a_hash A k.
Proof.
  intros H. unfold p_member, p_key. rewrite H. cbn [andb].
  destruct (p_op tb c kp k search v) as [[[]|m|]|]; try reflexivity. destruct v; reflexivity.
Qed.

(* lines of other namespaces: field-name mode is simply off for them *)
Lemma foreign_namespace g attr :
  eager_on c attr = false ->
  redact_attr tb cs c A g attr = map (fun kv => (fst kv, attr_member tb cs c A g false (fst kv) (snd kv))) attr.
Proof. intros H. unfold redact_attr. now rewrite H. Qed.

Lemma plan_summary_untouched g k v : attr_member tb cs c A g false k v =
  (let v := if ips c && String.eqb k "remote" then ip_value v else v in
   let v := if g && key_in k ["originatingCommand"; "cmd"; "command"]%string then do_command tb cs c A false v else v in
   if nss c && String.eqb k "ns" then hash_str A v else v).
Proof. unfold attr_member. rewrite !Bool.andb_false_r. reflexivity. Qed.

End Ns.
