(* C19 at the level of whole logs: a second fault-free pass over the OUTPUT of a pass either stops with the
   explicit too-long error (a line grew past the reader's limit: finding F34) or reproduces its input byte
   for byte - and succeeds. Stated for any tables and any configuration under two facts about single lines:
   an emitted line is a fixed point (LineIdem / C19_line_fixed_point) and holds neither a line feed nor a
   carriage return (PrintProofs.print_one_line). *)
From Coq Require Import NArith Lia.
From Model Require Import Json Tables Walker Line JsonText Stream.
From Proofs Require Import StreamProofs PrintProofs.
Close Scope string_scope. Close Scope N_scope. Open Scope nat_scope. Open Scope list_scope.

(* the physical lines of a text written as newline-terminated, newline-free lines are those lines *)
Lemma split_lines_lf_text ls : Forall (fun l => ~ In nl l) ls -> split_lines (lf_text ls) = (ls, []).
Proof.
  induction ls as [|l r IH]; intros H; [reflexivity|].
  inversion H as [|? ? Hl Hr]; subst.
  unfold lf_text. cbn [map List.concat]. fold (lf_text r). rewrite <- app_assoc. cbn [app].
  rewrite split_lines_snoc_nl, (split_lines_nonl l Hl), (IH Hr). reflexivity.
Qed.

Lemma scan_terminated_fits ls :
  snd (scan_terminated ls) = false -> Forall (fun l => (len_N l + 1 <= max_token)%N) ls.
Proof.
  induction ls as [|l r IH]; cbn [scan_terminated]; intros H; [constructor|].
  destruct (max_token <? len_N l + 1)%N eqn:E; [discriminate|].
  destruct (scan_terminated r) as [ts b] eqn:Er. cbn [snd] in *.
  constructor; [apply N.ltb_ge; exact E | apply IH; exact H].
Qed.

(* the scanner's verdict on such a text: either too long, or every line fits and the verdict is SOk *)
Lemma scan_lf_text ls : Forall (fun l => ~ In nl l) ls ->
  snd (scan (lf_text ls) REof) = STooLong \/ (snd (scan (lf_text ls) REof) = SOk /\ Forall line_ok ls).
Proof.
  intros Hn. rewrite scan_unfold, split_lines_lf_text by exact Hn. cbn [fst snd].
  destruct (snd (scan_terminated ls)) eqn:E; cbn [snd]; [now left|]. right. split; [reflexivity|].
  pose proof (scan_terminated_fits ls E) as F. rewrite Forall_forall in *. intros l Hin.
  split; [apply Hn | apply F]; exact Hin.
Qed.

Lemma clean_line o : Forall clean o -> ~ In nl o /\ (forall l0, o <> l0 ++ [cr]).
Proof.
  intros H. rewrite Forall_forall in H. split.
  - intros Hin. destruct (H _ Hin) as [H10 _]. apply H10. reflexivity.
  - intros l0 E. assert (Hin : In cr o) by (rewrite E; apply in_or_app; right; now left).
    destruct (H _ Hin) as [_ H13]. apply H13. reflexivity.
Qed.

Section Idem.
Variable tb : tables.
Variable cs : consts.
Variable c : cfg.
Variable enc : encf.
Notation R := (redact_line tb cs c enc).
Notation stream := (stream tb cs c enc).

Hypothesis Hfix : forall l o, R l = Out o -> R o = Out o.

(* what one pass emits, line by line *)
Definition outs (toks : list (list ascii)) : list (list ascii) :=
  flat_map (fun t => match R t with Out o => [o] | Skip => [] end) toks.

Lemma concat_emit_outs toks : List.concat (map (emit tb cs c enc) toks) = lf_text (outs toks).
Proof.
  induction toks as [|t r IH]; [reflexivity|].
  cbn [map List.concat outs flat_map]. unfold emit at 1. fold (outs r).
  destruct (R t) as [o|]; cbn [app]; rewrite IH; [|reflexivity].
  unfold lf_text. cbn [map List.concat]. reflexivity.
Qed.

(* every emitted line is one physical line: no line feed inside, no carriage return at its end (needs nothing about fixed points) *)
Lemma outs_clean toks : Forall (fun o => ~ In nl o /\ (forall l0, o <> l0 ++ [cr])) (outs toks).
Proof.
  induction toks as [|t r IH]; [constructor|]. cbn [outs flat_map]. fold (outs r).
  destruct (R t) as [o|] eqn:E; cbn [app]; [|exact IH].
  constructor; [|exact IH].
  apply clean_line. unfold redact_line in E. destruct (parse_line t) as [tr|]; [|discriminate].
  destruct (printable _) eqn:Hp; [|discriminate]. injection E as <-. apply print_one_line. exact Hp.
Qed.

(* the emitted lines are, in order, the results of exactly the tokens that yield one *)
Lemma outs_in toks o : In o (outs toks) <-> exists t, In t toks /\ R t = Out o.
Proof.
  unfold outs. rewrite in_flat_map. split.
  - intros (t & Ht & Ho). exists t. split; [exact Ht|]. destruct (R t) as [o'|]; [|contradiction]. destruct Ho as [<-|[]]. reflexivity.
  - intros (t & Ht & Ho). exists t. split; [exact Ht|]. rewrite Ho. now left.
Qed.

Lemma outs_length toks : List.length (outs toks) <= List.length toks.
Proof.
  induction toks as [|t r IH]; [apply le_n|]. cbn [outs flat_map]. fold (outs r).
  destruct (R t); cbn [app List.length]; lia.
Qed.

(* every emitted line: one physical line without CR, and a fixed point *)
Lemma outs_facts toks :
  Forall (fun o => R o = Out o /\ ~ In nl o /\ (forall l0, o <> l0 ++ [cr])) (outs toks).
Proof.
  induction toks as [|t r IH]; [constructor|]. cbn [outs flat_map]. fold (outs r).
  destruct (R t) as [o|] eqn:E; cbn [app]; [|exact IH].
  constructor; [|exact IH]. split; [exact (Hfix t o E)|].
  apply clean_line. unfold redact_line in E. destruct (parse_line t) as [tr|]; [|discriminate].
  destruct (printable _) eqn:Hp; [|discriminate]. injection E as <-. apply print_one_line. exact Hp.
Qed.

Lemma stream_outs data : stream data = lf_text (outs (fst (scan data REof))).
Proof. rewrite stream_is_map. apply concat_emit_outs. Qed.

(* the dichotomy: the second pass over the output of a pass stops with the explicit error, or succeeds and writes its input again *)
Theorem second_pass data :
  snd (scan (stream data) REof) = STooLong
  \/ run_io tb cs c enc (stream data) REof (fun _ => Accept) None = (ROk, stream data).
Proof.
  rewrite (stream_outs data). set (L := outs (fst (scan data REof))).
  pose proof (outs_facts (fst (scan data REof))) as HL. fold L in HL.
  assert (Hn : Forall (fun l => ~ In nl l) L).
  { rewrite Forall_forall in *. intros l Hin. now destruct (HL l Hin) as (_ & H & _). }
  destruct (scan_lf_text L Hn) as [Hl | [Hs Hok]]; [now left|]. right.
  assert (Es : stream (lf_text L) = lf_text L).
  { rewrite stream_lines by exact Hok. unfold lf_text. f_equal. apply map_ext_in. intros o Hin.
    rewrite Forall_forall in HL. destruct (HL o Hin) as (Ho & _ & Hcr).
    rewrite drop_cr_id by exact Hcr. unfold emit. now rewrite Ho. }
  unfold Stream.stream in Es. unfold Stream.run_io in *.
  destruct (scan (lf_text L) REof) as [toks final]. cbn [snd] in Hs. subst final.
  rewrite loop_accept in *. cbn [snd app] in Es. cbn [app res_of]. now rewrite Es.
Qed.

Lemma second_scan data : snd (scan (stream data) REof) = STooLong \/ snd (scan (stream data) REof) = SOk.
Proof.
  rewrite (stream_outs data). set (L := outs (fst (scan data REof))).
  pose proof (outs_facts (fst (scan data REof))) as HL. fold L in HL.
  assert (Hn : Forall (fun l => ~ In nl l) L).
  { rewrite Forall_forall in *. intros l Hin. now destruct (HL l Hin) as (_ & H & _). }
  destruct (scan_lf_text L Hn) as [Hl | [Hs _]]; [now left | now right].
Qed.

Corollary stream_fixed_point data :
  snd (scan (stream data) REof) <> STooLong -> stream (stream data) = stream data.
Proof.
  intros H. destruct (second_pass data) as [E | E]; [contradiction|].
  change (snd (run_io tb cs c enc (stream data) REof (fun _ => Accept) None) = stream data). now rewrite E.
Qed.

(* a sufficient condition that can be read off the output: every line of it is shorter than the limit *)
Corollary stream_fixed_point_short data :
  Forall (fun o => (len_N o + 1 <= max_token)%N) (outs (fst (scan data REof))) -> stream (stream data) = stream data.
Proof.
  intros F. apply stream_fixed_point. rewrite (stream_outs data). set (L := outs (fst (scan data REof))) in *.
  pose proof (outs_facts (fst (scan data REof))) as HL. fold L in HL.
  assert (Hn : Forall (fun l => ~ In nl l) L).
  { rewrite Forall_forall in *. intros l Hin. now destruct (HL l Hin) as (_ & H & _). }
  rewrite scan_unfold, split_lines_lf_text by exact Hn. cbn [fst snd].
  assert (E : snd (scan_terminated L) = false).
  { clear HL Hn. induction L as [|l r IH]; [reflexivity|]. inversion F as [|? ? Hl Hr]; subst.
    cbn [scan_terminated]. assert (Hlt : (max_token <? len_N l + 1)%N = false) by (apply N.ltb_ge; exact Hl).
    rewrite Hlt. destruct (scan_terminated r) as [ts b]. cbn [snd] in *. apply IH. exact Hr. }
  rewrite E. cbn [snd]. discriminate.
Qed.

End Idem.
