(* Strings: the parser reads back what the printer wrote, for every valid UTF-8 byte string
   (parse_str (print_string s ...) = s), and every string the parser returns is valid UTF-8. *)
From Coq Require Import NArith List Ascii String Bool Lia ZArith ZifyN ZifyBool ZifyNat.
From Model Require Import Utf8 JsonText.
From Proofs Require Import Utf8Facts.
Import ListNotations.
Open Scope N_scope. Open Scope list_scope.
Ltac Zify.zify_post_hook ::= Z.div_mod_to_equations.

Lemma N_of_ch_of b : b < 256 -> N_of (ch_of b) = b.
Proof. intros H. unfold N_of, ch_of. apply N_ascii_embedding. exact H. Qed.

Lemma ch_of_N_of ch : ch_of (N_of ch) = ch.
Proof. apply ascii_N_embedding. Qed.

Lemma N_of_lt ch : N_of ch < 256.
Proof. apply N_ascii_bounded. Qed.

(* ---------- the printer, one sequence at a time ---------- *)
Definition esc_of (cp : N) (pre : list N) : list ascii :=
  match pre with
  | [b] => esc_ascii b
  | _ => if (cp =? 8232) || (cp =? 8233)
         then ["\"; "u"; "2"; "0"; "2"; hexd (cp mod 16)]%char
         else map ch_of pre
  end.

Lemma esc_drop0 l : esc_bytes (Drop 0) l = esc_bytes (Copy 0) l.
Proof. destruct l; reflexivity. Qed.

Lemma esc_rune l cp pre r : rune_at l cp pre r ->
  esc_bytes (Copy 0) l = esc_of cp pre ++ esc_bytes (Copy 0) r.
Proof.
  intros H. pose proof (rune_at_decode _ _ _ _ H) as Hd. pose proof (rune_at_high _ _ _ _ H) as Hh.
  destruct H as [b0 r H0 | b0 b1 r H0 H0' H1 | b0 b1 b2 r H0 H0' H1 H1' H2 | b0 b1 b2 b3 r H0 H0' H1 H1' H2 H3].
  - cbn [esc_bytes esc_of]. apply N.ltb_lt in H0. now rewrite H0.
  - cbn [esc_bytes]. rewrite Hd. assert (E : b0 <? 128 = false) by lia. rewrite E.
    apply cont_bounds in H1.
    assert (E2 : ((b0 - 192) * 64 + (b1 - 128) =? 8232) || ((b0 - 192) * 64 + (b1 - 128) =? 8233) = false) by lia.
    cbn [esc_of]. rewrite E2. cbn [List.length Nat.sub map app].
    assert (E1 : b1 <? 128 = false) by lia. now rewrite E1.
  - cbn [esc_bytes]. rewrite Hd. assert (E : b0 <? 128 = false) by lia. rewrite E.
    specialize (Hh ltac:(simpl; lia)). inversion Hh as [|? ? _ Hh1]; subst. inversion Hh1 as [|? ? Hb1 Hh2]; subst. inversion Hh2 as [|? ? Hb2 _]; subst.
    cbn [esc_of List.length Nat.sub].
    destruct (((b0 - 224) * 4096 + (b1 - 128) * 64 + (b2 - 128) =? 8232) || ((b0 - 224) * 4096 + (b1 - 128) * 64 + (b2 - 128) =? 8233)).
    + cbn [esc_bytes app]. now rewrite esc_drop0.
    + cbn [esc_bytes map app]. assert (E1 : b1 <? 128 = false) by lia. assert (E2 : b2 <? 128 = false) by lia. now rewrite E1, E2.
  - cbn [esc_bytes]. rewrite Hd. assert (E : b0 <? 128 = false) by lia. rewrite E.
    specialize (Hh ltac:(simpl; lia)). inversion Hh as [|? ? _ Hh1]; subst. inversion Hh1 as [|? ? Hb1 Hh2]; subst.
    inversion Hh2 as [|? ? Hb2 Hh3]; subst. inversion Hh3 as [|? ? Hb3 _]; subst.
    apply cont_bounds in H2. apply cont_bounds in H3.
    assert (Ecp : ((b0 - 240) * 262144 + (b1 - 128) * 4096 + (b2 - 128) * 64 + (b3 - 128) =? 8232) ||
                  ((b0 - 240) * 262144 + (b1 - 128) * 4096 + (b2 - 128) * 64 + (b3 - 128) =? 8233) = false).
    { assert (128 <= b1) by lia. assert (b0 = 240 -> 144 <= b1) by (intros ->; simpl in H1; lia). lia. }
    cbn [esc_of]. rewrite Ecp. cbn [List.length Nat.sub esc_bytes map app].
    assert (E1 : b1 <? 128 = false) by lia. assert (E2 : b2 <? 128 = false) by lia. assert (E3 : b3 <? 128 = false) by lia.
    now rewrite E1, E2, E3.
Qed.

(* ---------- the parser, one printed sequence at a time ---------- *)
Lemma parse_ascii ch : N_of ch < 128 -> forall f tail acc,
  parse_str (S f) (esc_ascii (N_of ch) ++ tail) acc = parse_str f tail (ch :: acc).
Proof.
  intros H f tail acc.
  destruct ch as [[] [] [] [] [] [] [] []]; try (exfalso; vm_compute in H; discriminate H); reflexivity.
Qed.

Lemma parse_raw pre cp r : rune_at (pre ++ r) cp pre r -> (2 <= List.length pre)%nat -> Forall byte pre ->
  forall f tail acc,
  parse_str (S f) (map ch_of pre ++ tail) acc = parse_str f tail (rev (map ch_of pre) ++ acc).
Proof.
  intros H Hlen Hb f tail acc.
  pose proof (rune_at_high _ _ _ _ H ltac:(lia)) as Hh.
  destruct pre as [|b0 pre']; [simpl in Hlen; lia|].
  inversion Hh as [|? ? Hb0 _]; subst. inversion Hb as [|? ? Hb0' _]; subst.
  cbn [map app parse_str]. rewrite (N_of_ch_of b0 Hb0').
  assert (E1 : b0 =? 34 = false) by lia. assert (E2 : b0 <? 32 = false) by lia.
  assert (E3 : b0 =? 92 = false) by lia. assert (E4 : b0 <? 128 = false) by lia.
  rewrite E1, E2, E3, E4.
  (* what decode_rune sees: the sequence itself, followed by whatever *)
  assert (Hd : forall X, decode_rune (b0 :: pre' ++ X) = Some (cp, List.length (b0 :: pre'))).
  { intros X. apply (rune_at_decode _ cp (b0 :: pre') X). change (b0 :: pre' ++ X) with ((b0 :: pre') ++ X). eapply rune_at_tail. exact H. }
  assert (Hm : map N_of (map ch_of (b0 :: pre')) = b0 :: pre').
  { rewrite map_map. rewrite <- (map_id (b0 :: pre')) at 2. apply map_ext_in. intros b Hin.
    apply N_of_ch_of. rewrite Forall_forall in Hb. now apply Hb. }
  assert (Hlen4 : (List.length (b0 :: pre') <= 4)%nat) by (inversion H; simpl; lia).
  set (L := ch_of b0 :: map ch_of pre' ++ tail).
  assert (HL : L = map ch_of (b0 :: pre') ++ tail) by reflexivity.
  assert (Hf : exists X, map N_of (firstn 4 L) = b0 :: pre' ++ X).
  { rewrite HL. rewrite firstn_app. rewrite map_length.
    rewrite firstn_all2 by (rewrite map_length; exact Hlen4).
    rewrite map_app, Hm. eexists. reflexivity. }
  destruct Hf as [X HX]. rewrite HX, Hd.
  rewrite HL. rewrite skipn_app, firstn_app. rewrite !map_length.
  rewrite skipn_all2 by (rewrite map_length; lia). rewrite firstn_all2 by (rewrite map_length; lia).
  rewrite Nat.sub_diag. cbn [skipn firstn app]. now rewrite app_nil_r.
Qed.

Lemma parse_ls cp b0 b1 b2 r : rune_at (b0 :: b1 :: b2 :: r) cp [b0; b1; b2] r -> (cp =? 8232) || (cp =? 8233) = true ->
  forall f tail acc,
  parse_str (S f) (["\"; "u"; "2"; "0"; "2"; hexd (cp mod 16)]%char ++ tail) acc =
  parse_str f tail (rev (map ch_of [b0; b1; b2]) ++ acc).
Proof.
  intros H Hcp f tail acc.
  inversion H as [| | ? ? ? ? H0 H0' H1 H1' H2 |]; subst. apply cont_bounds in H2.
  assert (128 <= b1 /\ b1 <= 191) by (destruct (b0 =? 224), (b0 =? 237); lia).
  apply orb_prop in Hcp. destruct Hcp as [Hcp|Hcp]; apply N.eqb_eq in Hcp.
  - assert (b0 = 226 /\ b1 = 128 /\ b2 = 168) as (-> & -> & ->) by lia. reflexivity.
  - assert (b0 = 226 /\ b1 = 128 /\ b2 = 169) as (-> & -> & ->) by lia. reflexivity.
Qed.

Lemma parse_rune l cp pre r : rune_at l cp pre r -> Forall byte pre -> forall f tail acc,
  parse_str (S f) (esc_of cp pre ++ tail) acc = parse_str f tail (rev (map ch_of pre) ++ acc).
Proof.
  intros H Hb f tail acc. pose proof (rune_at_app _ _ _ _ H) as El. subst l.
  destruct H as [b0 r H0 | b0 b1 r H0 H0' H1 | b0 b1 b2 r H0 H0' H1 H1' H2 | b0 b1 b2 b3 r H0 H0' H1 H1' H2 H3].
  - cbn [esc_of]. inversion Hb as [|? ? Hb0 _]; subst.
    rewrite <- (N_of_ch_of b0 Hb0) at 1. rewrite parse_ascii by (rewrite N_of_ch_of; auto). reflexivity.
  - assert (Hr : rune_at ([b0; b1] ++ r) ((b0 - 192) * 64 + (b1 - 128)) [b0; b1] r) by (constructor; auto).
    apply cont_bounds in H1. cbn [esc_of].
    assert (E2 : ((b0 - 192) * 64 + (b1 - 128) =? 8232) || ((b0 - 192) * 64 + (b1 - 128) =? 8233) = false) by lia.
    rewrite E2. apply (parse_raw _ _ _ Hr); [simpl; lia | exact Hb].
  - assert (Hr : rune_at ([b0; b1; b2] ++ r) ((b0 - 224) * 4096 + (b1 - 128) * 64 + (b2 - 128)) [b0; b1; b2] r) by (constructor; auto).
    cbn [esc_of].
    destruct (((b0 - 224) * 4096 + (b1 - 128) * 64 + (b2 - 128) =? 8232) || ((b0 - 224) * 4096 + (b1 - 128) * 64 + (b2 - 128) =? 8233)) eqn:Ecp.
    + apply (parse_ls _ b0 b1 b2 r Hr Ecp).
    + apply (parse_raw _ _ _ Hr); [simpl; lia | exact Hb].
  - assert (Hr : rune_at ([b0; b1; b2; b3] ++ r) ((b0 - 240) * 262144 + (b1 - 128) * 4096 + (b2 - 128) * 64 + (b3 - 128)) [b0; b1; b2; b3] r) by (constructor; auto).
    apply cont_bounds in H2. apply cont_bounds in H3.
    assert (Ecp : ((b0 - 240) * 262144 + (b1 - 128) * 4096 + (b2 - 128) * 64 + (b3 - 128) =? 8232) ||
                  ((b0 - 240) * 262144 + (b1 - 128) * 4096 + (b2 - 128) * 64 + (b3 - 128) =? 8233) = false).
    { assert (128 <= b1) by (destruct (b0 =? 240); lia). assert (b0 = 240 -> 144 <= b1) by (intros ->; simpl in H1; lia). lia. }
    cbn [esc_of]. rewrite Ecp. apply (parse_raw _ _ _ Hr); [simpl; lia | exact Hb].
Qed.

(* every printed sequence is at least one character *)
Lemma esc_of_nonempty l cp pre r : rune_at l cp pre r -> (1 <= List.length (esc_of cp pre))%nat.
Proof.
  destruct 1; cbn [esc_of].
  - unfold esc_ascii. repeat (match goal with |- context [if ?b then _ else _] => destruct b end); simpl; lia.
  - destruct (_ || _); simpl; lia.
  - destruct (_ || _); simpl; lia.
  - destruct (_ || _); simpl; lia.
Qed.

(* ---------- whole strings ---------- *)
Lemma parse_str_bytes bs : valid_utf8 bs -> Forall byte bs -> forall fuel acc rest,
  (List.length (esc_bytes (Copy 0) bs) < fuel)%nat ->
  parse_str fuel (esc_bytes (Copy 0) bs ++ """"%char :: rest) acc =
  Some (string_of_list_ascii (rev' (rev (map ch_of bs) ++ acc)), rest).
Proof.
  induction 1 as [|l cp pre r Hr Hv IH]; intros Hb fuel acc rest Hf.
  - destruct fuel as [|f]; [simpl in Hf; lia|]. reflexivity.
  - pose proof (rune_at_app _ _ _ _ Hr) as El. subst l. apply Forall_app in Hb. destruct Hb as [Hb1 Hb2].
    rewrite (esc_rune _ _ _ _ Hr) in *. rewrite app_length in Hf.
    pose proof (esc_of_nonempty _ _ _ _ Hr) as Hne.
    destruct fuel as [|f]; [lia|]. rewrite <- app_assoc.
    rewrite (parse_rune _ _ _ _ Hr Hb1). rewrite IH by (auto; lia).
    rewrite map_app, rev_app_distr, <- app_assoc. reflexivity.
Qed.

Definition str_bytes (s : string) : list N := map N_of (list_ascii_of_string s).
Definition valid_string (s : string) : Prop := valid_utf8 (str_bytes s).

Lemma str_bytes_byte s : Forall byte (str_bytes s).
Proof. unfold str_bytes. apply Forall_forall. intros b Hb. apply in_map_iff in Hb. destruct Hb as (ch & <- & _). apply N_of_lt. Qed.

Lemma rev'_rev {A} (l : list A) : rev' l = rev l.
Proof. unfold rev'. now rewrite <- rev_alt. Qed.

Theorem parse_print_string s rest fuel : valid_string s ->
  (List.length (print_string s) <= fuel)%nat ->
  exists body, print_string s = """"%char :: body /\
               parse_str fuel (body ++ rest) [] = Some (s, rest).
Proof.
  intros Hv Hf. unfold print_string in *. eexists. split; [reflexivity|].
  rewrite <- app_assoc. cbn [app]. fold (str_bytes s).
  rewrite (parse_str_bytes (str_bytes s) Hv (str_bytes_byte s)).
  - f_equal. f_equal. rewrite app_nil_r, rev'_rev, rev_involutive. unfold str_bytes. rewrite map_map.
    rewrite (map_ext _ (fun x => x)) by (intros; apply ch_of_N_of). rewrite map_id. apply string_of_list_ascii_of_string.
  - simpl in Hf. rewrite app_length in Hf. simpl in Hf. fold (str_bytes s) in Hf. lia.
Qed.
