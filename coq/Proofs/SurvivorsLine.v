(* C01 at the level of command documents and index paths. *)
From Coq Require Import Lia.
From Model Require Import Json Tables Walker Line.
From Proofs Require Import JsonFacts TableFacts WalkerRel Survivors LineRel.
Close Scope string_scope. Open Scope list_scope.

Section SL.
Variable tb : tables.
Variable cs : consts.
Variable c : cfg.
Variable A : actions.
Hypothesis Hre : re c = None.
Hypothesis Hempty : ~ In (""%string, Exempt) (all_entries tb).

Notation ok := (ok1 tb cs c A).
Notation Wok := (walk_ok1 tb cs c is_email A Hre Hempty).

(* boolean versions of the "sanctioned key" predicates *)
Definition key_full (k : string) : bool :=
  existsb (fun kt => String.eqb (fst kt) k && (otype_eqb (snd kt) FieldName || otype_eqb (snd kt) Exempt || otype_eqb (snd kt) Namespace)) (all_entries tb).
Definition has_entry (l : list (string * otype)) (k : string) (t : otype) : bool :=
  existsb (fun kt => String.eqb (fst kt) k && otype_eqb (snd kt) t) l.
Definition is_leafb (v : json) : bool := match v with JArr _ | JObj _ => false | _ => true end.
Definition is_arrayb (v : json) : bool := match v with JArr _ => true | _ => false end.
(* keys holding lists of sub-documents, and the value forms the walkers leave alone under them *)
Definition key_nonarr (k : string) (v : json) : bool :=
  (has_entry (all_entries tb) k Pipeline && is_leafb v) ||
  (has_entry (all_entries tb) k OperatorArray && negb (is_arrayb v)) ||
  ((has_entry (sub_entries tb) k Pipeline || has_entry (sub_entries tb) k OperatorArray) && negb (is_arrayb v)).

Lemma sanct_full_b k : sanct_full tb k -> key_full k = true.
Proof.
  intros (t & Ht & Hin). unfold key_full. apply existsb_exists. exists (k, t). split; [exact Hin|].
  simpl. rewrite String.eqb_refl. destruct Ht as [-> | [-> | ->]]; reflexivity.
Qed.

Lemma has_entry_in l k t : In (k, t) l -> has_entry l k t = true.
Proof.
  intros H. unfold has_entry. apply existsb_exists. exists (k, t). split; [exact H|]. simpl.
  rewrite String.eqb_refl. destruct t; reflexivity.
Qed.

Lemma sanct_nonarr_b k v : sanct_nonarr tb k v -> key_nonarr k v = true.
Proof.
  unfold key_nonarr. intros [[Hin Hl] | [[Hin Hna] | (t & Ht & Hin & Hna)]].
  - rewrite (has_entry_in _ _ _ Hin). destruct v; simpl in *; try contradiction; reflexivity.
  - rewrite (has_entry_in _ _ _ Hin). destruct v; simpl in *; try contradiction; rewrite ?Bool.orb_true_r; reflexivity.
  - destruct Ht as [-> | ->]; rewrite (has_entry_in _ _ _ Hin); destruct v; simpl in *; try contradiction; rewrite ?Bool.orb_true_r; reflexivity.
Qed.

(* an index path is CLEAR when no object member it passes through has a key that the tables
   classify as not redactable (FieldName / Exempt / Namespace; Pipeline / OperatorArray holding a
   non-array), and none is a "subType" *)
Fixpoint clear (t : json) (p : list nat) : bool :=
  match p with
  | [] => true
  | i :: r =>
    match t with
    | JArr l => match nth_error l i with Some x => clear x r | None => true end
    | JObj l => match nth_error l i with
                | Some (k, x) => negb (key_full k) && negb (String.eqb k "subType") && negb (key_nonarr k x) && clear x r
                | None => true
                end
    | _ => true
    end
  end.

(* on a clear path, the leaf found in the output is the strong verdict applied to the input leaf *)
Lemma ok1_path t out : ok t out ->
  forall p v, jget t p = Some v -> is_leaf v -> clear t p = true ->
  exists d, strong cs c v d /\ jget out p = Some (apply_verdict A d v).
Proof.
  intros H p. revert t out H. induction p as [|i p IH]; intros t out H v Hg Hl Hc.
  - simpl in Hg. injection Hg as ->.
    inversion H as [v' d Hs | l f Hall | l f Hall]; subst; try contradiction.
    exists d. simpl. auto.
  - inversion H as [v' d Hs | l f Hall | l f Hall]; subst.
    + destruct t; simpl in Hg; try discriminate; simpl in Hs; contradiction.
    + simpl in Hg, Hc |- *. rewrite nth_error_map.
      destruct (nth_error l i) as [x|] eqn:E; [|discriminate]. simpl.
      apply (IH x _ (Hall x (nth_error_In _ _ E)) v Hg Hl Hc).
    + simpl in Hg, Hc |- *. rewrite nth_error_map.
      destruct (nth_error l i) as [[k x]|] eqn:E; [|discriminate]. simpl.
      apply andb_prop in Hc. destruct Hc as [Hc Hc4]. apply andb_prop in Hc. destruct Hc as [Hc Hc3].
      apply andb_prop in Hc. destruct Hc as [Hc1 Hc2].
      destruct (Hall (k, x) (nth_error_In _ _ E)) as [Hs | [Hs | [Hs | Hs]]]; simpl in *.
      * apply sanct_full_b in Hs. rewrite Hs in Hc1. discriminate.
      * subst k. discriminate.
      * apply sanct_nonarr_b in Hs. rewrite Hs in Hc3. discriminate.
      * apply (IH x _ Hs v Hg Hl Hc4).
Qed.

(* what the command dispatch hands to the walkers: the query-bearing values, when they have the
   kind the grammar gives them *)
Definition zone_value (ins : bool) (k : string) (v : json) : bool :=
  match v with
  | JObj _ => key_in k ["query"; "filter"; "sort"; "q"; "update"; "u"]%string
  | JArr _ => key_in k ["update"; "u"; "updates"; "deletes"; "pipeline"]%string || (String.eqb k "documents" && ins)
  | _ => false
  end.

Lemma cmd_member_ok ins k v :
  zone_value ins k v = true -> nodup_keys v -> ok v (cmd_member tb cs c A false ins k v).
Proof.
  intros Hz Hn. unfold zone_value in Hz. unfold cmd_member.
  destruct v as [| b | num | s | l | l]; try discriminate.
  - (* array *)
    assert (Harr : ok (JArr l) (a_arr tb cs c A false (JArr l))).
    { unfold a_arr, W. apply Wok; simpl; auto. now apply exempt_empty. }
    assert (Hpipe : ok (JArr l) (pipe tb cs c A false (JArr l))).
    { unfold pipe, W. apply O_arr. intros x Hx. apply Wok; simpl; auto.
      - destruct x; exact I.
      - rewrite nodup_keys_arr in Hn. auto. }
    unfold key_in in *. cbn [existsb] in *.
    destruct (String.eqb k "query") eqn:E1; [discriminate Hz || (apply String.eqb_eq in E1; subst; discriminate)|].
    destruct (String.eqb k "filter") eqn:E2; [apply String.eqb_eq in E2; subst; discriminate|].
    destruct (String.eqb k "sort") eqn:E3; [apply String.eqb_eq in E3; subst; discriminate|].
    destruct (String.eqb k "q") eqn:E4; [apply String.eqb_eq in E4; subst; discriminate|].
    cbn [orb].
    destruct (String.eqb k "update") eqn:E5; [exact Harr|].
    destruct (String.eqb k "u") eqn:E6; [exact Harr|].
    cbn [orb].
    destruct (String.eqb k "updates") eqn:E7; [exact Harr|].
    destruct (String.eqb k "deletes") eqn:E8; [exact Harr|].
    cbn [orb] in *.
    destruct (String.eqb k "documents") eqn:E9.
    + apply String.eqb_eq in E9. subst k. simpl in Hz. rewrite Hz. exact Harr.
    + destruct (String.eqb k "pipeline") eqn:E10; [exact Hpipe|]. simpl in Hz. discriminate.
  - (* object *)
    assert (Hq : ok (JObj l) (q_obj tb cs c A false (JObj l))).
    { unfold q_obj, W. apply Wok; simpl; auto. }
    unfold key_in in *. cbn [existsb] in *.
    destruct (String.eqb k "query"); [exact Hq|].
    destruct (String.eqb k "filter"); [exact Hq|].
    destruct (String.eqb k "sort"); [exact Hq|].
    destruct (String.eqb k "q"); [exact Hq|].
    cbn [orb] in *.
    destruct (String.eqb k "update"); [exact Hq|].
    destruct (String.eqb k "u"); [exact Hq|].
    discriminate.
Qed.

(* with --redactNamespaces the namespace step does not touch containers *)
Lemma cmd_full_ok ins k v :
  zone_value ins k v = true -> nodup_keys v ->
  ok v (if nss c then ns_member A k (cmd_member tb cs c A false ins k v) else cmd_member tb cs c A false ins k v).
Proof.
  intros Hz Hn. pose proof (cmd_member_ok ins k v Hz Hn) as H.
  destruct (nss c); [|exact H]. unfold ns_member. destruct (key_in k ns_fields); [|exact H].
  rewrite hash_str_container; [exact H|]. apply cmd_member_container.
  destruct v; simpl in Hz; try discriminate; exact I.
Qed.

End SL.
