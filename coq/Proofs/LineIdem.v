(* C19 lifted to command documents and whole log entries: redact_entry is idempotent in placeholder
   mode (no regexp, no namespace / field-name pseudonymisation, replacement not e-mail shaped). *)
From Coq Require Import Lia.
From Model Require Import Json Tables Walker Line.
From Proofs Require Import JsonFacts WalkerRel IdemProofs WalkerIdem.
Close Scope string_scope. Open Scope list_scope.

Section LIdem.
Variable tb : tables.
Variable cs : consts.
Variable c : cfg.
Variable A : actions.
Hypothesis Hstr : forall s ph, a_str A s ph = ph.
Hypothesis Hnum : forall n, a_num A n = c_num cs.
Hypothesis Hbool : forall b, a_bool A b = c_bool cs.
Hypothesis Hemail : is_email (c_email cs) = true.
Hypothesis Hrepl : is_email (repl c) = false.
Hypothesis Hre : re c = None.
Hypothesis Hnss : nss c = false.
Hypothesis Heager : eager c = [].

Notation Wl := (W tb cs c A).
Notation widem := (walk_idem tb cs c is_email A Hstr Hnum Hbool Hemail Hrepl Hre Hnss).
Notation wkind := (walk_kind tb cs c is_email A).

Lemma q_obj_idem v : nodup_keys v -> q_obj tb cs c A false (q_obj tb cs c A false v) = q_obj tb cs c A false v.
Proof.
  intros Hn. destruct v as [| b | num | s | l | l]; try reflexivity. unfold q_obj at 2.
  pose proof (wkind (MQ false false MNil []) (JObj l)) as Hk. fold Wl in Hk.
  destruct (Wl (MQ false false MNil []) (JObj l)) as [| | | | |l'] eqn:E; try contradiction.
  unfold q_obj. rewrite <- E. unfold W. now apply widem.
Qed.

Lemma a_arr_idem v : nodup_keys v -> a_arr tb cs c A false (a_arr tb cs c A false v) = a_arr tb cs c A false v.
Proof.
  intros Hn. destruct v as [| b | num | s | l | l]; try reflexivity. unfold a_arr at 2.
  pose proof (wkind (MA "" false false false []) (JArr l)) as Hk. fold Wl in Hk.
  destruct (Wl (MA "" false false false []) (JArr l)) as [| | | |l'|] eqn:E; try contradiction.
  unfold a_arr. rewrite <- E. unfold W. now apply widem.
Qed.

Lemma q_or_a_idem v : nodup_keys v -> q_or_a tb cs c A false (q_or_a tb cs c A false v) = q_or_a tb cs c A false v.
Proof.
  intros Hn. destruct v as [| b | num | s | l | l]; try reflexivity.
  - assert (Hk : exists l', a_arr tb cs c A false (JArr l) = JArr l').
    { unfold a_arr. pose proof (wkind (MA "" false false false []) (JArr l)) as Hk. fold Wl in Hk.
      destruct (Wl (MA "" false false false []) (JArr l)); try contradiction. eauto. }
    destruct Hk as [l' E]. pose proof (a_arr_idem (JArr l) Hn) as H.
    change (q_or_a tb cs c A false (JArr l)) with (a_arr tb cs c A false (JArr l)). rewrite E in *. exact H.
  - assert (Hk : exists l', q_obj tb cs c A false (JObj l) = JObj l').
    { unfold q_obj. pose proof (wkind (MQ false false MNil []) (JObj l)) as Hk. fold Wl in Hk.
      destruct (Wl (MQ false false MNil []) (JObj l)); try contradiction. eauto. }
    destruct Hk as [l' E]. pose proof (q_obj_idem (JObj l) Hn) as H.
    change (q_or_a tb cs c A false (JObj l)) with (q_obj tb cs c A false (JObj l)). rewrite E in *. exact H.
Qed.

Lemma pipe_idem v : nodup_keys v -> pipe tb cs c A false (pipe tb cs c A false v) = pipe tb cs c A false v.
Proof.
  intros Hn. destruct v as [| b | num | s | l | l]; try reflexivity. unfold pipe. f_equal.
  rewrite map_map. apply map_ext_in. intros st Hin. rewrite nodup_keys_arr in Hn.
  unfold W. rewrite (search_stage_walk tb cs c is_email A [] (is_in_search_stage tb st) st) by auto.
  apply widem; [reflexivity | auto].
Qed.

Lemma cmd_member_idem ins k v : nodup_keys v ->
  cmd_member tb cs c A false ins k (cmd_member tb cs c A false ins k v) = cmd_member tb cs c A false ins k v.
Proof.
  intros Hn. unfold cmd_member.
  destruct (key_in k _); [now apply q_obj_idem|].
  destruct (key_in k _); [now apply q_or_a_idem|].
  destruct (key_in k _); [now apply a_arr_idem|].
  destruct (String.eqb k "documents"); [destruct ins; [now apply a_arr_idem | reflexivity]|].
  destruct (String.eqb k "pipeline"); [now apply pipe_idem | reflexivity].
Qed.

Lemma oget_map_fst {X} (f : string * X -> X) (l : list (string * X)) k :
  oget (map (fun kv => (fst kv, f kv)) l) k = match oget l k with Some _ => oget (map (fun kv => (fst kv, f kv)) l) k | None => None end.
Proof. induction l as [|[a x] l IH]; simpl; [reflexivity|]. destruct (String.eqb a k); [reflexivity | exact IH]. Qed.

Lemma has_key_map (f : string * json -> json) l k : has_key (map (fun kv => (fst kv, f kv)) l) k = has_key l k.
Proof. unfold has_key. induction l as [|[a x] l IH]; simpl; [reflexivity|]. destruct (String.eqb a k); [reflexivity | exact IH]. Qed.

Lemma redact_command_idem cmd : nodup_keys (JObj cmd) ->
  redact_command tb cs c A false (redact_command tb cs c A false cmd) = redact_command tb cs c A false cmd.
Proof.
  intros Hn. apply nodup_keys_obj in Hn. destruct Hn as [_ Hch].
  unfold redact_command. rewrite Hnss.
  rewrite (has_key_map (fun kv => cmd_member tb cs c A false (has_key cmd "insert") (fst kv) (snd kv)) cmd "insert").
  rewrite map_map. apply map_ext_in. intros kv Hin. cbn [fst snd]. f_equal. apply cmd_member_idem. auto.
Qed.

Lemma do_command_idem v : nodup_keys v -> do_command tb cs c A false (do_command tb cs c A false v) = do_command tb cs c A false v.
Proof.
  intros Hn. destruct v as [| b | num | s | l | l]; try reflexivity. unfold do_command. f_equal. now apply redact_command_idem.
Qed.

Lemma ip_value_idem v : ip_value (ip_value v) = ip_value v.
Proof. destruct v; reflexivity. Qed.

Lemma attr_member_idem g k v : nodup_keys v ->
  attr_member tb cs c A g false k (attr_member tb cs c A g false k v) = attr_member tb cs c A g false k v.
Proof.
  intros Hn. unfold attr_member. rewrite Hnss. rewrite !Bool.andb_false_r. cbn [andb].
  destruct (String.eqb k "remote") eqn:Er.
  - apply String.eqb_eq in Er. subst k. cbn [key_in existsb String.eqb Ascii.eqb Bool.eqb orb andb]. rewrite !Bool.andb_false_r.
    destruct (ips c); cbn [andb]; [apply ip_value_idem | reflexivity].
  - rewrite !Bool.andb_false_r. destruct (g && key_in k _); [now apply do_command_idem | reflexivity].
Qed.

Lemma eager_off a : eager_on c a = false.
Proof. unfold eager_on. now rewrite Heager. Qed.

Lemma redact_attr_idem g a : nodup_keys (JObj a) ->
  redact_attr tb cs c A g (redact_attr tb cs c A g a) = redact_attr tb cs c A g a.
Proof.
  intros Hn. apply nodup_keys_obj in Hn. destruct Hn as [_ Hch]. unfold redact_attr. rewrite !eager_off.
  rewrite map_map. apply map_ext_in. intros kv Hin. cbn [fst snd]. f_equal. apply attr_member_idem. auto.
Qed.

Lemma oget_map_other (f : string * json -> json) l k :
  (forall kv, In kv l -> fst kv = k -> f kv = snd kv) -> oget (map (fun kv => (fst kv, f kv)) l) k = oget l k.
Proof.
  induction l as [|[a x] l IH]; intros H; simpl; [reflexivity|]. destruct (String.eqb a k) eqn:E.
  - apply String.eqb_eq in E. f_equal. apply (H (a, x)); simpl; auto.
  - apply IH. intros kv Hin. apply H. simpl. auto.
Qed.

Lemma gate_redact_entry e : gate (redact_entry tb cs c A e) = gate e.
Proof.
  unfold gate, redact_entry.
  rewrite !(oget_map_other (fun kv => if String.eqb (fst kv) "attr" then match snd kv with JObj a => JObj (redact_attr tb cs c A (gate e) a) | x => x end else snd kv)).
  - reflexivity.
  - intros kv _ ->. reflexivity.
  - intros kv _ ->. reflexivity.
Qed.

Theorem redact_entry_idem e : nodup_keys (JObj e) ->
  redact_entry tb cs c A (redact_entry tb cs c A e) = redact_entry tb cs c A e.
Proof.
  intros Hn. apply nodup_keys_obj in Hn. destruct Hn as [_ Hch].
  unfold redact_entry at 1. rewrite gate_redact_entry. unfold redact_entry.
  rewrite map_map. apply map_ext_in. intros kv Hin. cbn [fst snd]. f_equal.
  destruct (String.eqb (fst kv) "attr"); [|reflexivity].
  specialize (Hch kv Hin). destruct (snd kv) as [| b | num | s | l | l]; try reflexivity. f_equal. now apply redact_attr_idem.
Qed.

Theorem redact_tree_idem t : nodup_keys t ->
  redact_tree tb cs c A (redact_tree tb cs c A t) = redact_tree tb cs c A t.
Proof. intros Hn. destruct t; try reflexivity. unfold redact_tree. f_equal. now apply redact_entry_idem. Qed.

End LIdem.
