(* C01 for the places walked by the query walker (query / filter / sort / q / u / update documents, updates / deletes /
   documents arrays) WITHOUT any condition on key names: the query walker and the array walker form a closed system
   (neither calls the pipeline walker), and what they keep is decided by two table lookups only. [qcl] replays exactly
   those lookups along an index path; on a path where none of them answers "exempt", the leaf is the strong verdict.
   A user field may therefore be called type, path, index, subType, ... - what matters is what the lookups return,
   and [exempt_key_user] shows they return nothing for a key that is no entry of the core table under a key path whose
   first key is no entry of the stage table. *)
From Coq Require Import Lia.
From Model Require Import Json Tables Walker.
From Proofs Require Import JsonFacts TableFacts WalkerRel Survivors.
Close Scope string_scope. Open Scope list_scope.

Section QS.
Variable tb : tables.
Variable cs : consts.
Variable c : cfg.
Variable is_email : string -> bool.
Variable A : actions.
Hypothesis Hre : re c = None.

Notation W := (walk tb cs c is_email A).
Notation strong := (strong cs c).
Notation exempt_key := (exempt_key tb).

Definition core_of (par : meta) (k : string) : meta :=
  match (match par with MMap pm => oget pm k | _ => oget (Core tb) k end) with Some m => m | None => MNil end.

Definition is_subtype (kp : list string) (k : string) : bool :=
  String.eqb k "subType" && String.eqb (last_or_empty kp) "$binary".

(* the lookups of the query walker (mode MQ) and the array walker (mode MA) along an index path *)
Fixpoint qcl (m : mode) (t : json) (p : list nat) : bool :=
  match p with
  | [] => true
  | i :: r =>
    match t, m with
    | JObj l, MQ rfn s par kp =>
      match nth_error l i with
      | Some (k, x) =>
        match x with
        | JObj _ => qcl (MQ rfn s (core_of par k) (kp ++ [k])) x r
        | JArr lx => qcl (MA k rfn s (sel_of c lx) (kp ++ [k])) x r
        | _ => negb (is_ty (core_of par k) Exempt) && negb (exempt_key kp k s) && negb (is_subtype kp k)
        end
      | None => true
      end
    | JArr l, MA pk rfn s sel kp =>
      match nth_error l i with
      | Some x =>
        match x with
        | JObj _ => qcl (MQ rfn s MNil kp) x r
        | JArr _ => qcl (MA pk rfn s sel kp) x r
        | _ => negb (exempt_key [] pk s) && negb (is_subtype [] pk)
        end
      | None => true
      end
    | _, _ => false      (* the query walker is never handed an array, the array walker never an object *)
    end
  end.

Lemma leaf_scalar init lst v search sel :
  is_leaf v -> exempt_key init lst search = false -> is_subtype init lst = false ->
  exists d, strong v d /\ scalar tb cs c is_email A init lst v search sel = apply_verdict A d v.
Proof.
  intros Hl He Hs. destruct (scalar_strong tb cs c is_email Hre init lst v search sel Hl) as [H | [H | [H1 H2]]].
  - eexists. split; [exact H | reflexivity].
  - congruence.
  - unfold is_subtype in Hs. rewrite H1, H2 in Hs. discriminate.
Qed.

Lemma arr_item_leaf pk search sel kp x :
  is_leaf x -> exempt_key [] pk search = false -> is_subtype [] pk = false ->
  exists d, strong x d /\ arr_item tb cs c is_email A W pk false search sel kp x = apply_verdict A d x.
Proof.
  intros Hl H1 H2. destruct x as [| b | num | s | lx | lx]; try contradiction; cbn [arr_item].
  - exists VKeep. split; reflexivity.
  - now apply leaf_scalar.
  - now apply leaf_scalar.
  - destruct (starts_with_dollar s) eqn:Ed; [|now apply leaf_scalar]. exists VKeep. split; [right; auto | reflexivity].
Qed.

Lemma q_member_leaf search par kp k x :
  is_leaf x -> is_ty (core_of par k) Exempt = false -> exempt_key kp k search = false -> is_subtype kp k = false ->
  exists d, strong x d /\ snd (q_member tb cs c is_email A W false search par kp k x) = apply_verdict A d x.
Proof.
  intros Hl H1 H2 H3. unfold q_member. cbn [snd andb]. fold (core_of par k). rewrite H1.
  destruct x as [| b | num | s | lx | lx]; try contradiction.
  - exists VKeep. split; reflexivity.
  - now apply leaf_scalar.
  - now apply leaf_scalar.
  - destruct (starts_with_dollar s) eqn:Ed; [|now apply leaf_scalar]. exists VKeep. split; [right; auto | reflexivity].
Qed.

Lemma jget_leaf x r leaf : is_leaf x -> jget x r = Some leaf -> r = [] /\ leaf = x.
Proof. intros Hl Hg. destruct r; [simpl in Hg; injection Hg as <-; auto|]. destruct x; try contradiction; discriminate. Qed.

Definition qmode (m : mode) : Prop :=
  match m with MQ rfn _ _ _ => rfn = false | MA _ rfn _ _ _ => rfn = false | MP _ _ _ => False end.

Theorem walk_qcl : forall p t m leaf,
  qmode m -> nodup_keys t -> jget t p = Some leaf -> is_leaf leaf -> qcl m t p = true -> p <> [] ->
  exists d, strong leaf d /\ jget (W m t) p = Some (apply_verdict A d leaf).
Proof.
  induction p as [|i r IH]; intros t m leaf Hm Hn Hg Hl Hc Hp; [contradiction|]. clear Hp.
  destruct t as [| b | num | s | l | l]; try discriminate.
  - (* array: only the array walker *)
    destruct m as [rfn kp search | rfn search par kp | pk rfn search sel kp]; simpl in Hm; try contradiction; [discriminate Hc|].
    subst rfn. cbn [walk jget] in *. cbn [qcl] in Hc. rewrite nth_error_map.
    destruct (nth_error l i) as [x|] eqn:E; [|discriminate]. cbn [option_map].
    rewrite nodup_keys_arr in Hn. pose proof (Hn x (nth_error_In _ _ E)) as Hnx.
    destruct x as [| b | num | s | lx | lx] eqn:Ex;
      try (destruct (jget_leaf x r leaf) as [-> ->]; [subst x; exact I | subst x; exact Hg |];
           apply andb_prop in Hc; destruct Hc as [H1 H2]; apply Bool.negb_true_iff in H1, H2;
           destruct (arr_item_leaf pk search sel kp x) as (d & Hs & E'); [subst x; exact I | exact H1 | exact H2 |];
           subst x; exists d; split; [exact Hs | cbn [jget]; now rewrite E']).
    + subst x. destruct r as [|j r']; [simpl in Hg; inversion Hg; subst; contradiction|]. cbn [arr_item].
      apply (IH (JArr lx) (MA pk false search sel kp) leaf); auto; try reflexivity; discriminate.
    + subst x. destruct r as [|j r']; [simpl in Hg; inversion Hg; subst; contradiction|]. cbn [arr_item].
      apply (IH (JObj lx) (MQ false search MNil kp) leaf); auto; try reflexivity; discriminate.
  - (* object: only the query walker *)
    destruct m as [rfn kp search | rfn search par kp | pk rfn search sel kp]; simpl in Hm; try contradiction; [|discriminate Hc].
    subst rfn. cbn [walk]. pose proof Hn as Hn'. apply nodup_keys_obj in Hn'. destruct Hn' as [Hnd Hch].
    rewrite (build_map_fst l (q_member tb cs c is_email A W false search par kp) Hnd) by (intros; reflexivity).
    cbn [jget] in *. cbn [qcl] in Hc. rewrite nth_error_map.
    destruct (nth_error l i) as [[k x]|] eqn:E; [|discriminate]. cbn [option_map fst snd] in *.
    pose proof (Hch _ (nth_error_In _ _ E)) as Hnx. cbn [snd] in Hnx.
    destruct x as [| b | num | s | lx | lx] eqn:Ex;
      try (destruct (jget_leaf x r leaf) as [-> ->]; [subst x; exact I | subst x; exact Hg |];
           apply andb_prop in Hc; destruct Hc as [Hc H3]; apply andb_prop in Hc; destruct Hc as [H1 H2]; apply Bool.negb_true_iff in H1, H2, H3;
           destruct (q_member_leaf search par kp k x) as (d & Hs & E'); [subst x; exact I | exact H1 | exact H2 | exact H3 |];
           subst x; exists d; split; [exact Hs | cbn [jget]; now rewrite E']).
    + subst x. destruct r as [|j r']; [simpl in Hg; inversion Hg; subst; contradiction|]. unfold q_member. cbn [snd].
      apply (IH (JArr lx) (MA k false search (sel_of c lx) (kp ++ [k])) leaf); auto; try reflexivity; discriminate.
    + subst x. destruct r as [|j r']; [simpl in Hg; inversion Hg; subst; contradiction|]. unfold q_member. cbn [snd]. fold (core_of par k).
      apply (IH (JObj lx) (MQ false search (core_of par k) (kp ++ [k])) leaf); auto; try reflexivity; discriminate.
Qed.

(* ---------- what the lookups answer for a user field ---------- *)
(* a key that is no entry of the core table, met under a key path whose first key is no entry of the stage table, is never exempt *)
Lemma exempt_key_user kp k :
  oget (Core tb) k = None ->
  (match kp ++ [k] with x :: _ => oget (Agg tb) x = None | [] => True end) ->
  exempt_key kp k false = false.
Proof.
  intros Hc Ha. unfold Survivors.exempt_key, get_op. rewrite Hc. unfold traverse_top.
  destruct (kp ++ [k]) as [|x rest] eqn:E; [destruct kp; discriminate|].
  cbn [traverse List.length]. cbn [tloop]. rewrite Ha. reflexivity.
Qed.

End QS.

(* ---------- the command dispatch: every place that is walked by the query / array walker ---------- *)
From Model Require Import Line Email.
Open Scope string_scope.

Section QSLine.
Variable tb : tables.
Variable cs : consts.
Variable c : cfg.
Variable A : actions.
Hypothesis Hre : re c = None.

Definition qzone (ins : bool) (k : string) (v : json) : bool :=
  match v with
  | JObj _ => key_in k ["query"; "filter"; "sort"; "q"; "update"; "u"]
  | JArr _ => key_in k ["update"; "u"; "updates"; "deletes"] || (String.eqb k "documents" && ins)
  | _ => false
  end.

Definition qstart (v : json) : mode :=
  match v with JArr _ => MA "" false false false [] | _ => MQ false false MNil [] end.

Theorem cmd_member_qcl ins k v p leaf :
  qzone ins k v = true -> nodup_keys v -> jget v p = Some leaf -> is_leaf leaf ->
  qcl tb c (qstart v) v p = true ->
  exists d, strong cs c leaf d /\ jget (cmd_member tb cs c A false ins k v) p = Some (apply_verdict A d leaf).
Proof.
  intros Hz Hn Hg Hl Hc.
  assert (Hp : p <> []).
  { intros ->. simpl in Hg. injection Hg as <-. destruct v; try discriminate; contradiction. }
  assert (E : cmd_member tb cs c A false ins k v = walk tb cs c is_email A (qstart v) v).
  { unfold cmd_member, qzone in *. destruct v as [| b | num | s | l | l]; try discriminate; cbn [qstart].
    - unfold key_in in *. cbn [existsb] in *.
      destruct (String.eqb k "query") eqn:E1; [apply String.eqb_eq in E1; subst; discriminate|].
      destruct (String.eqb k "filter") eqn:E2; [apply String.eqb_eq in E2; subst; discriminate|].
      destruct (String.eqb k "sort") eqn:E3; [apply String.eqb_eq in E3; subst; discriminate|].
      destruct (String.eqb k "q") eqn:E4; [apply String.eqb_eq in E4; subst; discriminate|].
      cbn [orb] in *.
      destruct (String.eqb k "update") eqn:E5; [reflexivity|].
      destruct (String.eqb k "u") eqn:E6; [reflexivity|].
      cbn [orb] in *.
      destruct (String.eqb k "updates") eqn:E7; [reflexivity|].
      destruct (String.eqb k "deletes") eqn:E8; [reflexivity|].
      cbn [orb] in *.
      destruct (String.eqb k "documents") eqn:E9; [|discriminate]. cbn [andb] in Hz. rewrite Hz. reflexivity.
    - unfold key_in in *. cbn [existsb] in *.
      destruct (String.eqb k "query"); [reflexivity|].
      destruct (String.eqb k "filter"); [reflexivity|].
      destruct (String.eqb k "sort"); [reflexivity|].
      destruct (String.eqb k "q"); [reflexivity|].
      cbn [orb] in *.
      destruct (String.eqb k "update"); [reflexivity|].
      destruct (String.eqb k "u"); [reflexivity|].
      discriminate. }
  rewrite E. apply (walk_qcl tb cs c is_email A Hre p v (qstart v) leaf); auto.
  destruct v; reflexivity.
Qed.

End QSLine.
