(* The central refinement lemma for the walkers (field-name redaction off): for ANY two
   sets of leaf actions A1 A2, the outputs of the walkers on the same tree are related,
   position by position, to the input and to each other: same keys, same order, same
   array lengths, and at every leaf there is ONE verdict d (decided from tables, key path
   and flags only) such that the two outputs are that verdict applied by A1 resp. A2.
   Shape preservation (C03), class placeholders (C05) and the placeholder/encrypt
   equivalence (C10) are corollaries for particular action sets. *)
From Coq Require Import Lia.
From Model Require Import Json Tables Walker.
From Proofs Require Import JsonFacts.
Close Scope string_scope. Open Scope list_scope.

Section Rel.
Variable tb : tables.
Variable cs : consts.
Variable c : cfg.
Variable is_email : string -> bool.
Variables A1 A2 : actions.

(* the verdicts the walkers may reach for a leaf, with field-name redaction off *)
Definition okv (v : json) (d : verdict) : Prop :=
  match d with
  | VKeep => True
  | VStr ph => exists s, v = JStr s /\
                 (ph = c_isodate cs \/ ph = c_oid cs \/ ph = c_uuid cs \/
                  (ph = c_email cs /\ is_email s = true) \/ (ph = repl c /\ is_email s = false))
  | VNum => nums c = true /\ exists n, v = JNum n
  | VBool => bools c = true /\ exists b, v = JBool b
  | VHash => nss c = true /\ exists s, v = JStr s
  | VGeneric => False
  | VConst k => ips c = true /\ k = ip_placeholder /\ exists s, v = JStr s
  end.

Inductive rel3 : json -> json -> json -> Prop :=
| R3_leaf v d : is_leaf v -> okv v d -> rel3 v (apply_verdict A1 d v) (apply_verdict A2 d v)
| R3_arr l fa fb : (forall x, In x l -> rel3 x (fa x) (fb x)) -> rel3 (JArr l) (JArr (map fa l)) (JArr (map fb l))
| R3_obj l fa fb : (forall kv, In kv l -> rel3 (snd kv) (fa kv) (fb kv)) ->
                   rel3 (JObj l) (JObj (map (fun kv => (fst kv, fa kv)) l)) (JObj (map (fun kv => (fst kv, fb kv)) l)).

Lemma rel3_refl t : rel3 t t t.
Proof.
  induction t as [t IH] using json_size_ind. destruct t as [| b | n | s | l | l].
  - apply (R3_leaf JNull VKeep); simpl; exact I.
  - apply (R3_leaf (JBool b) VKeep); simpl; exact I.
  - apply (R3_leaf (JNum n) VKeep); simpl; exact I.
  - apply (R3_leaf (JStr s) VKeep); simpl; exact I.
  - rewrite <- (map_id l) at 2 3. apply R3_arr. intros x Hx. apply IH. now apply size_in_arr.
  - assert (E : map (fun kv : string * json => (fst kv, snd kv)) l = l).
    { rewrite <- (map_id l) at 2. apply map_ext. intros [k v]. reflexivity. }
    rewrite <- E at 2 3. apply (R3_obj l (fun kv => snd kv) (fun kv => snd kv)). intros kv Hkv. apply IH. now apply size_in_obj.
Qed.

Notation W1 := (walk tb cs c is_email A1).
Notation W2 := (walk tb cs c is_email A2).

Definition mode_rfn (m : mode) : bool :=
  match m with MP rfn _ _ => rfn | MQ rfn _ _ _ => rfn | MA _ rfn _ _ _ => rfn end.

Lemma scalar_verdict_ok init lst v search sel :
  is_leaf v -> okv v (scalar_verdict tb cs c is_email init lst v search sel).
Proof.
  intros Hl. unfold scalar_verdict.
  destruct (match get_op tb init lst search with Some m => is_ty m Exempt | None => false end); [exact I|].
  destruct (negb search && _ && negb sel && negb _); [exact I|].
  assert (Hbt : okv v match v with
       | JNull => VKeep
       | JStr s => if is_email s then VStr (c_email cs) else VStr (repl c)
       | JNum _ => if nums c then VNum else VKeep
       | JBool _ => if bools c then VBool else VKeep
       | _ => VGeneric end).
  { destruct v as [| b | num | s | l | l]; try contradiction; simpl; auto.
    - destruct (bools c) eqn:E; simpl; eauto.
    - destruct (nums c) eqn:E; simpl; eauto.
    - destruct (is_email s) eqn:E; simpl; exists s; split; auto; tauto. }
  destruct (String.eqb lst "$date"); [destruct v; try exact Hbt; simpl; eauto 6|].
  destruct (String.eqb lst "$oid"); [destruct v; try exact Hbt; simpl; eauto 6|].
  destruct (String.eqb lst "base64" && _); [destruct v; try exact Hbt; simpl; eauto 6|].
  destruct (String.eqb lst "subType" && _); [exact I|].
  exact Hbt.
Qed.

Lemma scalar_rel init lst v search sel :
  is_leaf v ->
  rel3 v (scalar tb cs c is_email A1 init lst v search sel) (scalar tb cs c is_email A2 init lst v search sel).
Proof. intros Hl. unfold scalar. apply R3_leaf; [exact Hl | now apply scalar_verdict_ok]. Qed.

Lemma hash_rel s : nss c = true -> rel3 (JStr s) (JStr (a_hash A1 s)) (JStr (a_hash A2 s)).
Proof. intros H. apply (R3_leaf (JStr s) VHash); simpl; [exact I | eauto]. Qed.

Lemma ns_value_rel v : nss c = true -> nodup_keys v -> rel3 v (ns_value A1 v) (ns_value A2 v).
Proof.
  intros Hnss Hn. destruct v as [| b | n | s | l | l]; try apply rel3_refl.
  - now apply hash_rel.
  - unfold ns_value. apply nodup_keys_obj in Hn. destruct Hn as [Hnd _].
    set (f1 := fun kv : string * json => match snd kv with JStr s => JStr (hn A1 s) | x => x end).
    set (f2 := fun kv : string * json => match snd kv with JStr s => JStr (hn A2 s) | x => x end).
    assert (E1 : map (fun kv : string * json => match snd kv with JStr s => (fst kv, JStr (hn A1 s)) | x => (fst kv, x) end) l
                 = map (fun kv => (fst kv, f1 kv)) l).
    { apply map_ext. intros [k v]. unfold f1. simpl. destruct v; reflexivity. }
    assert (E2 : map (fun kv : string * json => match snd kv with JStr s => (fst kv, JStr (hn A2 s)) | x => (fst kv, x) end) l
                 = map (fun kv => (fst kv, f2 kv)) l).
    { apply map_ext. intros [k v]. unfold f2. simpl. destruct v; reflexivity. }
    rewrite E1, E2. rewrite !build_nodup by (rewrite map_map; simpl; exact Hnd).
    apply R3_obj. intros [k v] _. unfold f1, f2. simpl.
    destruct v; try apply rel3_refl. now apply hash_rel.
Qed.

(* ---------- one level of each walker, given the induction hypothesis below size n ---------- *)
Section Step.
Variable n : nat.
Hypothesis IH : forall t m, size t < n -> mode_rfn m = false -> nodup_keys t -> rel3 t (W1 m t) (W2 m t).

Lemma arr_item_rel pk search sel kp x :
  size x < n -> nodup_keys x ->
  rel3 x (arr_item tb cs c is_email A1 W1 pk false search sel kp x) (arr_item tb cs c is_email A2 W2 pk false search sel kp x).
Proof.
  intros Hs Hn. destruct x as [| b | num | s | l | l]; unfold arr_item.
  - apply rel3_refl.
  - apply scalar_rel; exact I.
  - apply scalar_rel; exact I.
  - destruct (starts_with_dollar s); [apply rel3_refl | apply scalar_rel; exact I].
  - apply IH; auto.
  - apply IH; auto.
Qed.

Lemma arr_rel pk search sel kp l :
  size (JArr l) <= n -> nodup_keys (JArr l) ->
  rel3 (JArr l) (JArr (map (arr_item tb cs c is_email A1 W1 pk false search sel kp) l))
               (JArr (map (arr_item tb cs c is_email A2 W2 pk false search sel kp) l)).
Proof.
  intros Hs Hn. apply R3_arr. intros x Hx. apply arr_item_rel.
  - pose proof (size_in_arr x l Hx). lia.
  - rewrite nodup_keys_arr in Hn. auto.
Qed.

Lemma walk_value_rel search kp sinit slast v :
  size v < n -> nodup_keys v ->
  rel3 v (walk_value tb cs c is_email A1 W1 false search kp sinit slast v) (walk_value tb cs c is_email A2 W2 false search kp sinit slast v).
Proof.
  intros Hs Hn. destruct v as [| b | num | s | l | l]; unfold walk_value; try (apply scalar_rel; exact I); apply IH; auto.
Qed.

Lemma fieldname_value_rel search kp_here sinit slast keep v :
  size v < n -> nodup_keys v ->
  rel3 v (fieldname_value tb cs c is_email A1 W1 false search kp_here sinit slast keep v)
         (fieldname_value tb cs c is_email A2 W2 false search kp_here sinit slast keep v).
Proof.
  intros Hs Hn. unfold fieldname_value. destruct v as [| b | num | s | l | l]; try apply rel3_refl.
  destruct search; [apply rel3_refl | apply IH; auto].
Qed.

Lemma stages_rel (l : list json) (f1 f2 : json -> json) :
  (forall x, In x l -> rel3 x (f1 x) (f2 x)) -> rel3 (JArr l) (JArr (map f1 l)) (JArr (map f2 l)).
Proof. intros H. now apply R3_arr. Qed.

Lemma pipeline_map_member_rel subk subv :
  size subv < n -> nodup_keys subv ->
  rel3 subv (pipeline_map_member tb cs c is_email A1 W1 false subk subv) (pipeline_map_member tb cs c is_email A2 W2 false subk subv).
Proof.
  intros Hs Hn. destruct subv as [| b | num | s | l | l]; unfold pipeline_map_member; try (apply scalar_rel; exact I).
  - apply R3_arr. intros x Hx. apply IH; auto.
    + pose proof (size_in_arr x l Hx). simpl in *. lia.
    + rewrite nodup_keys_arr in Hn. auto.
  - apply IH; auto.
Qed.

Lemma sub_member_fst search nkp k m subk subv A W :
  fst (sub_member tb cs c is_email A W false search nkp k m subk subv) = subk.
Proof.
  unfold sub_member. destruct (oget m subk) as [[[]|?|]|]; reflexivity.
Qed.

Lemma sub_member_rel search nkp k m subk subv :
  size subv < n -> nodup_keys subv ->
  rel3 subv (snd (sub_member tb cs c is_email A1 W1 false search nkp k m subk subv))
            (snd (sub_member tb cs c is_email A2 W2 false search nkp k m subk subv)).
Proof.
  intros Hs Hn. unfold sub_member.
  destruct (oget m subk) as [[[]|?|]|]; cbn [snd fst]; try (apply walk_value_rel; auto).
  - (* Pipeline *) destruct subv; try apply rel3_refl. apply IH; auto.
  - (* Exempt *) apply rel3_refl.
  - (* FieldName *) apply fieldname_value_rel; auto.
  - (* OperatorArray *) destruct subv as [| | | | l |]; try apply rel3_refl.
    apply R3_arr. intros x Hx. apply IH; auto.
    + pose proof (size_in_arr x l Hx). simpl in *. lia.
    + rewrite nodup_keys_arr in Hn. auto.
  - (* Namespace *) destruct (nss c) eqn:Enss; [apply ns_value_rel; auto | apply rel3_refl].
Qed.

Lemma obj_map_rel (l : list (string * json)) (g1 g2 : string -> json -> string * json) :
  NoDup (map fst l) ->
  (forall k v, fst (g1 k v) = k) -> (forall k v, fst (g2 k v) = k) ->
  (forall kv, In kv l -> rel3 (snd kv) (snd (g1 (fst kv) (snd kv))) (snd (g2 (fst kv) (snd kv)))) ->
  rel3 (JObj l) (JObj (build (map (fun kv => g1 (fst kv) (snd kv)) l))) (JObj (build (map (fun kv => g2 (fst kv) (snd kv)) l))).
Proof.
  intros Hnd H1 H2 Hr.
  assert (E1 : map (fun kv => g1 (fst kv) (snd kv)) l = map (fun kv => (fst kv, snd (g1 (fst kv) (snd kv)))) l).
  { apply map_ext. intros [k v]. simpl. rewrite <- (H1 k v) at 2. now destruct (g1 k v). }
  assert (E2 : map (fun kv => g2 (fst kv) (snd kv)) l = map (fun kv => (fst kv, snd (g2 (fst kv) (snd kv)))) l).
  { apply map_ext. intros [k v]. simpl. rewrite <- (H2 k v) at 2. now destruct (g2 k v). }
  rewrite E1, E2. rewrite !build_nodup by (rewrite map_map; simpl; exact Hnd).
  apply (R3_obj l (fun kv => snd (g1 (fst kv) (snd kv))) (fun kv => snd (g2 (fst kv) (snd kv)))). exact Hr.
Qed.

Lemma p_member_fst kp search k v A W : fst (p_member tb cs c is_email A W false kp search k v) = k.
Proof.
  unfold p_member, p_key. cbn [andb].
  destruct (p_op tb c kp k search v) as [[[]|m|]|]; try reflexivity. destruct v; reflexivity.
Qed.

Lemma p_generic_rel kp search k v :
  size v < n -> nodup_keys v ->
  rel3 v (p_generic tb cs c is_email A1 W1 false kp search k v) (p_generic tb cs c is_email A2 W2 false kp search k v).
Proof.
  intros Hs Hn. unfold p_generic. destruct v as [| b | num | s | l | l]; try (apply walk_value_rel; auto).
  destruct (starts_with_dollar s && negb false); [apply rel3_refl | apply scalar_rel; exact I].
Qed.

Lemma p_member_rel kp search k v :
  size v < n -> nodup_keys v ->
  rel3 v (snd (p_member tb cs c is_email A1 W1 false kp search k v)) (snd (p_member tb cs c is_email A2 W2 false kp search k v)).
Proof.
  intros Hs Hn. unfold p_member.
  destruct (p_op tb c kp k search v) as [[[]|m|]|]; cbn [snd fst]; try (apply p_generic_rel; auto).
  - (* Pipeline *)
    destruct v as [| b | num | s | l | l]; try apply rel3_refl.
    + apply IH; auto.
    + apply nodup_keys_obj in Hn. destruct Hn as [Hnd Hch].
      apply (obj_map_rel l (fun k' v' => (k', pipeline_map_member tb cs c is_email A1 W1 false k' v'))
                           (fun k' v' => (k', pipeline_map_member tb cs c is_email A2 W2 false k' v'))); auto.
      intros kv Hkv. simpl. apply pipeline_map_member_rel; auto.
      pose proof (size_in_obj kv l Hkv). lia.
  - (* Exempt *) apply rel3_refl.
  - (* FieldName *) apply fieldname_value_rel; auto.
  - (* OperatorArray *)
    destruct v as [| | | | l |]; try apply rel3_refl.
    apply R3_arr. intros x Hx. apply IH; auto.
    + pose proof (size_in_arr x l Hx). simpl in *. lia.
    + rewrite nodup_keys_arr in Hn. auto.
  - (* Namespace *) destruct (nss c) eqn:Enss; [apply ns_value_rel; auto | apply rel3_refl].
  - (* map-typed operator *)
    destruct v as [| b | num | s | l | l]; cbn [snd]; try (apply p_generic_rel; auto).
    apply nodup_keys_obj in Hn. destruct Hn as [Hnd Hch].
    apply (obj_map_rel l (sub_member tb cs c is_email A1 W1 false search (kp ++ [k]) k m)
                         (sub_member tb cs c is_email A2 W2 false search (kp ++ [k]) k m)); auto.
    + intros; apply sub_member_fst.
    + intros; apply sub_member_fst.
    + intros kv Hkv. apply sub_member_rel; auto. pose proof (size_in_obj kv l Hkv). lia.
Qed.

Lemma q_member_fst search parent kp k v A W : fst (q_member tb cs c is_email A W false search parent kp k v) = k.
Proof. reflexivity. Qed.

Lemma q_member_rel search parent kp k v :
  size v < n -> nodup_keys v ->
  rel3 v (snd (q_member tb cs c is_email A1 W1 false search parent kp k v)) (snd (q_member tb cs c is_email A2 W2 false search parent kp k v)).
Proof.
  intros Hs Hn. unfold q_member. simpl.
  destruct v as [| b | num | s | l | l].
  - apply rel3_refl.
  - destruct (is_ty _ Exempt); [apply rel3_refl | apply scalar_rel; exact I].
  - destruct (is_ty _ Exempt); [apply rel3_refl | apply scalar_rel; exact I].
  - destruct (starts_with_dollar s); [apply rel3_refl|].
    destruct (is_ty _ Exempt); [apply rel3_refl | apply scalar_rel; exact I].
  - apply IH; auto.
  - apply IH; auto.
Qed.

End Step.

Theorem walk_rel3 : forall t m, mode_rfn m = false -> nodup_keys t -> rel3 t (W1 m t) (W2 m t).
Proof.
  intros t. induction t as [t IHt] using json_size_ind. intros m Hm Hn.
  assert (IH : forall t' m', size t' < size t -> mode_rfn m' = false -> nodup_keys t' -> rel3 t' (W1 m' t') (W2 m' t')).
  { intros t' m' Hs Hm' Hn'. apply IHt; auto. }
  assert (Hleaf : forall v, is_leaf v -> rel3 v (W1 m v) (W2 m v)).
  { intros v Hl. destruct m as [rfn kp search | rfn search parent kp | pk rfn search sel kp]; simpl in Hm; subst;
      destruct v as [| b | num | s | l | l]; try contradiction; try apply rel3_refl; cbn [walk p_leaf];
      try (apply scalar_rel; exact I).
    unfold dollar_string. cbn [andb]. destruct (starts_with_dollar s); [apply rel3_refl | apply scalar_rel; exact I]. }
  destruct t as [| b | num | s | l | l]; try (apply Hleaf; exact I).
  - (* array *)
    destruct m as [rfn kp search | rfn search parent kp | pk rfn search sel kp]; simpl in Hm; subst; simpl.
    + apply (arr_rel (size (JArr l)) IH); auto.
    + apply rel3_refl.
    + apply (arr_rel (size (JArr l)) IH); auto.
  - (* object *)
    destruct m as [rfn kp search | rfn search parent kp | pk rfn search sel kp]; simpl in Hm; subst; simpl.
    + pose proof Hn as Hn'. apply nodup_keys_obj in Hn'. destruct Hn' as [Hnd Hch].
      apply (obj_map_rel l (p_member tb cs c is_email A1 W1 false kp search) (p_member tb cs c is_email A2 W2 false kp search)); auto.
      * intros; apply p_member_fst.
      * intros; apply p_member_fst.
      * intros kv Hkv. apply (p_member_rel (size (JObj l)) IH); auto. now apply size_in_obj.
    + pose proof Hn as Hn'. apply nodup_keys_obj in Hn'. destruct Hn' as [Hnd Hch].
      apply (obj_map_rel l (q_member tb cs c is_email A1 W1 false search parent kp) (q_member tb cs c is_email A2 W2 false search parent kp)); auto.
      intros kv Hkv. apply (q_member_rel (size (JObj l)) IH); auto. now apply size_in_obj.
    + apply rel3_refl.
Qed.

End Rel.
