(* C04: what redact_tree leaves untouched (frame lemmas). *)
From Model Require Import Json Tables Walker Line.
From Proofs Require Import JsonFacts.
Close Scope string_scope. Open Scope list_scope.

Section Frame.
Variable tb : tables.
Variable cs : consts.
Variable c : cfg.
Variable A : actions.

Lemma map_pair_id {B} (l : list (string * B)) (f : string * B -> B) :
  (forall kv, In kv l -> f kv = snd kv) -> map (fun kv => (fst kv, f kv)) l = l.
Proof.
  intros H. rewrite <- (map_id l) at 2. apply map_ext_in. intros [k v] Hin. rewrite (H _ Hin). reflexivity.
Qed.

(* (a) every top-level member other than attr is carried over as is; keys and order of the entry are kept *)
Lemma entry_frame entry : map fst (redact_entry tb cs c A entry) = map fst entry.
Proof. unfold redact_entry. rewrite map_map. reflexivity. Qed.

Lemma entry_member_frame entry i k v :
  nth_error entry i = Some (k, v) -> k <> "attr"%string ->
  nth_error (redact_entry tb cs c A entry) i = Some (k, v).
Proof.
  intros H Hk. unfold redact_entry. rewrite nth_error_map, H. simpl.
  destruct (String.eqb k "attr") eqn:E; [apply String.eqb_eq in E; contradiction | reflexivity].
Qed.

(* (b) inside attr only remote / the three command documents / planSummary / ns can change *)
Definition attr_zone_keys : list string := ["remote"; "originatingCommand"; "cmd"; "command"; "planSummary"; "ns"]%string.

Lemma attr_member_frame g rfn k v : key_in k attr_zone_keys = false -> attr_member tb cs c A g rfn k v = v.
Proof.
  unfold attr_zone_keys, key_in. cbn [existsb]. intros H.
  repeat (apply Bool.orb_false_elim in H; destruct H as [? H]).
  unfold attr_member, key_in. cbn [existsb].
  repeat match goal with Hx : String.eqb k _ = false |- _ => rewrite Hx; clear Hx end.
  rewrite !Bool.andb_false_r. reflexivity.
Qed.

Lemma attr_keys_frame g attr : map fst (redact_attr tb cs c A g attr) = map fst attr.
Proof. unfold redact_attr. rewrite map_map. reflexivity. Qed.

(* (c) inside a command document only the dispatched keys and the namespace-bearing keys can change *)
Definition cmd_zone_keys : list string :=
  ["query"; "filter"; "sort"; "q"; "update"; "u"; "updates"; "deletes"; "documents"; "pipeline"]%string.

Lemma cmd_member_frame rfn ins k v : key_in k cmd_zone_keys = false -> cmd_member tb cs c A rfn ins k v = v.
Proof.
  unfold cmd_zone_keys, key_in. cbn [existsb]. intros H.
  repeat (apply Bool.orb_false_elim in H; destruct H as [? H]).
  unfold cmd_member, key_in. cbn [existsb].
  repeat match goal with Hx : String.eqb k _ = false |- _ => rewrite Hx; clear Hx end.
  reflexivity.
Qed.

Lemma command_member_frame rfn cmd i k v :
  nth_error cmd i = Some (k, v) -> key_in k cmd_zone_keys = false -> (nss c = false \/ key_in k ns_fields = false) ->
  nth_error (redact_command tb cs c A rfn cmd) i = Some (k, v).
Proof.
  intros H Hk Hns. unfold redact_command. rewrite nth_error_map, H. cbn [option_map fst snd].
  rewrite cmd_member_frame by exact Hk. unfold ns_member.
  destruct Hns as [-> | ->]; [reflexivity | destruct (nss c); reflexivity].
Qed.

Lemma command_keys_frame rfn cmd : map fst (redact_command tb cs c A rfn cmd) = map fst cmd.
Proof. unfold redact_command. rewrite map_map. reflexivity. Qed.

(* (d) a line whose gate fails, with IP and namespace redaction off, is emitted as the same tree *)
Lemma attr_member_off g rfn k v :
  g = false -> ips c = false -> nss c = false -> attr_member tb cs c A g rfn k v = v.
Proof. intros -> Hi Hn. unfold attr_member. rewrite Hi, Hn. reflexivity. Qed.

Theorem ungated_identity t :
  ips c = false -> nss c = false ->
  (forall entry, t = JObj entry -> gate entry = false) ->
  redact_tree tb cs c A t = t.
Proof.
  intros Hi Hn Hg. destruct t as [| | | | | entry]; try reflexivity.
  unfold redact_tree, redact_entry. rewrite (Hg entry eq_refl). f_equal.
  apply map_pair_id. intros [k v] _. cbn [fst snd].
  destruct (String.eqb k "attr"); [|reflexivity].
  destruct v as [| | | | | a]; try reflexivity. f_equal.
  unfold redact_attr. apply map_pair_id. intros kv _. now apply attr_member_off.
Qed.

(* (f) $limit / $skip arguments: kept at any depth reached by the query walker and as pipeline
   stages, whenever the tables classify them Exempt (obligation TablesOK_kept) *)
Definition kept_op (k : string) : Prop := oget (Core tb) k = Some (MT Exempt).

Lemma scalar_kept_op init k v sel : kept_op k -> scalar tb cs c is_email A init k v false sel = v.
Proof.
  intros H. unfold scalar, scalar_verdict.
  assert (E : get_op tb init k false = Some (MT Exempt)) by (unfold get_op; unfold kept_op in H; now rewrite H).
  rewrite E. reflexivity.
Qed.

Lemma q_member_kept rfn kp k v W : kept_op k -> is_leaf v -> (rfn = false \/ forall s, v <> JStr s) ->
  snd (q_member tb cs c is_email A W rfn false MNil kp k v) = v.
Proof.
  intros H Hl Hr. unfold kept_op in H. unfold q_member. cbn [snd]. rewrite H. cbn [is_ty otype_eqb].
  destruct v; try contradiction; try reflexivity.
  destruct Hr as [-> | Hr]; [|exfalso; eapply Hr; reflexivity].
  unfold dollar_string. cbn [andb]. destruct (starts_with_dollar s); reflexivity.
Qed.

Lemma p_member_kept rfn kp k v W : kept_op k ->
  snd (p_member tb cs c is_email A W rfn kp false k v) = v.
Proof.
  intros H. unfold p_member, p_op.
  assert (E : get_op tb kp k false = Some (MT Exempt)) by (unfold get_op; unfold kept_op in H; now rewrite H).
  rewrite E. reflexivity.
Qed.

End Frame.
