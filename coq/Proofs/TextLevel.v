(* The text level: what the tool emits for a line is one JSON object that parses back to exactly
   the redacted tree (field-name mode off). Pieces: the parser returns well-formed trees (ParseWf),
   redaction keeps them well formed (here, through rel3), the emission guard gives printable, and
   the codec theorem (Codec) reads the printed text back. *)
From Coq Require Import NArith List Ascii String Bool Lia.
From Model Require Import Json Tables Walker Line Utf8 JsonText.
From Proofs Require Import JsonFacts WalkerRel LineRel RelCorollaries Utf8Facts StrCodec Codec ParseWf.
Import ListNotations.
Close Scope string_scope. Open Scope list_scope.

(* byte strings below 128 are valid UTF-8 *)
Lemma ascii_valid (l : list N) : Forall (fun b => (b < 128)%N) l -> valid_utf8 l.
Proof. induction 1 as [|b l Hb _ IH]; [constructor|]. eapply VU_cons; [apply R1; exact Hb | exact IH]. Qed.

Definition all_ascii (s : string) : bool := forallb (fun ch => (N_of ch <? 128)%N) (list_ascii_of_string s).

Lemma all_ascii_valid s : all_ascii s = true -> valid_string s.
Proof.
  unfold all_ascii, valid_string, str_bytes. intros H. apply ascii_valid. rewrite forallb_forall in H.
  apply Forall_forall. intros b Hb. apply in_map_iff in Hb. destruct Hb as (ch & <- & Hch). apply N.ltb_lt. now apply H.
Qed.

Section Pres.
Variable cs : consts.
Variable c : cfg.
Variable is_email : string -> bool.
Variables A1 A2 : actions.
Hypothesis Hstr : forall s ph, valid_string ph -> valid_string (a_str A1 s ph).
Hypothesis Hhash : forall s, valid_string (a_hash A1 s).
Hypothesis Hconsts : valid_string (c_isodate cs) /\ valid_string (c_oid cs) /\ valid_string (c_uuid cs) /\
                     valid_string (c_email cs) /\ valid_string (repl c).

Notation rel := (rel3 cs c is_email A1 A2).

Lemma leaf_pres v d : is_leaf v -> okv cs c is_email v d -> strings_valid v -> strings_valid (apply_verdict A1 d v).
Proof.
  intros Hl Hok Hv. destruct Hconsts as (H1 & H2 & H3 & H4 & H5).
  destruct d as [| ph | | | | | k]; simpl in Hok.
  - exact Hv.
  - destruct Hok as (s & -> & Hph). simpl. apply Hstr.
    destruct Hph as [-> | [-> | [-> | [[-> _] | [-> _]]]]]; assumption.
  - destruct Hok as (_ & n & ->). exact I.
  - destruct Hok as (_ & b & ->). exact I.
  - destruct Hok as (_ & s & ->). simpl. apply Hhash.
  - contradiction.
  - destruct Hok as (_ & -> & s & ->). simpl. apply all_ascii_valid. reflexivity.
Qed.

Lemma leaf_out_leaf v d : is_leaf v -> is_leaf (apply_verdict A1 d v).
Proof. intros H. destruct d, v; simpl; try exact I; contradiction. Qed.

Lemma rel3_pres : forall t o1 o2, rel t o1 o2 ->
  (nodup_keys t -> nodup_keys o1) /\ (strings_valid t -> strings_valid o1).
Proof.
  intros t. induction t as [t IH] using json_size_ind. intros o1 o2 H.
  inversion H as [v d Hl Hok | l fa fb Hf | l fa fb Hf]; subst.
  - split.
    + intros _. pose proof (leaf_out_leaf t d Hl) as Ho. destruct (apply_verdict A1 d t); try contradiction; exact I.
    + now apply leaf_pres.
  - split; intros Ht.
    + rewrite nodup_keys_arr in *. intros x Hx. apply in_map_iff in Hx. destruct Hx as (y & <- & Hy).
      apply (IH y (size_in_arr y l Hy) (fa y) (fb y) (Hf y Hy)). auto.
    + rewrite strings_valid_arr in *. intros x Hx. apply in_map_iff in Hx. destruct Hx as (y & <- & Hy).
      apply (IH y (size_in_arr y l Hy) (fa y) (fb y) (Hf y Hy)). auto.
  - split; intros Ht.
    + rewrite nodup_keys_obj in *. destruct Ht as [Hnd Hch]. split.
      * rewrite map_map. cbn [fst]. exact Hnd.
      * intros kv Hkv. apply in_map_iff in Hkv. destruct Hkv as (y & <- & Hy). cbn [snd].
        apply (IH (snd y) (size_in_obj y l Hy) (fa y) (fb y) (Hf y Hy)). auto.
    + rewrite strings_valid_obj in *. intros kv Hkv. apply in_map_iff in Hkv. destruct Hkv as (y & <- & Hy). cbn [fst snd].
      destruct (Ht y Hy) as [Hk Hv]. split; [exact Hk|].
      apply (IH (snd y) (size_in_obj y l Hy) (fa y) (fb y) (Hf y Hy)). auto.
Qed.

End Pres.

(* ---------- the emitted line ---------- *)
Section Emit.
Variable tb : tables.
Variable cs : consts.
Variable c : cfg.
Variable enc : encf.
Hypothesis He : eager c = [].
(* the configured texts are valid UTF-8 (command-line arguments and constants), and so is what the
   encryption step returns (base64 text) *)
Hypothesis Hconsts : valid_string (c_isodate cs) /\ valid_string (c_oid cs) /\ valid_string (c_uuid cs) /\
                     valid_string (c_email cs) /\ valid_string (repl c).
Hypothesis Henc : forall f s ct, enc = Some f -> f s = Some ct -> valid_string ct.
Hypothesis Hhash : forall s, valid_string (Hash.hash_name (repl c) s).

Notation A := (real_actions cs c enc).

Lemma a_str_valid s ph : valid_string ph -> valid_string (a_str A s ph).
Proof.
  intros Hph. cbn [a_str real_actions]. unfold subst_with. destruct enc as [f|] eqn:E; [|exact Hph].
  destruct (f s) as [ct|] eqn:Ef; [|exact Hph]. eapply Henc; eauto.
Qed.

Theorem emitted_parses_back l o :
  redact_line tb cs c enc l = Out o ->
  exists t, parse_line l = Some t /\
            parse_line o = Some (redact_tree tb cs c A t) /\
            shape_of (redact_tree tb cs c A t) = shape_of t.
Proof.
  unfold redact_line. destruct (parse_line l) as [t|] eqn:Ep; [|discriminate].
  destruct (printable (redact_tree tb cs c A t)) eqn:Hpr; [|discriminate].
  intros H. injection H as <-. exists t. split; [reflexivity|].
  destruct (parse_line_wfp l t Ep) as [Hn Hs].
  pose proof (line_rel3 tb cs c A A t He Hn) as Hrel.
  destruct (rel3_pres cs c Email.is_email A A a_str_valid Hhash Hconsts _ _ _ Hrel) as [Hn' Hs'].
  split.
  - assert (Hobj : exists m, redact_tree tb cs c A t = JObj m).
    { unfold parse_line in Ep. destruct (parse_value _ l) as [[v r]|]; [|discriminate]. destruct v; try discriminate.
      injection Ep as <-. eexists. reflexivity. }
    destruct Hobj as [m Em]. rewrite Em in *. apply parse_line_print. split; [apply Hn'; exact Hn | split; [exact Hpr | apply Hs'; exact Hs]].
  - exact (proj2 (rel3_shape cs c Email.is_email _ _ _ _ _ Hrel)).
Qed.

End Emit.

(* ---------- pseudonyms are valid text whenever the replacement is ---------- *)
From Model Require Import Hash.
From Proofs Require Import HashProofs.

Lemma chars_app (a b : string) : list_ascii_of_string (a ++ b)%string = list_ascii_of_string a ++ list_ascii_of_string b.
Proof. induction a as [|ch a IH]; simpl; [reflexivity | now rewrite IH]. Qed.

Lemma valid_string_app (a b : string) : valid_string a -> valid_string b -> valid_string (a ++ b)%string.
Proof. unfold valid_string, str_bytes. intros Ha Hb. rewrite chars_app, map_app. now apply valid_app. Qed.

Lemma lower_hex_valid l : Forall is_lower_hex l -> valid_string (string_of_list_ascii l).
Proof.
  intros H. apply all_ascii_valid. unfold all_ascii. rewrite list_ascii_of_string_of_list_ascii. apply forallb_forall.
  intros ch Hch. rewrite Forall_forall in H. specialize (H ch Hch). unfold is_lower_hex in H. simpl in H.
  repeat (destruct H as [<- | H]; [reflexivity|]). contradiction.
Qed.

Lemma pseudo_valid r p : valid_string r -> valid_string (pseudo r p).
Proof.
  intros Hr. destruct (pseudo_format r p) as (l & -> & _ & Hh).
  apply valid_string_app; [exact Hr|]. apply valid_string_app; [apply all_ascii_valid; reflexivity | now apply lower_hex_valid].
Qed.

Lemma concat_valid sep l : valid_string sep -> Forall valid_string l -> valid_string (String.concat sep l).
Proof.
  intros Hs. induction 1 as [|x l Hx Hl IH]; [apply all_ascii_valid; reflexivity|].
  destruct l as [|y l]; [exact Hx|]. change (String.concat sep (x :: y :: l)) with (x ++ sep ++ String.concat sep (y :: l))%string.
  apply valid_string_app; [exact Hx|]. apply valid_string_app; [exact Hs | exact IH].
Qed.

Theorem hash_name_valid r s : valid_string r -> valid_string (hash_name r s).
Proof.
  intros Hr. unfold hash_name. apply concat_valid; [apply all_ascii_valid; reflexivity|].
  apply Forall_forall. intros x Hx. apply in_map_iff in Hx. destruct Hx as (p & <- & _). now apply pseudo_valid.
Qed.
