(* C19 at tree level: in placeholder mode (no regexp, no namespace or field-name pseudonymisation,
   replacement text not e-mail shaped) every walker is idempotent on every tree without duplicate
   sibling keys: W m (W m t) = W m t. The proof follows the walkers member by member; the only
   facts about leaves are scalar_idem (every placeholder is a member of its own class) and that
   the scalar step keeps the JSON kind of a leaf. *)
From Coq Require Import Lia.
From Model Require Import Json Tables Walker.
From Proofs Require Import JsonFacts WalkerRel IdemProofs.
Close Scope string_scope. Open Scope list_scope.

Section WIdem.
Variable tb : tables.
Variable cs : consts.
Variable c : cfg.
Variable is_email : string -> bool.
Variable A : actions.
Hypothesis Hstr : forall s ph, a_str A s ph = ph.
Hypothesis Hnum : forall n, a_num A n = c_num cs.
Hypothesis Hbool : forall b, a_bool A b = c_bool cs.
Hypothesis Hemail : is_email (c_email cs) = true.
Hypothesis Hrepl : is_email (repl c) = false.
Hypothesis Hre : re c = None.
Hypothesis Hnss : nss c = false.

Notation W := (walk tb cs c is_email A).
Notation SC := (scalar tb cs c is_email A).
Notation sidem := (scalar_idem tb cs c is_email A Hstr Hnum Hbool Hemail Hrepl).

Lemma sel_none l : sel_of c l = false.
Proof. unfold sel_of. now rewrite Hre. Qed.

Lemma p_op_none kp k search v : p_op tb c kp k search v = get_op tb kp k search.
Proof.
  unfold p_op. destruct (get_op tb kp k search) as [[t|om|]|]; try reflexivity.
  destruct v; try reflexivity. destruct search; [|reflexivity]. unfold augment_op. now rewrite Hre.
Qed.

(* the scalar step keeps the kind of a leaf *)
Definition same_kind (a b : json) : Prop :=
  match a, b with
  | JNull, JNull | JBool _, JBool _ | JNum _, JNum _ | JStr _, JStr _ => True
  | JArr _, JArr _ | JObj _, JObj _ => True
  | _, _ => False
  end.

Lemma scalar_kind init lst v search sel : is_leaf v -> same_kind v (SC init lst v search sel).
Proof.
  intros Hl. unfold scalar, scalar_verdict.
  destruct v; try contradiction;
    repeat (match goal with |- context [if ?b then _ else _] => destruct b end); simpl; exact I.
Qed.

Lemma walk_kind m t : same_kind t (W m t).
Proof.
  destruct t as [| b | n | s | l | l]; destruct m as [rfn kp search | rfn search parent kp | pk rfn search sel kp];
    cbn [walk p_leaf]; try exact I.
  - apply (scalar_kind kp ""%string (JBool b)); exact I.
  - apply (scalar_kind kp ""%string (JNum n)); exact I.
  - unfold dollar_string. destruct (starts_with_dollar s); [destruct (rfn && _); exact I|].
    apply (scalar_kind kp ""%string (JStr s)); exact I.
Qed.

(* keys of a walked object *)
Lemma walk_obj_keys rfn kp search l : rfn = false -> NoDup (map fst l) ->
  exists l', W (MP rfn kp search) (JObj l) = JObj l' /\ map fst l' = map fst l.
Proof.
  intros -> Hnd. cbn [walk].
  assert (E : map fst (map (fun kv => p_member tb cs c is_email A W false kp search (fst kv) (snd kv)) l) = map fst l).
  { rewrite map_map. apply map_ext. intros kv. apply p_member_fst. }
  eexists. split; [reflexivity|]. rewrite build_nodup; [exact E | now rewrite E].
Qed.

Lemma search_stage_walk kp search st : nodup_keys st ->
  is_in_search_stage tb (W (MP false kp search) st) = is_in_search_stage tb st.
Proof.
  intros Hn. destruct st as [| b | n | s | l | l].
  - reflexivity.
  - pose proof (walk_kind (MP false kp search) (JBool b)) as H. destruct (W _ (JBool b)); try contradiction; reflexivity.
  - pose proof (walk_kind (MP false kp search) (JNum n)) as H. destruct (W _ (JNum n)); try contradiction; reflexivity.
  - pose proof (walk_kind (MP false kp search) (JStr s)) as H. destruct (W _ (JStr s)); try contradiction; reflexivity.
  - reflexivity.
  - apply nodup_keys_obj in Hn. destruct Hn as [Hnd _].
    destruct (walk_obj_keys false kp search l eq_refl Hnd) as (l' & -> & Hk).
    unfold is_in_search_stage.
    assert (E : forall (l1 l2 : list (string * json)), map fst l1 = map fst l2 ->
                existsb (fun kv => existsb (String.eqb (fst kv)) (TopSearch tb)) l1 = existsb (fun kv => existsb (String.eqb (fst kv)) (TopSearch tb)) l2).
    { induction l1 as [|a l1 IHl]; intros [|b l2] E; try discriminate; [reflexivity|]. simpl in *. injection E as E1 E2. now rewrite E1, (IHl l2 E2). }
    now apply E.
Qed.

(* objects rebuilt member by member *)
Lemma obj_idem (l : list (string * json)) (g : string -> json -> string * json) :
  NoDup (map fst l) ->
  (forall k v, fst (g k v) = k) ->
  (forall kv, In kv l -> snd (g (fst kv) (snd (g (fst kv) (snd kv)))) = snd (g (fst kv) (snd kv))) ->
  build (map (fun kv => g (fst kv) (snd kv)) (build (map (fun kv => g (fst kv) (snd kv)) l))) =
  build (map (fun kv => g (fst kv) (snd kv)) l).
Proof.
  intros Hnd Hf Hi.
  assert (Ek : map fst (map (fun kv => g (fst kv) (snd kv)) l) = map fst l).
  { rewrite map_map. apply map_ext. intros kv. apply Hf. }
  rewrite (build_nodup (map _ l)) by now rewrite Ek.
  rewrite map_map. rewrite build_nodup.
  - apply map_ext_in. intros kv Hin. specialize (Hi kv Hin). specialize (Hf (fst kv)).
    destruct (g (fst kv) (snd kv)) as [k1 v1] eqn:E1. pose proof (Hf (snd kv)) as Hk1. rewrite E1 in Hk1. simpl in Hk1. subst k1.
    simpl in *. destruct (g (fst kv) v1) as [k2 v2] eqn:E2. pose proof (Hf v1) as Hk2. rewrite E2 in Hk2. simpl in *. now subst.
  - rewrite map_map.
    assert (E : map (fun x => fst (g (fst (g (fst x) (snd x))) (snd (g (fst x) (snd x))))) l = map fst l).
    { apply map_ext. intros kv. now rewrite !Hf. }
    now rewrite E.
Qed.

Section Step.
Variable n : nat.
Hypothesis IH : forall t m, size t < n -> mode_rfn m = false -> nodup_keys t -> W m (W m t) = W m t.

(* re-walking a walked object / array goes through the same branch *)
Lemma rec_obj m l : size (JObj l) < n -> mode_rfn m = false -> nodup_keys (JObj l) ->
  exists l', W m (JObj l) = JObj l' /\ W m (JObj l') = JObj l'.
Proof.
  intros Hs Hm Hn. pose proof (walk_kind m (JObj l)) as Hk. destruct (W m (JObj l)) as [| | | | |l'] eqn:E; try contradiction.
  exists l'. split; [reflexivity|]. rewrite <- E. now apply IH.
Qed.

Lemma rec_arr m l : size (JArr l) < n -> mode_rfn m = false -> nodup_keys (JArr l) ->
  exists l', W m (JArr l) = JArr l' /\ W m (JArr l') = JArr l'.
Proof.
  intros Hs Hm Hn. pose proof (walk_kind m (JArr l)) as Hk. destruct (W m (JArr l)) as [| | | |l'|] eqn:E; try contradiction.
  exists l'. split; [reflexivity|]. rewrite <- E. now apply IH.
Qed.

Lemma leaf_scalar_idem init lst search sel v : is_leaf v ->
  exists y, SC init lst v search sel = y /\ same_kind v y /\ SC init lst y search sel = y.
Proof.
  intros Hl. eexists. split; [reflexivity|]. split; [now apply scalar_kind | now apply sidem].
Qed.

Lemma arr_item_idem pk search sel kp x : size x < n -> nodup_keys x ->
  arr_item tb cs c is_email A W pk false search sel kp (arr_item tb cs c is_email A W pk false search sel kp x) =
  arr_item tb cs c is_email A W pk false search sel kp x.
Proof.
  intros Hs Hn. destruct x as [| b | num | s | l | l].
  - reflexivity.
  - cbn [arr_item]. destruct (leaf_scalar_idem [] pk search (sel || re_matches_any c kp) (JBool b) I) as (y & E & Hk & Hi).
    rewrite E. destruct y; try contradiction. cbn [arr_item]. exact Hi.
  - cbn [arr_item]. destruct (leaf_scalar_idem [] pk search (sel || re_matches_any c kp) (JNum num) I) as (y & E & Hk & Hi).
    rewrite E. destruct y; try contradiction. cbn [arr_item]. exact Hi.
  - cbn [arr_item]. unfold dollar_string. cbn [andb].
    destruct (starts_with_dollar s) eqn:Es; [cbn [arr_item]; now rewrite Es|].
    destruct (leaf_scalar_idem [] pk search (sel || re_matches_any c kp) (JStr s) I) as (y & E & Hk & Hi).
    rewrite E. destruct y as [| | | s' | |]; try contradiction. cbn [arr_item]. unfold dollar_string. cbn [andb].
    destruct (starts_with_dollar s'); [reflexivity | exact Hi].
  - cbn [arr_item]. destruct (rec_arr (MA pk false search sel kp) l Hs eq_refl Hn) as (l' & -> & E). exact E.
  - cbn [arr_item]. destruct (rec_obj (MQ false search MNil kp) l Hs eq_refl Hn) as (l' & -> & E). exact E.
Qed.

Lemma arr_idem pk search sel kp l : size (JArr l) <= n -> nodup_keys (JArr l) ->
  map (arr_item tb cs c is_email A W pk false search sel kp) (map (arr_item tb cs c is_email A W pk false search sel kp) l) =
  map (arr_item tb cs c is_email A W pk false search sel kp) l.
Proof.
  intros Hs Hn. rewrite map_map. apply map_ext_in. intros x Hx. apply arr_item_idem.
  - pose proof (size_in_arr x l Hx). lia.
  - rewrite nodup_keys_arr in Hn. auto.
Qed.

Lemma walk_value_idem search kp sinit slast v : size v < n -> nodup_keys v ->
  walk_value tb cs c is_email A W false search kp sinit slast (walk_value tb cs c is_email A W false search kp sinit slast v) =
  walk_value tb cs c is_email A W false search kp sinit slast v.
Proof.
  intros Hs Hn. destruct v as [| b | num | s | l | l]; cbn [walk_value].
  - destruct (leaf_scalar_idem sinit slast search false JNull I) as (y & E & Hk & Hi). rewrite E. destruct y; try contradiction. exact Hi.
  - destruct (leaf_scalar_idem sinit slast search false (JBool b) I) as (y & E & Hk & Hi). rewrite E. destruct y; try contradiction. exact Hi.
  - destruct (leaf_scalar_idem sinit slast search false (JNum num) I) as (y & E & Hk & Hi). rewrite E. destruct y; try contradiction. exact Hi.
  - destruct (leaf_scalar_idem sinit slast search false (JStr s) I) as (y & E & Hk & Hi). rewrite E. destruct y; try contradiction. exact Hi.
  - rewrite (sel_none l). destruct (rec_arr (MA "" false search false kp) l Hs eq_refl Hn) as (l' & -> & E).
    cbn [walk_value]. now rewrite (sel_none l').
  - destruct (rec_obj (MP false kp search) l Hs eq_refl Hn) as (l' & -> & E). exact E.
Qed.

Lemma fieldname_value_idem search kp sinit slast keep v : size v < n -> nodup_keys v ->
  fieldname_value tb cs c is_email A W false search kp sinit slast keep (fieldname_value tb cs c is_email A W false search kp sinit slast keep v) =
  fieldname_value tb cs c is_email A W false search kp sinit slast keep v.
Proof.
  intros Hs Hn. unfold fieldname_value. destruct v as [| b | num | s | l | l]; try reflexivity.
  destruct search; [reflexivity|]. destruct (rec_obj (MP false kp false) l Hs eq_refl Hn) as (l' & -> & E). exact E.
Qed.

Lemma stages_idem (f : json -> mode) l :
  (forall st, mode_rfn (f st) = false) ->
  (forall st, In st l -> size st < n /\ nodup_keys st /\ f (W (f st) st) = f st) ->
  map (fun st => W (f st) st) (map (fun st => W (f st) st) l) = map (fun st => W (f st) st) l.
Proof.
  intros Hm H. rewrite map_map. apply map_ext_in. intros st Hin. destruct (H st Hin) as (Hs & Hn & E).
  rewrite E. now apply IH.
Qed.

Lemma pipeline_map_member_idem subk subv : size subv < n -> nodup_keys subv ->
  pipeline_map_member tb cs c is_email A W false subk (pipeline_map_member tb cs c is_email A W false subk subv) =
  pipeline_map_member tb cs c is_email A W false subk subv.
Proof.
  intros Hs Hn. destruct subv as [| b | num | s | l | l]; cbn [pipeline_map_member].
  - destruct (leaf_scalar_idem [] subk false false JNull I) as (y & E & Hk & Hi). rewrite E. destruct y; try contradiction. exact Hi.
  - destruct (leaf_scalar_idem [] subk false false (JBool b) I) as (y & E & Hk & Hi). rewrite E. destruct y; try contradiction. exact Hi.
  - destruct (leaf_scalar_idem [] subk false false (JNum num) I) as (y & E & Hk & Hi). rewrite E. destruct y; try contradiction. exact Hi.
  - destruct (leaf_scalar_idem [] subk false false (JStr s) I) as (y & E & Hk & Hi). rewrite E. destruct y; try contradiction. exact Hi.
  - f_equal. apply (stages_idem (fun st => MP false [] (is_in_search_stage tb st))); [reflexivity|].
    intros st Hin. rewrite nodup_keys_arr in Hn. pose proof (size_in_arr st l Hin). repeat split; [lia | auto |].
    f_equal. apply search_stage_walk. auto.
  - destruct (rec_obj (MP false [] false) l Hs eq_refl Hn) as (l' & -> & E). exact E.
Qed.

Lemma sub_member_idem search nkp k m subk subv : size subv < n -> nodup_keys subv ->
  snd (sub_member tb cs c is_email A W false search nkp k m subk (snd (sub_member tb cs c is_email A W false search nkp k m subk subv))) =
  snd (sub_member tb cs c is_email A W false search nkp k m subk subv).
Proof.
  intros Hs Hn. unfold sub_member. cbn [andb].
  destruct (oget m subk) as [[[]|m'|]|]; cbn [snd]; try (now apply walk_value_idem).
  - (* Pipeline *)
    destruct subv as [| b | num | s | l | l]; try reflexivity.
    rewrite (sel_none l). destruct (rec_arr (MA "" false search false nkp) l Hs eq_refl Hn) as (l' & -> & E).
    now rewrite (sel_none l').
  - (* Exempt *) reflexivity.
  - (* FieldName *) now apply fieldname_value_idem.
  - (* OperatorArray *)
    destruct subv as [| b | num | s | l | l]; try reflexivity. f_equal.
    rewrite map_map. apply map_ext_in. intros e He. apply IH; [|reflexivity|].
    + pose proof (size_in_arr e l He). lia.
    + rewrite nodup_keys_arr in Hn. auto.
  - (* Namespace *) rewrite Hnss. reflexivity.
Qed.

Lemma p_generic_idem kp search k v : size v < n -> nodup_keys v ->
  p_generic tb cs c is_email A W false kp search k (p_generic tb cs c is_email A W false kp search k v) =
  p_generic tb cs c is_email A W false kp search k v.
Proof.
  intros Hs Hn. destruct v as [| b | num | s | l | l].
  - destruct (leaf_scalar_idem kp k search false JNull I) as (y & E & Hk & Hi).
    unfold p_generic. cbn [walk_value]. rewrite E. destruct y; try contradiction. cbn [walk_value]. exact Hi.
  - destruct (leaf_scalar_idem kp k search false (JBool b) I) as (y & E & Hk & Hi).
    unfold p_generic. cbn [walk_value]. rewrite E. destruct y; try contradiction. cbn [walk_value]. exact Hi.
  - destruct (leaf_scalar_idem kp k search false (JNum num) I) as (y & E & Hk & Hi).
    unfold p_generic. cbn [walk_value]. rewrite E. destruct y; try contradiction. cbn [walk_value]. exact Hi.
  - unfold p_generic. cbn [negb]. rewrite !Bool.andb_true_r.
    destruct (starts_with_dollar s) eqn:Es; [now rewrite Es|].
    destruct (leaf_scalar_idem kp k search false (JStr s) I) as (y & E & Hk & Hi). rewrite E. destruct y as [| | | s' | |]; try contradiction.
    rewrite Bool.andb_true_r. destruct (starts_with_dollar s'); [reflexivity | exact Hi].
  - unfold p_generic. cbn [walk_value]. rewrite (sel_none l).
    destruct (rec_arr (MA "" false search false (kp ++ [k])) l Hs eq_refl Hn) as (l' & -> & E).
    cbn [walk_value]. now rewrite (sel_none l').
  - unfold p_generic. cbn [walk_value].
    destruct (rec_obj (MP false (kp ++ [k]) search) l Hs eq_refl Hn) as (l' & -> & E).
    cbn [walk_value]. exact E.
Qed.

Lemma p_generic_not_obj kp search k v : (forall l, v <> JObj l) -> forall l, p_generic tb cs c is_email A W false kp search k v <> JObj l.
Proof.
  intros Hv l. destruct v as [| b | num | s | l0 | l0].
  - unfold p_generic. cbn [walk_value]. pose proof (scalar_kind kp k JNull search false I) as H. destruct (SC kp k JNull search false); try contradiction; discriminate.
  - unfold p_generic. cbn [walk_value]. pose proof (scalar_kind kp k (JBool b) search false I) as H. destruct (SC kp k (JBool b) search false); try contradiction; discriminate.
  - unfold p_generic. cbn [walk_value]. pose proof (scalar_kind kp k (JNum num) search false I) as H. destruct (SC kp k (JNum num) search false); try contradiction; discriminate.
  - unfold p_generic. destruct (starts_with_dollar s && negb false); [discriminate|].
    pose proof (scalar_kind kp k (JStr s) search false I) as H. destruct (SC kp k (JStr s) search false); try contradiction; discriminate.
  - unfold p_generic. cbn [walk_value]. pose proof (walk_kind (MA "" false search (sel_of c l0) (kp ++ [k])) (JArr l0)) as H.
    destruct (W _ (JArr l0)); try contradiction; discriminate.
  - exfalso. now apply (Hv l0).
Qed.

Lemma p_member_idem kp search k v : size v < n -> nodup_keys v ->
  snd (p_member tb cs c is_email A W false kp search k (snd (p_member tb cs c is_email A W false kp search k v))) =
  snd (p_member tb cs c is_email A W false kp search k v).
Proof.
  intros Hs Hn. unfold p_member. rewrite !p_op_none.
  destruct (get_op tb kp k search) as [[[]|m|]|]; cbn [snd]; try (now apply p_generic_idem).
  - (* Pipeline *)
    destruct v as [| b | num | s | l | l]; try reflexivity.
    + rewrite (sel_none l). destruct (rec_arr (MA "" false search false (kp ++ [k])) l Hs eq_refl Hn) as (l' & -> & E).
      now rewrite (sel_none l').
    + f_equal. pose proof Hn as Hn'. apply nodup_keys_obj in Hn'. destruct Hn' as [Hnd Hch].
      apply (obj_idem l (fun k0 v0 => (k0, pipeline_map_member tb cs c is_email A W false k0 v0))); auto.
      intros kv Hkv. cbn [snd]. apply pipeline_map_member_idem; auto. pose proof (size_in_obj kv l Hkv). lia.
  - (* Exempt *) reflexivity.
  - (* FieldName *) now apply fieldname_value_idem.
  - (* OperatorArray *)
    destruct v as [| b | num | s | l | l]; try reflexivity. f_equal.
    rewrite map_map. apply map_ext_in. intros e He. apply IH; [|reflexivity|].
    + pose proof (size_in_arr e l He). lia.
    + rewrite nodup_keys_arr in Hn. auto.
  - (* Namespace *) rewrite Hnss. reflexivity.
  - (* operator map *)
    destruct v as [| b | num | s | l | l].
    + cbn [snd]. pose proof (p_generic_not_obj kp search k JNull ltac:(discriminate)) as Hno.
      destruct (p_generic _ _ _ _ _ _ false kp search k JNull) eqn:E; try (exfalso; eapply Hno; eauto; fail); cbn [snd]; rewrite <- E; now apply p_generic_idem.
    + cbn [snd]. pose proof (p_generic_not_obj kp search k (JBool b) ltac:(discriminate)) as Hno.
      destruct (p_generic _ _ _ _ _ _ false kp search k (JBool b)) eqn:E; try (exfalso; eapply Hno; eauto; fail); cbn [snd]; rewrite <- E; now apply p_generic_idem.
    + cbn [snd]. pose proof (p_generic_not_obj kp search k (JNum num) ltac:(discriminate)) as Hno.
      destruct (p_generic _ _ _ _ _ _ false kp search k (JNum num)) eqn:E; try (exfalso; eapply Hno; eauto; fail); cbn [snd]; rewrite <- E; now apply p_generic_idem.
    + cbn [snd]. pose proof (p_generic_not_obj kp search k (JStr s) ltac:(discriminate)) as Hno.
      destruct (p_generic _ _ _ _ _ _ false kp search k (JStr s)) eqn:E; try (exfalso; eapply Hno; eauto; fail); cbn [snd]; rewrite <- E; now apply p_generic_idem.
    + cbn [snd]. pose proof (p_generic_not_obj kp search k (JArr l) ltac:(discriminate)) as Hno.
      destruct (p_generic _ _ _ _ _ _ false kp search k (JArr l)) eqn:E; try (exfalso; eapply Hno; eauto; fail); cbn [snd]; rewrite <- E; now apply p_generic_idem.
    + cbn [snd]. f_equal. pose proof Hn as Hn'. apply nodup_keys_obj in Hn'. destruct Hn' as [Hnd Hch].
      apply (obj_idem l (sub_member tb cs c is_email A W false search (kp ++ [k]) k m)); auto.
      * intros. apply sub_member_fst.
      * intros kv Hkv. apply sub_member_idem; auto. pose proof (size_in_obj kv l Hkv). lia.
Qed.

Lemma q_member_idem search parent kp k v : size v < n -> nodup_keys v ->
  snd (q_member tb cs c is_email A W false search parent kp k (snd (q_member tb cs c is_email A W false search parent kp k v))) =
  snd (q_member tb cs c is_email A W false search parent kp k v).
Proof.
  intros Hs Hn. unfold q_member. cbn [snd andb].
  set (core_op := match match parent with MMap pm => oget pm k | _ => oget (Core tb) k end with Some m => m | None => MNil end).
  destruct v as [| b | num | s | l | l].
  - reflexivity.
  - destruct (is_ty core_op Exempt) eqn:Ex; [reflexivity|].
    destruct (leaf_scalar_idem kp k search false (JBool b) I) as (y & E & Hk & Hi). rewrite E. destruct y; try contradiction. exact Hi.
  - destruct (is_ty core_op Exempt) eqn:Ex; [reflexivity|].
    destruct (leaf_scalar_idem kp k search false (JNum num) I) as (y & E & Hk & Hi). rewrite E. destruct y; try contradiction. exact Hi.
  - unfold dollar_string. cbn [andb]. destruct (starts_with_dollar s) eqn:Es; [now rewrite Es|].
    destruct (is_ty core_op Exempt) eqn:Ex; [now rewrite Es|].
    destruct (leaf_scalar_idem kp k search false (JStr s) I) as (y & E & Hk & Hi). rewrite E. destruct y as [| | | s' | |]; try contradiction.
    destruct (starts_with_dollar s'); [reflexivity|]. exact Hi.
  - rewrite (sel_none l). destruct (rec_arr (MA k false search false (kp ++ [k])) l Hs eq_refl Hn) as (l' & -> & E).
    now rewrite (sel_none l').
  - destruct (rec_obj (MQ false search core_op (kp ++ [k])) l Hs eq_refl Hn) as (l' & -> & E). exact E.
Qed.

End Step.

Theorem walk_idem : forall t m, mode_rfn m = false -> nodup_keys t -> W m (W m t) = W m t.
Proof.
  intros t. induction t as [t IHt] using json_size_ind. intros m Hm Hn.
  assert (IH : forall t' m', size t' < size t -> mode_rfn m' = false -> nodup_keys t' -> W m' (W m' t') = W m' t').
  { intros t' m' Hs Hm' Hn'. apply IHt; auto. }
  destruct t as [| b | num | s | l | l].
  - destruct m; reflexivity.
  - destruct m as [rfn kp search | |]; try reflexivity. simpl in Hm. subst. cbn [walk p_leaf].
    pose proof (scalar_kind kp ""%string (JBool b) search false I) as Hk.
    destruct (SC kp ""%string (JBool b) search false) eqn:E; try contradiction. cbn [walk p_leaf]. rewrite <- E. now apply sidem.
  - destruct m as [rfn kp search | |]; try reflexivity. simpl in Hm. subst. cbn [walk p_leaf].
    pose proof (scalar_kind kp ""%string (JNum num) search false I) as Hk.
    destruct (SC kp ""%string (JNum num) search false) eqn:E; try contradiction. cbn [walk p_leaf]. rewrite <- E. now apply sidem.
  - destruct m as [rfn kp search | |]; try reflexivity. simpl in Hm. subst. cbn [walk p_leaf]. unfold dollar_string. cbn [andb].
    destruct (starts_with_dollar s) eqn:Es; [cbn [walk p_leaf]; now rewrite Es|].
    pose proof (scalar_kind kp ""%string (JStr s) search false I) as Hk.
    destruct (SC kp ""%string (JStr s) search false) as [| | | s' | |] eqn:E; try contradiction. cbn [walk p_leaf]. unfold dollar_string. cbn [andb].
    destruct (starts_with_dollar s'); [reflexivity|]. rewrite <- E. now apply sidem.
  - (* array *)
    destruct m as [rfn kp search | rfn search parent kp | pk rfn search sel kp]; simpl in Hm; subst; cbn [walk].
    + rewrite !sel_none. f_equal. apply (arr_idem (size (JArr l)) IH); auto.
    + reflexivity.
    + f_equal. apply (arr_idem (size (JArr l)) IH); auto.
  - (* object *)
    pose proof Hn as Hn'. apply nodup_keys_obj in Hn'. destruct Hn' as [Hnd Hch].
    destruct m as [rfn kp search | rfn search parent kp | pk rfn search sel kp]; simpl in Hm; subst; cbn [walk].
    + f_equal. apply (obj_idem l (p_member tb cs c is_email A W false kp search)); [exact Hnd | intros; apply p_member_fst |].
      intros kv Hkv. apply (p_member_idem (size (JObj l)) IH); auto. now apply size_in_obj.
    + f_equal. apply (obj_idem l (q_member tb cs c is_email A W false search parent kp)); [exact Hnd | intros; apply q_member_fst |].
      intros kv Hkv. apply (q_member_idem (size (JObj l)) IH); auto. now apply size_in_obj.
    + reflexivity.
Qed.

End WIdem.
