(* Whole-run theorems about the `redact` command (Model/Job.v): the composition of validation, output-file
   creation, key-file step, input channel and stream processor. *)
From Coq Require Import String List NArith ZArith Bool Ascii Lia.
From Model Require Import Json Tables Walker Line Stream Base64 KeyFile Cli Atlas Job.
From Proofs Require Import StreamProofs KeyProofs AtlasProofs.
Import ListNotations.
Open Scope list_scope.

Lemma upd_same fs p s : upd fs p s p = s.
Proof. unfold upd. now rewrite String.eqb_refl. Qed.

Lemma upd_other fs p s q : q <> p -> upd fs p s q = fs q.
Proof. intros H. unfold upd. apply String.eqb_neq in H. now rewrite H. Qed.

Lemma create_frame fs p fs' q : create fs p = Some fs' -> q <> p -> fs' q = fs q.
Proof.
  unfold create. intros H Hq.
  destruct (fs p) as [[|]|c m| |c m]; inversion H; subst; now apply upd_other.
Qed.

Lemma create_at fs p fs' : create fs p = Some fs' -> exists m, fs' p = FFile [] m.
Proof.
  unfold create. intros H.
  destruct (fs p) as [[|]|c m| |c m]; inversion H; subst; eexists; apply upd_same.
Qed.

Lemma set_content_frame fs p d q : q <> p -> set_content fs p d q = fs q.
Proof.
  intros H. unfold set_content. destruct (fs p); try reflexivity. now apply upd_other.
Qed.

Lemma set_content_at fs p d c m : fs p = FFile c m -> set_content fs p d p = FFile d m.
Proof. intros H. unfold set_content. rewrite H. apply upd_same. Qed.

Section JobProofs.
Variable tb : tables.
Variable cs : consts.

(* a writer that accepts every write behaves like the constant one; the bar is irrelevant *)
Lemma write_all_ext cks w1 w2 : (forall i, w1 i = w2 i) -> forall widx written final,
  write_all cks w1 widx written final = write_all cks w2 widx written final.
Proof.
  intros H. induction cks as [|ck r IH]; intros widx written final; cbn [write_all]; [reflexivity|].
  rewrite H. destruct (w2 widx); [apply IH|reflexivity].
Qed.

Lemma run_io_accepting c enc data e writer bar : (forall i, writer i = Accept) ->
  run_io tb cs c enc data e writer bar = run_io tb cs c enc data e (fun _ => Accept) None.
Proof.
  intros H. rewrite !run_io_write_all. apply write_all_ext. exact H.
Qed.

Lemma run_io_faultfree c enc data writer bar : (forall i, writer i = Accept) -> snd (scan data REof) = SOk ->
  run_io tb cs c enc data REof writer bar = (ROk, stream tb cs c enc data).
Proof.
  intros H Hs. rewrite (run_io_accepting _ _ _ _ _ _ H). unfold stream.
  destruct (run_io tb cs c enc data REof (fun _ => Accept) None) as [r o] eqn:E. f_equal.
  assert (Hok : fst (run_io tb cs c enc data REof (fun _ => Accept) None) = ROk).
  { apply io_ok_iff. split; [exact Hs|reflexivity]. }
  now rewrite E in Hok.
Qed.

(* what a run leaves at its destination: the output file's content, or standard output *)
Definition dest (a : jargs) (r : jresult) : list ascii :=
  if nonempty_s (a_out a) then match j_fs r (a_out a) with FFile c _ => c | _ => [] end else j_stdout r.

(* ---------- C18: a rejection changes nothing ---------- *)
Theorem job_reject : forall a w r,
  decide (flags_of a w) = CReject r -> job tb cs a w = fail (w_fs w).
Proof. intros a w r H. unfold job. now rewrite H. Qed.

(* ---------- the frame: only the output file(s) and the key file are ever written ---------- *)
Lemma write_outs_frame out q : (forall i, q <> (out ++ "." ++ dec_of_nat i)%string) ->
  forall outs fs, write_outs fs out outs q = fs q.
Proof.
  intros Hq outs. induction outs as [|[i o] r IH]; intros fs; cbn [write_outs]; [reflexivity|].
  destruct (create fs _) as [fs'|] eqn:Ec; [|reflexivity].
  rewrite IH, set_content_frame by apply Hq. eapply create_frame; [exact Ec|apply Hq].
Qed.

Lemma stage_out_frame a w fs1 q : stage_out a w = Some fs1 -> q <> a_out a -> fs1 q = w_fs w q.
Proof.
  unfold stage_out. destruct (nonempty_s (a_out a)); intros H Hq.
  - eapply create_frame; eassumption.
  - now inversion H.
Qed.

Lemma stage_key_frame a w fs1 fs2 enc q : stage_key a w fs1 = Some (fs2, enc) -> q <> a_keyfile a -> fs2 q = fs1 q.
Proof.
  unfold stage_key. destruct (a_encrypt a && nonempty_s (a_keyfile a)); intros H Hq.
  - destruct (run_key _ _) as [k' [key|]]; inversion H; subst. now apply upd_other.
  - now inversion H.
Qed.

Lemma deliver_frame a fs2 res q : q <> a_out a -> j_fs (deliver a fs2 res) q = fs2 q.
Proof.
  intros Hq. unfold deliver. destruct (nonempty_s (a_out a)); cbn [j_fs]; [|reflexivity].
  now apply set_content_frame.
Qed.

Lemma stage_run_frame a w m fs2 enc q :
  q <> a_out a -> (forall i, q <> (a_out a ++ "." ++ dec_of_nat i)%string) ->
  j_fs (stage_run tb cs a w m fs2 enc) q = fs2 q.
Proof.
  intros Hq Hi. unfold stage_run.
  destruct m.
  - cbn [j_fs]. now apply write_outs_frame.
  - destruct (local_input a w MFile fs2) as [[[d e] b]|]; [now apply deliver_frame|reflexivity].
  - destruct (local_input a w MStdin fs2) as [[[d e] b]|]; [now apply deliver_frame|reflexivity].
Qed.

Theorem job_frame : forall a w q,
  q <> a_out a -> q <> a_keyfile a -> (forall i, q <> (a_out a ++ "." ++ dec_of_nat i)%string) ->
  j_fs (job tb cs a w) q = w_fs w q.
Proof.
  intros a w q Ho Hk Hi. unfold job.
  destruct (decide _) as [r|m]; [reflexivity|].
  destruct (stage_out a w) as [fs1|] eqn:E1; [|reflexivity].
  destruct (stage_key a w fs1) as [[fs2 enc]|] eqn:E2.
  - rewrite stage_run_frame by assumption.
    erewrite stage_key_frame by eassumption. eapply stage_out_frame; eassumption.
  - cbn [fail j_fs]. eapply stage_out_frame; eassumption.
Qed.

(* ---------- C06: the channels ---------- *)
(* a local job without encryption whose output can be created, whose input channel delivers [data] and ends
   normally, and whose writes are all accepted: status 0, and the destination holds exactly [stream data] *)
Definition plain_local (a : jargs) (w : jworld) (m : inmode) : Prop :=
  decide (flags_of a w) = CAccept m /\ m <> MAtlas /\ a_encrypt a = false /\
  (forall i, w_writer w i = Accept) /\
  (nonempty_s (a_out a) = true -> exists fs1, create (w_fs w) (a_out a) = Some fs1).

Lemma dest_deliver a fs2 res : (nonempty_s (a_out a) = true -> exists m, fs2 (a_out a) = FFile [] m) ->
  dest a (deliver a fs2 res) = snd res.
Proof.
  intros H. unfold dest, deliver. destruct (nonempty_s (a_out a)) eqn:E; cbn [j_fs j_stdout]; [|reflexivity].
  destruct (H eq_refl) as [m Hm]. now rewrite (set_content_at _ _ _ _ _ Hm).
Qed.

Theorem job_local_output : forall a w m data bar,
  plain_local a w m ->
  (forall fs1, stage_out a w = Some fs1 -> local_input a w m fs1 = Some (data, REof, bar)) ->
  snd (scan data REof) = SOk ->                     (* no line over the reader's limit *)
  j_status (job tb cs a w) = Exit0 /\ dest a (job tb cs a w) = stream tb cs (a_cfg a) None data.
Proof.
  intros a w m data bar (Hd & Hm & He & Hw & Hc) Hin Hlen. unfold job. rewrite Hd.
  assert (exists fs1, stage_out a w = Some fs1 /\ (nonempty_s (a_out a) = true -> exists mm, fs1 (a_out a) = FFile [] mm)) as (fs1 & E1 & Hat).
  { unfold stage_out. destruct (nonempty_s (a_out a)) eqn:En.
    - destruct (Hc eq_refl) as [fs1 Hfs1]. exists fs1. split; [exact Hfs1|]. intros _. eapply create_at; eassumption.
    - eexists; split; [reflexivity|]. intros; discriminate. }
  rewrite E1. unfold stage_key. rewrite He. cbn [andb].
  unfold stage_run. rewrite (Hin fs1 E1).
  assert (Erun : run_io tb cs (a_cfg a) None data REof (w_writer w) bar =
                 (ROk, stream tb cs (a_cfg a) None data)).
  { apply run_io_faultfree; assumption. }
  destruct m; [congruence| |]; rewrite Erun; (split; [unfold deliver; destruct (nonempty_s (a_out a)); reflexivity|]);
    rewrite dest_deliver by exact Hat; reflexivity.
Qed.

(* the general form, encryption included: an accepted local job whose output can be created, whose key step succeeds with the string
   action [enc], whose input channel - looked at AFTER the output file and the key file have been written - delivers [data] and ends
   normally, and whose writes are accepted: status 0 and exactly [stream enc data] at the destination *)
Theorem job_local_output_gen : forall a w m fs1 fs2 enc data bar,
  decide (flags_of a w) = CAccept m -> m <> MAtlas ->
  stage_out a w = Some fs1 -> stage_key a w fs1 = Some (fs2, enc) ->
  (nonempty_s (a_out a) = true -> a_encrypt a && nonempty_s (a_keyfile a) = true -> a_keyfile a <> a_out a) ->
  local_input a w m fs2 = Some (data, REof, bar) ->
  (forall i, w_writer w i = Accept) -> snd (scan data REof) = SOk ->
  j_status (job tb cs a w) = Exit0 /\ dest a (job tb cs a w) = stream tb cs (a_cfg a) enc data.
Proof.
  intros a w m fs1 fs2 enc data bar Hd Hm E1 E2 Hko Hin Hw Hs. unfold job. rewrite Hd, E1, E2. unfold stage_run.
  assert (Erun : run_io tb cs (a_cfg a) enc data REof (w_writer w) bar = (ROk, stream tb cs (a_cfg a) enc data))
    by (apply run_io_faultfree; assumption).
  assert (Hat : nonempty_s (a_out a) = true -> exists mm, fs2 (a_out a) = FFile [] mm).
  { intros Ho. unfold stage_out in E1. rewrite Ho in E1. destruct (create_at _ _ _ E1) as [mm Hmm].
    exists mm. unfold stage_key in E2. destruct (a_encrypt a && nonempty_s (a_keyfile a)) eqn:Ek.
    - destruct (run_key _ _) as [k' [key|]]; inversion E2; subst. rewrite upd_other; [exact Hmm|]. intros E. symmetry in E. exact (Hko Ho eq_refl E).
    - inversion E2; subst. exact Hmm. }
  destruct m; [congruence| |]; rewrite Hin, Erun; (split; [unfold deliver; destruct (nonempty_s (a_out a)); reflexivity|]);
    rewrite dest_deliver by exact Hat; reflexivity.
Qed.

(* encryption is a function of the key FILE: two accepted encrypting jobs, possibly in different runs, processes and directories, whose key
   files hold the same valid key and whose channels deliver the same data under the same configuration leave the same bytes *)
Theorem job_encrypt_deterministic : forall a1 w1 m1 a2 w2 m2 f1 f2 g1 g2 c1 mo1 c2 mo2 key data b1 b2,
  decide (flags_of a1 w1) = CAccept m1 -> m1 <> MAtlas -> decide (flags_of a2 w2) = CAccept m2 -> m2 <> MAtlas ->
  stage_out a1 w1 = Some f1 -> stage_out a2 w2 = Some f2 ->
  a_encrypt a1 = true -> a_encrypt a2 = true -> nonempty_s (a_keyfile a1) = true -> nonempty_s (a_keyfile a2) = true ->
  f1 (a_keyfile a1) = FFile c1 mo1 -> f2 (a_keyfile a2) = FFile c2 mo2 -> read_key c1 = Some key -> read_key c2 = Some key ->
  a_keyfile a1 <> a_out a1 -> a_keyfile a2 <> a_out a2 ->
  stage_key a1 w1 f1 = Some (g1, Some (w_encrypt w1 key)) -> stage_key a2 w2 f2 = Some (g2, Some (w_encrypt w2 key)) ->
  w_encrypt w1 key = w_encrypt w2 key -> a_cfg a1 = a_cfg a2 ->
  local_input a1 w1 m1 g1 = Some (data, REof, b1) -> local_input a2 w2 m2 g2 = Some (data, REof, b2) ->
  (forall i, w_writer w1 i = Accept) -> (forall i, w_writer w2 i = Accept) -> snd (scan data REof) = SOk ->
  dest a1 (job tb cs a1 w1) = dest a2 (job tb cs a2 w2).
Proof.
  intros a1 w1 m1 a2 w2 m2 f1 f2 g1 g2 c1 mo1 c2 mo2 key data b1 b2 Hd1 Hm1 Hd2 Hm2 O1 O2 E1 E2 K1 K2 F1 F2 R1 R2 N1 N2 S1 S2 He Hc I1 I2 W1 W2 Hs.
  destruct (job_local_output_gen a1 w1 m1 f1 g1 _ data b1 Hd1 Hm1 O1 S1 (fun _ _ => N1) I1 W1 Hs) as [_ D1].
  destruct (job_local_output_gen a2 w2 m2 f2 g2 _ data b2 Hd2 Hm2 O2 S2 (fun _ _ => N2) I2 W2 Hs) as [_ D2].
  rewrite D1, D2, He, Hc. reflexivity.
Qed.

(* the one content-dependent stop, at the level of the whole run: a line over the reader's limit ends a local job with status 1, and what is at the
   destination is exactly the redaction of the lines before it - nothing of the long line, nothing of what follows *)
Theorem job_toolong : forall a w m fs1 fs2 enc data e bar,
  decide (flags_of a w) = CAccept m -> m <> MAtlas ->
  stage_out a w = Some fs1 -> stage_key a w fs1 = Some (fs2, enc) ->
  (nonempty_s (a_out a) = true -> a_encrypt a && nonempty_s (a_keyfile a) = true -> a_keyfile a <> a_out a) ->
  local_input a w m fs2 = Some (data, e, bar) ->
  (forall i, w_writer w i = Accept) -> snd (scan data e) = STooLong ->
  j_status (job tb cs a w) = Exit1 /\
  dest a (job tb cs a w) = List.concat (map (emit tb cs (a_cfg a) enc) (fst (scan data e))).
Proof.
  intros a w m fs1 fs2 enc data e bar Hd Hm E1 E2 Hko Hin Hw Hs. unfold job. rewrite Hd, E1, E2. unfold stage_run.
  assert (Erun : run_io tb cs (a_cfg a) enc data e (w_writer w) bar =
                 (RScanErr STooLong, List.concat (map (emit tb cs (a_cfg a) enc) (fst (scan data e))))).
  { rewrite (run_io_accepting _ _ _ _ _ _ Hw). apply toolong_is_error. exact Hs. }
  assert (Hat : nonempty_s (a_out a) = true -> exists mm, fs2 (a_out a) = FFile [] mm).
  { intros Ho. unfold stage_out in E1. rewrite Ho in E1. destruct (create_at _ _ _ E1) as [mm Hmm].
    exists mm. unfold stage_key in E2. destruct (a_encrypt a && nonempty_s (a_keyfile a)) eqn:Ek.
    - destruct (run_key _ _) as [k' [key|]]; inversion E2; subst. rewrite upd_other; [exact Hmm|]. intros E. symmetry in E. exact (Hko Ho eq_refl E).
    - inversion E2; subst. exact Hmm. }
  destruct m; [congruence| |]; rewrite Hin, Erun; (split; [unfold deliver; destruct (nonempty_s (a_out a)); reflexivity|]);
    rewrite dest_deliver by exact Hat; reflexivity.
Qed.

(* the same bytes whichever channel delivers the data and wherever the output goes: two plain local jobs with the
   same redaction configuration whose input channels deliver the same data leave the same bytes at their destinations *)
Theorem job_channel_independent : forall a1 w1 m1 a2 w2 m2 data bar1 bar2,
  plain_local a1 w1 m1 -> plain_local a2 w2 m2 -> a_cfg a1 = a_cfg a2 ->
  (forall fs1, stage_out a1 w1 = Some fs1 -> local_input a1 w1 m1 fs1 = Some (data, REof, bar1)) ->
  (forall fs1, stage_out a2 w2 = Some fs1 -> local_input a2 w2 m2 fs1 = Some (data, REof, bar2)) ->
  snd (scan data REof) = SOk ->
  dest a1 (job tb cs a1 w1) = dest a2 (job tb cs a2 w2) /\
  j_status (job tb cs a1 w1) = Exit0 /\ j_status (job tb cs a2 w2) = Exit0.
Proof.
  intros a1 w1 m1 a2 w2 m2 data bar1 bar2 H1 H2 Hc Hi1 Hi2 Hs.
  destruct (job_local_output a1 w1 m1 data bar1 H1 Hi1 Hs) as [S1 D1].
  destruct (job_local_output a2 w2 m2 data bar2 H2 Hi2 Hs) as [S2 D2].
  rewrite D1, D2, Hc. auto.
Qed.

(* what each channel delivers: a plain file delivers its content, a .gz file what gunzip makes of it, stdin its data -
   provided the input path is neither the output file nor (irrelevant here: no encryption) anything else the run writes *)
Lemma local_input_file a w fs1 p raw mode :
  a_file a = Some p -> fs1 p = FFile raw mode -> is_gz p = false ->
  exists bar, local_input a w MFile fs1 = Some (raw, REof, bar).
Proof. intros Hp Hf Hg. unfold local_input. rewrite Hp, Hf, Hg. eexists. reflexivity. Qed.

Lemma local_input_gz a w fs1 p raw mode data :
  a_file a = Some p -> fs1 p = FFile raw mode -> is_gz p = true -> w_gunzip w raw = (data, REof) ->
  exists bar, local_input a w MFile fs1 = Some (data, REof, bar).
Proof. intros Hp Hf Hg Hz. unfold local_input. rewrite Hp, Hf, Hg, Hz. eexists. reflexivity. Qed.

Lemma local_input_stdin a w fs1 data : w_stdin w = Some data -> local_input a w MStdin fs1 = Some (data, REof, None).
Proof. intros H. unfold local_input. now rewrite H. Qed.

(* ---------- C08 at the level of the whole run: no failure is reported as success ---------- *)
Theorem job_failure_reported : forall a w m fs1 fs2 enc data e bar,
  decide (flags_of a w) = CAccept m -> m <> MAtlas ->
  stage_out a w = Some fs1 -> stage_key a w fs1 = Some (fs2, enc) ->
  local_input a w m fs2 = Some (data, e, bar) ->
  fst (run_io tb cs (a_cfg a) enc data e (w_writer w) bar) <> ROk ->
  j_status (job tb cs a w) = Exit1.
Proof.
  intros a w m fs1 fs2 enc data e bar Hd Hm E1 E2 Hin Hbad. unfold job. rewrite Hd, E1, E2. unfold stage_run.
  destruct m; [congruence| |]; rewrite Hin; unfold deliver;
    destruct (fst (run_io tb cs (a_cfg a) enc data e (w_writer w) bar)) eqn:Er; try congruence;
    destruct (nonempty_s (a_out a)); reflexivity.
Qed.

(* in particular a reader that ends with an error (cut gzip stream, read error) *)
Theorem job_read_error_reported : forall a w m fs1 fs2 enc data bar,
  decide (flags_of a w) = CAccept m -> m <> MAtlas ->
  stage_out a w = Some fs1 -> stage_key a w fs1 = Some (fs2, enc) ->
  local_input a w m fs2 = Some (data, RErr, bar) ->
  j_status (job tb cs a w) = Exit1.
Proof.
  intros. eapply job_failure_reported; try eassumption.
  intros Hok. apply io_ok_iff in Hok. destruct Hok as [Hs _].
  rewrite scan_unfold in Hs.
  destruct (snd (scan_terminated (fst (split_lines data)))); cbn [snd] in Hs; [discriminate|].
  destruct (snd (split_lines data)); cbn [snd] in Hs; [discriminate|].
  destruct (max_token <=? _)%N; cbn [snd] in Hs; discriminate.
Qed.

(* an input that cannot be opened ends the run with status 1 *)
Theorem job_input_unavailable : forall a w m fs1 fs2 enc,
  decide (flags_of a w) = CAccept m -> m <> MAtlas ->
  stage_out a w = Some fs1 -> stage_key a w fs1 = Some (fs2, enc) ->
  local_input a w m fs2 = None ->
  j_status (job tb cs a w) = Exit1 /\ j_stdout (job tb cs a w) = [].
Proof.
  intros a w m fs1 fs2 enc Hd Hm E1 E2 Hin. unfold job. rewrite Hd, E1, E2. unfold stage_run.
  destruct m; [congruence| |]; rewrite Hin; split; reflexivity.
Qed.

(* ---------- C11 at the level of the whole run ---------- *)
(* an unusable key: status 1, nothing on standard output, the output file (created before the key step) stays empty,
   the key path is exactly as it was *)
Theorem job_key_unusable : forall a w m fs1,
  decide (flags_of a w) = CAccept m -> stage_out a w = Some fs1 ->
  a_encrypt a = true -> nonempty_s (a_keyfile a) = true ->
  unusable (kstate_of (fs1 (a_keyfile a))) ->
  job tb cs a w = fail fs1 /\
  (a_keyfile a <> a_out a -> j_fs (job tb cs a w) (a_keyfile a) = w_fs w (a_keyfile a)) /\
  dest a (job tb cs a w) = [].
Proof.
  intros a w m fs1 Hd E1 He Hk Hu.
  assert (Ej : job tb cs a w = fail fs1).
  { unfold job. rewrite Hd, E1. unfold stage_key. rewrite He, Hk. cbn [andb].
    destruct (unusable_fails _ [] Hu) as [_ Hf]. rewrite (Hf (w_rnd w)). reflexivity. }
  split; [exact Ej|]. rewrite Ej. split.
  - intros Hne. cbn [fail j_fs]. eapply stage_out_frame; eassumption.
  - unfold dest. cbn [fail j_fs j_stdout]. destruct (nonempty_s (a_out a)) eqn:Eo; [|reflexivity].
    unfold stage_out in E1. rewrite Eo in E1. destruct (create_at _ _ _ E1) as [mm Hm]. now rewrite Hm.
Qed.

(* no key file yet: the key path receives base64 of the fresh bytes with mode 0600 BEFORE the run proper starts, and the
   run encrypts under exactly that key *)
Theorem job_key_created : forall a w m fs1,
  decide (flags_of a w) = CAccept m -> stage_out a w = Some fs1 ->
  a_encrypt a = true -> nonempty_s (a_keyfile a) = true ->
  fs1 (a_keyfile a) = FAbsent true ->
  stage_key a w fs1 = Some (upd fs1 (a_keyfile a) (FFile (b64_encode (w_rnd w)) mode_0600), Some (w_encrypt w (w_rnd w))) /\
  job tb cs a w = stage_run tb cs a w m (upd fs1 (a_keyfile a) (FFile (b64_encode (w_rnd w)) mode_0600)) (Some (w_encrypt w (w_rnd w))).
Proof.
  intros a w m fs1 Hd E1 He Hk Ha.
  assert (Es : stage_key a w fs1 = Some (upd fs1 (a_keyfile a) (FFile (b64_encode (w_rnd w)) mode_0600), Some (w_encrypt w (w_rnd w)))).
  { unfold stage_key. rewrite He, Hk, Ha. reflexivity. }
  split; [exact Es|]. unfold job. now rewrite Hd, E1, Es.
Qed.

(* a valid key file: used, and the key path is byte for byte (and mode) what it was, whatever else the run does *)
Theorem job_key_valid_untouched : forall a w m fs1 content mode key,
  decide (flags_of a w) = CAccept m -> stage_out a w = Some fs1 ->
  a_encrypt a = true -> nonempty_s (a_keyfile a) = true ->
  fs1 (a_keyfile a) = FFile content mode -> read_key content = Some key ->
  a_keyfile a <> a_out a -> (forall i, a_keyfile a <> (a_out a ++ "." ++ dec_of_nat i)%string) ->
  j_fs (job tb cs a w) (a_keyfile a) = FFile content mode /\
  exists fs2, stage_key a w fs1 = Some (fs2, Some (w_encrypt w key)).
Proof.
  intros a w m fs1 content mode key Hd E1 He Hk Hf Hr Hne Hi.
  assert (Es : stage_key a w fs1 = Some (upd fs1 (a_keyfile a) (FFile content mode), Some (w_encrypt w key))).
  { unfold stage_key. rewrite He, Hk, Hf. cbn [andb kstate_of run_key]. rewrite Hr. reflexivity. }
  split; [|eexists; exact Es].
  unfold job. rewrite Hd, E1, Es. rewrite stage_run_frame by assumption. apply upd_same.
Qed.

(* ---------- C17 at the level of the whole run: no downloaded log is left behind, whatever the job ---------- *)
Theorem job_no_tmp_left : forall a w, j_tmp_left (job tb cs a w) = 0.
Proof.
  intros a w. unfold job.
  destruct (decide _) as [r|m]; [reflexivity|].
  destruct (stage_out a w) as [fs1|]; [|reflexivity].
  destruct (stage_key a w fs1) as [[fs2 enc]|]; [|reflexivity].
  unfold stage_run. destruct m.
  - cbn [j_tmp_left]. now rewrite no_tmp_left.
  - destruct (local_input a w MFile fs2) as [[[d e] b]|]; [|reflexivity]. unfold deliver. destruct (nonempty_s (a_out a)); reflexivity.
  - destruct (local_input a w MStdin fs2) as [[[d e] b]|]; [|reflexivity]. unfold deliver. destruct (nonempty_s (a_out a)); reflexivity.
Qed.

(* network requests are made by Atlas jobs only *)
Theorem job_local_no_requests : forall a w m, decide (flags_of a w) = CAccept m -> m <> MAtlas -> j_trace (job tb cs a w) = [].
Proof.
  intros a w m Hd Hm. unfold job. rewrite Hd.
  destruct (stage_out a w) as [fs1|]; [|reflexivity].
  destruct (stage_key a w fs1) as [[fs2 enc]|]; [|reflexivity].
  unfold stage_run. destruct m; [congruence| |].
  - destruct (local_input a w MFile fs2) as [[[d e] b]|]; [|reflexivity]. unfold deliver. destruct (nonempty_s (a_out a)); reflexivity.
  - destruct (local_input a w MStdin fs2) as [[[d e] b]|]; [|reflexivity]. unfold deliver. destruct (nonempty_s (a_out a)); reflexivity.
Qed.

End JobProofs.
