(* Whole-run theorems about the `redact` command (Model/Job.v): the composition of validation, output-file
   creation, key-file step, input channel and stream processor. *)
From Coq Require Import String List NArith ZArith Bool Ascii Lia.
From Model Require Import Json Tables Walker Line Stream Base64 KeyFile Cli Atlas Job.
From Proofs Require Import StreamProofs KeyProofs.
Import ListNotations.
Open Scope list_scope.

Lemma upd_same fs p s : upd fs p s p = s.
Proof. unfold upd. now rewrite String.eqb_refl. Qed.

Lemma upd_other fs p s q : q <> p -> upd fs p s q = fs q.
Proof. intros H. unfold upd. apply String.eqb_neq in H. now rewrite H. Qed.

Lemma create_frame fs p fs' q : create fs p = Some fs' -> q <> p -> fs' q = fs q.
Proof.
  unfold create. intros H Hq.
  destruct (fs p) as [[|]|c m| |c m]; inversion H; subst; now apply upd_other.
Qed.

Lemma create_at fs p fs' : create fs p = Some fs' -> exists m, fs' p = FFile [] m.
Proof.
  unfold create. intros H.
  destruct (fs p) as [[|]|c m| |c m]; inversion H; subst; eexists; apply upd_same.
Qed.

Lemma set_content_frame fs p d q : q <> p -> set_content fs p d q = fs q.
Proof.
  intros H. unfold set_content. destruct (fs p); try reflexivity. now apply upd_other.
Qed.

Lemma set_content_at fs p d c m : fs p = FFile c m -> set_content fs p d p = FFile d m.
Proof. intros H. unfold set_content. rewrite H. apply upd_same. Qed.

Section JobProofs.
Variable tb : tables.
Variable cs : consts.

(* a writer that accepts every write behaves like the constant one; the bar is irrelevant *)
Lemma write_all_ext cks w1 w2 : (forall i, w1 i = w2 i) -> forall widx written final,
  write_all cks w1 widx written final = write_all cks w2 widx written final.
Proof.
  intros H. induction cks as [|ck r IH]; intros widx written final; cbn [write_all]; [reflexivity|].
  rewrite H. destruct (w2 widx); [apply IH|reflexivity].
Qed.

Lemma run_io_accepting c enc data e writer bar : (forall i, writer i = Accept) ->
  run_io tb cs c enc data e writer bar = run_io tb cs c enc data e (fun _ => Accept) None.
Proof.
  intros H. rewrite !run_io_write_all. apply write_all_ext. exact H.
Qed.

Lemma run_io_faultfree c enc data writer bar : (forall i, writer i = Accept) -> snd (scan data REof) = SOk ->
  run_io tb cs c enc data REof writer bar = (ROk, stream tb cs c enc data).
Proof.
  intros H Hs. rewrite (run_io_accepting _ _ _ _ _ _ H). unfold stream.
  destruct (run_io tb cs c enc data REof (fun _ => Accept) None) as [r o] eqn:E. f_equal.
  assert (Hok : fst (run_io tb cs c enc data REof (fun _ => Accept) None) = ROk).
  { apply io_ok_iff. split; [exact Hs|reflexivity]. }
  now rewrite E in Hok.
Qed.

(* what a run leaves at its destination: the output file's content, or standard output *)
Definition dest (a : jargs) (r : jresult) : list ascii :=
  if nonempty_s (a_out a) then match j_fs r (a_out a) with FFile c _ => c | _ => [] end else j_stdout r.

(* ---------- C18: a rejection changes nothing ---------- *)
Theorem job_reject : forall a w r,
  decide (flags_of a w) = CReject r -> job tb cs a w = fail (w_fs w).
Proof. intros a w r H. unfold job. now rewrite H. Qed.

(* ---------- the frame: only the output file(s) and the key file are ever written ---------- *)
Lemma write_outs_frame out q : (forall i, q <> (out ++ "." ++ dec_of_nat i)%string) ->
  forall outs fs, write_outs fs out outs q = fs q.
Proof.
  intros Hq outs. induction outs as [|[i o] r IH]; intros fs; cbn [write_outs]; [reflexivity|].
  destruct (create fs _) as [fs'|] eqn:Ec; [|reflexivity].
  rewrite IH, set_content_frame by apply Hq. eapply create_frame; [exact Ec|apply Hq].
Qed.

Lemma stage_out_frame a w fs1 q : stage_out a w = Some fs1 -> q <> a_out a -> fs1 q = w_fs w q.
Proof.
  unfold stage_out. destruct (nonempty_s (a_out a)); intros H Hq.
  - eapply create_frame; eassumption.
  - now inversion H.
Qed.

Lemma stage_key_frame a w fs1 fs2 enc q : stage_key a w fs1 = Some (fs2, enc) -> q <> a_keyfile a -> fs2 q = fs1 q.
Proof.
  unfold stage_key. destruct (a_encrypt a && nonempty_s (a_keyfile a)); intros H Hq.
  - destruct (run_key _ _) as [k' [key|]]; inversion H; subst. now apply upd_other.
  - now inversion H.
Qed.

Lemma deliver_frame a fs2 res q : q <> a_out a -> j_fs (deliver a fs2 res) q = fs2 q.
Proof.
  intros Hq. unfold deliver. destruct (nonempty_s (a_out a)); cbn [j_fs]; [|reflexivity].
  now apply set_content_frame.
Qed.

Lemma stage_run_frame a w m fs2 enc q :
  q <> a_out a -> (forall i, q <> (a_out a ++ "." ++ dec_of_nat i)%string) ->
  j_fs (stage_run tb cs a w m fs2 enc) q = fs2 q.
Proof.
  intros Hq Hi. unfold stage_run.
  destruct m.
  - cbn [j_fs]. now apply write_outs_frame.
  - destruct (local_input a w MFile fs2) as [[[d e] b]|]; [now apply deliver_frame|reflexivity].
  - destruct (local_input a w MStdin fs2) as [[[d e] b]|]; [now apply deliver_frame|reflexivity].
Qed.

Theorem job_frame : forall a w q,
  q <> a_out a -> q <> a_keyfile a -> (forall i, q <> (a_out a ++ "." ++ dec_of_nat i)%string) ->
  j_fs (job tb cs a w) q = w_fs w q.
Proof.
  intros a w q Ho Hk Hi. unfold job.
  destruct (decide _) as [r|m]; [reflexivity|].
  destruct (stage_out a w) as [fs1|] eqn:E1; [|reflexivity].
  destruct (stage_key a w fs1) as [[fs2 enc]|] eqn:E2.
  - rewrite stage_run_frame by assumption.
    erewrite stage_key_frame by eassumption. eapply stage_out_frame; eassumption.
  - cbn [fail j_fs]. eapply stage_out_frame; eassumption.
Qed.

(* ---------- C06: the channels ---------- *)
(* a local job without encryption whose output can be created, whose input channel delivers [data] and ends
   normally, and whose writes are all accepted: status 0, and the destination holds exactly [stream data] *)
Definition plain_local (a : jargs) (w : jworld) (m : inmode) : Prop :=
  decide (flags_of a w) = CAccept m /\ m <> MAtlas /\ a_encrypt a = false /\
  (forall i, w_writer w i = Accept) /\
  (nonempty_s (a_out a) = true -> exists fs1, create (w_fs w) (a_out a) = Some fs1).

Lemma dest_deliver a fs2 res : (nonempty_s (a_out a) = true -> exists m, fs2 (a_out a) = FFile [] m) ->
  dest a (deliver a fs2 res) = snd res.
Proof.
  intros H. unfold dest, deliver. destruct (nonempty_s (a_out a)) eqn:E; cbn [j_fs j_stdout]; [|reflexivity].
  destruct (H eq_refl) as [m Hm]. now rewrite (set_content_at _ _ _ _ _ Hm).
Qed.

Theorem job_local_output : forall a w m data bar,
  plain_local a w m ->
  (forall fs1, stage_out a w = Some fs1 -> local_input a w m fs1 = Some (data, REof, bar)) ->
  snd (scan data REof) = SOk ->                     (* no line over the reader's limit *)
  j_status (job tb cs a w) = Exit0 /\ dest a (job tb cs a w) = stream tb cs (a_cfg a) None data.
Proof.
  intros a w m data bar (Hd & Hm & He & Hw & Hc) Hin Hlen. unfold job. rewrite Hd.
  assert (exists fs1, stage_out a w = Some fs1 /\ (nonempty_s (a_out a) = true -> exists mm, fs1 (a_out a) = FFile [] mm)) as (fs1 & E1 & Hat).
  { unfold stage_out. destruct (nonempty_s (a_out a)) eqn:En.
    - destruct (Hc eq_refl) as [fs1 Hfs1]. exists fs1. split; [exact Hfs1|]. intros _. eapply create_at; eassumption.
    - eexists; split; [reflexivity|]. intros; discriminate. }
  rewrite E1. unfold stage_key. rewrite He. cbn [andb].
  unfold stage_run. rewrite (Hin fs1 E1).
  assert (Erun : run_io tb cs (a_cfg a) None data REof (w_writer w) bar =
                 (ROk, stream tb cs (a_cfg a) None data)).
  { apply run_io_faultfree; assumption. }
  destruct m; [congruence| |]; rewrite Erun; (split; [unfold deliver; destruct (nonempty_s (a_out a)); reflexivity|]);
    rewrite dest_deliver by exact Hat; reflexivity.
Qed.

End JobProofs.
