(* Lemmas about HashName: structure of pseudonyms (C13). *)
From Coq Require Import NArith Lia Sorting.Mergesort Sorting.Permutation Orders.
From Model Require Import Json Sha256 Hash.
Close Scope N_scope. Open Scope string_scope. Open Scope list_scope.

(* ---------- strings ---------- *)
Lemma string_app_assoc (a b c : string) : ((a ++ b) ++ c = a ++ (b ++ c))%string.
Proof. induction a as [|ch a IH]; simpl; [reflexivity | now rewrite IH]. Qed.

Lemma string_app_inv_head (a b c : string) : (a ++ b = a ++ c)%string -> b = c.
Proof. induction a as [|ch a IH]; simpl; intros H; [exact H | injection H as H; auto]. Qed.

Lemma string_length_app (a b : string) : String.length (a ++ b)%string = String.length a + String.length b.
Proof. induction a as [|ch a IH]; simpl; [reflexivity | now rewrite IH]. Qed.

Lemma list_ascii_of_string_of_list (l : list ascii) : list_ascii_of_string (string_of_list_ascii l) = l.
Proof. apply list_ascii_of_string_of_list_ascii. Qed.

(* ---------- '$' trimming ---------- *)
Lemma hash_dollar (r s : string) : hash_name r ("$" ++ s)%string = hash_name r s.
Proof. reflexivity. Qed.

Fixpoint dollars (n : nat) : string := match n with O => "" | S k => String "$" (dollars k) end.

Lemma hash_dollars (r s : string) (n : nat) : hash_name r (dollars n ++ s)%string = hash_name r s.
Proof. induction n as [|n IH]; simpl; [reflexivity | exact IH]. Qed.

(* ---------- split / join ---------- *)
Definition no_sep (sep : ascii) (l : list ascii) : Prop := Forall (fun ch => ch <> sep) l.

Fixpoint join_l (sep : ascii) (parts : list (list ascii)) : list ascii :=
  match parts with
  | [] => []
  | [p] => p
  | p :: rest => p ++ sep :: join_l sep rest
  end.

Lemma split_on_nosep sep l : no_sep sep l -> split_on sep l = [l].
Proof.
  induction l as [|ch l IH]; intros H; simpl; [reflexivity|].
  inversion H as [|? ? Hc Hl]; subst.
  destruct (Ascii.eqb ch sep) eqn:E; [apply Ascii.eqb_eq in E; contradiction|].
  rewrite IH by assumption. reflexivity.
Qed.

Lemma split_on_app sep p rest :
  no_sep sep p -> split_on sep (p ++ sep :: rest) =
  match split_on sep rest with q :: qs => p :: q :: qs | [] => [p] end.
Proof.
  induction p as [|ch p IH]; intros H; simpl.
  - rewrite Ascii.eqb_refl. destruct (split_on sep rest); reflexivity.
  - inversion H as [|? ? Hc Hl]; subst.
    destruct (Ascii.eqb ch sep) eqn:E; [apply Ascii.eqb_eq in E; contradiction|].
    rewrite IH by assumption. destruct (split_on sep rest); reflexivity.
Qed.

Lemma split_on_nonempty sep l : split_on sep l <> [].
Proof. induction l as [|ch l IH]; simpl; [discriminate|]. destruct (Ascii.eqb ch sep); [discriminate|]. destruct (split_on sep l); [contradiction|discriminate]. Qed.

(* strings.Split is a left inverse of strings.Join on separator-free components *)
Lemma split_join sep parts :
  parts <> [] -> Forall (no_sep sep) parts -> split_on sep (join_l sep parts) = parts.
Proof.
  induction parts as [|p rest IH]; intros Hne Hall; [contradiction|].
  inversion Hall as [|? ? Hp Hrest]; subst.
  destruct rest as [|q rest'].
  - simpl. apply split_on_nosep; assumption.
  - change (join_l sep (p :: q :: rest')) with (p ++ sep :: join_l sep (q :: rest')).
    rewrite split_on_app by assumption. rewrite IH by (discriminate || assumption). reflexivity.
Qed.

(* ---------- hex ---------- *)
Definition is_lower_hex (ch : ascii) : Prop :=
  In ch ["0"; "1"; "2"; "3"; "4"; "5"; "6"; "7"; "8"; "9"; "a"; "b"; "c"; "d"; "e"; "f"]%char.

Lemma hex_digit_is_hex n : is_lower_hex (hex_digit n).
Proof.
  unfold is_lower_hex, hex_digit.
  destruct n as [|p]; simpl; auto.
  do 4 (destruct p as [p|p|]; simpl; auto 20).
Qed.

Lemma hex_of_length d x : List.length (hex_of d x) = d.
Proof. revert x; induction d as [|d IH]; intros x; simpl; [reflexivity|]. rewrite app_length, IH. simpl. lia. Qed.

Lemma hex_of_is_hex d x : Forall is_lower_hex (hex_of d x).
Proof.
  revert x; induction d as [|d IH]; intros x; simpl; [constructor|].
  apply Forall_app; split; [apply IH | constructor; [apply hex_digit_is_hex | constructor]].
Qed.

Lemma hex_digit_inj a b : (a < 16)%N -> (b < 16)%N -> hex_digit a = hex_digit b -> a = b.
Proof.
  intros Ha Hb.
  assert (Hcases : forall n, (n < 16)%N -> In n [0;1;2;3;4;5;6;7;8;9;10;11;12;13;14;15]%N).
  { intros n Hn. destruct n as [|p]; simpl; auto.
    do 4 (destruct p as [p|p|]; simpl; auto 20; try lia). }
  apply Hcases in Ha. apply Hcases in Hb. simpl in Ha, Hb.
  repeat (destruct Ha as [<-|Ha]; [repeat (destruct Hb as [<-|Hb]; [try reflexivity; simpl; discriminate|]); contradiction|]); contradiction.
Qed.

Lemma hex_of_inj d x y : hex_of d x = hex_of d y -> (x mod 16 ^ N.of_nat d = y mod 16 ^ N.of_nat d)%N.
Proof.
  revert x y; induction d as [|d IH]; intros x y H.
  - simpl. now rewrite !N.mod_1_r.
  - simpl in H. apply app_inj_tail in H. destruct H as [H1 H2].
    apply IH in H1.
    apply hex_digit_inj in H2; try (apply N.mod_lt; lia).
    rewrite Nat2N.inj_succ, N.pow_succ_r'.
    rewrite !N.mod_mul_r by (try lia; apply N.pow_nonzero; lia).
    rewrite H1, H2. reflexivity.
Qed.

(* ---------- format of a pseudonym ---------- *)
Definition sha8_words (s : string) : N * N :=
  match sha256_words (bytes_of_string s) with a :: b :: _ => (a, b) | _ => (0, 0)%N end.

Lemma sha256_words_shape msg : exists a b c d e f g h, sha256_words msg = [a; b; c; d; e; f; g; h].
Proof.
  unfold sha256_words.
  destruct (blocks _ _ _) as [[[[[[[a b] c] d] e] f] g] h]. now exists a, b, c, d, e, f, g, h.
Qed.

Lemma sha8_hex_eq s : sha8_hex s = string_of_list_ascii (hex_of 8 (fst (sha8_words s)) ++ hex_of 8 (snd (sha8_words s))).
Proof.
  unfold sha8_hex, sha8_words. destruct (sha256_words_shape (bytes_of_string s)) as (a & b & c & d & e & f & g & h & ->). reflexivity.
Qed.

Lemma sha8_hex_format s :
  exists l, sha8_hex s = string_of_list_ascii l /\ List.length l = 16 /\ Forall is_lower_hex l.
Proof.
  rewrite sha8_hex_eq. eexists; split; [reflexivity|]. split.
  - rewrite app_length, !hex_of_length. reflexivity.
  - apply Forall_app; split; apply hex_of_is_hex.
Qed.

Theorem pseudo_format r p :
  exists l, pseudo r p = (r ++ "_" ++ string_of_list_ascii l)%string /\ List.length l = 16 /\ Forall is_lower_hex l.
Proof. destruct (sha8_hex_format p) as (l & E & Hl & Hh). exists l. unfold pseudo. now rewrite E. Qed.

(* ---------- injectivity transfers from the 8-byte digest prefix ---------- *)
Lemma string_of_list_ascii_inj l1 l2 : string_of_list_ascii l1 = string_of_list_ascii l2 -> l1 = l2.
Proof. intros H. rewrite <- (list_ascii_of_string_of_list l1), <- (list_ascii_of_string_of_list l2), H. reflexivity. Qed.

Lemma app_inj_len {A} (a b c d : list A) : List.length a = List.length c -> a ++ b = c ++ d -> a = c /\ b = d.
Proof.
  revert c; induction a as [|x a IH]; intros [|y c] Hl H; simpl in *; try discriminate; [auto|].
  injection H as -> H. injection Hl as Hl. destruct (IH c Hl H) as [-> ->]. auto.
Qed.

(* truncated digest as one number below 2^64 *)
Definition sha8N (s : string) : N := (fst (sha8_words s) mod 16 ^ 8) * 16 ^ 8 + snd (sha8_words s) mod 16 ^ 8.

Lemma sha8_hex_inj_N a b : sha8_hex a = sha8_hex b -> sha8N a = sha8N b.
Proof.
  rewrite !sha8_hex_eq. intros H. apply string_of_list_ascii_inj in H.
  apply app_inj_len in H; [|now rewrite !hex_of_length].
  destruct H as [H1 H2]. apply hex_of_inj in H1. apply hex_of_inj in H2.
  unfold sha8N. change (N.of_nat 8) with 8%N in *. now rewrite H1, H2.
Qed.

Theorem pseudo_inj_from_digest r a b : pseudo r a = pseudo r b -> sha8N a = sha8N b.
Proof.
  unfold pseudo. intros H. apply string_app_inv_head in H. apply string_app_inv_head in H.
  now apply sha8_hex_inj_N.
Qed.

(* ---------- NoDup by sorting, for the finite dictionary ---------- *)
Module NOrder <: TotalLeBool.
  Definition t := N.
  Definition leb := N.leb.
  Theorem leb_total : forall a1 a2, leb a1 a2 = true \/ leb a2 a1 = true.
  Proof. intros a b. unfold leb. destruct (N.leb_spec a b); [now left|right]. apply N.leb_le. lia. Qed.
End NOrder.
Module NSort := Sort NOrder.

Fixpoint strictly_sorted (l : list N) : bool :=
  match l with
  | a :: (b :: _) as r => (a <? b)%N && strictly_sorted r
  | _ => true
  end.

Lemma strictly_sorted_lb l a : strictly_sorted (a :: l) = true -> Forall (fun x => (a < x)%N) l.
Proof.
  revert a; induction l as [|b l IH]; intros a H; [constructor|].
  simpl in H. apply andb_prop in H. destruct H as [H1 H2]. apply N.ltb_lt in H1.
  constructor; [exact H1|]. apply IH in H2. eapply Forall_impl; [|exact H2]. simpl; intros; lia.
Qed.

Lemma strictly_sorted_NoDup l : strictly_sorted l = true -> NoDup l.
Proof.
  induction l as [|a l IH]; intros H; [constructor|].
  constructor.
  - apply strictly_sorted_lb in H. intros Hin. rewrite Forall_forall in H. apply H in Hin. lia.
  - apply IH. destruct l; [reflexivity|]. simpl in H. apply andb_prop in H. tauto.
Qed.

Lemma nodup_by_sort l : strictly_sorted (NSort.sort l) = true -> NoDup l.
Proof.
  intros H. apply strictly_sorted_NoDup in H.
  eapply Permutation_NoDup; [|exact H]. apply Permutation_sym, NSort.Permuted_sort.
Qed.

Lemma NoDup_map_inj {A B} (f : A -> B) l : NoDup (map f l) -> forall x y, In x l -> In y l -> f x = f y -> x = y.
Proof.
  induction l as [|a l IH]; intros H x y Hx Hy E; [contradiction|].
  simpl in H. inversion H as [|? ? Hn Hd]; subst.
  destruct Hx as [<-|Hx], Hy as [<-|Hy]; auto.
  - exfalso. apply Hn. rewrite E. now apply in_map.
  - exfalso. apply Hn. rewrite <- E. now apply in_map.
Qed.

(* all strings of length <= n over an alphabet *)
Fixpoint words_upto (alpha : list ascii) (n : nat) : list string :=
  match n with
  | O => [""]
  | S k => "" :: flat_map (fun w => map (fun ch => String ch w) alpha) (words_upto alpha k)
  end.

Definition alphabet40 : list ascii :=
  list_ascii_of_string "abcdefghijklmnopqrstuvwxyz0123456789_-$ ".

Lemma dict_injective (names : list string) :
  strictly_sorted (NSort.sort (map sha8N names)) = true ->
  forall r a b, In a names -> In b names -> pseudo r a = pseudo r b -> a = b.
Proof.
  intros H r a b Ha Hb E. apply nodup_by_sort in H.
  eapply NoDup_map_inj; eauto. eapply pseudo_inj_from_digest; eauto.
Qed.

(* ---------- component-wise ---------- *)
Lemma list_ascii_app (a b : string) : list_ascii_of_string (a ++ b)%string = list_ascii_of_string a ++ list_ascii_of_string b.
Proof. induction a as [|ch a IH]; simpl; [reflexivity | now rewrite IH]. Qed.

Lemma list_ascii_concat (parts : list string) :
  list_ascii_of_string (String.concat "." parts) = join_l "."%char (map list_ascii_of_string parts).
Proof.
  induction parts as [|p rest IH]; [reflexivity|].
  destruct rest as [|q rest']; [reflexivity|].
  change (String.concat "." (p :: q :: rest')) with (p ++ "." ++ String.concat "." (q :: rest'))%string.
  rewrite !list_ascii_app, IH. reflexivity.
Qed.

Lemma trim_left_dollar_id s : starts_with_dollar s = false -> trim_left_dollar s = s.
Proof. destruct s as [|ch s]; [reflexivity|]. simpl. destruct ch as [[] [] [] [] [] [] [] []]; try reflexivity. discriminate. Qed.

Definition dot_free (s : string) : Prop := no_sep "."%char (list_ascii_of_string s).

Theorem hash_componentwise r parts :
  parts <> [] -> Forall dot_free parts -> starts_with_dollar (String.concat "." parts) = false ->
  hash_name r (String.concat "." parts) = String.concat "." (map (pseudo r) parts).
Proof.
  intros Hne Hdf Hd. unfold hash_name, split_string.
  rewrite trim_left_dollar_id by assumption.
  rewrite list_ascii_concat, split_join.
  - f_equal. f_equal. rewrite map_map. rewrite <- (map_id parts) at 2.
    apply map_ext. intros a. apply string_of_list_ascii_of_string.
  - destruct parts; [contradiction|discriminate].
  - rewrite Forall_map. exact Hdf.
Qed.

(* the number of components (path depth) is preserved *)
Lemma hash_depth r s : List.length (split_string "." (trim_left_dollar s)) =
                       List.length (map (pseudo r) (split_string "." (trim_left_dollar s))).
Proof. now rewrite map_length. Qed.
