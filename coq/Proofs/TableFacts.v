(* From a lookup result to a table entry: whatever getOp / traverseMapPath return with an
   operator TYPE comes from an entry of the tables whose key is the LAST key of the path.
   This is the bridge from the finite obligation on the (regenerated) tables to all key paths. *)
From Coq Require Import Lia.
From Model Require Import Json Tables.
Close Scope string_scope. Open Scope list_scope.

(* all (key, type) leaf entries at any depth below a meta *)
Fixpoint keys_of (m : meta) : list (string * otype) :=
  match m with
  | MMap l => flat_map (fun km => (match snd km with MT t => [(fst km, t)] | _ => [] end) ++ keys_of (snd km)) l
  | _ => []
  end.

Definition all_entries (tb : tables) : list (string * otype) :=
  keys_of (MMap (Agg tb)) ++ keys_of (MMap (Core tb)) ++ keys_of (MMap (MapDefs tb)) ++
  keys_of (MMap (Search tb)) ++ keys_of (MMap (SearchAgg tb)).

(* entries that are NOT at the top level of a table: arguments of map-typed operators *)
Definition sub_keys (l : list (string * meta)) : list (string * otype) := flat_map (fun km => keys_of (snd km)) l.

Definition sub_entries (tb : tables) : list (string * otype) :=
  sub_keys (Agg tb) ++ sub_keys (Core tb) ++ sub_keys (MapDefs tb) ++ sub_keys (Search tb) ++ sub_keys (SearchAgg tb).

Lemma oget_In {A} (l : list (string * A)) k v : oget l k = Some v -> In (k, v) l.
Proof.
  induction l as [|[k' v'] l IH]; simpl; [discriminate|].
  destruct (String.eqb k' k) eqn:E; intros H.
  - apply String.eqb_eq in E. injection H as ->. subst. now left.
  - right. auto.
Qed.

Lemma keys_of_leaf l k t : oget l k = Some (MT t) -> In (k, t) (keys_of (MMap l)).
Proof.
  intros H. apply oget_In in H. simpl. apply in_flat_map. exists (k, MT t). split; [exact H|]. simpl. now left.
Qed.

Lemma keys_of_sub l k l' : oget l k = Some (MMap l') -> incl (keys_of (MMap l')) (keys_of (MMap l)).
Proof.
  intros H. apply oget_In in H. intros x Hx. simpl. apply in_flat_map. exists (k, MMap l'). split; [exact H|]. exact Hx.
Qed.

Section Facts.
Variable tb : tables.

Definition within (l : list (string * meta)) : Prop := incl (keys_of (MMap l)) (all_entries tb).

Lemma within_Agg : within (Agg tb).       Proof. unfold within, all_entries. intros x H. apply in_or_app. now left. Qed.
Lemma within_Core : within (Core tb).     Proof. unfold within, all_entries. intros x H. apply in_or_app. right. apply in_or_app. now left. Qed.
Lemma within_MapDefs : within (MapDefs tb). Proof. unfold within, all_entries. intros x H. do 2 (apply in_or_app; right). apply in_or_app. now left. Qed.
Lemma within_Search : within (Search tb). Proof. unfold within, all_entries. intros x H. do 3 (apply in_or_app; right). apply in_or_app. now left. Qed.
Lemma within_SearchAgg : within (SearchAgg tb). Proof. unfold within, all_entries. intros x H. do 4 (apply in_or_app; right). exact H. Qed.

Lemma within_sub l k l' : within l -> oget l k = Some (MMap l') -> within l'.
Proof. intros Hw H x Hx. apply Hw. eapply keys_of_sub; eauto. Qed.

(* maps that are the value of some entry: all their entries are argument-level entries *)
Definition within2 (l : list (string * meta)) : Prop := incl (keys_of (MMap l)) (sub_entries tb).

Lemma sub_keys_in l k l' : oget l k = Some (MMap l') -> incl (keys_of (MMap l')) (sub_keys l).
Proof. intros H x Hx. apply oget_In in H. unfold sub_keys. apply in_flat_map. exists (k, MMap l'). auto. Qed.

Lemma sub_keys_keys l : incl (sub_keys l) (keys_of (MMap l)).
Proof.
  intros x Hx. unfold sub_keys in Hx. apply in_flat_map in Hx. destruct Hx as (km & Hin & Hx).
  simpl. apply in_flat_map. exists km. split; [exact Hin|]. apply in_or_app. now right.
Qed.

Lemma sub_entries_all x : In x (sub_entries tb) -> In x (all_entries tb).
Proof.
  unfold sub_entries, all_entries. intros H.
  apply in_app_or in H. destruct H as [H|H]; [apply sub_keys_keys in H; apply in_or_app; now left|].
  apply in_or_app; right.
  apply in_app_or in H. destruct H as [H|H]; [apply sub_keys_keys in H; apply in_or_app; now left|].
  apply in_or_app; right.
  apply in_app_or in H. destruct H as [H|H]; [apply sub_keys_keys in H; apply in_or_app; now left|].
  apply in_or_app; right.
  apply in_app_or in H. destruct H as [H|H]; [apply sub_keys_keys in H; apply in_or_app; now left|].
  apply in_or_app; right. now apply sub_keys_keys.
Qed.

Lemma within2_within l : within2 l -> within l.
Proof. intros H x Hx. apply sub_entries_all. now apply H. Qed.

Lemma within2_sub l k l' : within2 l -> oget l k = Some (MMap l') -> within2 l'.
Proof. intros Hw H x Hx. apply Hw. eapply keys_of_sub; eauto. Qed.

Lemma root_sub2 (root : list (string * meta)) k l' :
  incl (sub_keys root) (sub_entries tb) -> oget root k = Some (MMap l') -> within2 l'.
Proof. intros Hr H x Hx. apply Hr. eapply sub_keys_in; eauto. Qed.

Lemma sub_Agg : incl (sub_keys (Agg tb)) (sub_entries tb).       Proof. unfold sub_entries. intros x H. apply in_or_app. now left. Qed.
Lemma sub_Core : incl (sub_keys (Core tb)) (sub_entries tb).     Proof. unfold sub_entries. intros x H. apply in_or_app. right. apply in_or_app. now left. Qed.
Lemma sub_MapDefs : incl (sub_keys (MapDefs tb)) (sub_entries tb). Proof. unfold sub_entries. intros x H. do 2 (apply in_or_app; right). apply in_or_app. now left. Qed.
Lemma sub_Search : incl (sub_keys (Search tb)) (sub_entries tb). Proof. unfold sub_entries. intros x H. do 3 (apply in_or_app; right). apply in_or_app. now left. Qed.
Lemma sub_SearchAgg : incl (sub_keys (SearchAgg tb)) (sub_entries tb). Proof. unfold sub_entries. intros x H. do 4 (apply in_or_app; right). exact H. Qed.

Lemma within_leaf l k t : within l -> oget l k = Some (MT t) -> In (k, t) (all_entries tb).
Proof. intros Hw H. apply Hw. now apply keys_of_leaf. Qed.

(* a map the lookups may start from: its own entries are table entries and the entries of its
   map-valued members are argument-level entries *)
Definition rootish (l : list (string * meta)) : Prop := within l /\ incl (sub_keys l) (sub_entries tb).

Lemma rootish_Agg : rootish (Agg tb).             Proof. split; [apply within_Agg | apply sub_Agg]. Qed.
Lemma rootish_Core : rootish (Core tb).           Proof. split; [apply within_Core | apply sub_Core]. Qed.
Lemma rootish_MapDefs : rootish (MapDefs tb).     Proof. split; [apply within_MapDefs | apply sub_MapDefs]. Qed.
Lemma rootish_Search : rootish (Search tb).       Proof. split; [apply within_Search | apply sub_Search]. Qed.
Lemma rootish_SearchAgg : rootish (SearchAgg tb). Proof. split; [apply within_SearchAgg | apply sub_SearchAgg]. Qed.

Lemma within2_rootish l : within2 l -> rootish l.
Proof. intros H. split; [now apply within2_within|]. intros x Hx. apply H. now apply sub_keys_keys. Qed.

Lemma rootish_sub l k l' : rootish l -> oget l k = Some (MMap l') -> within2 l'.
Proof. intros [_ Hr] H. eapply root_sub2; eauto. Qed.

Lemma rootish_leaf l k t : rootish l -> oget l k = Some (MT t) -> In (k, t) (all_entries tb).
Proof. intros [Hw _] H. eapply within_leaf; eauto. Qed.

(* a result that is "good": a type that is an entry under key k, or a map that is the value of an entry *)
Definition good (k : string) (m : meta) : Prop :=
  match m with
  | MT t => t = OperatorMap \/ In (k, t) (all_entries tb)
  | MMap l => within2 l
  | MNil => True
  end.

Definition meta_rootish (m : meta) : Prop := match m with MMap l => rootish l | _ => True end.

Lemma oget_good0 root k m : rootish root -> oget root k = Some m -> good k m.
Proof.
  intros Hr H. destruct m as [t|l|]; simpl; auto.
  - right. eapply rootish_leaf; eauto.
  - eapply rootish_sub; eauto.
Qed.

(* the loop *)
Lemma tloop_spec path cur :
  meta_rootish cur ->
  match tloop path cur with
  | LDone r => r = NotFound
  | LRestart rest => rest <> [] /\ exists pre, path = pre ++ rest
  | LEnd c None => (path = [] /\ c = cur) \/ (path <> [] /\ good (last path ""%string) c)
  | LEnd c (Some _) => c = MT OperatorMap
  end.
Proof.
  revert cur. induction path as [|part rest IH]; intros cur Hw; simpl.
  - left. auto.
  - destruct cur as [t | l | ]; try reflexivity.
    destruct (oget l part) as [val|] eqn:Eo; [|reflexivity].
    destruct ((match rest with [] => false | _ => true end) && is_ty val OperatorArray) eqn:E1.
    + apply andb_prop in E1. destruct E1 as [E1 _]. split; [destruct rest; [discriminate|discriminate]|].
      exists [part]. reflexivity.
    + destruct (is_ty val OperatorMap) eqn:E2.
      * destruct val as [t| |]; simpl in E2; try discriminate. destruct t; try discriminate. reflexivity.
      * assert (Hvw : meta_rootish val).
        { destruct val as [t|l'|]; simpl; auto. apply within2_rootish. eapply rootish_sub; eauto. }
        specialize (IH val Hvw).
        destruct (tloop rest val) as [r | rest' | c [cut|]] eqn:Et; auto.
        -- destruct IH as [Hne [pre ->]]. split; [exact Hne|]. exists (part :: pre). reflexivity.
        -- right. split; [discriminate|].
           destruct IH as [[-> ->] | [Hne Hg]].
           ++ simpl. eapply oget_good0; eauto.
           ++ destruct rest; [contradiction|]. exact Hg.
Qed.

Lemma rea_nonempty l marker : l <> [] -> remove_element_after l marker <> [].
Proof.
  destruct l as [|v r]; [contradiction|]. intros _. simpl. destruct r as [|w r']; [discriminate|].
  destruct (String.eqb v marker); discriminate.
Qed.

Lemma rea_cons2 v w r m :
  remove_element_after (v :: w :: r) m = if String.eqb v m then v :: r else v :: remove_element_after (w :: r) m.
Proof. reflexivity. Qed.

Lemma rebi_cons2 v x xs m :
  remove_elements_before_including (v :: x :: xs) m = if String.eqb v m then x :: xs else remove_elements_before_including (x :: xs) m.
Proof. reflexivity. Qed.

Lemma rebi_single v m : remove_elements_before_including [v] m = [].
Proof. reflexivity. Qed.

Lemma rebi_rea_last path cutp d :
  remove_elements_before_including (remove_element_after path cutp) cutp <> [] ->
  last (remove_elements_before_including (remove_element_after path cutp) cutp) d = last path d.
Proof.
  induction path as [|v r IH]; [simpl; contradiction|].
  destruct r as [|w r'].
  - simpl. contradiction.
  - rewrite rea_cons2. destruct (String.eqb v cutp) eqn:E.
    + destruct r' as [|x r'']; [rewrite rebi_single; contradiction|].
      rewrite rebi_cons2, E. intros _. reflexivity.
    + assert (Hne : remove_element_after (w :: r') cutp <> []) by (apply rea_nonempty; discriminate).
      destruct (remove_element_after (w :: r') cutp) as [|x xs] eqn:Er; [contradiction|].
      rewrite rebi_cons2, E. intros H.
      specialize (IH H). rewrite IH. reflexivity.
Qed.

Lemma last_app_ne {A} (pre rest : list A) d : rest <> [] -> last (pre ++ rest) d = last rest d.
Proof.
  intros H. induction pre as [|x pre IH]; [reflexivity|].
  simpl. destruct (pre ++ rest) eqn:E; [|exact IH].
  apply app_eq_nil in E. destruct E as [_ E]. contradiction.
Qed.

Lemma traverse_good fuel : forall path root search m,
  rootish root -> path <> [] -> traverse tb fuel path root search = Found m -> good (last path ""%string) m.
Proof.
  induction fuel as [|fuel IH]; intros path root search m Hw Hne H; simpl in H; [discriminate|].
  pose proof (tloop_spec path (MMap root) Hw) as Hs.
  destruct (tloop path (MMap root)) as [r | rest | c [cutp|]] eqn:Et.
  - subst. discriminate.
  - destruct Hs as [Hrne [pre ->]]. rewrite last_app_ne by exact Hrne.
    eapply IH; [| exact Hrne | exact H]. destruct search; [apply rootish_Search | apply rootish_Core].
  - subst c.
    destruct (Nat.ltb _ _) eqn:El.
    + destruct (oget (MapDefs tb) cutp) as [[t|mm|]|] eqn:Eo; try (injection H as <-; simpl; auto).
      set (newp := remove_elements_before_including (remove_element_after path cutp) cutp) in *.
      destruct newp as [|x xs] eqn:En.
      * (* empty new path: the result is the map itself *)
        destruct fuel; simpl in H; [discriminate|]. injection H as <-. simpl. eapply rootish_sub; [apply rootish_MapDefs | exact Eo].
      * rewrite <- En in H. rewrite <- (rebi_rea_last path cutp) by (fold newp; rewrite En; discriminate).
        fold newp. eapply IH; [| rewrite En; discriminate | exact H]. apply within2_rootish. eapply rootish_sub; [apply rootish_MapDefs | exact Eo].
    + injection H as <-. simpl. auto.
  - destruct Hs as [[-> _] | [_ Hg]]; [contradiction|].
    destruct c; try discriminate; injection H as <-; exact Hg.
Qed.

Lemma last_snoc (init : list string) (lst d : string) : last (init ++ [lst]) d = lst.
Proof. rewrite last_app_ne by discriminate. reflexivity. Qed.

Lemma oget_good root k m : rootish root -> oget root k = Some m -> good k m.
Proof.
  intros Hr H. destruct m as [t|l|]; simpl; auto.
  - right. eapply rootish_leaf; eauto.
  - eapply rootish_sub; eauto.
Qed.

Theorem get_op_good init lst search m : get_op tb init lst search = Some m -> good lst m.
Proof.
  unfold get_op, traverse_top. destruct search.
  - destruct (traverse tb _ (init ++ [lst]) (SearchAgg tb) true) as [m'| |] eqn:Et.
    + intros H. injection H as <-. rewrite <- (last_snoc init lst ""%string).
      eapply traverse_good; [apply rootish_SearchAgg | destruct init; discriminate | exact Et].
    + intros H. eapply oget_good; [apply rootish_Search | exact H].
    + intros H. eapply oget_good; [apply rootish_Search | exact H].
  - destruct (oget (Core tb) lst) as [m'|] eqn:Eo.
    + intros H. injection H as <-. eapply oget_good; [apply rootish_Core | exact Eo].
    + destruct (traverse tb _ (init ++ [lst]) (Agg tb) false) as [m'| |] eqn:Et; try discriminate.
      intros H. injection H as <-. rewrite <- (last_snoc init lst ""%string).
      eapply traverse_good; [apply rootish_Agg | destruct init; discriminate | exact Et].
Qed.

End Facts.
