(* Number literals: each part of parse_num consumes a prefix made of number characters, and is not
   affected by what follows a delimiter (',' ']' '}'). *)
From Coq Require Import NArith List Ascii String Bool Lia.
From Model Require Import JsonText.
Import ListNotations.
Open Scope char_scope. Open Scope list_scope.

Definition numchar (ch : ascii) : Prop :=
  is_digit ch = true \/ In ch ["-"; "+"; "."; "e"; "E"].

Definition delim (c : ascii) : Prop := c = "," \/ c = "]" \/ c = "}".

Lemma m_minus {A} (c0 : ascii) (l0 : list ascii) (x : list ascii -> A) (y : A) :
  Ascii.eqb c0 "-" = false -> (match c0 :: l0 with "-" :: r0 => x r0 | _ => y end) = y.
Proof. intros H. destruct c0 as [[] [] [] [] [] [] [] []]; try reflexivity. discriminate H. Qed.

Lemma m_dot {A} (c0 : ascii) (l0 : list ascii) (x : list ascii -> A) (y : A) :
  Ascii.eqb c0 "." = false -> (match c0 :: l0 with "." :: r0 => x r0 | _ => y end) = y.
Proof. intros H. destruct c0 as [[] [] [] [] [] [] [] []]; try reflexivity. discriminate H. Qed.

Lemma m_pm {A} (c0 : ascii) (l0 : list ascii) (a b : list ascii -> A) (y : A) :
  Ascii.eqb c0 "+" = false -> Ascii.eqb c0 "-" = false ->
  (match c0 :: l0 with "+" :: r0 => a r0 | "-" :: r0 => b r0 | _ => y end) = y.
Proof. intros H1 H2. destruct c0 as [[] [] [] [] [] [] [] []]; try reflexivity; discriminate. Qed.

Lemma delim_facts c : delim c ->
  is_digit c = false /\ Ascii.eqb c "-" = false /\ Ascii.eqb c "." = false /\ Ascii.eqb c "+" = false /\
  Ascii.eqb c "e" = false /\ Ascii.eqb c "E" = false /\ is_ws c = false.
Proof. intros [-> | [-> | ->]]; vm_compute; repeat split. Qed.

(* ---------- take_digits ---------- *)
Lemma take_digits_spec l : l = fst (take_digits l) ++ snd (take_digits l) /\ Forall numchar (fst (take_digits l)).
Proof.
  induction l as [|ch r IH]; simpl; [split; [reflexivity | constructor]|].
  destruct (is_digit ch) eqn:E.
  - destruct (take_digits r) as [d rest]. simpl in *. destruct IH as [IH1 IH2]. split; [now rewrite <- IH1|].
    constructor; [now left | exact IH2].
  - simpl. split; [reflexivity | constructor].
Qed.

Lemma take_digits_eq l : l = fst (take_digits l) ++ snd (take_digits l).
Proof. apply take_digits_spec. Qed.

Lemma take_digits_ext l c t : is_digit c = false ->
  take_digits (l ++ c :: t) = (fst (take_digits l), snd (take_digits l) ++ c :: t).
Proof.
  intros Hc. induction l as [|ch r IH]; simpl; [now rewrite Hc|].
  destruct (is_digit ch); [|reflexivity]. rewrite IH. destruct (take_digits r). reflexivity.
Qed.

(* ---------- the parts: consumed prefix, characters ---------- *)
Lemma num_sign_spec l : l = fst (num_sign l) ++ snd (num_sign l) /\ Forall numchar (fst (num_sign l)).
Proof.
  unfold num_sign. destruct l as [|c0 l0]; [split; [reflexivity | constructor]|].
  destruct (Ascii.eqb c0 "-") eqn:E.
  - apply Ascii.eqb_eq in E. subst. split; [reflexivity|]. constructor; [right; simpl; auto | constructor].
  - rewrite (m_minus c0 l0 (fun r0 => (["-"], r0)) ([], c0 :: l0) E). split; [reflexivity | constructor].
Qed.

Lemma num_int_spec l x r : num_int l = Some (x, r) -> l = x ++ r /\ Forall numchar x /\ x <> [].
Proof.
  unfold num_int. destruct l as [|d r0]; [discriminate|]. destruct (is_digit d) eqn:Ed; [|discriminate]. cbn [negb].
  destruct (Ascii.eqb d "0").
  - intros H. injection H as <- <-. repeat split; [constructor; [now left | constructor] | discriminate].
  - intros H. pose proof (take_digits_spec (d :: r0)) as [H1 H2].
    destruct (take_digits (d :: r0)) as [x' r'] eqn:Et. injection H as <- <-. cbn [fst snd] in H1, H2.
    repeat split; auto. intros ->. simpl in Et. rewrite Ed in Et. destruct (take_digits r0); discriminate.
Qed.

Lemma num_frac_spec l x r : num_frac l = Some (x, r) -> l = x ++ r /\ Forall numchar x.
Proof.
  unfold num_frac. destruct l as [|c2 r2]; [intros H; injection H as <- <-; split; [reflexivity | constructor]|].
  destruct (Ascii.eqb c2 ".") eqn:E.
  - apply Ascii.eqb_eq in E. subst. pose proof (take_digits_spec r2) as [Hd1 Hd2]. destruct (take_digits r2) as [ds l3].
    destruct ds; [discriminate|]. intros H. injection H as <- <-. simpl in *. split; [now rewrite Hd1|].
    constructor; [right; simpl; auto | exact Hd2].
  - rewrite (m_dot c2 r2 (fun r2 => let (ds, l3) := take_digits r2 in match ds with [] => None | _ => Some ("." :: ds, l3) end) (Some ([], c2 :: r2)) E).
    intros H. injection H as <- <-. split; [reflexivity | constructor].
Qed.

Lemma exp_sign_spec l : l = fst (exp_sign l) ++ snd (exp_sign l) /\ Forall numchar (fst (exp_sign l)).
Proof.
  unfold exp_sign. destruct l as [|c3 r3]; [split; [reflexivity | constructor]|].
  destruct (Ascii.eqb c3 "+") eqn:E1; [apply Ascii.eqb_eq in E1; subst; split; [reflexivity | constructor; [right; simpl; auto | constructor]]|].
  destruct (Ascii.eqb c3 "-") eqn:E2; [apply Ascii.eqb_eq in E2; subst; split; [reflexivity | constructor; [right; simpl; auto | constructor]]|].
  rewrite (m_pm c3 r3 (fun r' => (["+"], r')) (fun r' => (["-"], r')) ([], c3 :: r3) E1 E2). split; [reflexivity | constructor].
Qed.

Lemma num_exp_spec l x r : num_exp l = Some (x, r) -> l = x ++ r /\ Forall numchar x.
Proof.
  unfold num_exp. destruct l as [|e r3]; [intros H; injection H as <- <-; split; [reflexivity | constructor]|].
  destruct (Ascii.eqb e "e" || Ascii.eqb e "E") eqn:Ee.
  - assert (He : numchar e).
    { apply orb_prop in Ee. destruct Ee as [Ee|Ee]; apply Ascii.eqb_eq in Ee; subst; right; simpl; auto 10. }
    pose proof (exp_sign_spec r3) as [Hs1 Hs2]. destruct (exp_sign r3) as [sg r4]. simpl in Hs1, Hs2.
    pose proof (take_digits_spec r4) as [Hd1 Hd2]. destruct (take_digits r4) as [ds l4]. simpl in Hd1, Hd2.
    destruct ds as [|d0 ds']; [discriminate|]. intros H. injection H as <- <-. split.
    + rewrite Hs1, Hd1. simpl. now rewrite <- app_assoc.
    + constructor; [exact He|]. apply Forall_app. split; auto.
  - intros H. injection H as <- <-. split; [reflexivity | constructor].
Qed.

Lemma parse_num_spec l lit r : parse_num l = Some (lit, r) -> l = lit ++ r /\ Forall numchar lit /\ lit <> [].
Proof.
  unfold parse_num. pose proof (num_sign_spec l) as [Hs1 Hs2]. destruct (num_sign l) as [sign l1]. simpl in Hs1, Hs2.
  destruct (num_int l1) as [[ip l2]|] eqn:Ei; [|discriminate]. apply num_int_spec in Ei. destruct Ei as (Hi1 & Hi2 & Hi3).
  destruct (num_frac l2) as [[fp l3]|] eqn:Ef; [|discriminate]. apply num_frac_spec in Ef. destruct Ef as (Hf1 & Hf2).
  destruct (num_exp l3) as [[ep l4]|] eqn:Ee; [|discriminate]. apply num_exp_spec in Ee. destruct Ee as (He1 & He2).
  intros H. injection H as <- <-. repeat split.
  - rewrite Hs1, Hi1, Hf1, He1. now rewrite <- !app_assoc.
  - repeat (apply Forall_app; split); auto.
  - intros H. apply app_eq_nil in H. destruct H as [_ H]. apply app_eq_nil in H. destruct H as [H _]. contradiction.
Qed.

Lemma parse_num_chars l lit r : parse_num l = Some (lit, r) -> Forall numchar lit.
Proof. intros H. now apply parse_num_spec in H. Qed.

(* ---------- what follows a delimiter does not matter ---------- *)
Definition ext (c : ascii) (t : list ascii) (o : option (list ascii * list ascii)) : option (list ascii * list ascii) :=
  match o with Some (x, r) => Some (x, r ++ c :: t) | None => None end.

Lemma num_sign_ext l c t : delim c -> num_sign (l ++ c :: t) = (fst (num_sign l), snd (num_sign l) ++ c :: t).
Proof.
  intros Hd. apply delim_facts in Hd. destruct Hd as (_ & Hm & _). unfold num_sign. destruct l as [|c0 l0]; [change ([] ++ c :: t) with (c :: t) | change ((c0 :: l0) ++ c :: t) with (c0 :: (l0 ++ c :: t))]; cbv beta iota.
  - now rewrite (m_minus c t (fun r0 => (["-"], r0)) ([], c :: t) Hm).
  - destruct (Ascii.eqb c0 "-") eqn:E.
    + apply Ascii.eqb_eq in E. subst. reflexivity.
    + rewrite (m_minus c0 (l0 ++ c :: t) (fun r0 => (["-"], r0)) ([], c0 :: l0 ++ c :: t) E).
      now rewrite (m_minus c0 l0 (fun r0 => (["-"], r0)) ([], c0 :: l0) E).
Qed.

Lemma num_int_ext l c t : delim c -> num_int (l ++ c :: t) = ext c t (num_int l).
Proof.
  intros Hd. apply delim_facts in Hd. destruct Hd as (Hdg & _). unfold num_int. destruct l as [|d r0]; [change ([] ++ c :: t) with (c :: t) | change ((d :: r0) ++ c :: t) with (d :: (r0 ++ c :: t))]; cbv beta iota.
  - now rewrite Hdg.
  - destruct (is_digit d) eqn:Ed; [|reflexivity]. cbn [negb]. destruct (Ascii.eqb d "0"); [reflexivity|].
    change (d :: r0 ++ c :: t) with ((d :: r0) ++ c :: t). rewrite take_digits_ext by exact Hdg.
    destruct (take_digits (d :: r0)). reflexivity.
Qed.

Lemma num_frac_ext l c t : delim c -> num_frac (l ++ c :: t) = ext c t (num_frac l).
Proof.
  intros Hd. apply delim_facts in Hd. destruct Hd as (Hdg & _ & Hdot & _). unfold num_frac. destruct l as [|c2 r2]; [change ([] ++ c :: t) with (c :: t) | change ((c2 :: r2) ++ c :: t) with (c2 :: (r2 ++ c :: t))]; cbv beta iota.
  - now rewrite (m_dot c t (fun r2 => let (ds, l3) := take_digits r2 in match ds with [] => None | _ => Some ("." :: ds, l3) end) (Some ([], c :: t)) Hdot).
  - destruct (Ascii.eqb c2 ".") eqn:E.
    + apply Ascii.eqb_eq in E. subst. rewrite take_digits_ext by exact Hdg. destruct (take_digits r2) as [ds l3]. simpl. destruct ds; reflexivity.
    + rewrite (m_dot c2 (r2 ++ c :: t) (fun r2 => let (ds, l3) := take_digits r2 in match ds with [] => None | _ => Some ("." :: ds, l3) end) (Some ([], c2 :: r2 ++ c :: t)) E).
      now rewrite (m_dot c2 r2 (fun r2 => let (ds, l3) := take_digits r2 in match ds with [] => None | _ => Some ("." :: ds, l3) end) (Some ([], c2 :: r2)) E).
Qed.

Lemma exp_sign_ext l c t : delim c -> exp_sign (l ++ c :: t) = (fst (exp_sign l), snd (exp_sign l) ++ c :: t).
Proof.
  intros Hd. apply delim_facts in Hd. destruct Hd as (_ & Hm & _ & Hp & _). unfold exp_sign. destruct l as [|c3 r3]; [change ([] ++ c :: t) with (c :: t) | change ((c3 :: r3) ++ c :: t) with (c3 :: (r3 ++ c :: t))]; cbv beta iota.
  - now rewrite (m_pm c t (fun r' => (["+"], r')) (fun r' => (["-"], r')) ([], c :: t) Hp Hm).
  - destruct (Ascii.eqb c3 "+") eqn:E1; [apply Ascii.eqb_eq in E1; subst; reflexivity|].
    destruct (Ascii.eqb c3 "-") eqn:E2; [apply Ascii.eqb_eq in E2; subst; reflexivity|].
    rewrite (m_pm c3 (r3 ++ c :: t) (fun r' => (["+"], r')) (fun r' => (["-"], r')) ([], c3 :: r3 ++ c :: t) E1 E2).
    now rewrite (m_pm c3 r3 (fun r' => (["+"], r')) (fun r' => (["-"], r')) ([], c3 :: r3) E1 E2).
Qed.

Lemma num_exp_ext l c t : delim c -> num_exp (l ++ c :: t) = ext c t (num_exp l).
Proof.
  intros Hd. pose proof (delim_facts c Hd) as (Hdg & _ & _ & _ & He1 & He2 & _). unfold num_exp. destruct l as [|e r3]; [change ([] ++ c :: t) with (c :: t) | change ((e :: r3) ++ c :: t) with (e :: (r3 ++ c :: t))]; cbv beta iota.
  - now rewrite He1, He2.
  - destruct (Ascii.eqb e "e" || Ascii.eqb e "E"); [|reflexivity].
    rewrite exp_sign_ext by exact Hd. destruct (exp_sign r3) as [sg r4]. cbn [fst snd].
    rewrite take_digits_ext by exact Hdg. destruct (take_digits r4) as [ds l4]. cbn [fst snd]. destruct ds; reflexivity.
Qed.

Lemma parse_num_ext l c t : delim c -> parse_num (l ++ c :: t) = ext c t (parse_num l).
Proof.
  intros Hd. unfold parse_num. rewrite num_sign_ext by exact Hd. destruct (num_sign l) as [sign l1]. cbn [fst snd].
  rewrite num_int_ext by exact Hd. destruct (num_int l1) as [[ip l2]|]; [|reflexivity]. cbn [ext].
  rewrite num_frac_ext by exact Hd. destruct (num_frac l2) as [[fp l3]|]; [|reflexivity]. cbn [ext].
  rewrite num_exp_ext by exact Hd. destruct (num_exp l3) as [[ep l4]|]; reflexivity.
Qed.

(* a valid literal is read back exactly, whatever follows the delimiter; and alone *)
Lemma valid_number_text lit : valid_number lit = true ->
  parse_num (list_ascii_of_string lit) = Some (list_ascii_of_string lit, []).
Proof.
  unfold valid_number. destruct (parse_num (list_ascii_of_string lit)) as [[l r]|] eqn:E; [|discriminate].
  destruct r; [|discriminate]. intros _. apply parse_num_spec in E. destruct E as (E & _). rewrite app_nil_r in E. now rewrite <- E.
Qed.

Lemma parse_num_valid lit c t : valid_number lit = true -> delim c ->
  parse_num (list_ascii_of_string lit ++ c :: t) = Some (list_ascii_of_string lit, c :: t).
Proof. intros Hv Hd. rewrite parse_num_ext by exact Hd. now rewrite (valid_number_text lit Hv). Qed.

Lemma valid_number_head lit : valid_number lit = true ->
  exists ch r, list_ascii_of_string lit = ch :: r /\ (is_digit ch = true \/ ch = "-").
Proof.
  intros Hv. apply valid_number_text in Hv. unfold parse_num in Hv.
  pose proof (num_sign_spec (list_ascii_of_string lit)) as [Hs _]. unfold num_sign in *.
  destruct (list_ascii_of_string lit) as [|c0 l0]; [discriminate|]. exists c0, l0. split; [reflexivity|].
  destruct (Ascii.eqb c0 "-") eqn:E; [apply Ascii.eqb_eq in E; auto|]. left.
  rewrite (m_minus c0 l0 (fun r0 => (["-"], r0)) ([], c0 :: l0) E) in Hv.
  unfold num_int in Hv. destruct (is_digit c0); [reflexivity | discriminate].
Qed.
