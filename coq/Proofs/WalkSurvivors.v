(* C01 for all three walkers WITHOUT any condition on key names. [wcl] replays, along an index path, exactly the
   table lookups the walkers make (getOp on the key path, the argument map of a map-typed operator, the core table in
   the query walker); on a path where none of them answers field-path / namespace / exempt - and no list-valued
   argument holds a non-list - the leaf found in the output is the strong verdict for the input leaf. What survives is
   therefore characterised by the tables alone (and the obligation tables_ok_exempt says which entries those are);
   a user field may carry any name. *)
From Coq Require Import Lia.
From Model Require Import Json Tables Walker.
From Proofs Require Import JsonFacts TableFacts WalkerRel Survivors QuerySurvivors.
Close Scope string_scope. Open Scope list_scope.

Section WS.
Variable tb : tables.
Variable cs : consts.
Variable c : cfg.
Variable is_email : string -> bool.
Variable A : actions.
Hypothesis Hre : re c = None.

Notation W := (walk tb cs c is_email A).
Notation strong := (strong cs c).
Notation exempt_key := (exempt_key tb).
Notation core_of := (core_of tb).

(* the scalar step keeps nothing at (init, lst) *)
Definition ne (init : list string) (lst : string) (s : bool) : bool :=
  negb (exempt_key init lst s) && negb (is_subtype init lst).

Definition is_container (t : json) : bool := match t with JObj _ | JArr _ => true | _ => false end.

Section Rec.
Variable rec : mode -> json -> list nat -> bool.

(* a value handed to a walker in mode m: a container is walked, a bare leaf goes through p_leaf (pipeline walker only) *)
Definition sub_cl (m : mode) (kp : list string) (s : bool) (x : json) (r : list nat) : bool :=
  match x with
  | JObj _ | JArr _ => rec m x r
  | JNull => true
  | JStr st => starts_with_dollar st || ne kp "" s
  | _ => ne kp "" s
  end.

Definition elems_cl (m : mode) (kp : list string) (s : bool) (lx : list json) (r : list nat) : bool :=
  match r with
  | [] => true
  | j :: r' => match nth_error lx j with Some e => sub_cl m kp s e r' | None => true end
  end.

(* walk_value *)
Definition wv_cl (s : bool) (kp sinit : list string) (slast : string) (v : json) (r : list nat) : bool :=
  match v with
  | JObj _ => rec (MP false kp s) v r
  | JArr lx => rec (MA "" false s (sel_of c lx) kp) v r
  | _ => ne sinit slast s
  end.

(* pipeline_map_member *)
Definition pmm_cl (subk : string) (subv : json) (r : list nat) : bool :=
  match subv with
  | JArr lx => match r with
               | [] => true
               | j :: r' => match nth_error lx j with Some st => sub_cl (MP false [] (is_in_search_stage tb st)) [] (is_in_search_stage tb st) st r' | None => true end
               end
  | JObj _ => rec (MP false [] false) subv r
  | _ => ne [] subk false
  end.

(* sub_member *)
Definition subm_cl (s : bool) (nkp : list string) (m : list (string * meta)) (subk : string) (subv : json) (r : list nat) : bool :=
  match oget m subk with
  | Some (MT FieldName) | Some (MT Namespace) | Some (MT Exempt) => false
  | Some (MT OperatorArray) => match subv with JArr lx => elems_cl (MP false nkp s) nkp s lx r | _ => false end
  | Some (MT Pipeline) => match subv with JArr lx => rec (MA "" false s (sel_of c lx) nkp) subv r | _ => false end
  | _ => wv_cl s (nkp ++ [subk]) nkp subk subv r
  end.

(* p_generic *)
Definition pgen_cl (s : bool) (kp : list string) (k : string) (v : json) (r : list nat) : bool :=
  match v with
  | JStr st => starts_with_dollar st || ne kp k s
  | _ => wv_cl s (kp ++ [k]) kp k v r
  end.

(* p_member *)
Definition pmem_cl (s : bool) (kp : list string) (k : string) (v : json) (r : list nat) : bool :=
  let nkp := kp ++ [k] in
  match get_op tb kp k s with
  | Some (MT FieldName) | Some (MT Namespace) | Some (MT Exempt) => false
  | Some (MT Pipeline) =>
      match v with
      | JArr lx => rec (MA "" false s (sel_of c lx) nkp) v r
      | JObj vm => match r with
                   | [] => true
                   | j :: r' => match nth_error vm j with Some (k0, v0) => pmm_cl k0 v0 r' | None => true end
                   end
      | _ => false
      end
  | Some (MT OperatorArray) => match v with JArr lx => elems_cl (MP false nkp s) nkp s lx r | _ => false end
  | Some (MMap m) =>
      match v with
      | JObj vm => match r with
                   | [] => true
                   | j :: r' => match nth_error vm j with Some (subk, subv) => subm_cl s nkp m subk subv r' | None => true end
                   end
      | _ => pgen_cl s kp k v r
      end
  | _ => pgen_cl s kp k v r
  end.

(* one element of an array handled by the array walker *)
Definition item_cl (pk : string) (s sel : bool) (kp : list string) (x : json) (r : list nat) : bool :=
  match x with
  | JObj _ => rec (MQ false s MNil kp) x r
  | JArr _ => rec (MA pk false s sel kp) x r
  | JNull => true
  | JStr st => starts_with_dollar st || ne [] pk s
  | _ => ne [] pk s
  end.

(* q_member *)
Definition qmem_cl (s : bool) (par : meta) (kp : list string) (k : string) (x : json) (r : list nat) : bool :=
  match x with
  | JObj _ => rec (MQ false s (core_of par k) (kp ++ [k])) x r
  | JArr lx => rec (MA k false s (sel_of c lx) (kp ++ [k])) x r
  | JNull => true
  | JStr st => starts_with_dollar st || (negb (is_ty (core_of par k) Exempt) && ne kp k s)
  | _ => negb (is_ty (core_of par k) Exempt) && ne kp k s
  end.

End Rec.

Fixpoint wcl (m : mode) (t : json) (p : list nat) {struct p} : bool :=
  match p with
  | [] => true
  | i :: r =>
    match t, m with
    | JObj l, MP false kp s => match nth_error l i with Some (k, x) => pmem_cl wcl s kp k x r | None => true end
    | JObj l, MQ false s par kp => match nth_error l i with Some (k, x) => qmem_cl wcl s par kp k x r | None => true end
    | JArr l, MP false kp s => match nth_error l i with Some x => item_cl wcl "" s (sel_of c l) kp x r | None => true end
    | JArr l, MA pk false s sel kp => match nth_error l i with Some x => item_cl wcl pk s sel kp x r | None => true end
    | _, _ => false
    end
  end.


Definition wmode (m : mode) : Prop :=
  match m with MP rfn _ _ => rfn = false | MQ rfn _ _ _ => rfn = false | MA _ rfn _ _ _ => rfn = false end.

Lemma p_op_none kp k s v : p_op tb c kp k s v = get_op tb kp k s.
Proof.
  unfold p_op. destruct (get_op tb kp k s) as [[t|om|]|]; try reflexivity.
  destruct v; try reflexivity. destruct s; [|reflexivity]. unfold augment_op. now rewrite Hre.
Qed.

Lemma ne_split init lst s : ne init lst s = true -> exempt_key init lst s = false /\ is_subtype init lst = false.
Proof. unfold ne. intros H. apply andb_prop in H. destruct H as [H1 H2]. apply Bool.negb_true_iff in H1, H2. auto. Qed.

Lemma leaf_ne init lst v s sel : is_leaf v -> ne init lst s = true ->
  exists d, strong v d /\ scalar tb cs c is_email A init lst v s sel = apply_verdict A d v.
Proof. intros Hl H. destruct (ne_split _ _ _ H). now apply (leaf_scalar tb cs c is_email A Hre). Qed.

Lemma container_path x r leaf : is_container x = true -> jget x r = Some leaf -> is_leaf leaf -> r <> [].
Proof. intros Hc Hg Hl ->. simpl in Hg. injection Hg as <-. destruct x; try discriminate; contradiction. Qed.

Lemma leaf_path x r leaf : is_leaf x -> jget x r = Some leaf -> r = [] /\ leaf = x.
Proof. intros Hl Hg. destruct r; [simpl in Hg; injection Hg as <-; auto|]. destruct x; try contradiction; discriminate. Qed.

Section Step.
Variable n : nat.
Hypothesis IH : forall r t m leaf, List.length r <= n -> wmode m -> nodup_keys t -> jget t r = Some leaf -> is_leaf leaf ->
  wcl m t r = true -> r <> [] -> exists d, strong leaf d /\ jget (W m t) r = Some (apply_verdict A d leaf).

Lemma sub_ok kp s x r leaf : List.length r <= n -> nodup_keys x -> jget x r = Some leaf -> is_leaf leaf ->
  sub_cl wcl (MP false kp s) kp s x r = true ->
  exists d, strong leaf d /\ jget (W (MP false kp s) x) r = Some (apply_verdict A d leaf).
Proof.
  intros Hr Hn Hg Hl Hc. destruct x as [| b | num | st | lx | lx] eqn:Ex;
    try (apply IH; auto; [reflexivity | eapply container_path; eauto; reflexivity]);
    destruct (leaf_path x r leaf) as [-> ->]; try (subst x; exact I); try (subst x; exact Hg); subst x; cbn [walk p_leaf jget].
  - exists VKeep. split; reflexivity.
  - cbn [sub_cl] in Hc. destruct (leaf_ne kp ""%string (JBool b) s false I Hc) as (d & Hs & E). exists d. split; [exact Hs | now rewrite E].
  - cbn [sub_cl] in Hc. destruct (leaf_ne kp ""%string (JNum num) s false I Hc) as (d & Hs & E). exists d. split; [exact Hs | now rewrite E].
  - cbn [sub_cl] in Hc. destruct (starts_with_dollar st) eqn:Ed.
    + exists VKeep. split; [right; auto | reflexivity].
    + cbn [orb] in Hc. destruct (leaf_ne kp ""%string (JStr st) s false I Hc) as (d & Hs & E). exists d. split; [exact Hs | now rewrite E].
Qed.

Lemma elems_ok kp s lx r leaf : List.length r <= n -> nodup_keys (JArr lx) -> jget (JArr lx) r = Some leaf -> is_leaf leaf ->
  elems_cl wcl (MP false kp s) kp s lx r = true ->
  exists d, strong leaf d /\ jget (JArr (map (fun e => W (MP false kp s) e) lx)) r = Some (apply_verdict A d leaf).
Proof.
  intros Hr Hn Hg Hl Hc. destruct r as [|j r']; [simpl in Hg; injection Hg as <-; contradiction|].
  cbn [jget elems_cl] in *. rewrite nth_error_map. destruct (nth_error lx j) as [e|] eqn:E; [|discriminate]. cbn [option_map].
  rewrite nodup_keys_arr in Hn. apply sub_ok; auto. simpl in Hr. lia. apply Hn. eapply nth_error_In; eauto.
Qed.

Lemma wv_ok s kp sinit slast v r leaf : List.length r <= n -> nodup_keys v -> jget v r = Some leaf -> is_leaf leaf ->
  wv_cl wcl s kp sinit slast v r = true ->
  exists d, strong leaf d /\ jget (walk_value tb cs c is_email A W false s kp sinit slast v) r = Some (apply_verdict A d leaf).
Proof.
  intros Hr Hn Hg Hl Hc. destruct v as [| b | num | st | lx | lx] eqn:Ex; cbn [walk_value wv_cl] in *;
    try (apply IH; auto; [reflexivity | eapply container_path; eauto; reflexivity]);
    destruct (leaf_path v r leaf) as [-> ->]; try (subst v; exact I); try (subst v; exact Hg); subst v; cbn [jget].
  - destruct (leaf_ne sinit slast JNull s false I Hc) as (d & Hs & E). exists d. split; [exact Hs | now rewrite E].
  - destruct (leaf_ne sinit slast (JBool b) s false I Hc) as (d & Hs & E). exists d. split; [exact Hs | now rewrite E].
  - destruct (leaf_ne sinit slast (JNum num) s false I Hc) as (d & Hs & E). exists d. split; [exact Hs | now rewrite E].
  - destruct (leaf_ne sinit slast (JStr st) s false I Hc) as (d & Hs & E). exists d. split; [exact Hs | now rewrite E].
Qed.

Lemma pmm_ok subk subv r leaf : List.length r <= n -> nodup_keys subv -> jget subv r = Some leaf -> is_leaf leaf ->
  pmm_cl wcl subk subv r = true ->
  exists d, strong leaf d /\ jget (pipeline_map_member tb cs c is_email A W false subk subv) r = Some (apply_verdict A d leaf).
Proof.
  intros Hr Hn Hg Hl Hc. destruct subv as [| b | num | st | lx | lx] eqn:Ex; cbn [pipeline_map_member pmm_cl] in *.
  1-4: destruct (leaf_path subv r leaf) as [-> ->]; try (subst subv; exact I); try (subst subv; exact Hg); subst subv; cbn [jget];
       match goal with |- context [scalar _ _ _ _ _ _ _ ?v _ _] => destruct (leaf_ne [] subk v false false I Hc) as (d & Hs & E); exists d; split; [exact Hs | now rewrite E] end.
  - destruct r as [|j r']; [simpl in Hg; injection Hg as <-; contradiction|].
    cbn [jget] in *. rewrite nth_error_map. destruct (nth_error lx j) as [e|] eqn:E; [|discriminate]. cbn [option_map].
    rewrite nodup_keys_arr in Hn. apply sub_ok; auto. simpl in Hr. lia. apply Hn. eapply nth_error_In; eauto.
  - apply IH; auto; [reflexivity | eapply container_path; eauto; reflexivity].
Qed.

Lemma subm_ok s nkp k m subk subv r leaf : List.length r <= n -> nodup_keys subv -> jget subv r = Some leaf -> is_leaf leaf ->
  subm_cl wcl s nkp m subk subv r = true ->
  exists d, strong leaf d /\ jget (snd (sub_member tb cs c is_email A W false s nkp k m subk subv)) r = Some (apply_verdict A d leaf).
Proof.
  intros Hr Hn Hg Hl Hc. unfold sub_member, subm_cl in *. cbn [andb].
  destruct (oget m subk) as [[[]|m'|]|]; cbn [snd]; try discriminate; try (now apply wv_ok).
  - (* Pipeline *) destruct subv as [| b | num | st | lx | lx]; try discriminate.
    apply IH; auto; [reflexivity | eapply container_path; eauto; reflexivity].
  - (* OperatorArray *) destruct subv as [| b | num | st | lx | lx]; try discriminate. now apply elems_ok.
Qed.

Lemma pgen_ok s kp k v r leaf : List.length r <= n -> nodup_keys v -> jget v r = Some leaf -> is_leaf leaf ->
  pgen_cl wcl s kp k v r = true ->
  exists d, strong leaf d /\ jget (p_generic tb cs c is_email A W false kp s k v) r = Some (apply_verdict A d leaf).
Proof.
  intros Hr Hn Hg Hl Hc. unfold p_generic, pgen_cl in *. destruct v as [| b | num | st | lx | lx]; try (now apply wv_ok).
  destruct (leaf_path (JStr st) r leaf I Hg) as [-> ->]. cbn [jget]. destruct (starts_with_dollar st) eqn:Ed; cbn [andb negb orb] in *.
  - exists VKeep. split; [right; auto | reflexivity].
  - destruct (leaf_ne kp k (JStr st) s false I Hc) as (d & Hs & E). exists d. split; [exact Hs | now rewrite E].
Qed.

Lemma fst_sub_member s nkp k m subk subv : fst (sub_member tb cs c is_email A W false s nkp k m subk subv) = subk.
Proof. unfold sub_member. cbn [andb]. destruct (oget m subk) as [[[]|m'|]|]; reflexivity. Qed.

Lemma fst_p_member kp s k v : fst (p_member tb cs c is_email A W false kp s k v) = k.
Proof. unfold p_member. destruct (p_op tb c kp k s v) as [[[]|m|]|]; try reflexivity. destruct v; reflexivity. Qed.

Lemma pmem_ok s kp k v r leaf : List.length r <= n -> nodup_keys v -> jget v r = Some leaf -> is_leaf leaf ->
  pmem_cl wcl s kp k v r = true ->
  exists d, strong leaf d /\ jget (snd (p_member tb cs c is_email A W false kp s k v)) r = Some (apply_verdict A d leaf).
Proof.
  intros Hr Hn Hg Hl Hc. unfold p_member, pmem_cl in *. rewrite p_op_none.
  destruct (get_op tb kp k s) as [[[]|m|]|]; cbn [snd]; try discriminate; try (now apply pgen_ok).
  - (* Pipeline *)
    destruct v as [| b | num | st | lx | vm]; try discriminate.
    + apply IH; auto; [reflexivity | eapply container_path; eauto; reflexivity].
    + pose proof Hn as Hn'. apply nodup_keys_obj in Hn'. destruct Hn' as [Hnd Hch].
      rewrite (build_nodup (map (fun kv => (fst kv, pipeline_map_member tb cs c is_email A W false (fst kv) (snd kv))) vm)) by (rewrite map_map; exact Hnd).
      destruct r as [|j r']; [simpl in Hg; injection Hg as <-; contradiction|].
      cbn [jget] in *. rewrite nth_error_map. destruct (nth_error vm j) as [[k0 v0]|] eqn:E; [|discriminate]. cbn [option_map fst snd] in *.
      apply pmm_ok; auto. simpl in Hr. lia. apply (Hch _ (nth_error_In _ _ E)).
  - (* OperatorArray *) destruct v as [| b | num | st | lx | vm]; try discriminate. now apply elems_ok.
  - (* operator map *)
    destruct v as [| b | num | st | lx | vm]; cbn [snd]; try (now apply pgen_ok).
    pose proof Hn as Hn'. apply nodup_keys_obj in Hn'. destruct Hn' as [Hnd Hch].
    rewrite (build_nodup (map (fun kv => sub_member tb cs c is_email A W false s (kp ++ [k]) k m (fst kv) (snd kv)) vm))
      by (rewrite map_map; rewrite (map_ext _ fst) by (intros; apply fst_sub_member); exact Hnd).
    destruct r as [|j r']; [simpl in Hg; injection Hg as <-; contradiction|].
    cbn [jget] in *. rewrite nth_error_map. destruct (nth_error vm j) as [[subk subv]|] eqn:E; [|discriminate]. cbn [option_map fst snd] in *.
    apply subm_ok; auto. simpl in Hr. lia. apply (Hch _ (nth_error_In _ _ E)).
Qed.

Lemma item_ok pk s sel kp x r leaf : List.length r <= n -> nodup_keys x -> jget x r = Some leaf -> is_leaf leaf ->
  item_cl wcl pk s sel kp x r = true ->
  exists d, strong leaf d /\ jget (arr_item tb cs c is_email A W pk false s sel kp x) r = Some (apply_verdict A d leaf).
Proof.
  intros Hr Hn Hg Hl Hc. destruct x as [| b | num | st | lx | lx] eqn:Ex; cbn [arr_item item_cl] in *;
    try (apply IH; auto; [reflexivity | eapply container_path; eauto; reflexivity]);
    destruct (leaf_path x r leaf) as [-> ->]; try (subst x; exact I); try (subst x; exact Hg); subst x; cbn [jget].
  - exists VKeep. split; reflexivity.
  - destruct (leaf_ne [] pk (JBool b) s (sel || re_matches_any c kp) I Hc) as (d & Hs & E). exists d. split; [exact Hs | now rewrite E].
  - destruct (leaf_ne [] pk (JNum num) s (sel || re_matches_any c kp) I Hc) as (d & Hs & E). exists d. split; [exact Hs | now rewrite E].
  - destruct (starts_with_dollar st) eqn:Ed.
    + exists VKeep. split; [right; auto | reflexivity].
    + cbn [orb] in Hc. destruct (leaf_ne [] pk (JStr st) s (sel || re_matches_any c kp) I Hc) as (d & Hs & E). exists d. split; [exact Hs | now rewrite E].
Qed.

Lemma qmem_ok s par kp k x r leaf : List.length r <= n -> nodup_keys x -> jget x r = Some leaf -> is_leaf leaf ->
  qmem_cl wcl s par kp k x r = true ->
  exists d, strong leaf d /\ jget (snd (q_member tb cs c is_email A W false s par kp k x)) r = Some (apply_verdict A d leaf).
Proof.
  intros Hr Hn Hg Hl Hc. unfold q_member. cbn [snd andb]. fold (core_of par k).
  destruct x as [| b | num | st | lx | lx] eqn:Ex; cbn [qmem_cl] in *;
    try (apply IH; auto; [reflexivity | eapply container_path; eauto; reflexivity]);
    destruct (leaf_path x r leaf) as [-> ->]; try (subst x; exact I); try (subst x; exact Hg); subst x; cbn [jget].
  - exists VKeep. split; reflexivity.
  - apply andb_prop in Hc. destruct Hc as [H1 H2]. apply Bool.negb_true_iff in H1. rewrite H1.
    destruct (leaf_ne kp k (JBool b) s false I H2) as (d & Hs & E). exists d. split; [exact Hs | now rewrite E].
  - apply andb_prop in Hc. destruct Hc as [H1 H2]. apply Bool.negb_true_iff in H1. rewrite H1.
    destruct (leaf_ne kp k (JNum num) s false I H2) as (d & Hs & E). exists d. split; [exact Hs | now rewrite E].
  - destruct (starts_with_dollar st) eqn:Ed.
    + exists VKeep. split; [right; auto | reflexivity].
    + cbn [orb] in Hc. apply andb_prop in Hc. destruct Hc as [H1 H2]. apply Bool.negb_true_iff in H1. rewrite H1.
      destruct (leaf_ne kp k (JStr st) s false I H2) as (d & Hs & E). exists d. split; [exact Hs | now rewrite E].
Qed.

End Step.

Theorem walk_wcl : forall n p t m leaf, List.length p <= n -> wmode m -> nodup_keys t -> jget t p = Some leaf -> is_leaf leaf ->
  wcl m t p = true -> p <> [] -> exists d, strong leaf d /\ jget (W m t) p = Some (apply_verdict A d leaf).
Proof.
  induction n as [|n IHn]; intros p t m leaf Hlen Hm Hn Hg Hl Hc Hp.
  - destruct p; [contradiction | simpl in Hlen; lia].
  - destruct p as [|i r]; [contradiction|]. clear Hp. simpl in Hlen. assert (Hr : List.length r <= n) by lia.
    assert (IH : forall r t m leaf, List.length r <= n -> wmode m -> nodup_keys t -> jget t r = Some leaf -> is_leaf leaf ->
                   wcl m t r = true -> r <> [] -> exists d, strong leaf d /\ jget (W m t) r = Some (apply_verdict A d leaf)) by (intros; eapply IHn; eauto).
    destruct t as [| b | num | st | l | l]; try discriminate.
    + (* array *)
      rewrite nodup_keys_arr in Hn.
      destruct m as [rfn kp s | rfn s par kp | pk rfn s sel kp]; simpl in Hm; subst rfn; cbn [wcl] in Hc; try discriminate; cbn [walk jget] in *; rewrite nth_error_map;
        (destruct (nth_error l i) as [x|] eqn:E; [|discriminate]); cbn [option_map];
        apply (item_ok n IH); auto; apply Hn; eapply nth_error_In; eauto.
    + (* object *)
      pose proof Hn as Hn'. apply nodup_keys_obj in Hn'. destruct Hn' as [Hnd Hch].
      destruct m as [rfn kp s | rfn s par kp | pk rfn s sel kp]; simpl in Hm; subst rfn; cbn [wcl] in Hc; try discriminate; cbn [walk].
      * rewrite (build_nodup (map (fun kv => p_member tb cs c is_email A W false kp s (fst kv) (snd kv)) l))
          by (rewrite map_map; rewrite (map_ext _ fst) by (intros; apply fst_p_member); exact Hnd).
        cbn [jget] in *. rewrite nth_error_map. destruct (nth_error l i) as [[k x]|] eqn:E; [|discriminate]. cbn [option_map fst snd] in *.
        apply (pmem_ok n IH); auto. apply (Hch _ (nth_error_In _ _ E)).
      * rewrite (build_nodup (map (fun kv => q_member tb cs c is_email A W false s par kp (fst kv) (snd kv)) l))
          by (rewrite map_map; exact Hnd).
        cbn [jget] in *. rewrite nth_error_map. destruct (nth_error l i) as [[k x]|] eqn:E; [|discriminate]. cbn [option_map fst snd] in *.
        apply (qmem_ok n IH); auto. apply (Hch _ (nth_error_In _ _ E)).
Qed.

End WS.

(* ---------- the command dispatch ---------- *)
From Model Require Import Line Email.
From Proofs Require Import SurvivorsLine.
Open Scope string_scope.

Section WSLine.
Variable tb : tables.
Variable cs : consts.
Variable c : cfg.
Variable A : actions.
Hypothesis Hre : re c = None.

(* the lookups along an index path into a query-bearing value of a command document (zone_value says which those are) *)
Definition cmd_wcl (k : string) (v : json) (p : list nat) : bool :=
  match v with
  | JArr l =>
      if String.eqb k "pipeline" then
        match p with
        | [] => true
        | i :: r => match nth_error l i with
                    | Some st => sub_cl tb (wcl tb c) (MP false [] (is_in_search_stage tb st)) [] (is_in_search_stage tb st) st r
                    | None => true
                    end
        end
      else wcl tb c (MA "" false false false []) v p
  | _ => wcl tb c (MQ false false MNil []) v p
  end.

Theorem cmd_member_wcl ins k v p leaf :
  zone_value ins k v = true -> nodup_keys v -> jget v p = Some leaf -> is_leaf leaf ->
  cmd_wcl k v p = true ->
  exists d, strong cs c leaf d /\ jget (cmd_member tb cs c A false ins k v) p = Some (apply_verdict A d leaf).
Proof.
  intros Hz Hn Hg Hl Hc.
  assert (Hp : p <> []).
  { intros ->. simpl in Hg. injection Hg as <-. unfold zone_value in Hz. destruct v; try discriminate; contradiction. }
  destruct (String.eqb k "pipeline") eqn:Ek.
  - apply String.eqb_eq in Ek. subst k. unfold zone_value in Hz. destruct v as [| b | num | s | l | l]; try discriminate.
    unfold cmd_member, cmd_wcl in *. cbn in Hc |- *. unfold pipe, W.
    destruct p as [|i r]; [contradiction|]. cbn [jget] in *. rewrite nth_error_map.
    destruct (nth_error l i) as [st|] eqn:E; [|discriminate]. cbn [option_map].
    rewrite nodup_keys_arr in Hn.
    apply (sub_ok tb cs c is_email A Hre (List.length r)); auto.
    intros r0 t0 m0 leaf0 H0. apply (walk_wcl tb cs c is_email A Hre (List.length r) r0 t0 m0 leaf0 H0).
    apply Hn. eapply nth_error_In; eauto.
  - assert (E : cmd_member tb cs c A false ins k v = walk tb cs c is_email A (qstart v) v /\ cmd_wcl k v p = wcl tb c (qstart v) v p).
    { unfold cmd_member, cmd_wcl, zone_value in *. rewrite Ek. destruct v as [| b | num | s | l | l]; try discriminate; cbn [qstart]; (split; [|reflexivity]).
      - unfold key_in in *. cbn [existsb] in *. rewrite Ek in Hz.
        destruct (String.eqb k "query") eqn:E1; [apply String.eqb_eq in E1; subst; discriminate|].
        destruct (String.eqb k "filter") eqn:E2; [apply String.eqb_eq in E2; subst; discriminate|].
        destruct (String.eqb k "sort") eqn:E3; [apply String.eqb_eq in E3; subst; discriminate|].
        destruct (String.eqb k "q") eqn:E4; [apply String.eqb_eq in E4; subst; discriminate|].
        cbn [orb] in *.
        destruct (String.eqb k "update") eqn:E5; [reflexivity|].
        destruct (String.eqb k "u") eqn:E6; [reflexivity|].
        cbn [orb] in *.
        destruct (String.eqb k "updates") eqn:E7; [reflexivity|].
        destruct (String.eqb k "deletes") eqn:E8; [reflexivity|].
        cbn [orb] in *.
        destruct (String.eqb k "documents") eqn:E9; [|discriminate]. cbn [andb] in Hz. rewrite Hz. reflexivity.
      - unfold key_in in *. cbn [existsb] in *.
        destruct (String.eqb k "query"); [reflexivity|].
        destruct (String.eqb k "filter"); [reflexivity|].
        destruct (String.eqb k "sort"); [reflexivity|].
        destruct (String.eqb k "q"); [reflexivity|].
        cbn [orb] in *.
        destruct (String.eqb k "update"); [reflexivity|].
        destruct (String.eqb k "u"); [reflexivity|].
        discriminate. }
    destruct E as [E1 E2]. rewrite E1. rewrite E2 in Hc.
    apply (walk_wcl tb cs c is_email A Hre (List.length p) p v (qstart v) leaf); auto.
    destruct v; reflexivity.
Qed.

End WSLine.
