(* base64.StdEncoding: decoding an encoding gives back exactly the bytes (C09, C11). *)
From Coq Require Import NArith Lia ZArith ZifyN ZifyBool.
From Model Require Import Json Base64.
Close Scope string_scope. Close Scope N_scope. Open Scope nat_scope. Open Scope list_scope.
Ltac Zify.zify_post_hook ::= Z.div_mod_to_equations.

Lemma b64_val_char_nat i : i < 64 -> b64_val (b64_char (N.of_nat i)) = Some (N.of_nat i).
Proof. do 64 (destruct i as [|i]; [reflexivity|]). lia. Qed.

Lemma b64_val_char n : (n < 64)%N -> b64_val (b64_char n) = Some n.
Proof. intros H. rewrite <- (N2Nat.id n). apply b64_val_char_nat. lia. Qed.

Lemma b64_char_code n : (n < 64)%N ->
  let k := N_of_ascii (b64_char n) in (k = 43 \/ (47 <= k <= 57) \/ (65 <= k <= 90) \/ (97 <= k <= 122))%N.
Proof.
  intros H. cbv zeta. unfold b64_char.
  destruct (n <? 26)%N eqn:E1; [rewrite N_ascii_embedding by lia; lia|].
  destruct (n <? 52)%N eqn:E2; [rewrite N_ascii_embedding by lia; lia|].
  destruct (n <? 62)%N eqn:E3; [rewrite N_ascii_embedding by lia; lia|].
  destruct (n =? 62)%N; simpl; lia.
Qed.

Lemma b64_char_not_pad n : (n < 64)%N -> Ascii.eqb (b64_char n) pad = false.
Proof.
  intros H. apply Ascii.eqb_neq. intros E. pose proof (b64_char_code n H) as Hc. cbv zeta in Hc. rewrite E in Hc.
  simpl in Hc. lia.
Qed.

Lemma b64_char_not_crlf n : (n < 64)%N -> is_crlf (b64_char n) = false.
Proof.
  intros H. unfold is_crlf. pose proof (b64_char_code n H) as Hc. cbv zeta in Hc.
  destruct (N_of_ascii (b64_char n) =? 10)%N eqn:E1; [apply N.eqb_eq in E1; lia|].
  destruct (N_of_ascii (b64_char n) =? 13)%N eqn:E2; [apply N.eqb_eq in E2; lia|]. reflexivity.
Qed.

Definition bytes_ok (l : list N) : Prop := Forall (fun b => (b < 256)%N) l.

Lemma groups_encode n : forall l, List.length l <= n -> bytes_ok l -> b64_groups (b64_encode l) = Some l.
Proof.
  induction n as [|n IH]; intros l Hlen Hok.
  - destruct l; [reflexivity | simpl in Hlen; lia].
  - destruct l as [|a [|b [|c r]]].
    + reflexivity.
    + inversion Hok as [|? ? Ha _]; subst. cbn [b64_encode b64_groups].
      rewrite Ascii.eqb_refl. rewrite !b64_val_char by lia. repeat f_equal; lia.
    + inversion Hok as [|? ? Ha Hr]; subst. inversion Hr as [|? ? Hb _]; subst. cbn [b64_encode b64_groups].
      rewrite Ascii.eqb_refl. rewrite b64_char_not_pad by lia. rewrite !b64_val_char by lia.
      repeat f_equal; lia.
    + inversion Hok as [|? ? Ha Hr]; subst. inversion Hr as [|? ? Hb Hr2]; subst. inversion Hr2 as [|? ? Hc Hr3]; subst.
      cbn [b64_encode b64_groups]. rewrite b64_char_not_pad by lia. rewrite !b64_val_char by lia.
      rewrite IH; [| simpl in Hlen; lia | exact Hr3].
      repeat f_equal; lia.
Qed.

Lemma encode_no_crlf n : forall l, List.length l <= n -> bytes_ok l -> Forall (fun ch => is_crlf ch = false) (b64_encode l).
Proof.
  induction n as [|n IH]; intros l Hlen Hok.
  - destruct l; [constructor | simpl in Hlen; lia].
  - destruct l as [|a [|b [|c r]]]; [constructor | | |].
    + inversion Hok as [|? ? Ha _]; subst. cbn [b64_encode].
      repeat (constructor; [first [apply b64_char_not_crlf; lia | reflexivity]|]). constructor.
    + inversion Hok as [|? ? Ha Hr]; subst. inversion Hr as [|? ? Hb _]; subst. cbn [b64_encode].
      repeat (constructor; [first [apply b64_char_not_crlf; lia | reflexivity]|]). constructor.
    + inversion Hok as [|? ? Ha Hr]; subst. inversion Hr as [|? ? Hb Hr2]; subst. inversion Hr2 as [|? ? Hc Hr3]; subst.
      cbn [b64_encode]. repeat (constructor; [apply b64_char_not_crlf; lia|]). apply IH; [simpl in Hlen; lia | exact Hr3].
Qed.

Lemma filter_id {A} (f : A -> bool) l : Forall (fun x => f x = true) l -> filter f l = l.
Proof. induction l as [|x l IH]; intros H; [reflexivity|]. inversion H; subst. simpl. rewrite H2. f_equal. auto. Qed.

(* DecodeString (EncodeToString bs) = bs, for every byte string of every length *)
Theorem b64_roundtrip l : bytes_ok l -> b64_decode (b64_encode l) = Some l.
Proof.
  intros H. unfold b64_decode. rewrite filter_id.
  - now apply (groups_encode (List.length l)).
  - eapply Forall_impl; [|apply (encode_no_crlf (List.length l)); auto]. intros ch Hc. simpl. now rewrite Hc.
Qed.

(* consequently the encoding is injective *)
Theorem b64_encode_inj l1 l2 : bytes_ok l1 -> bytes_ok l2 -> b64_encode l1 = b64_encode l2 -> l1 = l2.
Proof.
  intros H1 H2 E. apply b64_roundtrip in H1. apply b64_roundtrip in H2. rewrite E in H1. rewrite H1 in H2. now injection H2.
Qed.

(* a trailing newline in a key file is ignored by the decoder *)
Theorem b64_decode_trailing_newline l : b64_decode (l ++ [ascii_of_N 10]) = b64_decode l.
Proof. unfold b64_decode. rewrite filter_app. simpl. now rewrite app_nil_r. Qed.
