(* The refinement relation of WalkerRel lifted to whole log lines (redact_tree), for
   configurations without field-name redaction. *)
From Coq Require Import Lia.
From Model Require Import Json Tables Walker Line.
From Proofs Require Import JsonFacts WalkerRel.
Close Scope string_scope. Open Scope list_scope.

Section LineRel.
Variable tb : tables.
Variable cs : consts.
Variable c : cfg.
Variables A1 A2 : actions.

Notation rel := (rel3 cs c is_email A1 A2).
Notation Wr := (walk_rel3 tb cs c is_email A1 A2).

Lemma hash_str_rel v : nss c = true -> rel v (hash_str A1 v) (hash_str A2 v).
Proof.
  intros H. destruct v; try apply rel3_refl. now apply hash_rel.
Qed.

Definition is_container (t : json) : Prop := match t with JArr _ | JObj _ => True | _ => False end.

Lemma walk_container A m t : is_container t -> is_container (walk tb cs c is_email A m t).
Proof. destruct t; simpl; try contradiction; intros _; destruct m; exact I. Qed.

Lemma cmd_member_container A ins k v : is_container v -> is_container (cmd_member tb cs c A false ins k v).
Proof.
  intros H. unfold cmd_member, q_obj, q_or_a, a_arr, pipe, W.
  repeat match goal with |- context [if ?b then _ else _] => destruct b end;
    destruct v; try contradiction; try exact I; try (apply walk_container; exact I).
Qed.

Lemma cmd_member_leaf A ins k v : is_leaf v -> cmd_member tb cs c A false ins k v = v.
Proof.
  intros H. unfold cmd_member, q_obj, q_or_a, a_arr, pipe.
  repeat match goal with |- context [if ?b then _ else _] => destruct b end;
    destruct v; try contradiction; reflexivity.
Qed.

Lemma hash_str_container A v : is_container v -> hash_str A v = v.
Proof. destruct v; simpl; try contradiction; reflexivity. Qed.

Lemma cmd_member_rel ins k v :
  nodup_keys v -> rel v (cmd_member tb cs c A1 false ins k v) (cmd_member tb cs c A2 false ins k v).
Proof.
  intros Hn. unfold cmd_member, q_obj, q_or_a, a_arr, pipe, W.
  repeat match goal with |- context [if ?b then _ else _] => destruct b end;
    destruct v as [| b | num | s | l | l]; try apply rel3_refl; try (apply Wr; [reflexivity | exact Hn]).
  apply R3_arr. intros x Hx. apply Wr; [reflexivity|]. rewrite nodup_keys_arr in Hn. auto.
Qed.

Lemma cmd_full_rel ins k v :
  nodup_keys v ->
  rel v (if nss c then ns_member A1 k (cmd_member tb cs c A1 false ins k v) else cmd_member tb cs c A1 false ins k v)
        (if nss c then ns_member A2 k (cmd_member tb cs c A2 false ins k v) else cmd_member tb cs c A2 false ins k v).
Proof.
  intros Hn. destruct (nss c) eqn:Enss; [|now apply cmd_member_rel].
  unfold ns_member. destruct (key_in k ns_fields); [|now apply cmd_member_rel].
  assert (Hc : is_container v \/ is_leaf v) by (destruct v; simpl; auto).
  destruct Hc as [Hc|Hl].
  - rewrite !hash_str_container by (apply cmd_member_container; exact Hc). now apply cmd_member_rel.
  - rewrite !cmd_member_leaf by exact Hl. now apply hash_str_rel.
Qed.

Lemma do_command_rel v :
  nodup_keys v -> rel v (do_command tb cs c A1 false v) (do_command tb cs c A2 false v).
Proof.
  intros Hn. destruct v as [| b | num | s | l | l]; try apply rel3_refl.
  unfold do_command, redact_command.
  apply nodup_keys_obj in Hn. destruct Hn as [_ Hch].
  apply (R3_obj cs c is_email A1 A2 l
          (fun kv => if nss c then ns_member A1 (fst kv) (cmd_member tb cs c A1 false (has_key l "insert") (fst kv) (snd kv)) else cmd_member tb cs c A1 false (has_key l "insert") (fst kv) (snd kv))
          (fun kv => if nss c then ns_member A2 (fst kv) (cmd_member tb cs c A2 false (has_key l "insert") (fst kv) (snd kv)) else cmd_member tb cs c A2 false (has_key l "insert") (fst kv) (snd kv))).
  intros kv Hkv. apply cmd_full_rel. auto.
Qed.

Lemma do_command_container A v : is_container v -> is_container (do_command tb cs c A false v).
Proof. destruct v; simpl; try contradiction; auto. Qed.

Lemma ip_value_rel v : ips c = true -> rel v (ip_value v) (ip_value v).
Proof.
  intros H. destruct v as [| b | num | s | l | l]; try apply rel3_refl.
  apply (R3_leaf cs c is_email A1 A2 (JStr s) (VConst ip_placeholder)); simpl; [exact I | eauto].
Qed.

Lemma attr_member_rel g k v :
  nodup_keys v -> rel v (attr_member tb cs c A1 g false k v) (attr_member tb cs c A2 g false k v).
Proof.
  intros Hn. unfold attr_member. rewrite !Bool.andb_false_r. cbn [andb].
  destruct v as [| b | num | s | l | l].
  - (* null *) repeat match goal with |- context [if ?b then _ else _] => destruct b end; apply rel3_refl.
  - repeat match goal with |- context [if ?b then _ else _] => destruct b end; apply rel3_refl.
  - repeat match goal with |- context [if ?b then _ else _] => destruct b end; apply rel3_refl.
  - (* string: remote / ns *)
    destruct (ips c && String.eqb k "remote") eqn:E1.
    + apply andb_prop in E1. destruct E1 as [Hips Hk]. apply String.eqb_eq in Hk. subst k.
      cbn [ip_value key_in existsb String.eqb Ascii.eqb Bool.eqb orb andb do_command hash_str].
      rewrite !Bool.andb_false_r. cbn. 
      apply (R3_leaf cs c is_email A1 A2 (JStr s) (VConst ip_placeholder)); simpl; [exact I | eauto].
    + assert (Hd : forall A, (if g && key_in k ["originatingCommand"; "cmd"; "command"]%string then do_command tb cs c A false (JStr s) else JStr s) = JStr s)
        by (intros; destruct (g && _); reflexivity).
      rewrite !Hd. destruct (nss c && String.eqb k "ns") eqn:E2; [|apply rel3_refl].
      apply andb_prop in E2. destruct E2 as [Hnss _]. now apply hash_str_rel.
  - (* array: nothing applies *)
    assert (Hd : forall A, (if g && key_in k ["originatingCommand"; "cmd"; "command"]%string then do_command tb cs c A false (JArr l) else JArr l) = JArr l)
      by (intros; destruct (g && _); reflexivity).
    destruct (ips c && String.eqb k "remote"); cbn [ip_value]; rewrite !Hd; destruct (nss c && String.eqb k "ns"); apply rel3_refl.
  - (* object: a command document *)
    assert (Hip : (if ips c && String.eqb k "remote" then ip_value (JObj l) else JObj l) = JObj l) by (destruct (ips c && _); reflexivity).
    rewrite Hip.
    assert (Hh : forall A x, is_container x -> (if nss c && String.eqb k "ns" then hash_str A x else x) = x)
      by (intros A x Hx; destruct (nss c && _); [now apply hash_str_container | reflexivity]).
    destruct (g && key_in k ["originatingCommand"; "cmd"; "command"]%string).
    + rewrite !Hh by (apply do_command_container; exact I). now apply do_command_rel.
    + rewrite !Hh by exact I. apply rel3_refl.
Qed.

Theorem line_rel3 t :
  eager c = [] -> nodup_keys t ->
  rel t (redact_tree tb cs c A1 t) (redact_tree tb cs c A2 t).
Proof.
  intros He Hn. destruct t as [| b | num | s | l | entry]; try apply rel3_refl.
  unfold redact_tree, redact_entry.
  apply nodup_keys_obj in Hn. destruct Hn as [_ Hch].
  apply (R3_obj cs c is_email A1 A2 entry
     (fun kv => if String.eqb (fst kv) "attr" then match snd kv with JObj a => JObj (redact_attr tb cs c A1 (gate entry) a) | x => x end else snd kv)
     (fun kv => if String.eqb (fst kv) "attr" then match snd kv with JObj a => JObj (redact_attr tb cs c A2 (gate entry) a) | x => x end else snd kv)).
  intros [k v] Hkv. cbn [fst snd]. destruct (String.eqb k "attr"); [|apply rel3_refl].
  destruct v as [| b | num | s | l | a]; try apply rel3_refl.
  unfold redact_attr. assert (Erfn : eager_on c a = false) by (unfold eager_on; rewrite He; reflexivity).
  rewrite Erfn.
  apply (R3_obj cs c is_email A1 A2 a (fun kv => attr_member tb cs c A1 (gate entry) false (fst kv) (snd kv))
                                     (fun kv => attr_member tb cs c A2 (gate entry) false (fst kv) (snd kv))).
  intros kv Hin. apply attr_member_rel.
  specialize (Hch (k, JObj a) Hkv). cbn [snd] in Hch. apply nodup_keys_obj in Hch. destruct Hch as [_ H]. auto.
Qed.

End LineRel.
