(* The parser is modelled with explicit fuel. Its answers do not depend on that artefact: a successful
   parse consumes at least one character, succeeds already with fuel equal to the number of
   characters it consumes, and with every larger fuel gives the same answer. Hence the fuel
   parse_line supplies (length + 1) is sufficient for every text: if ANY fuel makes the text parse,
   parse_line parses it - a line is never skipped because the model ran out of fuel. *)
From Coq Require Import NArith List Ascii String Bool Lia.
From Model Require Import Json Utf8 JsonText.
From Proofs Require Import JsonFacts Utf8Facts NumFacts StrCodec ParsePrefix.
Import ListNotations.
Open Scope char_scope. Open Scope list_scope.

Lemma skip_ws_len l : (List.length (skip_ws l) <= List.length l)%nat.
Proof. induction l as [|ch r IH]; [simpl; lia|]. cbn [skip_ws]. destruct (is_ws ch); simpl in *; lia. Qed.

Lemma hd_is_len c l r : hd_is c l = Some r -> List.length l = S (List.length r).
Proof. intros H. apply hd_is_some in H. subst. reflexivity. Qed.

(* ---------- strings: fuel larger than needed changes nothing; something is consumed ---------- *)
Lemma parse_str_mono f l acc s r f' : parse_str f l acc = Some (s, r) -> (f <= f')%nat -> parse_str f' l acc = Some (s, r).
Proof. intros H Hf. pose proof (parse_str_ext f l acc s r [] f' H Hf) as E. now rewrite !app_nil_r in E. Qed.

Lemma parse_str_shorter f : forall l acc s r, parse_str f l acc = Some (s, r) -> (List.length r < List.length l)%nat.
Proof.
  induction f as [|f IH]; intros l acc s r H; [discriminate|].
  cbn [parse_str] in H. destruct l as [|ch r0]; [discriminate|].
  destruct (N_of ch =? 34)%N. { injection H as _ <-. simpl. lia. }
  destruct (N_of ch <? 32)%N; [discriminate|].
  destruct (N_of ch =? 92)%N.
  { destruct r0 as [|e r2]; [discriminate|].
    assert (Hs : forall z acc', parse_str f z acc' = Some (s, r) -> (List.length z <= List.length r2)%nat -> (List.length r < List.length (ch :: e :: r2))%nat).
    { intros z acc' Hz Hl. apply IH in Hz. simpl. lia. }
    destruct (Ascii.eqb e """"); [eapply Hs; eauto|].
    destruct (Ascii.eqb e "\"); [eapply Hs; eauto|].
    destruct (Ascii.eqb e "/"); [eapply Hs; eauto|].
    destruct (Ascii.eqb e "b"); [eapply Hs; eauto|].
    destruct (Ascii.eqb e "f"); [eapply Hs; eauto|].
    destruct (Ascii.eqb e "n"); [eapply Hs; eauto|].
    destruct (Ascii.eqb e "r"); [eapply Hs; eauto|].
    destruct (Ascii.eqb e "t"); [eapply Hs; eauto|].
    destruct (Ascii.eqb e "u"); [|discriminate].
    destruct (hex4 r2) as [[u1 r3]|] eqn:Eh; [|discriminate].
    destruct (hex4_some _ _ _ Eh) as (a & b & c & d & ->).
    assert (H3 : (List.length r3 <= List.length (a :: b :: c :: d :: r3))%nat) by (simpl; lia).
    destruct ((55296 <=? u1)%N && (u1 <? 57344)%N); [|eapply Hs; eauto].
    cbv zeta in H.
    destruct (hd_is "\" r3) as [r3'|] eqn:E1; [|eapply Hs; eauto].
    destruct (hd_is "u" r3') as [r4|] eqn:E2; [|eapply Hs; eauto].
    destruct (hex4 r4) as [[u2 r5]|] eqn:Eh2; [|eapply Hs; eauto].
    destruct ((u1 <? 56320)%N && (56320 <=? u2)%N && (u2 <? 57344)%N); [|eapply Hs; eauto].
    apply hd_is_len in E1. apply hd_is_len in E2. destruct (hex4_some _ _ _ Eh2) as (a' & b' & c' & d' & ->).
    eapply Hs; [exact H|]. simpl in *. lia. }
  destruct (N_of ch <? 128)%N; [apply IH in H; simpl; lia|].
  destruct (decode_rune (map N_of (firstn 4 (ch :: r0)))) as [[cp size]|] eqn:Ed.
  - apply IH in H. destruct size as [|size].
    + (* decode_rune never answers size 0 *)
      exfalso. apply decode_rune_at in Ed. destruct Ed as (pre & rr & Hr & Hsz). inversion Hr; subst; discriminate.
    + cbn [skipn] in H. pose proof (skipn_length size r0). simpl. lia.
  - apply IH in H. simpl. lia.
Qed.

(* ---------- scalars consume something ---------- *)
Lemma strip_prefix_len p l r : strip_prefix p l = Some r -> List.length l = (List.length p + List.length r)%nat.
Proof.
  revert l. induction p as [|a p IH]; intros l H; [injection H as <-; reflexivity|].
  destruct l as [|b l]; [discriminate|]. cbn [strip_prefix] in H. destruct (Ascii.eqb a b); [|discriminate]. apply IH in H. simpl. lia.
Qed.

Lemma parse_scalar_shorter l t r : parse_scalar l = Some (t, r) -> (List.length r < List.length l)%nat.
Proof.
  unfold parse_scalar.
  destruct (strip_prefix lit_true l) as [r1|] eqn:E1; [intros H; injection H as _ <-; apply strip_prefix_len in E1; simpl in E1; lia|].
  destruct (strip_prefix lit_false l) as [r2|] eqn:E2; [intros H; injection H as _ <-; apply strip_prefix_len in E2; simpl in E2; lia|].
  destruct (strip_prefix lit_null l) as [r3|] eqn:E3; [intros H; injection H as _ <-; apply strip_prefix_len in E3; simpl in E3; lia|].
  destruct (parse_num l) as [[lit r']|] eqn:En; [|discriminate]. intros H. injection H as _ <-.
  apply parse_num_spec in En. destruct En as (-> & _ & Hne). rewrite app_length. destruct lit; [contradiction | simpl; lia].
Qed.

(* ---------- values: monotone in the fuel ---------- *)
Lemma parse_mono f :
  (forall l t r f', parse_value f l = Some (t, r) -> (f <= f')%nat -> parse_value f' l = Some (t, r)) /\
  (forall l acc t r f', parse_members f l acc = Some (t, r) -> (f <= f')%nat -> parse_members f' l acc = Some (t, r)) /\
  (forall l acc t r f', parse_elems f l acc = Some (t, r) -> (f <= f')%nat -> parse_elems f' l acc = Some (t, r)).
Proof.
  induction f as [|f (IHv & IHm & IHe)]; [split; [|split]; intros; discriminate|].
  split; [|split].
  - intros l t r f' H Hf. destruct f' as [|f']; [lia|]. assert (Hf' : (f <= f')%nat) by lia.
    cbn [parse_value] in *. destruct (skip_ws l) as [|ch r0]; [discriminate|].
    destruct (Ascii.eqb ch "{"). { destruct (hd_is "}" (skip_ws r0)); [exact H | eapply IHm; eauto]. }
    destruct (Ascii.eqb ch "["). { destruct (hd_is "]" (skip_ws r0)); [exact H | eapply IHe; eauto]. }
    exact H.
  - intros l acc t r f' H Hf. destruct f' as [|f']; [lia|]. assert (Hf' : (f <= f')%nat) by lia.
    cbn [parse_members] in *. destruct (hd_is """" l) as [r0|]; [|discriminate].
    destruct (parse_str (S (List.length r0)) r0 []) as [[k r1]|]; [|discriminate].
    destruct (hd_is ":" (skip_ws r1)) as [r2|]; [|discriminate].
    destruct (parse_value f r2) as [[v r3]|] eqn:Ev; [|discriminate]. rewrite (IHv _ _ _ f' Ev Hf'). cbv zeta in *.
    destruct (hd_is "," (skip_ws r3)); [eapply IHm; eauto | exact H].
  - intros l acc t r f' H Hf. destruct f' as [|f']; [lia|]. assert (Hf' : (f <= f')%nat) by lia.
    cbn [parse_elems] in *. destruct (hd_is "]" l); [discriminate|]. destruct (hd_is "}" l); [discriminate|].
    destruct (parse_value f l) as [[v r1]|] eqn:Ev; [|discriminate]. rewrite (IHv _ _ _ f' Ev Hf').
    destruct (hd_is "," (skip_ws r1)); [eapply IHe; eauto | exact H].
Qed.

Lemma mono_v g l t r f' : parse_value g l = Some (t, r) -> (g <= f')%nat -> parse_value f' l = Some (t, r).
Proof. destruct (parse_mono g) as (H & _). apply H. Qed.
Lemma mono_m g l acc t r f' : parse_members g l acc = Some (t, r) -> (g <= f')%nat -> parse_members f' l acc = Some (t, r).
Proof. destruct (parse_mono g) as (_ & H & _). apply H. Qed.
Lemma mono_e g l acc t r f' : parse_elems g l acc = Some (t, r) -> (g <= f')%nat -> parse_elems f' l acc = Some (t, r).
Proof. destruct (parse_mono g) as (_ & _ & H). apply H. Qed.

(* ---------- fuel equal to the consumed length suffices ---------- *)
Notation len := (@List.length ascii).

Lemma parse_min f :
  (forall l t r, parse_value f l = Some (t, r) -> (len r < len l)%nat /\ parse_value (len l - len r) l = Some (t, r)) /\
  (forall l acc t r, parse_members f l acc = Some (t, r) -> (len r < len l)%nat /\ parse_members (len l - len r) l acc = Some (t, r)) /\
  (forall l acc t r, parse_elems f l acc = Some (t, r) -> (len r < len l)%nat /\ parse_elems (len l - len r) l acc = Some (t, r)).
Proof.
  induction f as [|f (IHv & IHm & IHe)]; [split; [|split]; intros; discriminate|].
  split; [|split].
  - intros l t r H. pose proof (skip_ws_len l) as Hsl. pose proof H as H0. cbn [parse_value] in H.
    destruct (skip_ws l) as [|ch r0] eqn:Es; [discriminate|]. cbn [List.length] in Hsl.
    pose proof (skip_ws_len r0) as Hs0.
    destruct (Ascii.eqb ch "{") eqn:Eo.
    { destruct (hd_is "}" (skip_ws r0)) as [r'|] eqn:Eh.
      - injection H as <- <-. pose proof (hd_is_len _ _ _ Eh) as Lh. split; [lia|].
        destruct (len l - len r')%nat as [|f1] eqn:Ef; [lia|]. cbn [parse_value]. rewrite Es, Eo, Eh. reflexivity.
      - destruct (IHm _ _ _ _ H) as [Hl Hm]. split; [lia|].
        destruct (len l - len r)%nat as [|f1] eqn:Ef; [lia|]. cbn [parse_value]. rewrite Es, Eo, Eh.
        apply (mono_m _ _ _ _ _ f1) in Hm; [exact Hm | lia]. }
    destruct (Ascii.eqb ch "[") eqn:Ea.
    { destruct (hd_is "]" (skip_ws r0)) as [r'|] eqn:Eh.
      - injection H as <- <-. pose proof (hd_is_len _ _ _ Eh) as Lh. split; [lia|].
        destruct (len l - len r')%nat as [|f1] eqn:Ef; [lia|]. cbn [parse_value]. rewrite Es, Eo, Ea, Eh. reflexivity.
      - destruct (IHe _ _ _ _ H) as [Hl Hm]. split; [lia|].
        destruct (len l - len r)%nat as [|f1] eqn:Ef; [lia|]. cbn [parse_value]. rewrite Es, Eo, Ea, Eh.
        apply (mono_e _ _ _ _ _ f1) in Hm; [exact Hm | lia]. }
    destruct (Ascii.eqb ch """") eqn:Eq.
    { destruct (parse_str (S (len r0)) r0 []) as [[s r']|] eqn:Ep; [|discriminate]. injection H as <- <-.
      pose proof (parse_str_shorter _ _ _ _ _ Ep) as Hsh. split; [lia|].
      destruct (len l - len r')%nat as [|f1] eqn:Ef; [lia|]. cbn [parse_value]. rewrite Es, Eo, Ea, Eq, Ep. reflexivity. }
    pose proof (parse_scalar_shorter _ _ _ H) as Hsh. cbn [List.length] in Hsh. split; [lia|].
    destruct (len l - len r)%nat as [|f1] eqn:Ef; [lia|]. cbn [parse_value]. rewrite Es, Eo, Ea, Eq. exact H.
  - intros l acc t r H. cbn [parse_members] in H.
    destruct (hd_is """" l) as [r0|] eqn:E0; [|discriminate]. pose proof (hd_is_len _ _ _ E0) as L0.
    destruct (parse_str (S (len r0)) r0 []) as [[k r1]|] eqn:Ep; [|discriminate]. pose proof (parse_str_shorter _ _ _ _ _ Ep) as L1.
    pose proof (skip_ws_len r1) as Ls1.
    destruct (hd_is ":" (skip_ws r1)) as [r2|] eqn:E2; [|discriminate]. pose proof (hd_is_len _ _ _ E2) as L2.
    destruct (parse_value f r2) as [[v r3]|] eqn:Ev; [|discriminate]. destruct (IHv _ _ _ Ev) as [L3 Hv].
    pose proof (skip_ws_len r3) as Ls3. cbv zeta in H.
    destruct (hd_is "," (skip_ws r3)) as [r4|] eqn:E4.
    + pose proof (hd_is_len _ _ _ E4) as L4. pose proof (skip_ws_len r4) as Ls4.
      destruct (IHm _ _ _ _ H) as [L5 Hm]. split; [lia|].
      destruct (len l - len r)%nat as [|f1] eqn:Ef; [lia|]. cbn [parse_members]. rewrite E0, Ep, E2.
      rewrite (mono_v _ _ _ _ f1 Hv) by lia. cbv zeta. rewrite E4. apply (mono_m _ _ _ _ _ f1) in Hm; [exact Hm | lia].
    + destruct (hd_is "}" (skip_ws r3)) as [r4|] eqn:E5; [|discriminate]. injection H as <- <-.
      pose proof (hd_is_len _ _ _ E5) as L4. split; [lia|].
      destruct (len l - len r4)%nat as [|f1] eqn:Ef; [lia|]. cbn [parse_members]. rewrite E0, Ep, E2.
      rewrite (mono_v _ _ _ _ f1 Hv) by lia. cbv zeta. rewrite E4, E5. reflexivity.
  - intros l acc t r H. cbn [parse_elems] in H.
    destruct (hd_is "]" l) eqn:E0; [discriminate|]. destruct (hd_is "}" l) eqn:E1; [discriminate|].
    destruct (parse_value f l) as [[v r1]|] eqn:Ev; [|discriminate]. destruct (IHv _ _ _ Ev) as [L1 Hv].
    pose proof (skip_ws_len r1) as Ls1.
    destruct (hd_is "," (skip_ws r1)) as [r2|] eqn:E2.
    + pose proof (hd_is_len _ _ _ E2) as L2. pose proof (skip_ws_len r2) as Ls2.
      destruct (IHe _ _ _ _ H) as [L3 He]. split; [lia|].
      destruct (len l - len r)%nat as [|f1] eqn:Ef; [lia|]. cbn [parse_elems]. rewrite E0, E1.
      rewrite (mono_v _ _ _ _ f1 Hv) by lia. rewrite E2. apply (mono_e _ _ _ _ _ f1) in He; [exact He | lia].
    + destruct (hd_is "]" (skip_ws r1)) as [r2|] eqn:E3; [|discriminate]. injection H as <- <-.
      pose proof (hd_is_len _ _ _ E3) as L2. split; [lia|].
      destruct (len l - len r2)%nat as [|f1] eqn:Ef; [lia|]. cbn [parse_elems]. rewrite E0, E1.
      rewrite (mono_v _ _ _ _ f1 Hv) by lia. rewrite E2, E3. reflexivity.
Qed.

(* ---------- the fuel artefact does not matter ---------- *)
Theorem parse_value_fuel_irrelevant f l t r :
  parse_value f l = Some (t, r) -> forall f', (len l - len r <= f')%nat -> parse_value f' l = Some (t, r).
Proof.
  intros H f' Hf. destruct (parse_min f) as (Pv & _). destruct (Pv _ _ _ H) as [_ Hm].
  eapply mono_v; eauto.
Qed.

Theorem parse_line_fuel_sufficient l f m r :
  parse_value f l = Some (JObj m, r) -> parse_line l = Some (JObj m).
Proof.
  intros H. unfold parse_line. rewrite (parse_value_fuel_irrelevant f l (JObj m) r H (S (len l))) by lia. reflexivity.
Qed.

(* ---------- the string reader: any two fuels above the text length give the same answer ---------- *)
Lemma parse_str_fuel_irrelevant : forall n l acc f1 f2, (len l <= n)%nat -> (len l < f1)%nat -> (len l < f2)%nat ->
  parse_str f1 l acc = parse_str f2 l acc.
Proof.
  induction n as [|n IH]; intros l acc f1 f2 Hn H1 H2.
  - destruct l; [|simpl in Hn; lia]. destruct f1, f2; try lia. reflexivity.
  - destruct f1 as [|f1]; [lia|]. destruct f2 as [|f2]; [lia|].
    destruct l as [|ch r0]; [reflexivity|]. cbn [parse_str]. cbn [List.length] in *.
    assert (R : forall z acc', (len z <= len r0)%nat -> parse_str f1 z acc' = parse_str f2 z acc').
    { intros z acc' Hz. apply IH; lia. }
    destruct (N_of ch =? 34)%N; [reflexivity|]. destruct (N_of ch <? 32)%N; [reflexivity|].
    destruct (N_of ch =? 92)%N.
    { destruct r0 as [|e r2]; [reflexivity|]. cbn [List.length] in *.
      assert (R2 : forall z acc', (len z <= len r2)%nat -> parse_str f1 z acc' = parse_str f2 z acc') by (intros; apply R; lia).
      destruct (Ascii.eqb e """"); [apply R2; lia|]. destruct (Ascii.eqb e "\"); [apply R2; lia|].
      destruct (Ascii.eqb e "/"); [apply R2; lia|]. destruct (Ascii.eqb e "b"); [apply R2; lia|].
      destruct (Ascii.eqb e "f"); [apply R2; lia|]. destruct (Ascii.eqb e "n"); [apply R2; lia|].
      destruct (Ascii.eqb e "r"); [apply R2; lia|]. destruct (Ascii.eqb e "t"); [apply R2; lia|].
      destruct (Ascii.eqb e "u"); [|reflexivity].
      destruct (hex4 r2) as [[u1 r3]|] eqn:Eh; [|reflexivity].
      destruct (hex4_some _ _ _ Eh) as (a & b & c & d & ->). cbn [List.length] in *.
      assert (R3 : forall z acc', (len z <= len r3)%nat -> parse_str f1 z acc' = parse_str f2 z acc') by (intros; apply R2; simpl; lia).
      destruct ((55296 <=? u1)%N && (u1 <? 57344)%N); [|apply R3; lia].
      cbv zeta. destruct (hd_is "\" r3) as [r3'|] eqn:E1; [|apply R3; lia].
      destruct (hd_is "u" r3') as [r4|] eqn:E2; [|apply R3; lia].
      destruct (hex4 r4) as [[u2 r5]|] eqn:Eh2; [|apply R3; lia].
      destruct ((u1 <? 56320)%N && (56320 <=? u2)%N && (u2 <? 57344)%N); [|apply R3; lia].
      apply hd_is_len in E1. apply hd_is_len in E2. destruct (hex4_some _ _ _ Eh2) as (a' & b' & c' & d' & ->).
      apply R3. simpl in *. lia. }
    destruct (N_of ch <? 128)%N; [apply R; lia|].
    destruct (decode_rune (map N_of (firstn 4 (ch :: r0)))) as [[cp size]|] eqn:Ed; [|apply R; lia].
    destruct size as [|size]; [|cbn [skipn]; apply R; pose proof (skipn_length size r0); lia].
    exfalso. apply decode_rune_at in Ed. destruct Ed as (pre & rr & Hr & Hsz). inversion Hr; subst; discriminate.
Qed.
