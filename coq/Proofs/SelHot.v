(* C14, the converse over all positions: in selective mode (--redactFieldsRegexp R), outside Atlas
   Search stages, everything that lies under a key matching R - at any depth, reached by any walker,
   for ANY tables - is emitted exactly as full-redaction mode emits it.

   walk_hot : a walker whose key path already holds a matching name computes the same tree as the
              same walker in full mode (re = None);
   walk_pa  : for a walker started with ANY key path, the selective-mode and the full-mode outputs
              agree at every index path on which some key matches R. *)
From Coq Require Import Lia.
From Model Require Import Json Tables Walker.
From Proofs Require Import JsonFacts TableFacts RelCorollaries.
Close Scope string_scope. Open Scope list_scope.

Definition set_re (c : cfg) (x : option (string -> bool)) : cfg :=
  {| repl := repl c; nums := nums c; bools := bools c; ips := ips c; nss := nss c; eager := eager c; re := x |}.

Definition is_objb (v : json) : bool := match v with JObj _ => true | _ => false end.
Definition obj_keys (v : json) : list string := match v with JObj l => map fst l | _ => [] end.

Section SelHot.
Variable tb : tables.
Variable cs : consts.
Variable c : cfg.
Variable is_email : string -> bool.
Variable A : actions.
Variable r : string -> bool.
Hypothesis Hre : re c = Some r.

Notation c0 := (set_re c None).
Notation W := (walk tb cs c is_email A).
Notation W0 := (walk tb cs c0 is_email A).

(* a key that the tables declare as a list-valued ARGUMENT of an operator (branches, pipeline, ...) *)
Definition list_arg (k : string) : Prop :=
  In (k, OperatorArray) (sub_entries tb) \/ In (k, Pipeline) (sub_entries tb).

(* what one member (k, v) of an object must satisfy; h = "a key above already matches R" *)
Definition member_plain (h : bool) (k : string) (v : json) : Prop :=
  (* no key opens an Atlas Search stage *)
  existsb (String.eqb k) (TopSearch tb) = false /\
  (* a key matching R is a field name, not the name of a list-valued operator argument *)
  (r k = true -> ~ list_arg k) /\
  (* a map of named sub-pipelines ($facet) is not itself under a matching name, and none of its
     output names matches R: the walkers restart the key path below it *)
  (is_objb v = true -> In (k, Pipeline) (all_entries tb) -> (h || r k)%bool = false /\ existsb r (obj_keys v) = false).

Fixpoint plain (h : bool) (t : json) : Prop :=
  match t with
  | JArr l => (fix go (l : list json) : Prop := match l with [] => True | x :: rest => plain h x /\ go rest end) l
  | JObj l => (fix go (l : list (string * json)) : Prop :=
                 match l with [] => True
                 | kv :: rest => member_plain h (fst kv) (snd kv) /\ plain (h || r (fst kv)) (snd kv) /\ go rest end) l
  | _ => True
  end.

Lemma plain_arr h l : plain h (JArr l) <-> forall x, In x l -> plain h x.
Proof.
  simpl. induction l as [|y l IH]; split; intros H.
  - intros x [].
  - exact I.
  - intros x [->|Hx]; [tauto|]. apply IH; tauto.
  - split; [apply H; simpl; auto|]. apply IH. intros x Hx. apply H. simpl. auto.
Qed.

Lemma plain_obj h l : plain h (JObj l) <->
  forall kv, In kv l -> member_plain h (fst kv) (snd kv) /\ plain (h || r (fst kv)) (snd kv).
Proof.
  simpl. induction l as [|y l IH]; split; intros H.
  - intros x [].
  - exact I.
  - intros x [->|Hx]; [tauto|]. apply IH; tauto.
  - destruct (H y (or_introl eq_refl)) as (H1 & H2). split; [exact H1 | split; [exact H2|]]. apply IH. intros x Hx. apply H. simpl. auto.
Qed.

Lemma stage_plain h st : plain h st -> is_in_search_stage tb st = false.
Proof.
  intros Hq. destruct st; try reflexivity. unfold is_in_search_stage. rewrite plain_obj in Hq.
  induction l as [|kv l IH]; [reflexivity|]. cbn [existsb].
  destruct (Hq kv (or_introl eq_refl)) as ((H2 & _) & _). rewrite H2. apply IH. intros y Hy. apply Hq. simpl. auto.
Qed.

Definition resel (m : mode) (s : bool) : mode :=
  match m with MA pk rfn search _ kp => MA pk rfn search s kp | _ => m end.

Definition hot (kp : list string) : Prop := existsb r kp = true.

Lemma hot_snoc kp k : hot kp -> hot (kp ++ [k]).
Proof. unfold hot. intros H. rewrite existsb_app, H. reflexivity. Qed.

Lemma hot_last kp k : r k = true -> hot (kp ++ [k]).
Proof. unfold hot. intros H. rewrite existsb_app. cbn. rewrite H. now rewrite Bool.orb_true_r. Qed.

Lemma rma_hot kp : hot kp -> re_matches_any c kp = true.
Proof. unfold re_matches_any. now rewrite Hre. Qed.

(* the decision point: with a matching name on the path (or the sibling flag) the verdict is the one of full mode *)
Lemma scalar_hot init lst v sel sel' : sel = true \/ hot (init ++ [lst]) ->
  scalar tb cs c is_email A init lst v false sel = scalar tb cs c0 is_email A init lst v false sel'.
Proof.
  intros H. unfold scalar, scalar_verdict.
  destruct (match get_op tb init lst false with Some m => is_ty m Exempt | None => false end); [reflexivity|].
  unfold re_matches_any. rewrite Hre. cbn [re set_re negb andb].
  assert (E : (negb sel && negb (existsb r (init ++ [lst])))%bool = false).
  { destruct H as [->|H]; [reflexivity|]. unfold hot in H. rewrite H. apply Bool.andb_false_r. }
  rewrite E. reflexivity.
Qed.

Definition mode_hot (m : mode) : Prop :=
  match m with
  | MP rfn kp search => rfn = false /\ search = false /\ hot kp
  | MQ rfn search _ kp => rfn = false /\ search = false /\ hot kp
  | MA _ rfn search _ kp => rfn = false /\ search = false /\ hot kp
  end.

Section Step.
Variable n : nat.
Hypothesis IH : forall t m s', size t < n -> mode_hot m -> plain true t -> W m t = W0 (resel m s') t.

Lemma arr_item_hot pk kp x sel sel' : size x < n -> hot kp -> plain true x ->
  arr_item tb cs c is_email A W pk false false sel kp x = arr_item tb cs c0 is_email A W0 pk false false sel' kp x.
Proof.
  intros Hs Hk Hq. destruct x as [| b | num | s | l | l]; cbn [arr_item].
  - reflexivity.
  - apply scalar_hot. left. rewrite (rma_hot kp Hk). apply Bool.orb_true_r.
  - apply scalar_hot. left. rewrite (rma_hot kp Hk). apply Bool.orb_true_r.
  - destruct (starts_with_dollar s); [reflexivity|]. apply scalar_hot. left. rewrite (rma_hot kp Hk). apply Bool.orb_true_r.
  - apply (IH (JArr l) (MA pk false false sel kp) sel'); auto. repeat split; auto.
  - apply (IH (JObj l) (MQ false false MNil kp) false); auto. repeat split; auto.
Qed.

Lemma arr_hot pk kp l sel sel' : size (JArr l) <= n -> hot kp -> plain true (JArr l) ->
  map (arr_item tb cs c is_email A W pk false false sel kp) l = map (arr_item tb cs c0 is_email A W0 pk false false sel' kp) l.
Proof.
  intros Hs Hk Hq. apply map_ext_in. intros x Hx. rewrite plain_arr in Hq.
  apply arr_item_hot; auto. pose proof (size_in_arr x l Hx). lia.
Qed.

Lemma walk_value_hot kp sinit slast v : size v < n -> hot kp -> hot (sinit ++ [slast]) -> plain true v ->
  walk_value tb cs c is_email A W false false kp sinit slast v = walk_value tb cs c0 is_email A W0 false false kp sinit slast v.
Proof.
  intros Hs Hk Hsl Hq. destruct v as [| b | num | s | l | l]; cbn [walk_value]; try (apply scalar_hot; now right).
  - apply (IH (JArr l) (MA "" false false (sel_of c l) kp) (sel_of c0 l)); auto. repeat split; auto.
  - apply (IH (JObj l) (MP false kp false) false); auto. repeat split; auto.
Qed.

Lemma fieldname_value_hot kp sinit slast keep v : size v < n -> hot kp -> plain true v ->
  fieldname_value tb cs c is_email A W false false kp sinit slast keep v = fieldname_value tb cs c0 is_email A W0 false false kp sinit slast keep v.
Proof.
  intros Hs Hk Hq. unfold fieldname_value. destruct v as [| b | num | s | l | l]; try reflexivity.
  apply (IH (JObj l) (MP false kp false) false); auto. repeat split; auto.
Qed.

Lemma elems_hot kp l : size (JArr l) <= n -> hot kp -> plain true (JArr l) ->
  map (fun e => W (MP false kp false) e) l = map (fun e => W0 (MP false kp false) e) l.
Proof.
  intros Hs Hk Hq. apply map_ext_in. intros e Hin. rewrite plain_arr in Hq.
  apply (IH e (MP false kp false) false); auto; [pose proof (size_in_arr e l Hin); lia | repeat split; auto].
Qed.

Lemma sub_member_hot nkp k m subk subv : within2 tb m -> size subv < n -> hot (nkp ++ [subk]) -> hot nkp \/ ~ list_arg subk -> plain true subv ->
  sub_member tb cs c is_email A W false false nkp k m subk subv = sub_member tb cs c0 is_email A W0 false false nkp k m subk subv.
Proof.
  intros Hw Hs Hk' Hk Hq. unfold sub_member. cbn [andb].
  destruct (oget m subk) as [[[]|m'|]|] eqn:Eo; try (f_equal; apply walk_value_hot; auto).
  - (* Pipeline *) f_equal. destruct subv as [| b | num | s | l | l]; try reflexivity.
    destruct Hk as [Hk|Hk].
    + apply (IH (JArr l) (MA "" false false (sel_of c l) nkp) (sel_of c0 l)); auto. repeat split; auto.
    + exfalso. apply Hk. right. apply Hw. eapply keys_of_leaf; eauto.
  - (* FieldName *) f_equal. now apply fieldname_value_hot.
  - (* OperatorArray *) f_equal. destruct subv as [| b | num | s | l | l]; try reflexivity. f_equal.
    destruct Hk as [Hk|Hk].
    + apply elems_hot; auto. lia.
    + exfalso. apply Hk. left. apply Hw. eapply keys_of_leaf; eauto.
Qed.

Lemma p_generic_hot kp k v : size v < n -> hot (kp ++ [k]) -> plain true v ->
  p_generic tb cs c is_email A W false kp false k v = p_generic tb cs c0 is_email A W0 false kp false k v.
Proof.
  intros Hs Hk' Hq. unfold p_generic.
  destruct v as [| b | num | s | l | l]; try (now apply walk_value_hot).
  destruct (starts_with_dollar s && negb false); [reflexivity | apply scalar_hot; now right].
Qed.

Lemma p_op_plain kp k v : p_op tb c kp k false v = get_op tb kp k false /\ p_op tb c0 kp k false v = get_op tb kp k false.
Proof. unfold p_op. destruct (get_op tb kp k false) as [[t|om|]|]; try (split; reflexivity). destruct v; split; reflexivity. Qed.

Lemma p_member_hot kp k v : size v < n -> hot (kp ++ [k]) -> plain true v ->
  (is_objb v = true -> ~ In (k, Pipeline) (all_entries tb)) ->
  p_member tb cs c is_email A W false kp false k v = p_member tb cs c0 is_email A W0 false kp false k v.
Proof.
  intros Hs Hk' Hq Hnp. unfold p_member.
  destruct (p_op_plain kp k v) as [E1 E2]. rewrite E1, E2.
  destruct (get_op tb kp k false) as [[[]|m|]|] eqn:Eg; try (f_equal; now apply p_generic_hot).
  - (* Pipeline *) f_equal. destruct v as [| b | num | s | l | l]; try reflexivity.
    + apply (IH (JArr l) (MA "" false false (sel_of c l) (kp ++ [k])) (sel_of c0 l)); auto. repeat split; auto.
    + exfalso. apply (Hnp eq_refl). apply get_op_good in Eg. destruct Eg as [Eg|Eg]; [discriminate | exact Eg].
  - (* FieldName *) f_equal. now apply fieldname_value_hot.
  - (* OperatorArray *) f_equal. destruct v as [| b | num | s | l | l]; try reflexivity. f_equal. apply elems_hot; auto. lia.
  - (* operator map *)
    destruct v as [| b | num | s | l | l]; try (f_equal; now apply p_generic_hot).
    f_equal. f_equal. f_equal. apply map_ext_in. intros [k0 v0] Hkv. cbn [fst snd].
    rewrite plain_obj in Hq. destruct (Hq _ Hkv) as (_ & H3). cbn [fst snd orb] in H3.
    apply sub_member_hot; auto.
    + apply get_op_good in Eg. exact Eg.
    + pose proof (size_in_obj _ l Hkv). simpl in *. lia.
    + now apply hot_snoc.
Qed.

Lemma q_member_hot parent kp k v : size v < n -> hot (kp ++ [k]) -> plain true v ->
  q_member tb cs c is_email A W false false parent kp k v = q_member tb cs c0 is_email A W0 false false parent kp k v.
Proof.
  intros Hs Hk' Hq. unfold q_member. cbn [andb]. f_equal.
  destruct v as [| b | num | s | l | l]; try reflexivity.
  - destruct (is_ty _ Exempt); [reflexivity | apply scalar_hot; now right].
  - destruct (is_ty _ Exempt); [reflexivity | apply scalar_hot; now right].
  - destruct (starts_with_dollar s); [reflexivity|]. destruct (is_ty _ Exempt); [reflexivity | apply scalar_hot; now right].
  - apply (IH (JArr l) (MA k false false (sel_of c l) (kp ++ [k])) (sel_of c0 l)); auto. repeat split; auto.
  - match goal with |- W (MQ _ _ ?co _) _ = _ => apply (IH (JObj l) (MQ false false co (kp ++ [k])) false) end; auto. repeat split; auto.
Qed.

End Step.

Theorem walk_hot : forall t m s', mode_hot m -> plain true t -> W m t = W0 (resel m s') t.
Proof.
  intros t. induction t as [t IHt] using json_size_ind. intros m s' Hm Hq.
  assert (IH : forall t' m' s'', size t' < size t -> mode_hot m' -> plain true t' -> W m' t' = W0 (resel m' s'') t').
  { intros t' m' s'' Hs Hm' Hq'. apply IHt; auto. }
  destruct t as [| b | num | s | l | l].
  - destruct m; reflexivity.
  - destruct m as [rfn kp search | |]; try reflexivity. destruct Hm as (-> & -> & Hk). cbn [walk p_leaf resel].
    apply scalar_hot. right. now apply hot_snoc.
  - destruct m as [rfn kp search | |]; try reflexivity. destruct Hm as (-> & -> & Hk). cbn [walk p_leaf resel].
    apply scalar_hot. right. now apply hot_snoc.
  - destruct m as [rfn kp search | |]; try reflexivity. destruct Hm as (-> & -> & Hk). cbn [walk p_leaf resel].
    destruct (starts_with_dollar s); [reflexivity|]. apply scalar_hot. right. now apply hot_snoc.
  - destruct m as [rfn kp search | rfn search parent kp | pk rfn search sel kp]; cbn [walk resel].
    + destruct Hm as (-> & -> & Hk). f_equal. apply (arr_hot (size (JArr l)) IH); auto.
    + reflexivity.
    + destruct Hm as (-> & -> & Hk). f_equal. apply (arr_hot (size (JArr l)) IH); auto.
  - pose proof Hq as Hq'. rewrite plain_obj in Hq'.
    destruct m as [rfn kp search | rfn search parent kp | pk rfn search sel kp]; cbn [walk resel].
    + destruct Hm as (-> & -> & Hk). f_equal. f_equal. apply map_ext_in. intros [k0 v0] Hkv. cbn [fst snd].
      destruct (Hq' _ Hkv) as ((_ & _ & H2) & H3). cbn [fst snd orb] in H2, H3.
      apply (p_member_hot (size (JObj l)) IH); auto.
      * apply (size_in_obj _ l Hkv).
      * now apply hot_snoc.
      * intros Ho Hin. destruct (H2 Ho Hin) as [Hf _]. discriminate.
    + destruct Hm as (-> & -> & Hk). f_equal. f_equal. apply map_ext_in. intros [k0 v0] Hkv. cbn [fst snd].
      destruct (Hq' _ Hkv) as (_ & H3). cbn [fst snd orb] in H3.
      apply (q_member_hot (size (JObj l)) IH); auto. apply (size_in_obj _ l Hkv). now apply hot_snoc.
    + reflexivity.
Qed.


(* ---------- all positions ---------- *)

(* the two outputs agree at every index path on which some key of the INPUT matches R *)
Definition PA (v o o0 : json) : Prop := forall p, existsb r (jkeys v p) = true -> jget o p = jget o0 p.

Lemma PA_eq v o : PA v o o.
Proof. intros p _. reflexivity. Qed.

Lemma PA_leaf v o o0 : is_leaf v -> PA v o o0.
Proof. intros Hl p H. destruct p; [discriminate|]. destruct v; try contradiction; discriminate. Qed.

Lemma PA_arr l f f0 : (forall x, In x l -> PA x (f x) (f0 x)) -> PA (JArr l) (JArr (map f l)) (JArr (map f0 l)).
Proof.
  intros H p Hp. destruct p as [|i rest]; [discriminate|]. cbn [jkeys] in Hp. cbn [jget]. rewrite !nth_error_map.
  destruct (nth_error l i) as [x|] eqn:E; [|discriminate]. cbn [option_map].
  apply (H x); [eapply nth_error_In; eauto | exact Hp].
Qed.

Lemma PA_obj l (g g0 : string * json -> string * json) : NoDup (map fst l) ->
  (forall kv, In kv l -> fst (g kv) = fst kv /\ fst (g0 kv) = fst kv /\
                         (r (fst kv) = true -> snd (g kv) = snd (g0 kv)) /\
                         (r (fst kv) = false -> PA (snd kv) (snd (g kv)) (snd (g0 kv)))) ->
  PA (JObj l) (JObj (build (map g l))) (JObj (build (map g0 l))).
Proof.
  intros Hnd H.
  assert (E : forall gg : string * json -> string * json, (forall kv, In kv l -> fst (gg kv) = fst kv) -> build (map gg l) = map gg l).
  { intros gg Hg. apply build_nodup. rewrite map_map. rewrite (map_ext_in _ fst); auto. }
  rewrite (E g) by (intros kv Hkv; apply H; auto). rewrite (E g0) by (intros kv Hkv; apply H; auto).
  intros p Hp. destruct p as [|i rest]; [discriminate|]. cbn [jkeys] in Hp. cbn [jget]. rewrite !nth_error_map.
  destruct (nth_error l i) as [kv|] eqn:En; [|discriminate]. cbn [option_map].
  destruct (H kv (nth_error_In _ _ En)) as (_ & _ & H3 & H4). cbn [existsb] in Hp.
  destruct (r (fst kv)) eqn:Er.
  - rewrite (H3 eq_refl). reflexivity.
  - apply (H4 eq_refl). exact Hp.
Qed.

Lemma existsb_false_in (l : list string) k : existsb r l = false -> In k l -> r k = false.
Proof.
  induction l as [|x l IH]; intros H Hin; [contradiction|]. cbn [existsb] in H. apply Bool.orb_false_iff in H. destruct H as [H1 H2].
  destruct Hin as [->|Hin]; auto.
Qed.

Definition mode_cool (m : mode) : Prop :=
  match m with
  | MP rfn _ search => rfn = false /\ search = false
  | MQ rfn search _ _ => rfn = false /\ search = false
  | MA _ rfn search _ _ => rfn = false /\ search = false
  end.

Lemma IHhot n : forall t m s', size t < n -> mode_hot m -> plain true t -> W m t = W0 (resel m s') t.
Proof. intros. now apply walk_hot. Qed.

Section StepPA.
Variable n : nat.
Hypothesis IH : forall t m s', size t < n -> mode_cool m -> plain false t -> nodup_keys t -> PA t (W m t) (W0 (resel m s') t).

Lemma arr_item_pa pk kp x sel sel' : size x < n -> plain false x -> nodup_keys x ->
  PA x (arr_item tb cs c is_email A W pk false false sel kp x) (arr_item tb cs c0 is_email A W0 pk false false sel' kp x).
Proof.
  intros Hs Hq Hn. destruct x as [| b | num | s | l | l]; try (apply PA_leaf; exact I); cbn [arr_item].
  - apply (IH (JArr l) (MA pk false false sel kp) sel'); auto. split; reflexivity.
  - apply (IH (JObj l) (MQ false false MNil kp) false); auto. split; reflexivity.
Qed.

Lemma arr_pa pk kp l sel sel' : size (JArr l) <= n -> plain false (JArr l) -> nodup_keys (JArr l) ->
  PA (JArr l) (JArr (map (arr_item tb cs c is_email A W pk false false sel kp) l))
              (JArr (map (arr_item tb cs c0 is_email A W0 pk false false sel' kp) l)).
Proof.
  intros Hs Hq Hn. apply PA_arr. intros x Hx. rewrite plain_arr in Hq. rewrite nodup_keys_arr in Hn.
  apply arr_item_pa; auto. pose proof (size_in_arr x l Hx). lia.
Qed.

Lemma walk_value_pa kp sinit slast v : size v < n -> plain false v -> nodup_keys v ->
  PA v (walk_value tb cs c is_email A W false false kp sinit slast v) (walk_value tb cs c0 is_email A W0 false false kp sinit slast v).
Proof.
  intros Hs Hq Hn. destruct v as [| b | num | s | l | l]; try (apply PA_leaf; exact I); cbn [walk_value].
  - apply (IH (JArr l) (MA "" false false (sel_of c l) kp) (sel_of c0 l)); auto. split; reflexivity.
  - apply (IH (JObj l) (MP false kp false) false); auto. split; reflexivity.
Qed.

Lemma fieldname_value_pa kp sinit slast keep v : size v < n -> plain false v -> nodup_keys v ->
  PA v (fieldname_value tb cs c is_email A W false false kp sinit slast keep v) (fieldname_value tb cs c0 is_email A W0 false false kp sinit slast keep v).
Proof.
  intros Hs Hq Hn. unfold fieldname_value. destruct v as [| b | num | s | l | l]; try apply PA_eq.
  apply (IH (JObj l) (MP false kp false) false); auto. split; reflexivity.
Qed.

Lemma elems_pa kp l : size (JArr l) <= n -> plain false (JArr l) -> nodup_keys (JArr l) ->
  PA (JArr l) (JArr (map (fun e => W (MP false kp false) e) l)) (JArr (map (fun e => W0 (MP false kp false) e) l)).
Proof.
  intros Hs Hq Hn. apply PA_arr. intros e Hin. rewrite plain_arr in Hq. rewrite nodup_keys_arr in Hn.
  apply (IH e (MP false kp false) false); auto; [pose proof (size_in_arr e l Hin); lia | split; reflexivity].
Qed.

Lemma stages_pa l : size (JArr l) <= n -> plain false (JArr l) -> nodup_keys (JArr l) ->
  PA (JArr l) (JArr (map (fun st => W (MP false [] (is_in_search_stage tb st)) st) l))
              (JArr (map (fun st => W0 (MP false [] (is_in_search_stage tb st)) st) l)).
Proof.
  intros Hs Hq Hn. apply PA_arr. intros st Hin. rewrite plain_arr in Hq. rewrite nodup_keys_arr in Hn.
  rewrite (stage_plain false st (Hq st Hin)).
  apply (IH st (MP false [] false) false); auto; [pose proof (size_in_arr st l Hin); lia | split; reflexivity].
Qed.

Lemma pipeline_map_member_pa subk subv : size subv < n -> plain false subv -> nodup_keys subv ->
  PA subv (pipeline_map_member tb cs c is_email A W false subk subv) (pipeline_map_member tb cs c0 is_email A W0 false subk subv).
Proof.
  intros Hs Hq Hn. destruct subv as [| b | num | s | l | l]; try (apply PA_leaf; exact I); cbn [pipeline_map_member].
  - apply stages_pa; auto. lia.
  - apply (IH (JObj l) (MP false [] false) false); auto. split; reflexivity.
Qed.

Lemma sub_member_pa nkp k m subk subv : within2 tb m -> size subv < n ->
  (r subk = true -> ~ list_arg subk) -> plain (r subk) subv -> nodup_keys subv ->
  fst (sub_member tb cs c is_email A W false false nkp k m subk subv) = subk /\
  fst (sub_member tb cs c0 is_email A W0 false false nkp k m subk subv) = subk /\
  (r subk = true -> snd (sub_member tb cs c is_email A W false false nkp k m subk subv) = snd (sub_member tb cs c0 is_email A W0 false false nkp k m subk subv)) /\
  (r subk = false -> PA subv (snd (sub_member tb cs c is_email A W false false nkp k m subk subv)) (snd (sub_member tb cs c0 is_email A W0 false false nkp k m subk subv))).
Proof.
  intros Hw Hs Hla Hq Hn. split; [|split; [|split]].
  - unfold sub_member. cbn [andb]. destruct (oget m subk) as [[[]|m'|]|]; reflexivity.
  - unfold sub_member. cbn [andb]. destruct (oget m subk) as [[[]|m'|]|]; reflexivity.
  - intros Er. rewrite Er in Hq. f_equal. apply (sub_member_hot n (IHhot n)); auto. now apply hot_last.
  - intros Er. rewrite Er in Hq. unfold sub_member. cbn [andb].
    destruct (oget m subk) as [[[]|m'|]|]; cbn [snd]; try (now apply walk_value_pa); try apply PA_eq.
    + (* Pipeline *) destruct subv as [| b | num | s | l | l]; try apply PA_eq.
      apply (IH (JArr l) (MA "" false false (sel_of c l) nkp) (sel_of c0 l)); auto. split; reflexivity.
    + (* FieldName *) now apply fieldname_value_pa.
    + (* OperatorArray *) destruct subv as [| b | num | s | l | l]; try apply PA_eq. apply elems_pa; auto. lia.
Qed.

Lemma p_generic_pa kp k v : size v < n -> plain false v -> nodup_keys v ->
  PA v (p_generic tb cs c is_email A W false kp false k v) (p_generic tb cs c0 is_email A W0 false kp false k v).
Proof.
  intros Hs Hq Hn. unfold p_generic. destruct v as [| b | num | s | l | l]; try (now apply walk_value_pa).
  apply PA_leaf. exact I.
Qed.

Lemma p_member_pa kp k v : size v < n -> member_plain false k v -> plain (r k) v -> nodup_keys v ->
  fst (p_member tb cs c is_email A W false kp false k v) = k /\
  fst (p_member tb cs c0 is_email A W0 false kp false k v) = k /\
  (r k = true -> snd (p_member tb cs c is_email A W false kp false k v) = snd (p_member tb cs c0 is_email A W0 false kp false k v)) /\
  (r k = false -> PA v (snd (p_member tb cs c is_email A W false kp false k v)) (snd (p_member tb cs c0 is_email A W0 false kp false k v))).
Proof.
  intros Hs (Hts & Hla & Hfacet) Hq Hn. split; [|split; [|split]].
  - unfold p_member. destruct (p_op tb c kp k false v) as [[[]|m|]|]; try reflexivity. destruct v; reflexivity.
  - unfold p_member. destruct (p_op tb c0 kp k false v) as [[[]|m|]|]; try reflexivity. destruct v; reflexivity.
  - intros Er. rewrite Er in Hq. f_equal. apply (p_member_hot n (IHhot n)); auto. now apply hot_last.
    intros Ho Hin. destruct (Hfacet Ho Hin) as [Hf _]. cbn [orb] in Hf. congruence.
  - intros Er. rewrite Er in Hq. unfold p_member.
    destruct (p_op_plain kp k v) as [E1 E2]. rewrite E1, E2.
    destruct (get_op tb kp k false) as [[[]|m|]|] eqn:Eg; cbn [snd]; try (now apply p_generic_pa); try apply PA_eq.
    + (* Pipeline *) destruct v as [| b | num | s | l | l]; try apply PA_eq.
      * apply (IH (JArr l) (MA "" false false (sel_of c l) (kp ++ [k])) (sel_of c0 l)); auto. split; reflexivity.
      * pose proof Hn as Hn'. apply nodup_keys_obj in Hn'. destruct Hn' as [Hnd Hch]. pose proof Hq as Hq'. rewrite plain_obj in Hq'.
        apply get_op_good in Eg. destruct Eg as [Eg|Eg]; [discriminate|]. destruct (Hfacet eq_refl Eg) as [_ Hnone]. cbn [obj_keys] in Hnone.
        apply (PA_obj l (fun kv => (fst kv, pipeline_map_member tb cs c is_email A W false (fst kv) (snd kv)))
                        (fun kv => (fst kv, pipeline_map_member tb cs c0 is_email A W0 false (fst kv) (snd kv)))); [exact Hnd|].
        intros kv Hkv. cbn [fst snd]. split; [reflexivity|]. split; [reflexivity|].
        assert (Erk : r (fst kv) = false) by (apply (existsb_false_in (map fst l)); [exact Hnone | now apply in_map]).
        split; [intros Ht; congruence|]. intros _.
        destruct (Hq' _ Hkv) as (_ & H3). rewrite Erk in H3. cbn [orb] in H3.
        apply pipeline_map_member_pa; auto. pose proof (size_in_obj _ l Hkv). simpl in *. lia.
    + (* FieldName *) now apply fieldname_value_pa.
    + (* OperatorArray *) destruct v as [| b | num | s | l | l]; try apply PA_eq. apply elems_pa; auto. lia.
    + (* operator map *)
      destruct v as [| b | num | s | l | l]; cbn [snd]; try (now apply p_generic_pa).
      pose proof Hn as Hn'. apply nodup_keys_obj in Hn'. destruct Hn' as [Hnd Hch]. pose proof Hq as Hq'. rewrite plain_obj in Hq'.
      apply (PA_obj l (fun kv => sub_member tb cs c is_email A W false false (kp ++ [k]) k m (fst kv) (snd kv))
                      (fun kv => sub_member tb cs c0 is_email A W0 false false (kp ++ [k]) k m (fst kv) (snd kv))); [exact Hnd|].
      intros kv Hkv. destruct (Hq' _ Hkv) as ((_ & H2 & _) & H3). cbn [orb] in H3.
      apply sub_member_pa; auto.
      * apply get_op_good in Eg. exact Eg.
      * pose proof (size_in_obj _ l Hkv). simpl in *. lia.
Qed.

Lemma q_member_pa parent kp k v : size v < n -> plain (r k) v -> nodup_keys v ->
  fst (q_member tb cs c is_email A W false false parent kp k v) = k /\
  fst (q_member tb cs c0 is_email A W0 false false parent kp k v) = k /\
  (r k = true -> snd (q_member tb cs c is_email A W false false parent kp k v) = snd (q_member tb cs c0 is_email A W0 false false parent kp k v)) /\
  (r k = false -> PA v (snd (q_member tb cs c is_email A W false false parent kp k v)) (snd (q_member tb cs c0 is_email A W0 false false parent kp k v))).
Proof.
  intros Hs Hq Hn. split; [reflexivity|]. split; [reflexivity|]. split.
  - intros Er. rewrite Er in Hq. f_equal. apply (q_member_hot n (IHhot n)); auto. now apply hot_last.
  - intros Er. rewrite Er in Hq. unfold q_member. cbn [andb snd].
    destruct v as [| b | num | s | l | l]; try (apply PA_leaf; exact I).
    + apply (IH (JArr l) (MA k false false (sel_of c l) (kp ++ [k])) (sel_of c0 l)); auto. split; reflexivity.
    + match goal with |- PA _ (W (MQ _ _ ?co _) _) _ => apply (IH (JObj l) (MQ false false co (kp ++ [k])) false) end; auto. split; reflexivity.
Qed.

End StepPA.

Theorem walk_pa : forall t m s', mode_cool m -> plain false t -> nodup_keys t -> PA t (W m t) (W0 (resel m s') t).
Proof.
  intros t. induction t as [t IHt] using json_size_ind. intros m s' Hm Hq Hn.
  assert (IH : forall t' m' s'', size t' < size t -> mode_cool m' -> plain false t' -> nodup_keys t' -> PA t' (W m' t') (W0 (resel m' s'') t')).
  { intros t' m' s'' Hs Hm' Hq' Hn'. apply IHt; auto. }
  destruct t as [| b | num | s | l | l]; try (apply PA_leaf; exact I).
  - destruct m as [rfn kp search | rfn search parent kp | pk rfn search sel kp]; cbn [walk resel].
    + destruct Hm as (-> & ->). apply (arr_pa (size (JArr l)) IH); auto.
    + apply PA_eq.
    + destruct Hm as (-> & ->). apply (arr_pa (size (JArr l)) IH); auto.
  - pose proof Hn as Hn'. apply nodup_keys_obj in Hn'. destruct Hn' as [Hnd Hch]. pose proof Hq as Hq'. rewrite plain_obj in Hq'.
    destruct m as [rfn kp search | rfn search parent kp | pk rfn search sel kp]; cbn [walk resel].
    + destruct Hm as (-> & ->).
      apply (PA_obj l (fun kv => p_member tb cs c is_email A W false kp false (fst kv) (snd kv))
                      (fun kv => p_member tb cs c0 is_email A W0 false kp false (fst kv) (snd kv))); [exact Hnd|].
      intros kv Hkv. destruct (Hq' _ Hkv) as (H2 & H3). cbn [orb] in H3.
      apply (p_member_pa (size (JObj l)) IH); auto. apply (size_in_obj _ l Hkv).
    + destruct Hm as (-> & ->).
      apply (PA_obj l (fun kv => q_member tb cs c is_email A W false false parent kp (fst kv) (snd kv))
                      (fun kv => q_member tb cs c0 is_email A W0 false false parent kp (fst kv) (snd kv))); [exact Hnd|].
      intros kv Hkv. destruct (Hq' _ Hkv) as (H2 & H3). cbn [orb] in H3.
      apply (q_member_pa (size (JObj l)) IH); auto. apply (size_in_obj _ l Hkv).
    + apply PA_eq.
Qed.

End SelHot.
