(* Prefix stability of the parser: if a text parses to a closed value (or leaves a non-empty rest),
   appending more text does not change the value - the rest just grows. Consequence (C08): a line
   cut anywhere either does not parse (skipped) or parses to the same object as the whole line. *)
From Coq Require Import NArith List Ascii String Bool Lia.
From Model Require Import Json Utf8 JsonText.
From Proofs Require Import JsonFacts Utf8Facts NumFacts StrCodec.
Import ListNotations.
Open Scope char_scope. Open Scope list_scope.

(* ---------- small facts ---------- *)
Lemma hd_is_ext c l x : l <> [] -> hd_is c (l ++ x) = match hd_is c l with Some r => Some (r ++ x) | None => None end.
Proof. destruct l as [|a l]; [contradiction|]. intros _. cbn [app hd_is]. destruct (Ascii.eqb a c); reflexivity. Qed.

Lemma hd_is_some c l r : hd_is c l = Some r -> l = c :: r.
Proof. destruct l as [|a l]; [discriminate|]. cbn. destruct (Ascii.eqb a c) eqn:E; [|discriminate]. apply Ascii.eqb_eq in E. intros H. injection H as <-. now subst. Qed.

Lemma skip_ws_ext l x : skip_ws l <> [] -> skip_ws (l ++ x) = skip_ws l ++ x.
Proof.
  induction l as [|ch r IH]; intros H; [contradiction|]. cbn [app skip_ws] in *.
  destruct (is_ws ch); [now apply IH | reflexivity].
Qed.

(* ---------- numbers: a non-empty rest means the literal was stopped by a character ---------- *)
Lemma take_digits_stop l d c r x : take_digits l = (d, c :: r) -> take_digits (l ++ x) = (d, c :: r ++ x).
Proof.
  revert d. induction l as [|ch l IH]; intros d H; [discriminate|]. cbn [take_digits app] in *.
  destruct (is_digit ch).
  - destruct (take_digits l) as [d0 rest] eqn:E. injection H as <- ->. now rewrite (IH d0 eq_refl).
  - injection H as <- <- <-. reflexivity.
Qed.

Lemma num_sign_stop l x : l <> [] -> num_sign (l ++ x) = (fst (num_sign l), snd (num_sign l) ++ x).
Proof.
  destruct l as [|c0 l0]; [contradiction|]. intros _. unfold num_sign. change ((c0 :: l0) ++ x) with (c0 :: (l0 ++ x)). cbv beta iota.
  destruct (Ascii.eqb c0 "-") eqn:E.
  - apply Ascii.eqb_eq in E. subst. reflexivity.
  - rewrite (m_minus c0 (l0 ++ x) (fun r0 => (["-"], r0)) ([], c0 :: l0 ++ x) E).
    now rewrite (m_minus c0 l0 (fun r0 => (["-"], r0)) ([], c0 :: l0) E).
Qed.

Lemma num_int_stop l ip c r x : num_int l = Some (ip, c :: r) -> num_int (l ++ x) = Some (ip, c :: r ++ x).
Proof.
  unfold num_int. destruct l as [|d r0]; [discriminate|]. change ((d :: r0) ++ x) with (d :: (r0 ++ x)). cbv beta match.
  destruct (is_digit d) eqn:Ed; [|discriminate]. cbn [negb]. destruct (Ascii.eqb d "0").
  - intros H. injection H as <- ->. reflexivity.
  - intros H. assert (Ht : take_digits (d :: r0) = (ip, c :: r)) by congruence.
    change (d :: r0 ++ x) with ((d :: r0) ++ x). now rewrite (take_digits_stop _ _ _ _ x Ht).
Qed.

Lemma num_frac_stop l fp c r x : num_frac l = Some (fp, c :: r) -> num_frac (l ++ x) = Some (fp, c :: r ++ x).
Proof.
  unfold num_frac. destruct l as [|c2 r2]; [discriminate|]. change ((c2 :: r2) ++ x) with (c2 :: (r2 ++ x)). cbv beta iota.
  destruct (Ascii.eqb c2 ".") eqn:E.
  - apply Ascii.eqb_eq in E. subst. destruct (take_digits r2) as [ds l3] eqn:Et. destruct ds; [discriminate|].
    intros H. injection H as <- ->. now rewrite (take_digits_stop _ _ _ _ x Et).
  - rewrite (m_dot c2 (r2 ++ x) (fun r2 => let (ds, l3) := take_digits r2 in match ds with [] => None | _ => Some ("." :: ds, l3) end) (Some ([], c2 :: r2 ++ x)) E).
    rewrite (m_dot c2 r2 (fun r2 => let (ds, l3) := take_digits r2 in match ds with [] => None | _ => Some ("." :: ds, l3) end) (Some ([], c2 :: r2)) E).
    intros H. injection H as <- <- <-. reflexivity.
Qed.

Lemma exp_sign_stop l x : l <> [] -> exp_sign (l ++ x) = (fst (exp_sign l), snd (exp_sign l) ++ x).
Proof.
  destruct l as [|c3 r3]; [contradiction|]. intros _. unfold exp_sign. change ((c3 :: r3) ++ x) with (c3 :: (r3 ++ x)). cbv beta iota.
  destruct (Ascii.eqb c3 "+") eqn:E1; [apply Ascii.eqb_eq in E1; subst; reflexivity|].
  destruct (Ascii.eqb c3 "-") eqn:E2; [apply Ascii.eqb_eq in E2; subst; reflexivity|].
  rewrite (m_pm c3 (r3 ++ x) (fun r' => (["+"], r')) (fun r' => (["-"], r')) ([], c3 :: r3 ++ x) E1 E2).
  now rewrite (m_pm c3 r3 (fun r' => (["+"], r')) (fun r' => (["-"], r')) ([], c3 :: r3) E1 E2).
Qed.

Lemma num_exp_stop l ep c r x : num_exp l = Some (ep, c :: r) -> num_exp (l ++ x) = Some (ep, c :: r ++ x).
Proof.
  unfold num_exp. destruct l as [|e r3]; [discriminate|]. change ((e :: r3) ++ x) with (e :: (r3 ++ x)). cbv beta iota.
  destruct (Ascii.eqb e "e" || Ascii.eqb e "E").
  - destruct r3 as [|c3 r3'].
    + cbn. discriminate.
    + rewrite (exp_sign_stop (c3 :: r3') x) by discriminate. destruct (exp_sign (c3 :: r3')) as [sg r4]. cbn [fst snd].
      destruct (take_digits r4) as [ds l4] eqn:Et. destruct ds as [|d0 ds']; [discriminate|].
      intros H. injection H as <- ->. now rewrite (take_digits_stop _ _ _ _ x Et).
  - intros H. injection H as <- <- <-. reflexivity.
Qed.

Lemma parse_num_stop l lit c r x : parse_num l = Some (lit, c :: r) -> parse_num (l ++ x) = Some (lit, c :: r ++ x).
Proof.
  unfold parse_num. intros H.
  assert (Hl : l <> []) by (intros ->; discriminate H).
  rewrite (num_sign_stop l x Hl). destruct (num_sign l) as [sign l1]. cbn [fst snd].
  destruct (num_int l1) as [[ip l2]|] eqn:Ei; [|discriminate].
  destruct (num_frac l2) as [[fp l3]|] eqn:Ef; [|discriminate].
  destruct (num_exp l3) as [[ep l4]|] eqn:Ee; [|discriminate].
  injection H as <- ->.
  pose proof (num_exp_spec _ _ _ Ee) as [He _]. pose proof (num_frac_spec _ _ _ Ef) as [Hf _].
  assert (H3 : exists c3 r3, l3 = c3 :: r3) by (rewrite He; destruct ep; simpl; eauto).
  destruct H3 as (c3 & r3 & ->).
  assert (H2 : exists c2 r2, l2 = c2 :: r2) by (rewrite Hf; destruct fp; simpl; eauto).
  destruct H2 as (c2 & r2 & ->).
  rewrite (num_int_stop _ _ _ _ x Ei). change (c2 :: r2 ++ x) with ((c2 :: r2) ++ x).
  rewrite (num_frac_stop _ _ _ _ x Ef). change (c3 :: r3 ++ x) with ((c3 :: r3) ++ x).
  rewrite (num_exp_stop _ _ _ _ x Ee). reflexivity.
Qed.

Lemma parse_num_head l lit r : parse_num l = Some (lit, r) -> exists ch t, l = ch :: t /\ (is_digit ch = true \/ ch = "-").
Proof.
  unfold parse_num. pose proof (num_sign_spec l) as [Hs _]. unfold num_sign in *.
  destruct l as [|c0 l0]; [discriminate|]. intros H. exists c0, l0. split; [reflexivity|].
  destruct (Ascii.eqb c0 "-") eqn:E; [apply Ascii.eqb_eq in E; auto|]. left.
  rewrite (m_minus c0 l0 (fun r0 => (["-"], r0)) ([], c0 :: l0) E) in H.
  unfold num_int in H. destruct (is_digit c0); [reflexivity | discriminate].
Qed.

(* ---------- strings ---------- *)
Definition q : ascii := """".

Lemma hex4_some l u r : hex4 l = Some (u, r) -> exists a b c d, l = a :: b :: c :: d :: r.
Proof.
  unfold hex4. destruct l as [|a [|b [|c [|d r']]]]; try discriminate.
  destruct (hexval a), (hexval b), (hexval c), (hexval d); try discriminate. intros H. injection H as _ <-. eauto.
Qed.

Lemma hex4_ext l u r x : hex4 l = Some (u, r) -> hex4 (l ++ x) = Some (u, r ++ x).
Proof.
  intros H. destruct (hex4_some _ _ _ H) as (a & b & c & d & ->). cbn [app]. unfold hex4 in *.
  destruct (hexval a), (hexval b), (hexval c), (hexval d); try discriminate. injection H as <-. reflexivity.
Qed.

(* hex4 fails on a short all-hex text only; then the escape it belongs to fails too *)
Lemma hexval_q : hexval q = None.
Proof. reflexivity. Qed.

(* the closing quote is in the text *)
Lemma suffix_in {X} (a : X) l r : (exists p, l = p ++ r) -> In a r -> In a l.
Proof. intros [p ->] H. apply in_or_app. now right. Qed.

Lemma parse_str_quote f : forall l acc s r, parse_str f l acc = Some (s, r) -> In q l.
Proof.
  induction f as [|f IH]; intros l acc s r H; [discriminate|].
  cbn [parse_str] in H. destruct l as [|ch r0]; [discriminate|].
  destruct (N_of ch =? 34)%N eqn:E34.
  { left. apply N.eqb_eq in E34. rewrite <- (ch_of_N_of ch), E34. reflexivity. }
  right.
  destruct (N_of ch <? 32)%N; [discriminate|].
  destruct (N_of ch =? 92)%N.
  { destruct r0 as [|e r2]; [discriminate|]. right.
    destruct (Ascii.eqb e """"); [eapply IH; exact H|].
    destruct (Ascii.eqb e "\"); [eapply IH; exact H|].
    destruct (Ascii.eqb e "/"); [eapply IH; exact H|].
    destruct (Ascii.eqb e "b"); [eapply IH; exact H|].
    destruct (Ascii.eqb e "f"); [eapply IH; exact H|].
    destruct (Ascii.eqb e "n"); [eapply IH; exact H|].
    destruct (Ascii.eqb e "r"); [eapply IH; exact H|].
    destruct (Ascii.eqb e "t"); [eapply IH; exact H|].
    destruct (Ascii.eqb e "u"); [|discriminate].
    destruct (hex4 r2) as [[u1 r3]|] eqn:Eh; [|discriminate].
    destruct (hex4_some _ _ _ Eh) as (a & b & c & d & ->).
    assert (Hs : forall z, In q z -> (exists p, r3 = p ++ z) -> In q (a :: b :: c :: d :: r3)).
    { intros z Hz Hp. do 4 right. eapply suffix_in; eauto. }
    destruct ((55296 <=? u1)%N && (u1 <? 57344)%N).
    - cbv zeta in H.
      destruct (hd_is "\" r3) as [r3'|] eqn:E1; [|apply (Hs r3); [eapply IH; exact H | exists []; reflexivity]].
      apply hd_is_some in E1.
      destruct (hd_is "u" r3') as [r4|] eqn:E2; [|apply (Hs r3); [eapply IH; exact H | exists []; reflexivity]].
      apply hd_is_some in E2.
      destruct (hex4 r4) as [[u2 r5]|] eqn:Eh2; [|apply (Hs r3); [eapply IH; exact H | exists []; reflexivity]].
      destruct (hex4_some _ _ _ Eh2) as (a' & b' & c' & d' & Er4).
      destruct ((u1 <? 56320)%N && (56320 <=? u2)%N && (u2 <? 57344)%N).
      + apply (Hs r5); [eapply IH; exact H|]. subst. exists ["\"; "u"; a'; b'; c'; d']. reflexivity.
      + apply (Hs r3); [eapply IH; exact H | exists []; reflexivity].
    - apply (Hs r3); [eapply IH; exact H | exists []; reflexivity]. }
  destruct (N_of ch <? 128)%N; [eapply IH; exact H|].
  destruct (decode_rune (map N_of (firstn 4 (ch :: r0)))) as [[cp size]|] eqn:Ed.
  - apply IH in H. destruct size as [|size].
    + cbn [skipn] in H. destruct H as [H|H]; [|exact H]. exfalso. subst ch. discriminate E34.
    + cbn [skipn] in H. eapply suffix_in; [|exact H]. exists (firstn size r0). now rewrite firstn_skipn.
  - eapply IH; exact H.
Qed.

(* decoding near a quote does not depend on what follows the quote *)
Lemma decode_34 pre Y Y' : (List.length pre <= 3)%nat ->
  decode_rune (pre ++ 34%N :: Y) = decode_rune (pre ++ 34%N :: Y').
Proof.
  intros Hl. destruct pre as [|b0 [|b1 [|b2 [|b3 pre]]]]; try (simpl in Hl; lia); cbn [app]; unfold decode_rune.
  - reflexivity.
  - destruct (b0 <? 128)%N; [reflexivity|].
    destruct ((194 <=? b0) && (b0 <=? 223))%N; [reflexivity|].
    destruct ((224 <=? b0) && (b0 <=? 239))%N.
    { destruct Y, Y'; try reflexivity; cbv zeta; destruct (b0 =? 224)%N; reflexivity. }
    destruct ((240 <=? b0) && (b0 <=? 244))%N; [|reflexivity].
    destruct Y as [|y1 [|y2 Y]], Y' as [|z1 [|z2 Y']]; try reflexivity; cbv zeta; destruct (b0 =? 240)%N; reflexivity.
  - destruct (b0 <? 128)%N; [reflexivity|].
    destruct ((194 <=? b0) && (b0 <=? 223))%N; [reflexivity|].
    destruct ((224 <=? b0) && (b0 <=? 239))%N.
    { cbv zeta. change (cont 34) with false. now rewrite !andb_false_r. }
    destruct ((240 <=? b0) && (b0 <=? 244))%N; [|reflexivity].
    destruct Y, Y'; try reflexivity; cbv zeta; change (cont 34) with false; now rewrite ?andb_false_r.
  - destruct (b0 <? 128)%N; [reflexivity|].
    destruct ((194 <=? b0) && (b0 <=? 223))%N; [reflexivity|].
    destruct ((224 <=? b0) && (b0 <=? 239))%N; [reflexivity|].
    destruct ((240 <=? b0) && (b0 <=? 244))%N; [|reflexivity].
    cbv zeta. change (cont 34) with false. now rewrite !andb_false_r.
Qed.

Lemma N_of_q : N_of q = 34%N.
Proof. reflexivity. Qed.

Lemma in_split_first (l : list ascii) : In q l -> exists pre post, l = pre ++ q :: post /\ ~ In q pre.
Proof.
  induction l as [|a l IH]; [intros []|]. intros H.
  destruct (ascii_dec a q) as [->|Hn].
  - exists [], l. split; [reflexivity | intros []].
  - destruct H as [H|H]; [contradiction|]. destruct (IH H) as (pre & post & -> & Hp).
    exists (a :: pre), post. split; [reflexivity|]. intros [E|E]; [contradiction | auto].
Qed.

Lemma decode_first4_ext l x : In q l ->
  decode_rune (map N_of (firstn 4 (l ++ x))) = decode_rune (map N_of (firstn 4 l)).
Proof.
  intros H. destruct (in_split_first l H) as (pre & post & -> & _).
  destruct (Nat.le_gt_cases 4 (List.length pre)) as [Hl|Hl].
  - rewrite <- app_assoc. rewrite !firstn_app.
    replace (4 - List.length pre)%nat with 0%nat by lia. cbn [firstn]. now rewrite !app_nil_r.
  - rewrite <- app_assoc. cbn [app].
    assert (E : forall Z, exists Y, map N_of (firstn 4 (pre ++ q :: Z)) = map N_of pre ++ 34%N :: Y).
    { intros Z. rewrite firstn_app. rewrite firstn_all2 by lia.
      destruct (4 - List.length pre)%nat as [|k] eqn:Ek; [lia|]. cbn [firstn]. rewrite map_app. cbn [map]. rewrite N_of_q. eexists. reflexivity. }
    destruct (E (post ++ x)) as [Y1 ->]. destruct (E post) as [Y2 ->].
    apply decode_34. rewrite map_length. lia.
Qed.

(* extension and fuel monotonicity in one statement *)
Lemma parse_str_ext f : forall l acc s r x f', parse_str f l acc = Some (s, r) -> (f <= f')%nat ->
  parse_str f' (l ++ x) acc = Some (s, r ++ x).
Proof.
  induction f as [|f IH]; intros l acc s r x f' H Hf; [discriminate|].
  destruct f' as [|f']; [lia|]. assert (Hf' : (f <= f')%nat) by lia.
  pose proof (parse_str_quote _ _ _ _ _ H) as Hq.
  cbn [parse_str] in H. destruct l as [|ch r0]; [discriminate|].
  change ((ch :: r0) ++ x) with (ch :: (r0 ++ x)). cbn [parse_str].
  destruct (N_of ch =? 34)%N. { injection H as <- <-. reflexivity. }
  destruct (N_of ch <? 32)%N; [discriminate|].
  destruct (N_of ch =? 92)%N.
  { destruct r0 as [|e r2]; [discriminate|]. change ((e :: r2) ++ x) with (e :: (r2 ++ x)). cbv beta match.
    destruct (Ascii.eqb e """"); [eapply IH; eauto|].
    destruct (Ascii.eqb e "\"); [eapply IH; eauto|].
    destruct (Ascii.eqb e "/"); [eapply IH; eauto|].
    destruct (Ascii.eqb e "b"); [eapply IH; eauto|].
    destruct (Ascii.eqb e "f"); [eapply IH; eauto|].
    destruct (Ascii.eqb e "n"); [eapply IH; eauto|].
    destruct (Ascii.eqb e "r"); [eapply IH; eauto|].
    destruct (Ascii.eqb e "t"); [eapply IH; eauto|].
    destruct (Ascii.eqb e "u"); [|discriminate].
    destruct (hex4 r2) as [[u1 r3]|] eqn:Eh; [|discriminate].
    rewrite (hex4_ext _ _ _ x Eh).
    destruct ((55296 <=? u1)%N && (u1 <? 57344)%N); [|eapply IH; eauto].
    cbv zeta in *.
    (* the text after a high surrogate: r3 is not empty on a successful parse *)
    destruct r3 as [|c1 r3t].
    { cbn [hd_is] in H. destruct f; discriminate H. }
    rewrite (hd_is_ext "\" (c1 :: r3t) x) by discriminate.
    destruct (hd_is "\" (c1 :: r3t)) as [r3'|] eqn:E1; [|eapply IH; eauto].
    apply hd_is_some in E1. injection E1 as -> ->.
    destruct r3' as [|c2 r3't].
    { cbn [hd_is] in H. destruct f as [|f0]; [discriminate H|]. cbn in H. discriminate H. }
    rewrite (hd_is_ext "u" (c2 :: r3't) x) by discriminate.
    destruct (hd_is "u" (c2 :: r3't)) as [r4|] eqn:E2; [|eapply IH; eauto].
    apply hd_is_some in E2. injection E2 as -> ->.
    destruct (hex4 r4) as [[u2 r5]|] eqn:Eh2.
    - rewrite (hex4_ext _ _ _ x Eh2).
      destruct ((u1 <? 56320)%N && (56320 <=? u2)%N && (u2 <? 57344)%N); eapply IH; eauto.
    - (* the escape after the surrogate is broken: the lone-surrogate continuation fails on it *)
      exfalso. destruct f as [|f0]; [discriminate H|]. cbn [parse_str] in H.
      change (N_of "\" =? 34)%N with false in H. change (N_of "\" <? 32)%N with false in H. change (N_of "\" =? 92)%N with true in H.
      cbv beta match in H. change (Ascii.eqb "u" """") with false in H. change (Ascii.eqb "u" "\") with false in H.
      change (Ascii.eqb "u" "/") with false in H. change (Ascii.eqb "u" "b") with false in H. change (Ascii.eqb "u" "f") with false in H.
      change (Ascii.eqb "u" "n") with false in H. change (Ascii.eqb "u" "r") with false in H. change (Ascii.eqb "u" "t") with false in H.
      change (Ascii.eqb "u" "u") with true in H. cbv beta match in H. rewrite Eh2 in H. discriminate H. }
  destruct (N_of ch <? 128)%N; [eapply IH; eauto|].
  change (ch :: r0 ++ x) with ((ch :: r0) ++ x). rewrite (decode_first4_ext (ch :: r0) x Hq).
  destruct (decode_rune (map N_of (firstn 4 (ch :: r0)))) as [[cp size]|] eqn:Ed.
  - (* the copied sequence lies inside the text: it does not reach the closing quote *)
    pose proof (IH _ _ _ _ x f' H Hf') as Hx.
    assert (Hsz : (size <= List.length (ch :: r0))%nat).
    { apply decode_rune_at in Ed. destruct Ed as (pre & rr & Hr & ->). apply rune_at_app in Hr.
      assert (Hlen : List.length (map N_of (firstn 4 (ch :: r0))) = List.length (pre ++ rr)) by now rewrite Hr.
      rewrite map_length, firstn_length, app_length in Hlen. lia. }
    rewrite skipn_app, firstn_app in *. replace (size - List.length (ch :: r0))%nat with 0%nat by lia.
    cbn [skipn firstn]. rewrite app_nil_r. cbn [skipn] in Hx. exact Hx.
  - change ((ch :: r0) ++ x) with (ch :: (r0 ++ x)). eapply IH; eauto.
Qed.

(* ---------- scalars ---------- *)
Lemma strip_prefix_ext p l r x : strip_prefix p l = Some r -> strip_prefix p (l ++ x) = Some (r ++ x).
Proof.
  revert l. induction p as [|a p IH]; intros l H; [injection H as <-; reflexivity|].
  destruct l as [|b l]; [discriminate|]. cbn [strip_prefix app] in *. destruct (Ascii.eqb a b); [now apply IH | discriminate].
Qed.

Lemma sp_true c t x : Ascii.eqb "t" c = false -> strip_prefix lit_true ((c :: t) ++ x) = None.
Proof. intros H. unfold lit_true. cbn [strip_prefix app]. now rewrite H. Qed.
Lemma sp_false c t x : Ascii.eqb "f" c = false -> strip_prefix lit_false ((c :: t) ++ x) = None.
Proof. intros H. unfold lit_false. cbn [strip_prefix app]. now rewrite H. Qed.
Lemma sp_null c t x : Ascii.eqb "n" c = false -> strip_prefix lit_null ((c :: t) ++ x) = None.
Proof. intros H. unfold lit_null. cbn [strip_prefix app]. now rewrite H. Qed.

Definition closed (t : json) : Prop := match t with JObj _ | JArr _ | JStr _ => True | _ => False end.

Lemma parse_scalar_ext l t r x : parse_scalar l = Some (t, r) -> r <> [] ->
  parse_scalar (l ++ x) = Some (t, r ++ x).
Proof.
  unfold parse_scalar. intros H Hr.
  destruct (strip_prefix lit_true l) as [r1|] eqn:E1.
  { injection H as <- <-. now rewrite (strip_prefix_ext _ _ _ x E1). }
  destruct (strip_prefix lit_false l) as [r2|] eqn:E2.
  { inversion H; subst t r. destruct l as [|c0 t0]; [unfold lit_false in E2; cbn [strip_prefix] in E2; discriminate E2|].
    assert (Ec : c0 = "f") by (unfold lit_false in E2; cbn [strip_prefix] in E2; destruct (Ascii.eqb "f" c0) eqn:E; [apply Ascii.eqb_eq in E; auto | first [discriminate E2 | discriminate E3]]). subst c0.
    rewrite (sp_true "f" t0 x eq_refl). now rewrite (strip_prefix_ext _ _ _ x E2). }
  destruct (strip_prefix lit_null l) as [r3|] eqn:E3.
  { inversion H; subst t r. destruct l as [|c0 t0]; [unfold lit_null in E3; cbn [strip_prefix] in E3; discriminate E3|].
    assert (Ec : c0 = "n") by (unfold lit_null in E3; cbn [strip_prefix] in E3; destruct (Ascii.eqb "n" c0) eqn:E; [apply Ascii.eqb_eq in E; auto | first [discriminate E2 | discriminate E3]]). subst c0.
    rewrite (sp_true "n" t0 x eq_refl), (sp_false "n" t0 x eq_refl). now rewrite (strip_prefix_ext _ _ _ x E3). }
  destruct (parse_num l) as [[lit r']|] eqn:En; [|discriminate]. injection H as <- <-.
  destruct (parse_num_head _ _ _ En) as (ch & t0 & -> & Hd).
  assert (Hne : Ascii.eqb "t" ch = false /\ Ascii.eqb "f" ch = false /\ Ascii.eqb "n" ch = false).
  { destruct Hd as [Hd | ->]; [|repeat split; reflexivity].
    destruct ch as [[] [] [] [] [] [] [] []]; try (vm_compute in Hd; discriminate Hd); repeat split; reflexivity. }
  destruct Hne as (Ht & Hf & Hn).
  rewrite (sp_true ch t0 x Ht), (sp_false ch t0 x Hf), (sp_null ch t0 x Hn).
  destruct r' as [|c r']; [contradiction|]. now rewrite (parse_num_stop _ _ _ _ x En).
Qed.

(* ---------- values ---------- *)
Lemma parse_value_nil f : parse_value f [] = None.
Proof. destruct f; reflexivity. Qed.
Lemma parse_members_nil f acc : parse_members f [] acc = None.
Proof. destruct f; reflexivity. Qed.
Lemma parse_elems_nil f acc : parse_elems f [] acc = None.
Proof. destruct f as [|f]; [reflexivity|]. cbn [parse_elems hd_is]. now rewrite parse_value_nil. Qed.

Lemma parse_ext f :
  (forall l t r x f', parse_value f l = Some (t, r) -> (r <> [] \/ closed t) -> (f <= f')%nat ->
                      parse_value f' (l ++ x) = Some (t, r ++ x)) /\
  (forall l acc t r x f', parse_members f l acc = Some (t, r) -> (f <= f')%nat ->
                      parse_members f' (l ++ x) acc = Some (t, r ++ x)) /\
  (forall l acc t r x f', parse_elems f l acc = Some (t, r) -> (f <= f')%nat ->
                      parse_elems f' (l ++ x) acc = Some (t, r ++ x)).
Proof.
  induction f as [|f (IHv & IHm & IHe)]; [split; [|split]; intros; discriminate|].
  split; [|split].
  - intros l t r x f' H Hc Hf. destruct f' as [|f']; [lia|]. assert (Hf' : (f <= f')%nat) by lia.
    cbn [parse_value] in *. destruct (skip_ws l) as [|ch r0] eqn:Es; [discriminate|].
    rewrite (skip_ws_ext l x) by (rewrite Es; discriminate). rewrite Es. cbn [app].
    destruct (Ascii.eqb ch "{").
    { destruct (skip_ws r0) as [|c1 r1] eqn:Es1.
      { cbn [hd_is] in H. rewrite parse_members_nil in H. discriminate H. }
      rewrite (skip_ws_ext r0 x) by (rewrite Es1; discriminate). rewrite Es1.
      rewrite (hd_is_ext "}" (c1 :: r1) x) by discriminate.
      destruct (hd_is "}" (c1 :: r1)) as [r'|]; [injection H as <- <-; reflexivity|].
      eapply IHm; eauto. }
    destruct (Ascii.eqb ch "[").
    { destruct (skip_ws r0) as [|c1 r1] eqn:Es1.
      { cbn [hd_is] in H. rewrite parse_elems_nil in H. discriminate H. }
      rewrite (skip_ws_ext r0 x) by (rewrite Es1; discriminate). rewrite Es1.
      rewrite (hd_is_ext "]" (c1 :: r1) x) by discriminate.
      destruct (hd_is "]" (c1 :: r1)) as [r'|]; [injection H as <- <-; reflexivity|].
      eapply IHe; eauto. }
    destruct (Ascii.eqb ch """").
    { destruct (parse_str (S (List.length r0)) r0 []) as [[s r']|] eqn:Ep; [|discriminate]. injection H as <- <-.
      rewrite (parse_str_ext _ _ _ _ _ x (S (List.length (r0 ++ x))) Ep); [reflexivity|]. rewrite app_length. lia. }
    change (ch :: r0 ++ x) with ((ch :: r0) ++ x).
    destruct Hc as [Hc|Hc].
    + now apply parse_scalar_ext.
    + exfalso. unfold parse_scalar in H.
      destruct (strip_prefix lit_true (ch :: r0)); [injection H as <- _; exact Hc|].
      destruct (strip_prefix lit_false (ch :: r0)); [injection H as <- _; exact Hc|].
      destruct (strip_prefix lit_null (ch :: r0)); [injection H as <- _; exact Hc|].
      destruct (parse_num (ch :: r0)) as [[lit r']|]; [injection H as <- _; exact Hc | discriminate].
  - intros l acc t r x f' H Hf. destruct f' as [|f']; [lia|]. assert (Hf' : (f <= f')%nat) by lia.
    cbn [parse_members] in *.
    destruct l as [|c0 l0]; [discriminate|].
    rewrite (hd_is_ext """" (c0 :: l0) x) by discriminate.
    destruct (hd_is """" (c0 :: l0)) as [r0|]; [|discriminate].
    destruct (parse_str (S (List.length r0)) r0 []) as [[k r1]|] eqn:Ep; [|discriminate].
    rewrite (parse_str_ext _ _ _ _ _ x (S (List.length (r0 ++ x))) Ep) by (rewrite app_length; lia).
    destruct (skip_ws r1) as [|c1 r1'] eqn:Es1; [discriminate|].
    rewrite (skip_ws_ext r1 x) by (rewrite Es1; discriminate). rewrite Es1.
    rewrite (hd_is_ext ":" (c1 :: r1') x) by discriminate.
    destruct (hd_is ":" (c1 :: r1')) as [r2|]; [|discriminate].
    destruct (parse_value f r2) as [[v r3]|] eqn:Ev; [|discriminate].
    cbv zeta in *.
    destruct (skip_ws r3) as [|c3 r3'] eqn:Es3; [discriminate|].
    assert (Hr3 : r3 <> []) by (intros ->; discriminate Es3).
    rewrite (IHv _ _ _ x f' Ev (or_introl Hr3) Hf').
    rewrite (skip_ws_ext r3 x) by (rewrite Es3; discriminate). rewrite Es3.
    rewrite (hd_is_ext "," (c3 :: r3') x) by discriminate. rewrite (hd_is_ext "}" (c3 :: r3') x) by discriminate.
    destruct (hd_is "," (c3 :: r3')) as [r4|].
    + destruct (skip_ws r4) as [|c4 r4'] eqn:Es4.
      { rewrite parse_members_nil in H. discriminate H. }
      rewrite (skip_ws_ext r4 x) by (rewrite Es4; discriminate). rewrite Es4.
      change (c4 :: r4' ++ x) with ((c4 :: r4') ++ x). eapply IHm; eauto.
    + destruct (hd_is "}" (c3 :: r3')) as [r4|]; [injection H as <- <-; reflexivity | discriminate].
  - intros l acc t r x f' H Hf. destruct f' as [|f']; [lia|]. assert (Hf' : (f <= f')%nat) by lia.
    cbn [parse_elems] in *.
    destruct l as [|c0 l0].
    { cbn [hd_is] in H. rewrite parse_value_nil in H. discriminate H. }
    rewrite (hd_is_ext "]" (c0 :: l0) x) by discriminate. rewrite (hd_is_ext "}" (c0 :: l0) x) by discriminate.
    destruct (hd_is "]" (c0 :: l0)); [discriminate|]. destruct (hd_is "}" (c0 :: l0)); [discriminate|].
    destruct (parse_value f (c0 :: l0)) as [[v r1]|] eqn:Ev; [|discriminate].
    destruct (skip_ws r1) as [|c1 r1'] eqn:Es1; [discriminate|].
    assert (Hr1 : r1 <> []) by (intros ->; discriminate Es1).
    rewrite (IHv _ _ _ x f' Ev (or_introl Hr1) Hf').
    rewrite (skip_ws_ext r1 x) by (rewrite Es1; discriminate). rewrite Es1.
    rewrite (hd_is_ext "," (c1 :: r1') x) by discriminate. rewrite (hd_is_ext "]" (c1 :: r1') x) by discriminate.
    destruct (hd_is "," (c1 :: r1')) as [r2|].
    + destruct (skip_ws r2) as [|c2 r2'] eqn:Es2.
      { rewrite parse_elems_nil in H. discriminate H. }
      rewrite (skip_ws_ext r2 x) by (rewrite Es2; discriminate). rewrite Es2.
      change (c2 :: r2' ++ x) with ((c2 :: r2') ++ x). eapply IHe; eauto.
    + destruct (hd_is "]" (c1 :: r1')) as [r2|]; [injection H as <- <-; reflexivity | discriminate].
Qed.

(* ---------- lines ---------- *)
Theorem parse_line_prefix p x t : parse_line p = Some t -> parse_line (p ++ x) = Some t.
Proof.
  unfold parse_line. destruct (parse_value (S (List.length p)) p) as [[v r]|] eqn:E; [|discriminate].
  destruct v; try discriminate. intros H. injection H as <-.
  destruct (parse_ext (S (List.length p))) as (Hv & _).
  rewrite (Hv _ _ _ x (S (List.length (p ++ x))) E (or_intror I)); [reflexivity|]. rewrite app_length. lia.
Qed.
