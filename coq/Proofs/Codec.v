(* The text codec: parse (print t) = t for every tree whose strings are valid UTF-8, whose number
   literals are valid and whose objects have no duplicate keys - whatever follows the value, as
   long as it starts with a delimiter. *)
From Coq Require Import NArith List Ascii String Bool Lia.
From Model Require Import Json Utf8 JsonText.
From Proofs Require Import JsonFacts Utf8Facts NumFacts StrCodec.
Import ListNotations.
Open Scope char_scope. Open Scope list_scope.

(* all strings (keys and values) are valid UTF-8 *)
Fixpoint strings_valid (t : json) : Prop :=
  match t with
  | JStr s => valid_string s
  | JArr l => (fix go (l : list json) : Prop := match l with [] => True | x :: r => strings_valid x /\ go r end) l
  | JObj l => (fix go (l : list (string * json)) : Prop :=
                 match l with [] => True | kv :: r => valid_string (fst kv) /\ strings_valid (snd kv) /\ go r end) l
  | _ => True
  end.

Lemma strings_valid_arr l : strings_valid (JArr l) <-> forall x, In x l -> strings_valid x.
Proof.
  simpl. induction l as [|y l IH]; split; intros H.
  - intros x [].
  - exact I.
  - intros x [->|Hx]; [tauto|]. apply IH; tauto.
  - split; [apply H; simpl; auto|]. apply IH. intros x Hx. apply H. simpl. auto.
Qed.

Lemma strings_valid_obj l : strings_valid (JObj l) <-> forall kv, In kv l -> valid_string (fst kv) /\ strings_valid (snd kv).
Proof.
  simpl. induction l as [|y l IH]; split; intros H.
  - intros x [].
  - exact I.
  - intros x [->|Hx]; [tauto|]. apply IH; tauto.
  - destruct (H y (or_introl eq_refl)) as [H1 H2]. repeat split; auto. apply IH. intros x Hx. apply H. simpl. auto.
Qed.

Definition wf (t : json) : Prop := nodup_keys t /\ printable t = true /\ strings_valid t.

(* what may follow a value *)
Definition rest_ok (rest : list ascii) : Prop := rest = [] \/ exists c t, rest = c :: t /\ delim c.

(* ---------- first characters ---------- *)
Definition starter (c : ascii) : Prop := is_ws c = false /\ c <> "]" /\ c <> "}".

Lemma digit_starter c : is_digit c = true \/ c = "-" -> starter c /\ Ascii.eqb c "{" = false /\ Ascii.eqb c "[" = false /\ Ascii.eqb c """" = false /\
  Ascii.eqb c "t" = false /\ Ascii.eqb c "f" = false /\ Ascii.eqb c "n" = false.
Proof.
  intros [H | ->]; [|vm_compute; repeat split; discriminate].
  destruct c as [[] [] [] [] [] [] [] []]; try (vm_compute in H; discriminate H); vm_compute; repeat split; discriminate.
Qed.

Lemma print_string_head s : exists body, print_string s = """" :: body.
Proof. unfold print_string. eexists. reflexivity. Qed.

Lemma print_head t : printable t = true -> exists c r, print t = c :: r /\ starter c.
Proof.
  intros Hp. destruct t as [| [] | n | s | l | l]; cbn [print].
  - eexists _, _. split; [reflexivity|]. vm_compute. repeat split; discriminate.
  - eexists _, _. split; [reflexivity|]. vm_compute. repeat split; discriminate.
  - eexists _, _. split; [reflexivity|]. vm_compute. repeat split; discriminate.
  - simpl in Hp. destruct (valid_number_head n Hp) as (ch & r & E & Hd). rewrite E. exists ch, r. split; [reflexivity|].
    now apply digit_starter.
  - unfold print_string. eexists _, _. split; [reflexivity|]. vm_compute. repeat split; discriminate.
  - eexists _, _. split; [reflexivity|]. vm_compute. repeat split; discriminate.
  - eexists _, _. split; [reflexivity|]. vm_compute. repeat split; discriminate.
Qed.

Lemma skip_ws_starter c r : is_ws c = false -> skip_ws (c :: r) = c :: r.
Proof. intros H. cbn [skip_ws]. now rewrite H. Qed.

(* tests on a literal first character *)
Lemma hd_is_eq c r : hd_is c (c :: r) = Some r.
Proof. unfold hd_is. now rewrite Ascii.eqb_refl. Qed.

Lemma hd_is_neq c x r : x <> c -> hd_is c (x :: r) = None.
Proof. intros H. unfold hd_is. destruct (Ascii.eqb x c) eqn:E; [apply Ascii.eqb_eq in E; contradiction | reflexivity]. Qed.

Lemma hd_is_app c x r l X : l = x :: r -> x <> c -> hd_is c (l ++ X) = None.
Proof. intros -> H. cbn [app]. now apply hd_is_neq. Qed.

(* ---------- one value, given the values inside it ---------- *)
Definition P (x : json) : Prop := forall fuel rest, rest_ok rest -> (List.length (print x) <= fuel)%nat ->
  parse_value fuel (print x ++ rest) = Some (x, rest).

Lemma sep_concat_cons {A} (x y : list A) (r : list (list A)) (sep : A) : True. Proof. exact I. Qed.

Lemma sep2 {X} (f : X -> list ascii) x y r : sep_concat (map f (x :: y :: r)) = f x ++ "," :: sep_concat (map f (y :: r)).
Proof. reflexivity. Qed.

Lemma rest_ok_comma t : rest_ok ("," :: t).
Proof. right. exists ",", t. split; [reflexivity | left; reflexivity]. Qed.
Lemma rest_ok_rbrack t : rest_ok ("]" :: t).
Proof. right. exists "]", t. split; [reflexivity | right; left; reflexivity]. Qed.
Lemma rest_ok_rbrace t : rest_ok ("}" :: t).
Proof. right. exists "}", t. split; [reflexivity | right; right; reflexivity]. Qed.

Lemma print_len_pos x : printable x = true -> (1 <= List.length (print x))%nat.
Proof. intros H. destruct (print_head x H) as (c & r & -> & _). simpl. lia. Qed.

Lemma elems_ok l : l <> [] -> (forall x, In x l -> P x /\ printable x = true) -> forall f acc rest,
  (List.length (sep_concat (map print l)) + 1 <= f)%nat ->
  parse_elems f (sep_concat (map print l) ++ "]" :: rest) acc = Some (JArr (rev acc ++ l), rest).
Proof.
  induction l as [|x l IH]; intros Hne HP f acc rest Hf; [contradiction|].
  destruct (HP x (or_introl eq_refl)) as [Px Hpx].
  destruct (print_head x Hpx) as (c & r & Ec & Hws & Hc1 & Hc2).
  destruct f as [|f]; [lia|].
  destruct l as [|y l].
  - (* last element *)
    cbn [map sep_concat] in *. cbn [parse_elems].
    rewrite (hd_is_app "]" c r _ _ Ec Hc1), (hd_is_app "}" c r _ _ Ec Hc2).
    rewrite (Px f ("]" :: rest) (rest_ok_rbrack rest)) by lia.
    cbn [skip_ws]. change (is_ws "]") with false. cbv beta iota.
    rewrite (hd_is_neq "," "]") by discriminate. rewrite hd_is_eq.
    rewrite rev'_rev. reflexivity.
  - (* more follow *)
    rewrite sep2 in *. rewrite <- app_assoc. cbn [parse_elems].
    rewrite (hd_is_app "]" c r _ _ Ec Hc1), (hd_is_app "}" c r _ _ Ec Hc2). cbn [app].
    rewrite app_length in Hf. cbn [List.length] in Hf.
    rewrite (Px f ("," :: sep_concat (map print (y :: l)) ++ "]" :: rest) (rest_ok_comma _)) by lia.
    cbn [skip_ws]. change (is_ws ",") with false. cbv beta iota. rewrite hd_is_eq.
    destruct (HP y (or_intror (or_introl eq_refl))) as [_ Hpy].
    destruct (print_head y Hpy) as (cy & ry & Ecy & Hwsy & _).
    assert (Es : skip_ws (sep_concat (map print (y :: l)) ++ "]" :: rest) = sep_concat (map print (y :: l)) ++ "]" :: rest).
    { destruct l as [|z l]; cbn [map sep_concat]; [|rewrite <- app_assoc]; rewrite Ecy; cbn [app]; now apply skip_ws_starter. }
    rewrite Es. rewrite IH.
    + cbn [rev]. now rewrite <- app_assoc.
    + discriminate.
    + intros z Hz. apply HP. simpl. auto.
    + pose proof (print_len_pos x Hpx). lia.
Qed.

Definition member_text (kv : string * json) : list ascii := print_string (fst kv) ++ ":" :: print (snd kv).

Lemma members_ok l : l <> [] -> (forall kv, In kv l -> valid_string (fst kv) /\ P (snd kv) /\ printable (snd kv) = true) -> forall f acc rest,
  (List.length (sep_concat (map member_text l)) + 1 <= f)%nat ->
  parse_members f (sep_concat (map member_text l) ++ "}" :: rest) acc =
  Some (JObj (fold_left (fun a kv => oset a (fst kv) (snd kv)) l acc), rest).
Proof.
  induction l as [|[k v] l IH]; intros Hne HP f acc rest Hf; [contradiction|].
  destruct (HP (k, v) (or_introl eq_refl)) as (Hk & Pv & Hpv). cbn [fst snd] in *.
  destruct f as [|f]; [lia|].
  assert (Hstr : forall more, exists body, print_string k = """" :: body /\
             parse_str (S (List.length (body ++ more))) (body ++ more) [] = Some (k, more)).
  { intros more. destruct (parse_print_string k more (S (List.length (tl (print_string k) ++ more))) Hk) as (body & Eb & Hp).
    - unfold print_string. cbn [tl List.length]. rewrite !app_length. lia.
    - exists body. split; [exact Eb|]. rewrite Eb in Hp. exact Hp. }
  destruct l as [|[k2 v2] l].
  - cbn [map sep_concat fold_left] in *. unfold member_text at 1. cbn [fst snd]. rewrite <- app_assoc. cbn [app].
    destruct (Hstr (":" :: print v ++ "}" :: rest)) as (body & Eb & Hp).
    rewrite Eb. cbn [app parse_members]. rewrite hd_is_eq. rewrite Hp.
    cbn [skip_ws]. change (is_ws ":") with false. cbv beta iota. rewrite hd_is_eq.
    unfold member_text in Hf. cbn [fst snd] in Hf. rewrite app_length in Hf. cbn [List.length] in Hf.
    rewrite (Pv f ("}" :: rest) (rest_ok_rbrace rest)) by lia.
    cbn [skip_ws]. change (is_ws "}") with false. cbv beta iota.
    rewrite (hd_is_neq "," "}") by discriminate. rewrite hd_is_eq. reflexivity.
  - rewrite sep2 in *. unfold member_text at 1. cbn [fst snd]. rewrite <- !app_assoc. cbn [app].
    destruct (Hstr (":" :: print v ++ "," :: sep_concat (map member_text ((k2, v2) :: l)) ++ "}" :: rest)) as (body & Eb & Hp).
    rewrite Eb. cbn [app parse_members]. rewrite hd_is_eq. rewrite Hp.
    cbn [skip_ws]. change (is_ws ":") with false. cbv beta iota. rewrite hd_is_eq.
    unfold member_text in Hf at 1. cbn [fst snd] in Hf. repeat (rewrite app_length in Hf; cbn [List.length] in Hf).
    rewrite (Pv f ("," :: sep_concat (map member_text ((k2, v2) :: l)) ++ "}" :: rest) (rest_ok_comma _)) by lia.
    cbn [skip_ws]. change (is_ws ",") with false. cbv beta iota. rewrite hd_is_eq.
    assert (Es : skip_ws (sep_concat (map member_text ((k2, v2) :: l)) ++ "}" :: rest) = sep_concat (map member_text ((k2, v2) :: l)) ++ "}" :: rest).
    { destruct l as [|z l]; cbn [map sep_concat]; [|rewrite <- app_assoc]; unfold member_text at 1; unfold print_string; cbn [app]; reflexivity. }
    rewrite Es. rewrite IH.
    + reflexivity.
    + discriminate.
    + intros z Hz. apply HP. simpl. auto.
    + lia.
Qed.

Lemma printable_arr l : printable (JArr l) = true <-> forall x, In x l -> printable x = true.
Proof. simpl. apply forallb_forall. Qed.
Lemma printable_obj l : printable (JObj l) = true <-> forall kv, In kv l -> printable (snd kv) = true.
Proof. simpl. apply forallb_forall. Qed.

Theorem parse_print t : wf t -> P t.
Proof.
  induction t as [t IH] using json_size_ind. intros (Hn & Hp & Hs) fuel rest Hr Hf.
  destruct t as [| b | n | s | l | l].
  - destruct fuel as [|f]; [simpl in Hf; lia|]. reflexivity.
  - destruct fuel as [|f]; [destruct b; simpl in Hf; lia|]. destruct b; reflexivity.
  - (* number *)
    simpl in Hp. cbn [print] in *. destruct (valid_number_head n Hp) as (ch & r & E & Hd).
    destruct (digit_starter ch Hd) as ((Hws & _ & _) & E1 & E2 & E3 & Et & Ef & En).
    destruct fuel as [|f]; [rewrite E in Hf; simpl in Hf; lia|].
    cbn [parse_value]. rewrite E. cbn [app]. rewrite (skip_ws_starter ch _ Hws). rewrite E1, E2, E3.
    unfold parse_scalar. cbn [strip_prefix lit_true lit_false lit_null].
    rewrite (Ascii.eqb_sym "t" ch), Et, (Ascii.eqb_sym "f" ch), Ef, (Ascii.eqb_sym "n" ch), En.
    change (ch :: r ++ rest) with ((ch :: r) ++ rest). rewrite <- E.
    destruct Hr as [-> | (c & t & -> & Hc)].
    + rewrite app_nil_r, (valid_number_text n Hp). now rewrite string_of_list_ascii_of_string.
    + rewrite (parse_num_valid n c t Hp Hc). now rewrite string_of_list_ascii_of_string.
  - (* string *)
    simpl in Hs. cbn [print] in *. destruct fuel as [|f]; [unfold print_string in Hf; simpl in Hf; lia|].
    destruct (parse_print_string s rest (S (List.length (tl (print_string s) ++ rest))) Hs) as (body & Eb & Hps).
    { unfold print_string. cbn [tl List.length]. rewrite !app_length. lia. }
    rewrite Eb in *. cbn [tl] in Hps. cbn [app parse_value skip_ws]. change (is_ws """") with false. cbv beta iota.
    change (Ascii.eqb """" "{") with false. change (Ascii.eqb """" "[") with false. change (Ascii.eqb """" """") with true. cbv beta iota.
    now rewrite Hps.
  - (* array *)
    cbn [print] in *. destruct fuel as [|f]; [simpl in Hf; lia|].
    destruct l as [|x l]; [reflexivity|].
    rewrite nodup_keys_arr in Hn. rewrite printable_arr in Hp. rewrite strings_valid_arr in Hs.
    destruct (print_head x (Hp x (or_introl eq_refl))) as (c & r & Ec & Hws & Hc1 & Hc2).
    cbn [app parse_value skip_ws]. change (is_ws "[") with false. cbv beta iota.
    change (Ascii.eqb "[" "{") with false. change (Ascii.eqb "[" "[") with true. cbv beta iota.
    rewrite <- app_assoc. cbn [app].
    assert (Eh : exists r', sep_concat (map print (x :: l)) ++ "]" :: rest = c :: r').
    { destruct l as [|y l]; cbn [map sep_concat]; [|rewrite <- app_assoc]; rewrite Ec; cbn [app]; eexists; reflexivity. }
    destruct Eh as [r' Eh]. rewrite Eh. rewrite (skip_ws_starter c r' Hws).
    rewrite (hd_is_neq "]" c r' Hc1). rewrite <- Eh.
    rewrite (elems_ok (x :: l)); [reflexivity | discriminate | |].
    + intros y Hy. split; [|now apply Hp]. apply IH; [now apply size_in_arr|]. repeat split; auto.
    + cbn [List.length] in Hf. rewrite app_length in Hf. cbn [List.length] in Hf. lia.
  - (* object *)
    cbn [print] in *. destruct fuel as [|f]; [simpl in Hf; lia|].
    destruct l as [|[k v] l]; [reflexivity|].
    pose proof Hn as Hn'. rewrite nodup_keys_obj in Hn'. destruct Hn' as [Hnd Hch]. rewrite printable_obj in Hp. rewrite strings_valid_obj in Hs.
    cbn [app parse_value skip_ws]. change (is_ws "{") with false. cbv beta iota.
    change (Ascii.eqb "{" "{") with true. cbv beta iota.
    rewrite <- app_assoc. cbn [app]. fold member_text.
    assert (Eh : exists r', sep_concat (map member_text ((k, v) :: l)) ++ "}" :: rest = """" :: r').
    { destruct l as [|y l]; cbn [map sep_concat]; [|rewrite <- app_assoc]; unfold member_text at 1; unfold print_string; cbn [app]; eexists; reflexivity. }
    destruct Eh as [r' Eh]. rewrite Eh. cbn [skip_ws]. change (is_ws """") with false. cbv beta iota.
    rewrite (hd_is_neq "}" """") by discriminate. rewrite <- Eh.
    rewrite (members_ok ((k, v) :: l)).
    + f_equal. f_equal. f_equal. fold (build ((k, v) :: l)). now apply build_nodup.
    + discriminate.
    + intros kv Hkv. destruct (Hs kv Hkv) as [Hk Hv]. repeat split; auto.
      apply IH; [now apply size_in_obj|]. repeat split; auto.
    + cbn [List.length] in Hf. rewrite app_length in Hf. cbn [List.length] in Hf. fold member_text in Hf. lia.
Qed.

(* the line-level statement: what the tool prints for an object is read back as that object *)
Theorem parse_line_print m : wf (JObj m) -> parse_line (print (JObj m)) = Some (JObj m).
Proof.
  intros Hw. unfold parse_line.
  pose proof (parse_print (JObj m) Hw (S (List.length (print (JObj m)))) [] (or_introl eq_refl)) as H.
  rewrite app_nil_r in H. rewrite H by lia. reflexivity.
Qed.
