(* UTF-8: a relational view of decode_rune, valid byte strings, and the encoder's output. *)
From Coq Require Import NArith List Ascii Bool Lia ZArith ZifyN ZifyBool.
From Model Require Import Utf8.
Import ListNotations.
Open Scope N_scope. Open Scope list_scope.
Ltac Zify.zify_post_hook ::= Z.div_mod_to_equations.

Definition byte (b : N) : Prop := b < 256.

(* rune_at l cp pre r: l = pre ++ r and pre is one well-formed UTF-8 sequence for code point cp *)
Inductive rune_at : list N -> N -> list N -> list N -> Prop :=
| R1 b0 r : b0 < 128 -> rune_at (b0 :: r) b0 [b0] r
| R2 b0 b1 r : 194 <= b0 -> b0 <= 223 -> cont b1 = true ->
    rune_at (b0 :: b1 :: r) ((b0 - 192) * 64 + (b1 - 128)) [b0; b1] r
| R3 b0 b1 b2 r : 224 <= b0 -> b0 <= 239 ->
    (if b0 =? 224 then 160 else 128) <= b1 -> b1 <= (if b0 =? 237 then 159 else 191) -> cont b2 = true ->
    rune_at (b0 :: b1 :: b2 :: r) ((b0 - 224) * 4096 + (b1 - 128) * 64 + (b2 - 128)) [b0; b1; b2] r
| R4 b0 b1 b2 b3 r : 240 <= b0 -> b0 <= 244 ->
    (if b0 =? 240 then 144 else 128) <= b1 -> b1 <= (if b0 =? 244 then 143 else 191) -> cont b2 = true -> cont b3 = true ->
    rune_at (b0 :: b1 :: b2 :: b3 :: r)
            ((b0 - 240) * 262144 + (b1 - 128) * 4096 + (b2 - 128) * 64 + (b3 - 128)) [b0; b1; b2; b3] r.

Lemma rune_at_app l cp pre r : rune_at l cp pre r -> l = pre ++ r.
Proof. destruct 1; reflexivity. Qed.

Lemma rune_at_tail l cp pre r r' : rune_at l cp pre r -> rune_at (pre ++ r') cp pre r'.
Proof. destruct 1; simpl; constructor; assumption. Qed.

Lemma rune_at_decode l cp pre r : rune_at l cp pre r -> decode_rune l = Some (cp, List.length pre).
Proof.
  destruct 1 as [b0 r H0 | b0 b1 r H0 H0' H1 | b0 b1 b2 r H0 H0' H1 H1' H2 | b0 b1 b2 b3 r H0 H0' H1 H1' H2 H3]; unfold decode_rune.
  - apply N.ltb_lt in H0. now rewrite H0.
  - assert (E : b0 <? 128 = false) by lia. rewrite E.
    assert (E2 : (194 <=? b0) && (b0 <=? 223) = true) by lia. rewrite E2, H1. reflexivity.
  - assert (E : b0 <? 128 = false) by lia. rewrite E.
    assert (E2 : (194 <=? b0) && (b0 <=? 223) = false) by lia. rewrite E2.
    assert (E3 : (224 <=? b0) && (b0 <=? 239) = true) by lia. rewrite E3. cbv zeta.
    apply N.leb_le in H1, H1'. rewrite H1, H1', H2. reflexivity.
  - assert (E : b0 <? 128 = false) by lia. rewrite E.
    assert (E2 : (194 <=? b0) && (b0 <=? 223) = false) by lia. rewrite E2.
    assert (E3 : (224 <=? b0) && (b0 <=? 239) = false) by lia. rewrite E3.
    assert (E4 : (240 <=? b0) && (b0 <=? 244) = true) by lia. rewrite E4. cbv zeta.
    apply N.leb_le in H1, H1'. rewrite H1, H1', H2, H3. reflexivity.
Qed.

Lemma decode_rune_at l cp size : decode_rune l = Some (cp, size) -> exists pre r, rune_at l cp pre r /\ size = List.length pre.
Proof.
  unfold decode_rune. destruct l as [|b0 r]; [discriminate|].
  destruct (b0 <? 128) eqn:E0.
  { intros H. injection H as <- <-. exists [b0], r. split; [constructor; lia | reflexivity]. }
  destruct ((194 <=? b0) && (b0 <=? 223)) eqn:E2.
  { destruct r as [|b1 r]; [discriminate|]. destruct (cont b1) eqn:C1; [|discriminate].
    intros H. injection H as <- <-. exists [b0; b1], r. split; [constructor; auto; lia | reflexivity]. }
  destruct ((224 <=? b0) && (b0 <=? 239)) eqn:E3.
  { destruct r as [|b1 [|b2 r]]; try discriminate. cbv zeta.
    destruct (((if b0 =? 224 then 160 else 128) <=? b1) && (b1 <=? (if b0 =? 237 then 159 else 191)) && cont b2) eqn:C; [|discriminate].
    intros H. injection H as <- <-. exists [b0; b1; b2], r. split; [|reflexivity].
    apply andb_prop in C. destruct C as [C C2]. apply andb_prop in C. destruct C as [C1 C1'].
    apply N.leb_le in C1, C1'. constructor; auto; lia. }
  destruct ((240 <=? b0) && (b0 <=? 244)) eqn:E4; [|discriminate].
  destruct r as [|b1 [|b2 [|b3 r]]]; try discriminate. cbv zeta.
  destruct (((if b0 =? 240 then 144 else 128) <=? b1) && (b1 <=? (if b0 =? 244 then 143 else 191)) && cont b2 && cont b3) eqn:C; [|discriminate].
  intros H. injection H as <- <-. exists [b0; b1; b2; b3], r. split; [|reflexivity].
  apply andb_prop in C. destruct C as [C C3]. apply andb_prop in C. destruct C as [C C2]. apply andb_prop in C. destruct C as [C1 C1'].
  apply N.leb_le in C1, C1'. constructor; auto; lia.
Qed.

Lemma cont_bounds b : cont b = true -> 128 <= b /\ b <= 191.
Proof. unfold cont. lia. Qed.

(* multi-byte sequences consist of bytes >= 128 *)
Lemma rune_at_high l cp pre r : rune_at l cp pre r -> 2 <= N.of_nat (List.length pre) -> Forall (fun b => 128 <= b /\ b < 256) pre.
Proof.
  destruct 1 as [b0 r H0 | b0 b1 r H0 H0' H1 | b0 b1 b2 r H0 H0' H1 H1' H2 | b0 b1 b2 b3 r H0 H0' H1 H1' H2 H3]; simpl; intros Hl.
  - lia.
  - apply cont_bounds in H1. repeat constructor; lia.
  - apply cont_bounds in H2. assert (128 <= b1 /\ b1 <= 191) by (destruct (b0 =? 224), (b0 =? 237); lia). repeat constructor; lia.
  - apply cont_bounds in H2. apply cont_bounds in H3.
    assert (128 <= b1 /\ b1 <= 191) by (destruct (b0 =? 240), (b0 =? 244); lia). repeat constructor; lia.
Qed.

(* ---------- valid byte strings ---------- *)
Inductive valid_utf8 : list N -> Prop :=
| VU_nil : valid_utf8 []
| VU_cons l cp pre r : rune_at l cp pre r -> valid_utf8 r -> valid_utf8 l.

Lemma valid_app a b : valid_utf8 a -> valid_utf8 b -> valid_utf8 (a ++ b).
Proof.
  induction 1 as [|l cp pre r Hr Hv IH]; intros Hb; [exact Hb|].
  rewrite (rune_at_app _ _ _ _ Hr), <- app_assoc. eapply VU_cons; [|exact (IH Hb)].
  eapply rune_at_tail. exact Hr.
Qed.

Lemma valid_single_rune l cp pre : rune_at l cp pre [] -> valid_utf8 l.
Proof. intros H. eapply VU_cons; [exact H | constructor]. Qed.

(* ---------- the encoder produces one valid sequence ---------- *)
Lemma encode_rune_valid x : valid_utf8 (encode_rune x).
Proof.
  unfold encode_rune.
  set (r := if ((55296 <=? x) && (x <=? 57343)) || (1114111 <? x) then 65533 else x).
  assert (Hr : r <= 1114111 /\ ~ (55296 <= r /\ r <= 57343)).
  { unfold r. destruct (((55296 <=? x) && (x <=? 57343)) || (1114111 <? x)) eqn:E; lia. }
  clearbody r. destruct Hr as [Hmax Hsur].
  destruct (r <? 128) eqn:E1.
  { eapply valid_single_rune. apply R1. lia. }
  destruct (r <? 2048) eqn:E2.
  { eapply valid_single_rune. apply R2; unfold cont; lia. }
  destruct (r <? 65536) eqn:E3.
  { eapply valid_single_rune. apply R3; unfold cont; try lia.
    - destruct (224 + r / 4096 =? 224) eqn:E; lia.
    - destruct (224 + r / 4096 =? 237) eqn:E; lia. }
  eapply valid_single_rune. apply R4; unfold cont; try lia.
  - destruct (240 + r / 262144 =? 240) eqn:E; lia.
  - destruct (240 + r / 262144 =? 244) eqn:E; lia.
Qed.

Lemma encode_rune_bytes x : Forall byte (encode_rune x).
Proof.
  unfold encode_rune, byte.
  set (r := if ((55296 <=? x) && (x <=? 57343)) || (1114111 <? x) then 65533 else x).
  assert (Hr : r <= 1114111).
  { unfold r. destruct (((55296 <=? x) && (x <=? 57343)) || (1114111 <? x)) eqn:E; lia. }
  clearbody r.
  destruct (r <? 128) eqn:E1; [repeat constructor; lia|].
  destruct (r <? 2048) eqn:E2; [repeat constructor; lia|].
  destruct (r <? 65536) eqn:E3; repeat constructor; lia.
Qed.
