(* C02: non-interference. Two input trees that differ only in the CONTENTS of leaves at clear
   positions (below no key that the tables classify as not redactable) - each leaf keeping its
   lexical class - are mapped by the walkers to the SAME output tree, whenever the string action
   does not depend on the original string (placeholder mode). *)
From Coq Require Import Lia.
From Model Require Import Json Tables Walker.
From Proofs Require Import JsonFacts TableFacts WalkerRel Survivors SurvivorsLine.
Close Scope string_scope. Open Scope list_scope.

Section NI.
Variable tb : tables.
Variable cs : consts.
Variable c : cfg.
Variable is_email : string -> bool.
Variable A : actions.

Hypothesis Hre : re c = None.
Hypothesis Hempty : ~ In (""%string, Exempt) (all_entries tb).
(* placeholder mode: what is emitted for a redacted leaf does not depend on the leaf *)
Hypothesis Hstr : forall s s' ph, a_str A s ph = a_str A s' ph.
Hypothesis Hnum : forall n n', a_num A n = a_num A n'.
Hypothesis Hbool : forall b b', a_bool A b = a_bool A b'.

Notation W := (walk tb cs c is_email A).
Notation key_full := (key_full tb).
Notation key_nonarr := (key_nonarr tb).

(* leaves of one lexical class *)
Definition lsim (v v' : json) : Prop :=
  match v, v' with
  | JStr s, JStr s' => starts_with_dollar s = false /\ starts_with_dollar s' = false /\ is_email s = is_email s'
  | JNum _, JNum _ => nums c = true
  | JBool _, JBool _ => bools c = true
  | _, _ => False
  end.

Definition clear_key (k : string) (v : json) : bool :=
  negb (key_full k) && negb (String.eqb k "subType") && negb (key_nonarr k v).

(* the two inputs: identical, or differing leaves of one class, or containers related member by
   member - a member may differ only if its key is clear for both values *)
Inductive csim : json -> json -> Prop :=
| C_eq t : csim t t
| C_leaf v v' : lsim v v' -> csim v v'
| C_arr l l' : Forall2 csim l l' -> csim (JArr l) (JArr l')
| C_obj l l' : Forall2 (fun kv kv' => fst kv = fst kv' /\
                          (snd kv = snd kv' \/ (clear_key (fst kv) (snd kv) = true /\ clear_key (fst kv) (snd kv') = true /\ csim (snd kv) (snd kv')))) l l' ->
               csim (JObj l) (JObj l').

Lemma csim_kind t t' : csim t t' -> match t, t' with
  | JArr _, JArr _ | JObj _, JObj _ | JStr _, JStr _ | JNum _, JNum _ | JBool _, JBool _ | JNull, JNull => True | _, _ => False end.
Proof. intros H. destruct H as [x | v v' Hl | l l' Hf | l l' Hf]; [destruct x; exact I | destruct v, v'; simpl in Hl; tauto | exact I | exact I]. Qed.

Lemma csim_keys l l' : Forall2 (fun kv kv' : string * json => fst kv = fst kv' /\
     (snd kv = snd kv' \/ (clear_key (fst kv) (snd kv) = true /\ clear_key (fst kv) (snd kv') = true /\ csim (snd kv) (snd kv')))) l l' ->
  map fst l = map fst l'.
Proof. induction 1 as [|x y l l' [Hk _] _ IH]; [reflexivity | simpl; now rewrite Hk, IH]. Qed.

Lemma F2_impl {X Y} (R R' : X -> Y -> Prop) l l' : (forall a b, R a b -> R' a b) -> Forall2 R l l' -> Forall2 R' l l'.
Proof. intros H. induction 1; constructor; auto. Qed.

Lemma map_Forall2 {X Y} (f g : X -> Y) (R : X -> X -> Prop) l l' :
  Forall2 R l l' -> (forall x y, In x l -> In y l' -> R x y -> f x = g y) -> map f l = map g l'.
Proof.
  induction 1 as [|x y l l' Hxy _ IH]; intros H; [reflexivity|]. simpl. f_equal.
  - apply H; simpl; auto.
  - apply IH. intros a b Ha Hb. apply H; simpl; auto.
Qed.

(* the scalar step on two leaves of one class *)
Lemma scalar_ni init lst v v' search sel sel' :
  lsim v v' -> exempt_key tb init lst search = false ->
  (String.eqb lst "subType" && String.eqb (last_or_empty init) "$binary")%bool = false ->
  scalar tb cs c is_email A init lst v search sel = scalar tb cs c is_email A init lst v' search sel'.
Proof.
  intros Hl Hex Est. unfold scalar, scalar_verdict. fold (exempt_key tb init lst search). rewrite Hex, Hre.
  rewrite !Bool.andb_false_r. cbn [andb]. rewrite Est.
  destruct v as [| b | n | s | l | l], v' as [| b' | n' | s' | l' | l']; simpl in Hl; try contradiction.
  - (* bool *) rewrite Hl.
    destruct (String.eqb lst "$date"); [simpl; now rewrite (Hbool b b')|].
    destruct (String.eqb lst "$oid"); [simpl; now rewrite (Hbool b b')|].
    destruct (String.eqb lst "base64" && _); simpl; now rewrite (Hbool b b').
  - (* num *) rewrite Hl.
    destruct (String.eqb lst "$date"); [simpl; now rewrite (Hnum n n')|].
    destruct (String.eqb lst "$oid"); [simpl; now rewrite (Hnum n n')|].
    destruct (String.eqb lst "base64" && _); simpl; now rewrite (Hnum n n').
  - (* string *) destruct Hl as (_ & _ & He). rewrite He.
    destruct (String.eqb lst "$date"); [simpl; now rewrite (Hstr s s')|].
    destruct (String.eqb lst "$oid"); [simpl; now rewrite (Hstr s s')|].
    destruct (String.eqb lst "base64" && _); [simpl; now rewrite (Hstr s s')|].
    destruct (is_email s'); simpl; now rewrite (Hstr s s').
Qed.

Lemma clear_not_full k v : clear_key k v = true -> key_full k = false /\ (k = "subType"%string -> False) /\ key_nonarr k v = false.
Proof.
  unfold clear_key. intros H. apply andb_prop in H. destruct H as [H H3]. apply andb_prop in H. destruct H as [H1 H2].
  apply Bool.negb_true_iff in H1, H2, H3. repeat split; auto. intros ->. discriminate.
Qed.

Lemma full_exempt init k search : key_full k = false -> exempt_key tb init k search = false.
Proof.
  intros H. destruct (exempt_key tb init k search) eqn:E; [|reflexivity].
  apply exempt_key_sanct in E. apply sanct_full_b in E. congruence.
Qed.

Lemma sel_of_none l : sel_of c l = false.
Proof. unfold sel_of. now rewrite Hre. Qed.

Lemma augment_none om vm : augment_op (re c) om vm = om.
Proof. unfold augment_op. now rewrite Hre. Qed.

Lemma p_op_ni kp k search v v' : csim v v' -> p_op tb c kp k search v = p_op tb c kp k search v'.
Proof.
  intros H. pose proof (csim_kind _ _ H) as Hk. unfold p_op.
  destruct (get_op tb kp k search) as [[t|om|]|]; try reflexivity.
  destruct v, v'; try contradiction; try reflexivity. now rewrite !augment_none.
Qed.

Lemma search_stage_ni st st' : csim st st' -> is_in_search_stage tb st = is_in_search_stage tb st'.
Proof.
  intros H. inversion H as [t | v v' Hl | l l' Hf | l l' Hf]; subst; try reflexivity.
  - destruct st, st'; simpl in Hl; try contradiction; reflexivity.
  - unfold is_in_search_stage. apply csim_keys in Hf.
    assert (E : forall (l1 l2 : list (string * json)), map fst l1 = map fst l2 ->
                existsb (fun kv => existsb (String.eqb (fst kv)) (TopSearch tb)) l1 = existsb (fun kv => existsb (String.eqb (fst kv)) (TopSearch tb)) l2).
    { induction l1 as [|a l1 IHl]; intros [|b l2] E; try discriminate; [reflexivity|]. simpl in *. injection E as E1 E2. now rewrite E1, (IHl l2 E2). }
    now apply E.
Qed.

Lemma full_in k t : In (k, t) (all_entries tb) -> ty_full t -> key_full k = true.
Proof. intros Hin Ht. apply sanct_full_b. exists t. auto. Qed.

(* ---------- one level, given the induction hypothesis ---------- *)
Section Step.
Variable n : nat.
Hypothesis IH : forall t t' m, size t < n -> applicable m t -> mode_ok tb m -> guard tb m -> csim t t' -> W m t = W m t'.

Lemma applicable_csim m t t' : csim t t' -> applicable m t -> applicable m t'.
Proof. intros H. pose proof (csim_kind _ _ H). destruct t, t'; try contradiction; auto. Qed.

Lemma arr_item_ni pk rfn search sel kp x x' :
  size x < n -> exempt_key tb [] pk search = false -> csim x x' ->
  arr_item tb cs c is_email A W pk rfn search sel kp x = arr_item tb cs c is_email A W pk rfn search sel kp x'.
Proof.
  intros Hs Hex H. inversion H as [t | v v' Hl | l l' Hf | l l' Hf]; subst; [reflexivity | | |].
  - destruct x as [| b | num | s | l | l], x' as [| b' | num' | s' | l' | l']; simpl in Hl; try contradiction; unfold arr_item.
    + apply scalar_ni; simpl; auto. now rewrite Bool.andb_false_r.
    + apply scalar_ni; simpl; auto. now rewrite Bool.andb_false_r.
    + destruct Hl as (D1 & D2 & He). rewrite D1, D2. apply scalar_ni; simpl; auto. now rewrite Bool.andb_false_r.
  - unfold arr_item. apply IH; simpl; auto.
  - unfold arr_item. apply IH; simpl; auto.
Qed.

Lemma arr_ni pk rfn search sel kp l l' :
  (forall x, In x l -> size x < n) -> exempt_key tb [] pk search = false -> Forall2 csim l l' ->
  map (arr_item tb cs c is_email A W pk rfn search sel kp) l = map (arr_item tb cs c is_email A W pk rfn search sel kp) l'.
Proof.
  intros Hs Hex Hf. apply (map_Forall2 _ _ csim); [exact Hf|]. intros x y Hx Hy Hxy. apply arr_item_ni; auto.
Qed.

Lemma stages_ni (f : json -> mode) l l' :
  (forall x, In x l -> size x < n) -> Forall2 csim l l' ->
  (forall x y, csim x y -> f x = f y) -> (forall x, mode_ok tb (f x) /\ guard tb (f x) /\ applicable (f x) x) ->
  map (fun st => W (f st) st) l = map (fun st => W (f st) st) l'.
Proof.
  intros Hs Hf Hfe Hm. apply (map_Forall2 _ _ csim); [exact Hf|]. intros x y Hx Hy Hxy.
  rewrite <- (Hfe x y Hxy). destruct (Hm x) as (H2 & H3 & H4). apply IH; auto.
Qed.

Lemma walk_value_ni rfn search kp sinit slast v v' :
  size v < n -> csim v v' -> exempt_key tb sinit slast search = false ->
  (String.eqb slast "subType" && String.eqb (last_or_empty sinit) "$binary")%bool = false ->
  walk_value tb cs c is_email A W rfn search kp sinit slast v = walk_value tb cs c is_email A W rfn search kp sinit slast v'.
Proof.
  intros Hs H Hex Est. inversion H as [t | x x' Hl | l l' Hf | l l' Hf]; subst; [reflexivity | | |].
  - destruct v, v'; simpl in Hl; try contradiction; unfold walk_value; now apply scalar_ni.
  - unfold walk_value. rewrite !sel_of_none. apply IH; simpl; auto. apply exempt_empty; auto.
  - unfold walk_value. apply IH; simpl; auto.
Qed.

(* a member value: identical, or differing below a clear key *)
Definition msim (k : string) (v v' : json) : Prop :=
  v = v' \/ (clear_key k v = true /\ clear_key k v' = true /\ csim v v').

Lemma pipeline_map_member_ni rfn subk subv subv' :
  size subv < n -> msim subk subv subv' ->
  pipeline_map_member tb cs c is_email A W rfn subk subv = pipeline_map_member tb cs c is_email A W rfn subk subv'.
Proof.
  intros Hs [-> | (Hc & Hc' & H)]; [reflexivity|].
  apply clear_not_full in Hc. destruct Hc as (Hf & Hst & _).
  inversion H as [t | x x' Hl | l l' Hfa | l l' Hfa]; subst; [reflexivity | | |].
  - destruct subv, subv'; simpl in Hl; try contradiction; unfold pipeline_map_member; apply scalar_ni; simpl; auto using full_exempt; now rewrite Bool.andb_false_r.
  - unfold pipeline_map_member. f_equal.
    apply (stages_ni (fun st => MP rfn [] (is_in_search_stage tb st))); auto.
    + intros x Hx. pose proof (size_in_arr x l Hx). lia.
    + intros x y Hxy. now rewrite (search_stage_ni x y Hxy).
    + intros x. simpl. auto using applicable_MP.
  - unfold pipeline_map_member. apply IH; simpl; auto.
Qed.

Lemma sub_member_ni rfn search nkp k m subk subv subv' :
  within2 tb m -> size subv < n -> msim subk subv subv' ->
  sub_member tb cs c is_email A W rfn search nkp k m subk subv = sub_member tb cs c is_email A W rfn search nkp k m subk subv'.
Proof.
  intros Hw Hs [-> | (Hc & Hc' & H)]; [reflexivity|].
  apply clear_not_full in Hc. destruct Hc as (Hf & Hst & Hna).
  apply clear_not_full in Hc'. destruct Hc' as (_ & _ & Hna').
  assert (Hwv : walk_value tb cs c is_email A W rfn search (nkp ++ [subk]) nkp subk subv = walk_value tb cs c is_email A W rfn search (nkp ++ [subk]) nkp subk subv').
  { apply walk_value_ni; auto using full_exempt.
    destruct (String.eqb subk "subType") eqn:E; [apply String.eqb_eq in E; contradiction | reflexivity]. }
  unfold sub_member.
  destruct (oget m subk) as [[t|mm|]|] eqn:Eo; cbn zeta; try (now rewrite Hwv).
  assert (Hsub : In (subk, t) (sub_entries tb)) by (apply Hw; now apply keys_of_leaf).
  pose proof (sub_entries_all tb _ Hsub) as Hin.
  pose proof (csim_kind _ _ H) as Hk.
  destruct t; try (now rewrite Hwv).
  - (* Pipeline: an array goes to the array walker; anything else would be kept, impossible under a clear key *)
    destruct subv as [| | | | l |], subv' as [| | | | l' |]; try contradiction;
      try (exfalso; assert (Hx : key_nonarr subk JNull = true \/ True) by auto;
           unfold SurvivorsLine.key_nonarr in Hna; rewrite (has_entry_in _ _ _ Hsub) in Hna; simpl in Hna; rewrite ?Bool.orb_true_r in Hna; discriminate).
    f_equal. rewrite !sel_of_none. apply IH; simpl; auto. apply exempt_empty; auto.
  - (* Exempt *) exfalso. rewrite (full_in subk Exempt Hin) in Hf; [discriminate | right; left; reflexivity].
  - (* FieldName *) exfalso. rewrite (full_in subk FieldName Hin) in Hf; [discriminate | left; reflexivity].
  - (* OperatorArray *)
    destruct subv as [| | | | l |], subv' as [| | | | l' |]; try contradiction;
      try (exfalso; unfold SurvivorsLine.key_nonarr in Hna; rewrite (has_entry_in _ _ _ Hsub) in Hna; simpl in Hna; rewrite ?Bool.orb_true_r in Hna; discriminate).
    f_equal. f_equal. inversion H as [t | x x' Hl | l0 l0' Hfa | l0 l0' Hfa]; subst; [reflexivity | simpl in Hl; contradiction |].
    apply (stages_ni (fun _ => MP rfn nkp search)); auto.
    + intros x Hx. pose proof (size_in_arr x l Hx). simpl in *. lia.
    + intros x. simpl. auto using applicable_MP.
  - (* Namespace *) exfalso. rewrite (full_in subk Namespace Hin) in Hf; [discriminate | right; right; reflexivity].
Qed.

Lemma p_generic_ni rfn kp search k v v' :
  size v < n -> clear_key k v = true -> csim v v' ->
  p_generic tb cs c is_email A W rfn kp search k v = p_generic tb cs c is_email A W rfn kp search k v'.
Proof.
  intros Hs Hc H. apply clear_not_full in Hc. destruct Hc as (Hf & Hst & _).
  assert (Est : (String.eqb k "subType" && String.eqb (last_or_empty kp) "$binary")%bool = false)
    by (destruct (String.eqb k "subType") eqn:E; [apply String.eqb_eq in E; contradiction | reflexivity]).
  unfold p_generic. pose proof (csim_kind _ _ H) as Hk.
  destruct v as [| b | num | s | l | l], v' as [| b' | num' | s' | l' | l']; try contradiction;
    try (apply walk_value_ni; auto using full_exempt).
  inversion H as [t | x x' Hl | |]; subst; [reflexivity|]. simpl in Hl. destruct Hl as (D1 & D2 & He).
  rewrite D1, D2. cbn [andb]. apply scalar_ni; simpl; auto using full_exempt.
Qed.

Lemma p_member_ni rfn kp search k v v' :
  size v < n -> msim k v v' ->
  p_member tb cs c is_email A W rfn kp search k v = p_member tb cs c is_email A W rfn kp search k v'.
Proof.
  intros Hs [-> | (Hc & Hc' & H)]; [reflexivity|].
  pose proof (clear_not_full _ _ Hc) as (Hf & Hst & Hna). pose proof (clear_not_full _ _ Hc') as (_ & _ & Hna').
  pose proof (csim_kind _ _ H) as Hk.
  unfold p_member. rewrite <- (p_op_ni kp k search v v' H).
  destruct (p_op tb c kp k search v) as [[t|m|]|] eqn:Eop; cbn zeta; try (f_equal; apply p_generic_ni; auto).
  - apply p_op_MT in Eop. apply get_op_good in Eop. simpl in Eop.
    destruct t; try (f_equal; apply p_generic_ni; auto); (destruct Eop as [Eop|Hin]; [discriminate|]).
    + (* Pipeline *)
      destruct v as [| b | num | s | l | l], v' as [| b' | num' | s' | l' | l']; try contradiction;
        try (exfalso; unfold SurvivorsLine.key_nonarr in Hna; rewrite (has_entry_in _ _ _ Hin) in Hna; simpl in Hna; discriminate).
      * f_equal. rewrite !sel_of_none. apply IH; simpl; auto. apply exempt_empty; auto.
      * f_equal. f_equal. f_equal.
        inversion H as [t | x x' Hl | | l0 l0' Hfa]; subst; [reflexivity | simpl in Hl; contradiction |].
        apply (map_Forall2 _ _ (fun kv kv' : string * json => fst kv = fst kv' /\ msim (fst kv) (snd kv) (snd kv'))).
        -- eapply F2_impl; [|exact Hfa]. intros a b [E M]. split; [exact E | exact M].
        -- intros a b Ha Hb [E M]. rewrite <- E. f_equal. apply pipeline_map_member_ni; auto. pose proof (size_in_obj a l Ha). lia.
    + exfalso. rewrite (full_in k Exempt Hin) in Hf; [discriminate | right; left; reflexivity].
    + exfalso. rewrite (full_in k FieldName Hin) in Hf; [discriminate | left; reflexivity].
    + (* OperatorArray *)
      destruct v as [| b | num | s | l | l], v' as [| b' | num' | s' | l' | l']; try contradiction;
        try (exfalso; unfold SurvivorsLine.key_nonarr in Hna; rewrite (has_entry_in _ _ _ Hin) in Hna; simpl in Hna; rewrite ?Bool.orb_true_r in Hna; discriminate).
      f_equal. f_equal. inversion H as [t | x x' Hl | l0 l0' Hfa |]; subst; [reflexivity | simpl in Hl; contradiction |].
      apply (stages_ni (fun _ => MP rfn (kp ++ [k]) search)); auto.
      * intros x Hx. pose proof (size_in_arr x l Hx). simpl in *. lia.
      * intros x. simpl. auto using applicable_MP.
    + exfalso. rewrite (full_in k Namespace Hin) in Hf; [discriminate | right; right; reflexivity].
  - apply p_op_MMap in Eop; [|exact Hre].
    destruct v as [| b | num | s | l | l], v' as [| b' | num' | s' | l' | l']; try contradiction; try (f_equal; apply p_generic_ni; auto).
    f_equal. f_equal. f_equal.
    inversion H as [t | x x' Hl | | l0 l0' Hfa]; subst; [reflexivity | simpl in Hl; contradiction |].
    apply (map_Forall2 _ _ (fun kv kv' : string * json => fst kv = fst kv' /\ msim (fst kv) (snd kv) (snd kv'))).
    + eapply F2_impl; [|exact Hfa]. intros a b [E M]. split; [exact E | exact M].
    + intros a b Ha Hb [E M]. rewrite <- E. apply sub_member_ni; auto. pose proof (size_in_obj a l Ha). lia.
Qed.

Lemma q_member_ni rfn search parent kp k v v' :
  meta_rootish tb parent -> size v < n -> msim k v v' ->
  q_member tb cs c is_email A W rfn search parent kp k v = q_member tb cs c is_email A W rfn search parent kp k v'.
Proof.
  intros Hpw Hs [-> | (Hc & Hc' & H)]; [reflexivity|].
  pose proof (clear_not_full _ _ Hc) as (Hf & Hst & _).
  assert (Est : (String.eqb k "subType" && String.eqb (last_or_empty kp) "$binary")%bool = false)
    by (destruct (String.eqb k "subType") eqn:E; [apply String.eqb_eq in E; contradiction | reflexivity]).
  unfold q_member. f_equal.
  set (found := match parent with MMap pm => oget pm k | _ => oget (Core tb) k end).
  assert (Hfound : forall mm, found = Some mm -> good tb k mm).
  { intros mm Hfd. unfold found in Hfd. destruct parent as [t|pm|]; simpl in Hpw.
    - eapply oget_good; [apply rootish_Core | exact Hfd].
    - eapply oget_good; [exact Hpw | exact Hfd].
    - eapply oget_good; [apply rootish_Core | exact Hfd]. }
  assert (Hex : is_ty (match found with Some m => m | None => MNil end) Exempt = false).
  { destruct found as [[t| |]|] eqn:Ef; simpl; try reflexivity. destruct t; try reflexivity.
    specialize (Hfound _ eq_refl). simpl in Hfound. destruct Hfound as [Hx|Hx]; [discriminate|].
    rewrite (full_in k Exempt Hx) in Hf; [discriminate | right; left; reflexivity]. }
  rewrite Hex. pose proof (csim_kind _ _ H) as Hk.
  inversion H as [t | x x' Hl | l l' Hfa | l l' Hfa]; subst; [reflexivity | | |].
  - destruct v as [| b | num | s | l | l], v' as [| b' | num' | s' | l' | l']; simpl in Hl; try contradiction.
    + apply scalar_ni; simpl; auto using full_exempt.
    + apply scalar_ni; simpl; auto using full_exempt.
    + destruct Hl as (D1 & D2 & He). rewrite D1, D2. apply scalar_ni; simpl; auto using full_exempt.
  - rewrite !sel_of_none. apply IH; simpl; auto using full_exempt.
  - apply IH; simpl; auto.
    destruct found as [mm|] eqn:Ef; simpl; auto. specialize (Hfound _ eq_refl). destruct mm; simpl in *; auto. now apply within2_rootish.
Qed.

End Step.

Theorem walk_ni : forall t t' m, applicable m t -> mode_ok tb m -> guard tb m -> csim t t' -> W m t = W m t'.
Proof.
  intros t. induction t as [t IHt] using json_size_ind. intros t' m Happ Hok Hg H.
  assert (IH : forall x x' m', size x < size t -> applicable m' x -> mode_ok tb m' -> guard tb m' -> csim x x' -> W m' x = W m' x').
  { intros; apply IHt; auto. }
  inversion H as [x | v v' Hl | l l' Hf | l l' Hf]; subst; [reflexivity | | |].
  - (* differing leaves: only the pipeline walker meets bare leaves *)
    destruct m as [rfn kp search | rfn search parent kp | pk rfn search sel kp].
    + destruct t as [| b | num | s | l | l], t' as [| b' | num' | s' | l' | l']; simpl in Hl; try contradiction; cbn [walk p_leaf].
      * apply scalar_ni; [exact Hl | apply exempt_empty; auto | reflexivity].
      * apply scalar_ni; [exact Hl | apply exempt_empty; auto | reflexivity].
      * destruct Hl as (D1 & D2 & He). rewrite D1, D2. apply scalar_ni; [simpl; auto | apply exempt_empty; auto | reflexivity].
    + destruct t; simpl in Happ, Hl; try contradiction; destruct t'; contradiction.
    + destruct t; simpl in Happ, Hl; try contradiction; destruct t'; contradiction.
  - destruct m as [rfn kp search | rfn search parent kp | pk rfn search sel kp]; simpl in Happ; try contradiction; cbn [walk].
    + f_equal. rewrite !sel_of_none. apply (arr_ni (size (JArr l)) IH); auto.
      * intros x Hx. now apply size_in_arr.
      * apply exempt_empty; auto.
    + f_equal. apply (arr_ni (size (JArr l)) IH); auto. intros x Hx. now apply size_in_arr.
  - destruct m as [rfn kp search | rfn search parent kp | pk rfn search sel kp]; simpl in Happ; try contradiction; cbn [walk].
    + f_equal. f_equal.
      apply (map_Forall2 _ _ (fun kv kv' : string * json => fst kv = fst kv' /\ msim (fst kv) (snd kv) (snd kv'))).
      * eapply F2_impl; [|exact Hf]. intros a b [E M]. split; [exact E | exact M].
      * intros a b Ha Hb [E M]. rewrite <- E. apply (p_member_ni (size (JObj l)) IH); [now apply size_in_obj | exact M].
    + f_equal. f_equal.
      apply (map_Forall2 _ _ (fun kv kv' : string * json => fst kv = fst kv' /\ msim (fst kv) (snd kv) (snd kv'))).
      * eapply F2_impl; [|exact Hf]. intros a b [E M]. split; [exact E | exact M].
      * intros a b Ha Hb [E M]. rewrite <- E. apply (q_member_ni (size (JObj l)) IH); [destruct parent; simpl in *; auto | now apply size_in_obj | exact M].
Qed.

End NI.
