(* Field-name mode against the ordinary run, for the query-bearing values of a command document. *)
From Coq Require Import Lia.
From Model Require Import Json Tables Walker Line Email.
From Proofs Require Import JsonFacts TableFacts WalkerRel Survivors SurvivorsLine LineRel RfnSim.
Close Scope string_scope. Open Scope list_scope.

Section RfnLine.
Variable tb : tables.
Variable cs : consts.
Variable c : cfg.
Variable A : actions.
Hypothesis Hre : re c = None.

Notation PLr := (PL tb).
Notation sib := (sib_ok A).
Notation Wpl := (walk_rfn_pl tb cs c is_email A Hre).

Lemma q_obj_pl v : sib v -> nodup_keys v -> PLr v (q_obj tb cs c A false v) (q_obj tb cs c A true v).
Proof. intros Hk Hn. destruct v; try apply PL_eq. unfold q_obj, W. exact (Wpl (JObj l) (MQ false false MNil []) Hk Hn). Qed.

Lemma a_arr_pl v : sib v -> nodup_keys v -> PLr v (a_arr tb cs c A false v) (a_arr tb cs c A true v).
Proof. intros Hk Hn. destruct v; try apply PL_eq. unfold a_arr, W. exact (Wpl (JArr l) (MA "" false false false []) Hk Hn). Qed.

Lemma pipe_pl v : sib v -> nodup_keys v -> PLr v (pipe tb cs c A false v) (pipe tb cs c A true v).
Proof.
  intros Hk Hn. destruct v as [| | | | l |]; try apply PL_eq. unfold pipe, W.
  apply (stages_pl tb cs c is_email A (S (size (JArr l)))); auto.
  intros t kp s _ Hk' Hn'. exact (Wpl t (MP false kp s) Hk' Hn').
Qed.

Theorem cmd_member_pl ins k v : sib v -> nodup_keys v ->
  PLr v (cmd_member tb cs c A false ins k v) (cmd_member tb cs c A true ins k v).
Proof.
  intros Hk Hn. unfold cmd_member.
  destruct (key_in k _); [now apply q_obj_pl|].
  destruct (key_in k _); [unfold q_or_a; destruct v; try apply PL_eq; [now apply a_arr_pl | now apply q_obj_pl]|].
  destruct (key_in k _); [now apply a_arr_pl|].
  destruct (String.eqb k "documents"); [destruct ins; [now apply a_arr_pl | apply PL_eq]|].
  destruct (String.eqb k "pipeline"); [now apply pipe_pl | apply PL_eq].
Qed.

End RfnLine.
