(* Field-name mode against the ordinary run, for the query-bearing values of a command document. *)
From Coq Require Import Lia.
From Model Require Import Json Tables Walker Line Email.
From Proofs Require Import JsonFacts TableFacts WalkerRel Survivors SurvivorsLine LineRel RelCorollaries RfnSim.
Close Scope string_scope. Open Scope list_scope.

Section RfnLine.
Variable tb : tables.
Variable cs : consts.
Variable c : cfg.
Variable A : actions.
Hypothesis Hre : re c = None.

Notation PLr := (PL tb).
Notation sib := (sib_ok A).
Notation Wpl := (walk_rfn_pl tb cs c is_email A Hre).

Lemma q_obj_pl v : sib v -> nodup_keys v -> PLr v (q_obj tb cs c A false v) (q_obj tb cs c A true v).
Proof. intros Hk Hn. destruct v; try apply PL_eq. unfold q_obj, W. exact (Wpl (JObj l) (MQ false false MNil []) Hk Hn). Qed.

Lemma a_arr_pl v : sib v -> nodup_keys v -> PLr v (a_arr tb cs c A false v) (a_arr tb cs c A true v).
Proof. intros Hk Hn. destruct v; try apply PL_eq. unfold a_arr, W. exact (Wpl (JArr l) (MA "" false false false []) Hk Hn). Qed.

Lemma pipe_pl v : sib v -> nodup_keys v -> PLr v (pipe tb cs c A false v) (pipe tb cs c A true v).
Proof.
  intros Hk Hn. destruct v as [| | | | l |]; try apply PL_eq. unfold pipe, W.
  apply (stages_pl tb cs c is_email A (S (size (JArr l)))); auto.
  intros t kp s _ Hk' Hn'. exact (Wpl t (MP false kp s) Hk' Hn').
Qed.

Theorem cmd_member_pl ins k v : sib v -> nodup_keys v ->
  PLr v (cmd_member tb cs c A false ins k v) (cmd_member tb cs c A true ins k v).
Proof.
  intros Hk Hn. unfold cmd_member.
  destruct (key_in k _); [now apply q_obj_pl|].
  destruct (key_in k _); [unfold q_or_a; destruct v; try apply PL_eq; [now apply a_arr_pl | now apply q_obj_pl]|].
  destruct (key_in k _); [now apply a_arr_pl|].
  destruct (String.eqb k "documents"); [destruct ins; [now apply a_arr_pl | apply PL_eq]|].
  destruct (String.eqb k "pipeline"); [now apply pipe_pl | apply PL_eq].
Qed.

End RfnLine.

(* with the refinement relation of the ordinary run: in field-name mode, too, every such leaf is ONE verdict applied by
   the configured actions - for two action sets at once (placeholder mode and encryption mode) *)
Section RfnRel.
Variable tb : tables.
Variable cs : consts.
Variable c : cfg.
Variables A1 A2 : actions.
Hypothesis Hre : re c = None.

Theorem cmd_member_rfn_rel ins k v p leaf :
  nodup_keys v -> sib_ok A1 v -> sib_ok A2 v ->
  jget v p = Some leaf -> is_leaf leaf -> nd leaf -> clear tb v p = true ->
  exists d, okv cs c is_email leaf d /\
            jget (cmd_member tb cs c A1 true ins k v) p = Some (apply_verdict A1 d leaf) /\
            jget (cmd_member tb cs c A2 true ins k v) p = Some (apply_verdict A2 d leaf).
Proof.
  intros Hn H1 H2 Hg Hl Hd Hc.
  destruct (RelCorollaries.rel3_jget cs c is_email A1 A2 _ _ _ (cmd_member_rel tb cs c A1 A2 ins k v Hn) p leaf Hg Hl) as (d & Hok & Ha & Hb).
  exists d. split; [exact Hok|]. split.
  - rewrite <- (cmd_member_pl tb cs c A1 Hre ins k v H1 Hn p leaf Hg Hl Hd Hc). exact Ha.
  - rewrite <- (cmd_member_pl tb cs c A2 Hre ins k v H2 Hn p leaf Hg Hl Hd Hc). exact Hb.
Qed.

End RfnRel.
